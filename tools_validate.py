#!/usr/bin/env python3-vt
# validates MANIFEST.json and every evidence file against the harness schemas
import json, glob, sys, jsonschema
m=json.load(open('/verif/MANIFEST.json'))
jsonschema.validate(m, json.load(open('/root/.vp/MANIFEST.schema.json')))
props=[json.loads(l)['id'] for l in open('/verif/properties.jsonl')]
claimed=[c['property_id'] for c in m['checks']]
na=[n['property_id'] for n in m.get('not_applicable',[])]
assert sorted(claimed+na)==sorted(props), (sorted(claimed+na), props)
print("manifest ok: claimed", len(claimed), "n/a", len(na))
es=json.load(open('/root/.vp/EVIDENCE.schema.json'))
for f in sorted(glob.glob('/verif/evidence/*.json')):
    jsonschema.validate(json.load(open(f)), es)
print("evidence ok:", len(glob.glob('/verif/evidence/*.json')))
