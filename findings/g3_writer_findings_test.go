package unmarshal

// Demonstration for DESIGN.md §6 #5: series / tag index rows are dated in the process-local zone.
// Copy into writer/utils/unmarshal/ of a scratch worktree:
//   go test -vet=off ./writer/utils/unmarshal/ -run QvetFinding05
// Fails on the pinned tree, passes with the fix: commit.

import (
	"testing"
	"time"

	"github.com/ClickHouse/ch-go/proto"
	clconfig "github.com/metrico/cloki-config"
	"github.com/metrico/qryn/writer/config"
	"github.com/metrico/qryn/writer/model"
	"github.com/metrico/qryn/writer/utils/numbercache"
)

type qvetCache struct{}

func (qvetCache) CheckAndSet(uint64) bool                  { return false }
func (q qvetCache) DB(string) numbercache.ICache[uint64] { return q }

func TestQvetFinding05_SeriesDateIsUTCDay(t *testing.T) {
	old := time.Local
	time.Local = time.FixedZone("EST", -5*3600)
	defer func() { time.Local = old }()

	config.Cloki = clconfig.New(clconfig.CLOKI_WRITER, nil, "", "")

	ts := time.Date(2023, 11, 14, 22, 13, 20, 0, time.UTC) // a sample at 22:13Z on the 14th
	want := proto.ToDate(time.Date(2023, 11, 14, 0, 0, 0, 0, time.UTC))

	res := make(chan *model.ParserResponse, 4)
	p := &parserDoer{ctx: &ParserCtx{}, res: res}
	p.tsSpl = newTimeSeriesAndSamples(res, "")
	// a cache that never knows the (day, fingerprint) pair
	p.ctx.fpCache = qvetCache{}
	if err := p.onEntries([][]string{{"a", "b"}}, []int64{ts.UnixNano()}, []string{"x"}, []float64{0}, []uint8{1}); err != nil {
		t.Fatal(err)
	}
	if len(p.tsSpl.ts.MDate) != 1 {
		t.Fatalf("expected one series row, got %d", len(p.tsSpl.ts.MDate))
	}
	if got := proto.ToDate(p.tsSpl.ts.MDate[0]); got != want {
		t.Fatalf("series row for a sample at %s is stored under date %s, the reader searches %s", ts, got, want)
	}

	p.resetSpans()
	if err := p.onSpan(make([]byte, 16), make([]byte, 8), ts.Add(3*time.Hour).UnixNano(), 1, "", "n", "s", nil, []string{"k"}, []string{"v"}); err != nil {
		t.Fatal(err)
	}
	// 01:13Z on the 15th is 20:13 local on the 14th
	want15 := proto.ToDate(time.Date(2023, 11, 15, 0, 0, 0, 0, time.UTC))
	if got := proto.ToDate(p.attrs.MDate[0]); got != want15 {
		t.Fatalf("tag row for a span at %s is stored under date %s, the reader searches %s", ts.Add(3*time.Hour), got, want15)
	}
}
