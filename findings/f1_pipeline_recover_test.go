package internal_planner

// Demonstrations for findings #22 (recover in the pipeline goroutines is ineffective: it is called by a function
// that the deferred closure merely calls) and #23 (a zero range duration divides by zero outside any recover).
// Copy into reader/logql/logql_transpiler_v2/internal_planner/ of a scratch worktree:
//   go test -vet=off ./reader/logql/logql_transpiler_v2/internal_planner/ -run QvetFinding2
// On the pinned tree #22 kills the test process (panic in a goroutine), #23 fails.

import (
	"testing"
	"time"

	"github.com/metrico/qryn/reader/logql/logql_parser"
	"github.com/metrico/qryn/reader/logql/logql_transpiler_v2/shared"
)

type qvetSrc struct{ entries []shared.LogEntry }

func (q *qvetSrc) IsMatrix() bool { return false }
func (q *qvetSrc) Process(ctx *shared.PlannerContext, in chan []shared.LogEntry) (chan []shared.LogEntry, error) {
	c := make(chan []shared.LogEntry)
	go func() { defer close(c); c <- q.entries }()
	return c, nil
}

func TestQvetFinding22_PanicInPipelineStageBecomesAnErrorEntry(t *testing.T) {
	g := &GenericPlanner{Main: &qvetSrc{[]shared.LogEntry{{TimestampNS: 1}}}}
	out, err := g.WrapProcess(&shared.PlannerContext{}, nil, GenericPlannerOps{
		OnEntry:             func(*shared.LogEntry) error { var m map[string]int; m["x"] = 1; return nil }, // a stage that panics
		OnAfterEntriesSlice: func([]shared.LogEntry, chan []shared.LogEntry) error { return nil },
		OnAfterEntries:      func(chan []shared.LogEntry) error { return nil },
	})
	if err != nil {
		t.Fatal(err)
	}
	gotErr := false
	for es := range out {
		for _, e := range es {
			if e.Err != nil {
				gotErr = true
			}
		}
	}
	if !gotErr {
		t.Fatal("the panic was neither reported as an error entry nor … (the process should have died before this line)")
	}
}

func TestQvetFinding23_ZeroRangeIsAnErrorNotAPanic(t *testing.T) {
	script, err := logql_parser.Parse(`rate({a="b"} | json [0s])`)
	if err != nil {
		t.Skip("grammar rejects [0s]: ", err)
	}
	proc, err := Plan(script, &qvetSrc{})
	if err != nil {
		return // rejected at planning time: fine
	}
	defer func() {
		if r := recover(); r != nil {
			t.Fatalf("Process panics (%v); in the tail endpoint this runs in a goroutine without recover and ends the process", r)
		}
	}()
	_, err = proc.Process(&shared.PlannerContext{From: time.Unix(1700000000, 0), To: time.Unix(1700000060, 0)}, nil)
	if err == nil {
		t.Fatal("a zero range duration must be rejected")
	}
}
