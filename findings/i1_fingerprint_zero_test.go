package service

// Demonstration for DESIGN.md §6 #19: the streams encoder opens a new stream object when the fingerprint differs from the
// last one, starting from lastFp = 0 — a first series whose fingerprint is 0 gets no {"stream":…,"values":[ wrapper.
// Copy into reader/service/ of a scratch worktree:
//   go test -vet=off ./reader/service/ -run QvetFinding19

import (
	"encoding/json"
	"strings"
	"testing"

	"github.com/metrico/qryn/reader/logql/logql_transpiler_v2/shared"
	"github.com/metrico/qryn/reader/model"
)

func TestQvetFinding19_SeriesWithFingerprintZero(t *testing.T) {
	q := &QueryRangeService{}
	in := make(chan []shared.LogEntry, 1)
	in <- []shared.LogEntry{
		{TimestampNS: 1, Fingerprint: 0, Labels: map[string]string{"a": "b"}, Message: "l1"},
		{TimestampNS: 2, Fingerprint: 0, Labels: map[string]string{"a": "b"}, Message: "l2"},
	}
	close(in)
	out := make(chan model.QueryRangeOutput, 16)
	q.exportStreamsValue(in, out)
	var sb strings.Builder
	for o := range out {
		sb.WriteString(o.Str)
	}
	var doc struct {
		Data struct {
			Result []struct {
				Stream map[string]string
				Values [][]string
			}
		}
	}
	if err := json.Unmarshal([]byte(sb.String()), &doc); err != nil {
		t.Fatalf("body is not a document of the Loki shape: %v\n%s", err, sb.String())
	}
	if len(doc.Data.Result) != 1 || doc.Data.Result[0].Stream["a"] != "b" || len(doc.Data.Result[0].Values) != 2 {
		t.Fatalf("entries are not grouped under one stream object:\n%s", sb.String())
	}
}
