package unmarshal

// Demonstration for finding S2/datadog: the Datadog logs decoder resets every per-entry field except SourceType,
// so an entry without source_type is labelled with the source_type of the entry before it.
// Copy into writer/utils/unmarshal/ of a scratch worktree:
//   go test -vet=off ./writer/utils/unmarshal/ -run QvetFindingS2Datadog

import (
	"strings"
	"testing"
)

func TestQvetFindingS2Datadog_SourceTypeDoesNotLeak(t *testing.T) {
	body := `[{"message":"one","source_type":"kubernetes","service":"a"},{"message":"two","service":"b"}]`
	dec := &datadogRequestDec{ctx: &ParserCtx{bodyReader: strings.NewReader(body)}}
	var got [][][]string
	dec.SetOnEntries(func(labels [][]string, ts []int64, msg []string, val []float64, types []uint8) error {
		cp := make([][]string, len(labels))
		copy(cp, labels)
		got = append(got, cp)
		return nil
	})
	if err := dec.Decode(); err != nil {
		t.Fatal(err)
	}
	if len(got) != 2 {
		t.Fatalf("entries: %d", len(got))
	}
	for _, l := range got[1] {
		if l[0] == "source_type" {
			t.Fatalf("second entry has no source_type but is labelled %v (leaked from the first entry)", l)
		}
	}
}
