package clickhouse_transpiler

// Demonstration for finding #34 (C11 / D16). Copy into /repo/reader/traceql/transpiler/clickhouse_transpiler/ and run
//   go test -vet=off -count=1 -run TestQvetChain ./reader/traceql/transpiler/clickhouse_transpiler/
// It fails before the fix ("fix: TraceQL chain planner ...") and passes after it: every selector of a chain
// `{A} && {B} && {C}` / `{A} || {B} && {C}` must reach the generated statement.

import (
	"strings"
	"testing"
	"time"

	"github.com/metrico/qryn/reader/logql/logql_transpiler_v2/shared"
	traceql_parser "github.com/metrico/qryn/reader/traceql/parser"
	sql "github.com/metrico/qryn/reader/utils/sql_select"
)

func qvetRender(t *testing.T, q string) string {
	script, err := traceql_parser.Parse(q)
	if err != nil {
		t.Fatal(err)
	}
	plan, err := Plan(script)
	if err != nil {
		t.Fatal(err)
	}
	req, err := plan.Process(&shared.PlannerContext{
		From:                 time.Unix(1700000000, 0),
		To:                   time.Unix(1700003600, 0),
		Limit:                3,
		TracesAttrsTable:     "tempo_traces_attrs_gin",
		TracesAttrsDistTable: "tempo_traces_attrs_gin_dist",
		TracesTable:          "tempo_traces",
		TracesDistTable:      "tempo_traces_dist",
		VersionInfo:          map[string]int64{},
	})
	if err != nil {
		t.Fatal(err)
	}
	res, err := req.String(&sql.Ctx{Params: map[string]sql.SQLObject{}, Result: map[string]sql.SQLObject{}})
	if err != nil {
		t.Fatal(err)
	}
	return res
}

func TestQvetChainKeepsEverySelector(t *testing.T) {
	for _, q := range []string{
		`{.a="va"} && {.b="vb"} && {.c="vc"}`,
		`{.a="va"} || {.b="vb"} && {.c="vc"}`,
		`{.a="va"} && {.b="vb"} && {.c="vc"} && {.d="vd"}`,
		`{.a="va"} && {.b="vb"} || {.c="vc"}`,
		`{.a="va"} || {.b="vb"} || {.c="vc"}`,
	} {
		res := qvetRender(t, q)
		for _, v := range []string{"'va'", "'vb'", "'vc'", "'vd'"} {
			if strings.Contains(q, strings.Trim(v, "'")) && !strings.Contains(res, v) {
				t.Errorf("%s: the statement does not mention %s — the selector was dropped\n%s", q, v, res)
			}
		}
	}
}
