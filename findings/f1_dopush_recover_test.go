package controllerv1

// Demonstration for DESIGN.md §6 #3 (second half): a panic inside an insert service's request processor runs in the
// goroutine started by doPush, which has no recover: the process exits instead of answering the request.
// Copy into writer/controller/ of a scratch worktree:
//   go test -vet=off ./writer/controller/ -run QvetFinding03

import (
	"testing"
	"time"

	clconfig "github.com/metrico/cloki-config"
	"github.com/metrico/qryn/writer/config"
	"github.com/metrico/qryn/writer/service"
	"github.com/metrico/qryn/writer/utils/helpers"
	"github.com/metrico/qryn/writer/utils/promise"
)

type qvetPanickingSvc struct{ service.IInsertServiceV2 }

func (qvetPanickingSvc) Request(req helpers.SizeGetter, insertMode int) *promise.Promise[uint32] {
	panic("invalid size")
}

type qvetReq struct{}

func (qvetReq) GetSize() int64 { return 1 }

func TestQvetFinding03_PanicInRequestProcessorIsAnErrorNotAnExit(t *testing.T) {
	config.Cloki = clconfig.New(clconfig.CLOKI_WRITER, nil, "", "")
	config.Cloki.Setting.SYSTEM_SETTINGS.RetryAttempts = 1
	p := doPush(qvetReq{}, service.INSERT_MODE_SYNC, qvetPanickingSvc{})
	done := make(chan error, 1)
	go func() { _, err := p.Get(); done <- err }()
	select {
	case err := <-done:
		if err == nil {
			t.Fatal("a panicking insert must not be acknowledged")
		}
	case <-time.After(5 * time.Second):
		t.Fatal("request never answered")
	}
}
