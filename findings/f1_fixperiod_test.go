package logql_transpiler_v2

// Demonstration for DESIGN.md §6 #14: query_range of a metric query with step=0 (or < 1ms) divides by zero in the
// FixPeriodPlanner goroutine, which has no recover: the process exits.
// Copy into reader/logql/logql_transpiler_v2/ of a scratch worktree:
//   go test -vet=off ./reader/logql/logql_transpiler_v2/ -run QvetFinding14

import (
	"testing"
	"time"

	"github.com/metrico/qryn/reader/logql/logql_transpiler_v2/shared"
)

type qvetMatrixSrc struct{}

func (qvetMatrixSrc) IsMatrix() bool { return true }
func (qvetMatrixSrc) Process(ctx *shared.PlannerContext, in chan []shared.LogEntry) (chan []shared.LogEntry, error) {
	c := make(chan []shared.LogEntry)
	go func() {
		defer close(c)
		c <- []shared.LogEntry{{TimestampNS: 1700000001000000000, Fingerprint: 7, Value: 1}}
	}()
	return c, nil
}

func TestQvetFinding14_ZeroStepDoesNotKillTheProcess(t *testing.T) {
	p := &FixPeriodPlanner{Main: qvetMatrixSrc{}, Duration: time.Minute}
	out, err := p.Process(&shared.PlannerContext{From: time.Unix(1700000000, 0), To: time.Unix(1700000060, 0), Step: 0}, nil)
	if err != nil {
		return // rejected: fine
	}
	sawErr := false
	for es := range out {
		for _, e := range es {
			if e.Err != nil {
				sawErr = true
			}
		}
	}
	if !sawErr {
		t.Fatal("step=0 produced neither an error nor … (the process should have died before this line)")
	}
}
