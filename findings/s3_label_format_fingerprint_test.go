package internal_planner

import (
	"context"
	"io"
	"testing"
	"time"

	"github.com/metrico/qryn/reader/logql/logql_parser"
	"github.com/metrico/qryn/reader/logql/logql_transpiler_v2/shared"
)

type s3Upstream struct{ batches [][]shared.LogEntry }

func (u *s3Upstream) IsMatrix() bool { return false }
func (u *s3Upstream) Process(ctx *shared.PlannerContext, in chan []shared.LogEntry) (chan []shared.LogEntry, error) {
	out := make(chan []shared.LogEntry)
	go func() {
		defer close(out)
		for _, b := range u.batches {
			cp := make([]shared.LogEntry, len(b))
			for i, e := range b {
				cp[i] = e
				cp[i].Labels = map[string]string{}
				for k, v := range e.Labels {
					cp[i].Labels[k] = v
				}
			}
			out <- cp
		}
		out <- []shared.LogEntry{{Err: io.EOF}}
	}()
	return out, nil
}

// Two stored streams that differ only in `env`; label_format overwrites env with a constant, so after the stage both carry the
// label set {app="shop", env="z"} and are one series: count_over_time must report one sample with value 2.
func TestS3LabelFormatMergedLabelSetsAreOneSeries(t *testing.T) {
	from := time.Unix(1700000000, 0)
	to := from.Add(time.Minute)
	mk := func(fp uint64, env string, offs time.Duration) shared.LogEntry {
		return shared.LogEntry{TimestampNS: from.Add(offs).UnixNano(), Fingerprint: fp,
			Labels: map[string]string{"app": "shop", "env": env}, Message: `{"x":"1"}`}
	}
	batches := [][]shared.LogEntry{{mk(1, "a", time.Second), mk(2, "b", 2*time.Second)}}
	script, err := logql_parser.Parse(`count_over_time({app="shop"} | json | label_format env=app [1m])`)
	if err != nil {
		t.Fatal(err)
	}
	proc, err := Plan(script, &s3Upstream{batches: batches})
	if err != nil {
		t.Fatal(err)
	}
	cctx, cancel := context.WithCancel(context.Background())
	defer cancel()
	out, err := proc.Process(&shared.PlannerContext{From: from, To: to, Ctx: cctx, CancelCtx: cancel}, nil)
	if err != nil {
		t.Fatal(err)
	}
	type key struct{ app, env, x string }
	got := map[key][]float64{}
	for b := range out {
		for _, e := range b {
			if e.Err != nil {
				continue
			}
			got[key{e.Labels["app"], e.Labels["env"], e.Labels["x"]}] = append(got[key{e.Labels["app"], e.Labels["env"], e.Labels["x"]}], e.Value)
		}
	}
	vals := got[key{"shop", "shop", "1"}]
	if len(got) != 1 || len(vals) != 1 || vals[0] != 2 {
		t.Fatalf("want one series {app=shop,env=shop,x=1} with count 2, got %v", got)
	}
}
