package transpiler

// Demonstrations for DESIGN.md §6 #16 (margin formatter as upper bound) and #17 (non-UTC date bounds).
// Copy into reader/prof/transpiler/ of a scratch worktree:
//   go test ./reader/prof/transpiler/ -run QvetFinding
// Fails on the pinned tree, passes with the fix: commits.

import (
	"strings"
	"testing"
	"time"

	"github.com/metrico/qryn/reader/logql/logql_transpiler_v2/clickhouse_planner"
	"github.com/metrico/qryn/reader/logql/logql_transpiler_v2/shared"
	sql "github.com/metrico/qryn/reader/utils/sql_select"
)

func qvetRender(t *testing.T, p shared.SQLRequestPlanner, ctx *shared.PlannerContext) string {
	sel, err := p.Process(ctx)
	if err != nil {
		t.Fatal(err)
	}
	s, err := sel.String(&sql.Ctx{Params: map[string]sql.SQLObject{}, Result: map[string]sql.SQLObject{}})
	if err != nil {
		t.Fatal(err)
	}
	return s
}

// window 2023-11-14T23:50Z .. 2023-11-15T00:10Z: profile series first seen at 00:05Z are dated 2023-11-15
func TestQvetFinding16_UpperDateBoundCoversWindowEnd(t *testing.T) {
	ctx := &shared.PlannerContext{
		From: time.Date(2023, 11, 14, 23, 50, 0, 0, time.UTC), To: time.Date(2023, 11, 15, 0, 10, 0, 0, time.UTC),
		ProfilesSeriesGinTable: "profiles_series_gin", ProfilesSeriesTable: "profiles_series",
	}
	s := qvetRender(t, &AllTimeSeriesSelectPlanner{}, ctx)
	if !strings.Contains(s, "'2023-11-15'") {
		t.Fatalf("upper date bound excludes the day of the window end:\n%s", s)
	}
}

// reader running west of UTC: window 2023-11-15T01:00Z..02:00Z is 20:00..21:00 local on the 14th
func TestQvetFinding17_DateBoundsAreUTC(t *testing.T) {
	old := time.Local
	time.Local = time.FixedZone("EST", -5*3600)
	defer func() { time.Local = old }()
	ctx := &shared.PlannerContext{
		From: time.Unix(1700010000, 0), To: time.Unix(1700013600, 0), // 2023-11-15T01:00:00Z .. 02:00:00Z
		TimeSeriesGinTableName: "time_series_gin", TimeSeriesTableName: "time_series",
	}
	s := qvetRender(t, &clickhouse_planner.ValuesPlanner{Key: "a"}, ctx)
	if !strings.Contains(s, "<= ('2023-11-15')") {
		t.Fatalf("label values: upper date bound is the local day (2023-11-14), index rows dated 2023-11-15 (UTC) are missed:\n%s", s)
	}
}
