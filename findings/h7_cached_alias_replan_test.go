package clickhouse_planner

// Demonstration for finding #32 (C14 / H7): the label-filter stage of the cached fingerprint selection numbered its sub-select
// from the per-execution counter; the second execution of the same plan (live tail) rendered two WITH entries named subsel_1.
// Copy into reader/logql/logql_transpiler_v2/clickhouse_planner/ of a scratch worktree:
//   go test -vet=off ./reader/logql/logql_transpiler_v2/clickhouse_planner/ -run TestH7

import (
	"regexp"
	"testing"
	"time"

	"github.com/metrico/qryn/reader/logql/logql_parser"
	"github.com/metrico/qryn/reader/logql/logql_transpiler_v2/shared"
	sql "github.com/metrico/qryn/reader/utils/sql_select"
)

func TestH7CachedFingerprintSelectKeepsItsAliases(t *testing.T) {
	withName := regexp.MustCompile(`(?:WITH |\),)([A-Za-z_0-9]+) as \(`)
	for _, q := range []string{
		"{a=\"b\"} | c=\"d\" | regexp \"(?P<e>[a-z]+)\" | e=\"f\"",
		"{a=\"b\"} | c=\"d\" | json x=\"y\" | x=\"f\"",
	} {
		script, err := logql_parser.Parse(q)
		if err != nil {
			t.Fatal(err)
		}
		plan, err := Plan(script, true)
		if err != nil {
			t.Fatal(err)
		}
		for run := 1; run <= 3; run++ {
			ctx := &shared.PlannerContext{From: time.Unix(1700000000, 0), To: time.Unix(1700000060, 0), Limit: 10,
				SamplesTableName: "samples_v3", TimeSeriesTableName: "time_series", TimeSeriesGinTableName: "time_series_gin", TimeSeriesDistTableName: "time_series_dist"}
			sel, err := plan.Process(ctx)
			if err != nil {
				t.Fatal(err)
			}
			s, err := sel.String(&sql.Ctx{Params: map[string]sql.SQLObject{}, Result: map[string]sql.SQLObject{}})
			if err != nil {
				t.Fatal(err)
			}
			seen := map[string]bool{}
			for _, m := range withName.FindAllStringSubmatch(s, -1) {
				if seen[m[1]] {
					t.Errorf("%s, execution %d: two WITH entries are named %s:\n%s", q, run, m[1], s)
				}
				seen[m[1]] = true
			}
		}
	}
}
