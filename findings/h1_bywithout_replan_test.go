package clickhouse_planner

// Demonstration for finding #25: ByWithoutPlanner.processTSTable derives its labels sub-select from the shared labels cache and
// then overwrites that cache with its own result. On the second execution of the same plan the cache still holds the
// first execution's result, and the planner renders `labels_1 as (SELECT … FROM labels_1 as a)` — a self-referencing CTE.
// Copy into reader/logql/logql_transpiler_v2/clickhouse_planner/ of a scratch worktree:
//   go test -vet=off ./reader/logql/logql_transpiler_v2/clickhouse_planner/ -run QvetFinding25

import (
	"testing"
	"time"

	"github.com/metrico/qryn/reader/logql/logql_parser"
	"github.com/metrico/qryn/reader/logql/logql_transpiler_v2/shared"
	sql "github.com/metrico/qryn/reader/utils/sql_select"
)

func TestQvetFinding25_ByWithoutPlanCanBeReExecuted(t *testing.T) {
	script, err := logql_parser.Parse(`sum by (a) (rate({a="b"}[5s]))`)
	if err != nil {
		t.Fatal(err)
	}
	plan, err := Plan(script, true)
	if err != nil {
		t.Fatal(err)
	}
	render := func() string {
		ctx := &shared.PlannerContext{From: time.Unix(1700000000, 0), To: time.Unix(1700000060, 0), Limit: 10, Step: time.Second,
			SamplesTableName: "samples_v3", TimeSeriesTableName: "time_series", TimeSeriesGinTableName: "time_series_gin", TimeSeriesDistTableName: "time_series_dist"}
		sel, err := plan.Process(ctx)
		if err != nil {
			t.Fatal(err)
		}
		s, err := sel.String(&sql.Ctx{Params: map[string]sql.SQLObject{}, Result: map[string]sql.SQLObject{}})
		if err != nil {
			t.Fatal(err)
		}
		return s
	}
	first, second := render(), render()
	if first != second {
		t.Fatalf("re-executing the plan changes the statement:\n1st: %s\n2nd: %s", first, second)
	}
}
