package clickhouse_planner

// Demonstration for finding E4/doLike: the LIKE pattern of a `|=` line filter does not decode to the filter text.
// (a) strings.Trim(escaped, "'") also strips the value's own (escaped) trailing quote and leaves a dangling backslash,
//     which then escapes the trailing % of the pattern: |= "it's'" looks for  it's%  instead of  it's' ;
// (b) % and _ were escaped after the SQL escaping and the backslash itself never for LIKE:  |= "a\\%"  (a, backslash, percent)
//     produced the pattern  a\\%  = "a", literal backslash, wildcard.
// Copy into reader/logql/logql_transpiler_v2/clickhouse_planner/ of a scratch worktree:
//   go test -vet=off ./reader/logql/logql_transpiler_v2/clickhouse_planner/ -run QvetFindingE4

import (
	"strings"
	"testing"
)

// decodeCHLiteral decodes the body of a ClickHouse single-quoted literal (backslash escapes; unknown escapes keep the backslash).
func qvetDecodeCHLiteral(s string) string {
	var b strings.Builder
	for i := 0; i < len(s); i++ {
		if s[i] != '\\' || i+1 >= len(s) {
			b.WriteByte(s[i])
			continue
		}
		i++
		switch s[i] {
		case '\\', '\'':
			b.WriteByte(s[i])
		case 'n':
			b.WriteByte('\n')
		case 't':
			b.WriteByte('\t')
		case '0':
			b.WriteByte(0)
		default:
			b.WriteByte('\\')
			b.WriteByte(s[i])
		}
	}
	return b.String()
}

// likeLiteral decodes a LIKE pattern into the literal text it matches, failing on unescaped wildcards other than the enclosing %.
func qvetLikeText(t *testing.T, pat string) string {
	if !strings.HasPrefix(pat, "%") || !strings.HasSuffix(pat, "%") || len(pat) < 2 {
		t.Fatalf("pattern %q is not %%…%%", pat)
	}
	pat = pat[1 : len(pat)-1]
	var b strings.Builder
	for i := 0; i < len(pat); i++ {
		switch pat[i] {
		case '\\':
			if i+1 >= len(pat) {
				t.Fatalf("pattern body %q ends in a dangling backslash (it escapes the closing %%)", pat)
			}
			i++
			b.WriteByte(pat[i])
		case '%', '_':
			t.Fatalf("pattern body %q contains an unescaped wildcard", pat)
		default:
			b.WriteByte(pat[i])
		}
	}
	return b.String()
}

func TestQvetFindingE4_LikePatternDecodesToFilterText(t *testing.T) {
	for _, val := range []string{`plain`, `it's`, `it's'`, `'`, `100%`, `a_b`, `a\%`, `back\slash`, `q\'`} {
		l := &LineFilterPlanner{}
		cond, err := l.doLike("like", val)
		if err != nil {
			t.Fatal(err)
		}
		s, err := cond.String(nil)
		if err != nil {
			t.Fatal(err)
		}
		// (like(samples.string, '<lit>')) == (1)
		i := strings.Index(s, "'")
		j := strings.LastIndex(s, "'")
		if i < 0 || j <= i {
			t.Fatalf("%q: no literal in %s", val, s)
		}
		got := qvetLikeText(t, qvetDecodeCHLiteral(s[i+1:j]))
		if got != val {
			t.Errorf("|= %q searches for %q   (sql: %s)", val, got, s)
		}
	}
}
