package unmarshal

// Demonstration for DESIGN.md §6 #2: the in-loop flush of the Prometheus remote-write decoder sizes the
// type column by the series length instead of the number of buffered samples.
// Copy into writer/utils/unmarshal/ of a scratch worktree:
//   go test -vet=off ./writer/utils/unmarshal/ -run QvetFinding02

import (
	"context"
	"testing"

	clconfig "github.com/metrico/cloki-config"
	"github.com/metrico/qryn/writer/config"
	"github.com/metrico/qryn/writer/model"
	"github.com/metrico/qryn/writer/utils/numbercache"
	"github.com/metrico/qryn/writer/utils/proto/prompb"
)

type qvetCache2 struct{}

func (qvetCache2) CheckAndSet(uint64) bool                 { return false }
func (q qvetCache2) DB(string) numbercache.ICache[uint64] { return q }

func TestQvetFinding02_RemoteWriteChunksAreRectangular(t *testing.T) {
	config.Cloki = clconfig.New(clconfig.CLOKI_WRITER, nil, "", "")
	mk := func(name string, n int) *prompb.TimeSeries {
		ts := &prompb.TimeSeries{Labels: []*prompb.Label{{Name: "__name__", Value: name}}}
		for i := 0; i < n; i++ {
			ts.Samples = append(ts.Samples, &prompb.Sample{Timestamp: int64(1700000000000 + i), Value: float64(i)})
		}
		return ts
	}
	req := &prompb.WriteRequest{Timeseries: []*prompb.TimeSeries{mk("a", 999), mk("b", 5)}}
	dec := &promMetricsProtoDec{ctx: &ParserCtx{bodyObject: req, ctx: context.Background(), fpCache: qvetCache2{}}}
	res := make(chan *model.ParserResponse, 16)
	p := &parserDoer{ctx: dec.ctx, res: res}
	p.tsSpl = newTimeSeriesAndSamples(res, "")
	dec.SetOnEntries(p.onEntries)
	if err := dec.Decode(); err != nil {
		t.Fatal(err)
	}
	spl := p.tsSpl.spl
	if len(spl.MTimestampNS) != 1004 {
		t.Fatalf("decoded %d samples, want 1004", len(spl.MTimestampNS))
	}
	if len(spl.MType) != len(spl.MTimestampNS) || len(spl.MValue) != len(spl.MTimestampNS) || len(spl.MFingerprint) != len(spl.MTimestampNS) {
		t.Fatalf("chunk is not rectangular: timestamps=%d fingerprints=%d values=%d types=%d", len(spl.MTimestampNS), len(spl.MFingerprint), len(spl.MValue), len(spl.MType))
	}
}
