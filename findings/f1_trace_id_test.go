package controllerv1

// Demonstration for DESIGN.md §6 #15: GET /api/traces/<more than 64 hex digits> overflows the fixed 32-byte
// decode buffer; the handler has no recover, so the client gets a dropped connection instead of a response.
// Copy into reader/controller/ of a scratch worktree:
//   go test -vet=off ./reader/controller/ -run QvetFinding15

import (
	"context"
	"fmt"
	"net/http/httptest"
	"strings"
	"testing"

	"github.com/gorilla/mux"
	"github.com/metrico/qryn/reader/model"
)

type qvetTempo struct{ model.ITempoService }

func (qvetTempo) Query(ctx context.Context, startNS int64, endNS int64, traceId []byte, binIds bool) (chan *model.SpanResponse, error) {
	return nil, fmt.Errorf("no database in this test")
}

func TestQvetFinding15_LongTraceIdGetsAResponse(t *testing.T) {
	ctrl := &TempoController{Service: qvetTempo{}}
	r := mux.NewRouter()
	r.HandleFunc("/api/traces/{traceId}", ctrl.Trace)
	req := httptest.NewRequest("GET", "/api/traces/"+strings.Repeat("ab", 35), nil)
	rec := httptest.NewRecorder()
	defer func() {
		if p := recover(); p != nil {
			t.Fatalf("handler panicked (%v): net/http would drop the connection without a response", p)
		}
	}()
	r.ServeHTTP(rec, req)
	if rec.Code < 400 {
		t.Fatalf("status %d", rec.Code)
	}
}
