package model

// Demonstration for finding #33 (C17 / D15). Copy into /repo/reader/model/ and run
//   go test -vet=off -count=1 -run TestQvetSeek ./reader/model/
// It fails before the fix ("fix: series cursor Seek ...") and passes after it.

import "testing"

// firstAtOrAfter is the contract of chunkenc.Iterator.Seek: the first sample whose timestamp is >= t, or the end.
func firstAtOrAfter(samples []Sample, t int64) int {
	for i, s := range samples {
		if s.TimestampMs >= t {
			return i
		}
	}
	return len(samples)
}

func TestQvetSeekLandsOnFirstSampleAtOrAfter(t *testing.T) {
	for n := 1; n <= 9; n++ {
		samples := make([]Sample, n)
		for i := range samples {
			samples[i] = Sample{TimestampMs: int64(10 * (i + 1)), Value: float64(i)}
		}
		for ts := int64(0); ts <= int64(10*n+15); ts++ {
			it := (&Series{Samples: samples}).Iterator()
			ok := it.Seek(ts)
			want := firstAtOrAfter(samples, ts)
			if want == n {
				if ok {
					got, _ := it.At()
					t.Errorf("n=%d Seek(%d): every sample is before t, want the end, landed on %d", n, ts, got)
				}
				continue
			}
			if !ok {
				t.Errorf("n=%d Seek(%d): reported the end, want sample %d", n, ts, samples[want].TimestampMs)
				continue
			}
			if got, _ := it.At(); got != samples[want].TimestampMs {
				t.Errorf("n=%d Seek(%d): landed on %d, want %d", n, ts, got, samples[want].TimestampMs)
			}
		}
	}
}
