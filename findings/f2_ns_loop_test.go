package unmarshal

// Demonstration for DESIGN.md §6 #4: POST /ingest?from=0&until=0&name=x spins a goroutine forever in ns().
// Copy into writer/utils/unmarshal/ of a scratch worktree:
//   go test -vet=off ./writer/utils/unmarshal/ -run QvetFinding04

import (
	"testing"
	"time"
)

func TestQvetFinding04_NsTerminatesOnZero(t *testing.T) {
	done := make(chan uint64, 1)
	go func() { done <- ns(0) }()
	select {
	case <-done:
	case <-time.After(2 * time.Second):
		t.Fatal("ns(0) does not terminate: `for t < 1e18 { t *= 10 }` with t == 0")
	}
}
