package unmarshal

// Demonstration for the known finding C04/A10 (DESIGN.md §6 #7): the announce cache is marked while parsing;
// if the series INSERT of that request then fails, the client's retry no longer carries the series row.
// Copy into writer/utils/unmarshal/ of a scratch worktree:
//   go test -vet=off ./writer/utils/unmarshal/ -run QvetKnownFinding07
// This test FAILS on the current tree by design (recorded in known_findings.json, not patched).

import (
	"encoding/binary"
	"testing"
	"time"

	clconfig "github.com/metrico/cloki-config"
	"github.com/metrico/qryn/writer/config"
	"github.com/metrico/qryn/writer/model"
	"github.com/metrico/qryn/writer/utils/numbercache"
)

func TestQvetKnownFinding07_RetryAfterFailedSeriesInsertStillCarriesTheSeries(t *testing.T) {
	config.Cloki = clconfig.New(clconfig.CLOKI_WRITER, nil, "", "")
	cache := numbercache.NewCache[uint64](time.Hour, func(v uint64) []byte {
		b := make([]byte, 8)
		binary.LittleEndian.PutUint64(b, v)
		return b
	}, map[string]*model.DataDatabasesMap{"n": {}})
	push := func() int {
		res := make(chan *model.ParserResponse, 4)
		p := &parserDoer{ctx: &ParserCtx{fpCache: cache.DB("n")}, res: res}
		p.tsSpl = newTimeSeriesAndSamples(res, "")
		if err := p.onEntries([][]string{{"a", "b"}}, []int64{1700000000000000000}, []string{"x"}, []float64{0}, []uint8{1}); err != nil {
			t.Fatal(err)
		}
		return len(p.tsSpl.ts.MFingerprint)
	}
	if n := push(); n != 1 {
		t.Fatalf("first request carries %d series rows, want 1", n)
	}
	// … the series INSERT of request 1 fails after all retries, the client gets 500 and sends the same body again …
	if n := push(); n != 1 {
		t.Fatalf("the retry carries %d series rows: its samples will be acknowledged without any index row for the series", n)
	}
}
