package maintenance

// Demonstration for DESIGN.md §6 #21: a migration statement that cannot be re-run wedges initialisation
// after a crash between the statement and its version row.
// Copy into ctrl/qryn/maintenance/ of a scratch worktree:
//   go test -vet=off ./ctrl/qryn/maintenance/ -run QvetFinding21
// The fake connection models only what the history needs: existence of tables/views and columns, with the
// ClickHouse rule that RENAME of a missing table / ADD COLUMN of an existing column fails unless guarded.

import (
	"context"
	"fmt"
	"regexp"
	"strings"
	"testing"

	"github.com/ClickHouse/clickhouse-go/v2"
	"github.com/ClickHouse/clickhouse-go/v2/lib/driver"
	"github.com/metrico/qryn/ctrl/qryn/sql"
)

type qvetLogger struct{}

func (qvetLogger) Info(...any)  {}
func (qvetLogger) Debug(...any) {}
func (qvetLogger) Error(...any) {}

type qvetRows struct {
	driver.Rows
	vals []uint64
	i    int
}

func (r *qvetRows) Next() bool { r.i++; return r.i <= len(r.vals) }
func (r *qvetRows) Scan(dest ...any) error {
	*(dest[0].(*uint64)) = r.vals[r.i-1]
	return nil
}
func (r *qvetRows) Close() error { return nil }

type qvetConn struct {
	clickhouse.Conn
	tables   map[string]bool
	columns  map[string]bool
	ver      map[int64]uint64
	failNext string // fail the next statement whose text has this prefix (simulated crash / fault)
	log      []string
}

var (
	qRename = regexp.MustCompile(`(?is)^RENAME TABLE (IF EXISTS )?(?:\S+\.)?(\w+) TO (\w+)`)
	qCreate = regexp.MustCompile(`(?is)^CREATE (?:TABLE|VIEW|MATERIALIZED VIEW) (IF NOT EXISTS )?(?:\S+\.)?(\w+)`)
	qDrop   = regexp.MustCompile(`(?is)^DROP (?:TABLE|VIEW) (IF EXISTS )?(?:\S+\.)?(\w+)`)
	qAlter  = regexp.MustCompile(`(?is)^ALTER TABLE (?:\S+\.)?(\w+)`)
	qAddCol = regexp.MustCompile("(?is)ADD COLUMN (IF NOT EXISTS )?`?(\\w+)`?")
)

func (c *qvetConn) Exec(ctx context.Context, q string, args ...any) error {
	q = strings.TrimSpace(q)
	if c.failNext != "" && strings.HasPrefix(q, c.failNext) {
		c.failNext = ""
		return fmt.Errorf("simulated crash at: %.40s", q)
	}
	switch {
	case strings.HasPrefix(q, "INSERT INTO ver"):
		c.ver[args[0].(int64)] = args[1].(uint64)
	case qRename.MatchString(q):
		m := qRename.FindStringSubmatch(q)
		if !c.tables[m[2]] {
			if m[1] == "" {
				return fmt.Errorf("Code: 60. Table %s doesn't exist", m[2])
			}
			return nil
		}
		delete(c.tables, m[2])
		c.tables[m[3]] = true
	case qCreate.MatchString(q):
		m := qCreate.FindStringSubmatch(q)
		if c.tables[m[2]] && m[1] == "" {
			return fmt.Errorf("Code: 57. Table %s already exists", m[2])
		}
		c.tables[m[2]] = true
	case qDrop.MatchString(q):
		m := qDrop.FindStringSubmatch(q)
		if !c.tables[m[2]] && m[1] == "" {
			return fmt.Errorf("Code: 60. Table %s doesn't exist", m[2])
		}
		delete(c.tables, m[2])
	case qAlter.MatchString(q):
		t := qAlter.FindStringSubmatch(q)[1]
		for _, m := range qAddCol.FindAllStringSubmatch(q, -1) {
			if c.columns[t+"."+m[2]] && m[1] == "" {
				return fmt.Errorf("Code: 15. Cannot add column %s: column with this name already exists", m[2])
			}
			c.columns[t+"."+m[2]] = true
		}
	}
	c.log = append(c.log, q)
	return nil
}

func (c *qvetConn) Query(ctx context.Context, q string, args ...any) (driver.Rows, error) {
	return &qvetRows{vals: []uint64{c.ver[args[0].(int64)]}}, nil
}

func qvetRun(c *qvetConn) error {
	return updateScripts(c, "db", "", 1, sql.LogScript, false, 7, "", "", false, qvetLogger{})
}

func TestQvetFinding21_CrashAfterRenameBeforeVersion(t *testing.T) {
	for _, crashAfter := range []string{"RENAME TABLE", "ALTER TABLE time_series\n"} {
		c := &qvetConn{tables: map[string]bool{}, columns: map[string]bool{}, ver: map[int64]uint64{}}
		// run 1: dies at the version write that follows the first statement starting with crashAfter
		var target uint64
		stmts, _ := getSQLFile(sql.LogScript)
		for i, s := range stmts {
			if strings.HasPrefix(s, crashAfter) {
				target = uint64(i + 1)
				break
			}
		}
		if target == 0 {
			t.Fatalf("no statement starts with %q", crashAfter)
		}
		inner := c
		w := &qvetCrashAtVersion{qvetConn: inner, at: target}
		if err := updateScripts(w, "db", "", 1, sql.LogScript, false, 7, "", "", false, qvetLogger{}); err == nil {
			t.Fatal("expected the simulated crash")
		}
		if c.ver[1] != target-1 {
			t.Fatalf("version after crash = %d, want %d", c.ver[1], target-1)
		}
		// run 2: plain restart, no faults
		if err := qvetRun(c); err != nil {
			t.Fatalf("restart after a crash between statement %d (%s…) and its version row never completes: %v", target, crashAfter, err)
		}
		if c.ver[1] != uint64(len(stmts)) {
			t.Fatalf("restart ended at version %d, want %d", c.ver[1], len(stmts))
		}
	}
}

// qvetCrashAtVersion fails the INSERT INTO ver that would record version `at`.
type qvetCrashAtVersion struct {
	*qvetConn
	at uint64
}

func (w *qvetCrashAtVersion) Exec(ctx context.Context, q string, args ...any) error {
	if strings.HasPrefix(q, "INSERT INTO ver") && args[1].(uint64) == w.at {
		return fmt.Errorf("simulated crash before version %d was recorded", w.at)
	}
	return w.qvetConn.Exec(ctx, q, args...)
}
