package internal_planner

import (
	"context"
	"io"
	"testing"
	"time"

	"github.com/metrico/qryn/reader/logql/logql_parser"
	"github.com/metrico/qryn/reader/logql/logql_transpiler_v2/shared"
)

type s4Upstream struct{ batches [][]shared.LogEntry }

func (u *s4Upstream) IsMatrix() bool { return false }
func (u *s4Upstream) Process(ctx *shared.PlannerContext, in chan []shared.LogEntry) (chan []shared.LogEntry, error) {
	out := make(chan []shared.LogEntry)
	go func() {
		defer close(out)
		for _, b := range u.batches {
			out <- b
		}
		// the ClickHouse getter ends every result with a marker entry that has no labels
		out <- []shared.LogEntry{{Err: io.EOF}}
	}()
	return out, nil
}

// `| label_format env="z"` stores a constant into the label map of every entry it sees, including the end-of-stream marker whose
// map is nil: the store panics, the stage's recover turns the panic into an error entry and a query that delivered all its rows
// ends with an error.
func TestS4LabelFormatConstantSurvivesTheEndMarker(t *testing.T) {
	from := time.Unix(1700000000, 0)
	entry := shared.LogEntry{TimestampNS: from.Add(time.Second).UnixNano(), Fingerprint: 1,
		Labels: map[string]string{"app": "shop"}, Message: "hello"}
	script, err := logql_parser.Parse(`{app="shop"} | label_format env="z"`)
	if err != nil {
		t.Fatal(err)
	}
	proc, err := Plan(script, &s4Upstream{batches: [][]shared.LogEntry{{entry}}})
	if err != nil {
		t.Fatal(err)
	}
	cctx, cancel := context.WithCancel(context.Background())
	defer cancel()
	out, err := proc.Process(&shared.PlannerContext{From: from, To: from.Add(time.Minute), Ctx: cctx, CancelCtx: cancel}, nil)
	if err != nil {
		t.Fatal(err)
	}
	rows := 0
	for b := range out {
		for _, e := range b {
			if e.Err != nil && e.Err != io.EOF {
				t.Fatalf("the query ends with an error although every row was processed: %v", e.Err)
			}
			if e.Err == nil {
				rows++
				if e.Labels["env"] != "z" {
					t.Fatalf("label_format not applied: %v", e.Labels)
				}
			}
		}
	}
	if rows != 1 {
		t.Fatalf("want 1 row, got %d", rows)
	}
}
