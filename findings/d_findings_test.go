package logql_transpiler_v2

// Demonstrations for the dispatch findings (DESIGN.md §6 #8–#13).  Copy into
// reader/logql/logql_transpiler_v2/ of a scratch worktree and run
//   go test ./reader/logql/logql_transpiler_v2/ -run QvetFinding
// Each test fails on the pinned tree and passes with the corresponding fix: commit.

import (
	"strings"
	"testing"
	"time"

	"github.com/metrico/qryn/reader/logql/logql_parser"
	"github.com/metrico/qryn/reader/logql/logql_transpiler_v2/clickhouse_planner"
	"github.com/metrico/qryn/reader/logql/logql_transpiler_v2/internal_planner"
	"github.com/metrico/qryn/reader/logql/logql_transpiler_v2/shared"
	sql "github.com/metrico/qryn/reader/utils/sql_select"
)

func qvetCtx() *shared.PlannerContext {
	return &shared.PlannerContext{
		From: time.Unix(1700000000, 0), To: time.Unix(1700000060, 0), Limit: 10,
		SamplesTableName: "samples_v3", TimeSeriesTableName: "time_series", TimeSeriesGinTableName: "time_series_gin",
		Metrics15sTableName: "metrics_15s", TimeSeriesDistTableName: "time_series_dist",
		Step:     time.Second,
		CHSqlCtx: &sql.Ctx{Params: map[string]sql.SQLObject{}, Result: map[string]sql.SQLObject{}},
	}
}

func qvetSQL(t *testing.T, q string) string {
	script, err := logql_parser.Parse(q)
	if err != nil {
		t.Fatal(err)
	}
	plan, err := clickhouse_planner.Plan(script, true)
	if err != nil {
		t.Fatal(err)
	}
	sel, err := plan.Process(qvetCtx())
	if err != nil {
		t.Fatal(err)
	}
	s, err := sel.String(&sql.Ctx{Params: map[string]sql.SQLObject{}, Result: map[string]sql.SQLObject{}})
	if err != nil {
		t.Fatal(err)
	}
	return s
}

func TestQvetFinding08_NegatedRegexLineFilter(t *testing.T) {
	pos := qvetSQL(t, `{a="b"} |~ "x.*y"`)
	neg := qvetSQL(t, `{a="b"} !~ "x.*y"`)
	if pos == neg {
		t.Fatalf("|~ and !~ render the same SQL:\n%s", neg)
	}
}

func TestQvetFinding09_LabelFormatNotDropped(t *testing.T) {
	script, _ := logql_parser.Parse(`{a="b"} | label_format c="d"`)
	bp, err := GetBreakpoint(script)
	if err != nil {
		t.Fatal(err)
	}
	if bp == BreakpointNo {
		s := qvetSQL(t, `{a="b"} | label_format c="d"`)
		if !strings.Contains(s, "'d'") && !strings.Contains(s, "'c'") {
			t.Fatalf("label_format neither splits to the in-process engine nor appears in SQL:\n%s", s)
		}
	}
}

func TestQvetFinding10_ShortcutKeepsLabelFilter(t *testing.T) {
	for _, q := range []string{
		`rate({a="b"} | level="error" [1m])`,
		`rate({a="b"} | line_format "{{.a}}" [1m])`,
		`rate({a="b"} | label_format c="d" [1m])`,
	} {
		script, err := logql_parser.Parse(q)
		if err != nil {
			t.Fatal(err)
		}
		if clickhouse_planner.AnalyzeMetrics15sShortcut(script) {
			s := qvetSQL(t, q)
			if !strings.Contains(s, "level") && !strings.Contains(s, "{{") && !strings.Contains(s, "'d'") {
				t.Errorf("%s: admitted to the 15s shortcut and the stage is absent from the SQL:\n%s", q, s)
			}
		}
	}
}

func TestQvetFinding11_BytesOverTimeNotARate(t *testing.T) {
	r := qvetSQL(t, `bytes_rate({a="b"}[5s])`)
	o := qvetSQL(t, `bytes_over_time({a="b"}[5s])`)
	if r == o {
		t.Fatalf("bytes_over_time renders the same SQL as bytes_rate:\n%s", o)
	}
	if strings.Contains(o, "/ 5.0") {
		t.Fatalf("bytes_over_time divides by the range:\n%s", o)
	}
}

type qvetSrc struct{ entries []shared.LogEntry }

func (q *qvetSrc) IsMatrix() bool { return false }
func (q *qvetSrc) Process(ctx *shared.PlannerContext, in chan []shared.LogEntry) (chan []shared.LogEntry, error) {
	c := make(chan []shared.LogEntry)
	go func() {
		defer close(c)
		c <- q.entries
	}()
	return c, nil
}

func qvetRun(t *testing.T, q string, limit int64, entries []shared.LogEntry) []shared.LogEntry {
	script, err := logql_parser.Parse(q)
	if err != nil {
		t.Fatal(err)
	}
	proc, err := internal_planner.Plan(script, &qvetSrc{entries})
	if err != nil {
		t.Fatal(err)
	}
	ctx := qvetCtx()
	ctx.Limit = limit
	out, err := proc.Process(ctx, nil)
	if err != nil {
		t.Fatal(err)
	}
	var res []shared.LogEntry
	for e := range out {
		res = append(res, e...)
	}
	return res
}

func TestQvetFinding12_MinOverTime(t *testing.T) {
	ts := time.Unix(1700000001, 0).UnixNano()
	in := []shared.LogEntry{
		{TimestampNS: ts, Fingerprint: 1, Labels: map[string]string{"a": "b"}, Message: `{"x":5}`},
		{TimestampNS: ts + 1, Fingerprint: 1, Labels: map[string]string{"a": "b"}, Message: `{"x":3}`},
	}
	res := qvetRun(t, `min_over_time({a="b"} | json | unwrap x [1m]) by (a)`, 0, in)
	if len(res) != 1 || res[0].Value != 3 {
		t.Fatalf("min_over_time over {5,3} = %+v, want one point with value 3", res)
	}
	res = qvetRun(t, `max_over_time({a="b"} | json | unwrap x [1m]) by (a)`, 0, in)
	if len(res) != 1 || res[0].Value != 5 {
		t.Fatalf("max_over_time over {5,3} = %+v, want one point with value 5", res)
	}
}

func TestQvetFinding13_LimitZeroMeansUnlimited(t *testing.T) {
	ts := time.Unix(1700000001, 0).UnixNano()
	in := []shared.LogEntry{
		{TimestampNS: ts, Fingerprint: 1, Labels: map[string]string{"a": "b"}, Message: `{"x":5}`},
		{TimestampNS: ts + 1, Fingerprint: 1, Labels: map[string]string{"a": "b"}, Message: `{"x":3}`},
	}
	if res := qvetRun(t, `{a="b"} | json`, 10, in); len(res) != 2 {
		t.Fatalf("limit 10: %d entries, want 2", len(res))
	}
	if res := qvetRun(t, `{a="b"} | json`, 0, in); len(res) != 2 {
		t.Fatalf("limit 0 (absent): %d entries, want 2 (the SQL engine treats 0 as unlimited)", len(res))
	}
	if res := qvetRun(t, `{a="b"} | json`, 1, in); len(res) != 1 {
		t.Fatalf("limit 1: %d entries, want 1", len(res))
	}
}
