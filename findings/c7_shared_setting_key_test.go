package maintenance

// Demonstration for finding #26 (reported by a seeding sub-agent as a pre-existing issue, confirmed here): the settings key
// rotate/metrics_15s is recorded both by storagePolicyUpdate (storage policy) and by rotateTables (TTL expression). With a
// storage policy configured each routine overwrites the other's record, so every run re-issues ALTERs although nothing changed.
// Copy into ctrl/qryn/maintenance/ of a scratch worktree:
//   go test -vet=off ./ctrl/qryn/maintenance/ -run QvetFinding26

import (
	"context"
	"strings"
	"testing"
	"time"

	"github.com/ClickHouse/clickhouse-go/v2"
	"github.com/ClickHouse/clickhouse-go/v2/lib/driver"
)

type qvetSettingsRows struct {
	driver.Rows
	vals []string
	i    int
}

func (r *qvetSettingsRows) Next() bool { r.i++; return r.i <= len(r.vals) }
func (r *qvetSettingsRows) Scan(dest ...any) error {
	*(dest[0].(*string)) = r.vals[r.i-1]
	return nil
}
func (r *qvetSettingsRows) Close() error { return nil }

type qvetSettingsConn struct {
	clickhouse.Conn
	settings map[uint32]string // fingerprint → last value
	alters   []string
}

func (c *qvetSettingsConn) Exec(ctx context.Context, q string, args ...any) error {
	if strings.HasPrefix(strings.TrimSpace(q), "INSERT INTO settings") {
		c.settings[args[0].(uint32)] = args[3].(string)
		return nil
	}
	if strings.HasPrefix(strings.TrimSpace(q), "ALTER") {
		c.alters = append(c.alters, strings.Join(strings.Fields(q), " "))
	}
	return nil
}

func (c *qvetSettingsConn) Query(ctx context.Context, q string, args ...any) (driver.Rows, error) {
	if v, ok := c.settings[args[0].(uint32)]; ok {
		return &qvetSettingsRows{vals: []string{v}}, nil
	}
	return &qvetSettingsRows{}, nil
}

type qvetNopLogger struct{}

func (qvetNopLogger) Info(...any)  {}
func (qvetNopLogger) Debug(...any) {}
func (qvetNopLogger) Error(...any) {}

func TestQvetFinding26_UnchangedRetentionIssuesNoAlter(t *testing.T) {
	c := &qvetSettingsConn{settings: map[uint32]string{}}
	run := func() int {
		c.alters = nil
		if err := Rotate(c, "", false, []RotatePolicy{{TTL: 48 * time.Hour, MoveTo: "cold"}}, 7, "tiered", qvetNopLogger{}); err != nil {
			t.Fatal(err)
		}
		return len(c.alters)
	}
	if n := run(); n == 0 {
		t.Fatal("first run must apply the configuration")
	}
	if n := run(); n != 0 {
		t.Fatalf("second run with unchanged configuration issued %d ALTER statements:\n%s", n, strings.Join(c.alters, "\n"))
	}
}
