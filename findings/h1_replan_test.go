package clickhouse_planner

// Demonstration for DESIGN.md §6 #18: LineFilterPlanner.Process overwrites its own pattern with the LIKE translation,
// so the second execution of a prepared plan (live tail re-executes every second) translates a different filter.
// Copy into reader/logql/logql_transpiler_v2/clickhouse_planner/ of a scratch worktree:
//   go test -vet=off ./reader/logql/logql_transpiler_v2/clickhouse_planner/ -run QvetFinding18

import (
	"testing"
	"time"

	"github.com/metrico/qryn/reader/logql/logql_parser"
	"github.com/metrico/qryn/reader/logql/logql_transpiler_v2/shared"
	sql "github.com/metrico/qryn/reader/utils/sql_select"
)

func TestQvetFinding18_PreparedPlanCanBeReExecuted(t *testing.T) {
	script, err := logql_parser.Parse("{a=\"b\"} |~ `a\\.b`")
	if err != nil {
		t.Fatal(err)
	}
	plan, err := Plan(script, true)
	if err != nil {
		t.Fatal(err)
	}
	render := func() string {
		ctx := &shared.PlannerContext{From: time.Unix(1700000000, 0), To: time.Unix(1700000060, 0), Limit: 10,
			SamplesTableName: "samples_v3", TimeSeriesTableName: "time_series", TimeSeriesGinTableName: "time_series_gin", TimeSeriesDistTableName: "time_series_dist"}
		sel, err := plan.Process(ctx)
		if err != nil {
			t.Fatal(err)
		}
		s, err := sel.String(&sql.Ctx{Params: map[string]sql.SQLObject{}, Result: map[string]sql.SQLObject{}})
		if err != nil {
			t.Fatal(err)
		}
		return s
	}
	first, second := render(), render()
	if first != second {
		t.Fatalf("re-executing the same plan changes the statement:\n1st: %s\n2nd: %s", first, second)
	}
}
