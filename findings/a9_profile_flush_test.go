package unmarshal

// Demonstration for DESIGN.md §6 #1: onProfile flushes the *span* buffers and then discards the profile.
// Copy into writer/utils/unmarshal/ of a scratch worktree:
//   go test -vet=off ./writer/utils/unmarshal/ -run QvetFinding01

import (
	"strings"
	"testing"

	"github.com/metrico/qryn/writer/model"
)

type qvetProfParser struct{ h onProfileHandler }

func (q *qvetProfParser) SetOnProfile(h onProfileHandler) { q.h = h }
func (q *qvetProfParser) Decode() error {
	big := strings.Repeat("x", 2*1024*1024) // a tag value above the 1 MiB flush threshold
	return q.h(1700000000000000000, "process_cpu", "svc", []model.StrStr{{Str1: "cpu", Str2: "ns"}}, "cpu", "ns",
		[]model.StrStr{{Str1: "k", Str2: big}}, 10, "0", []byte("payload"), nil, nil, nil)
}

func TestQvetFinding01_ProfileAboveFlushThresholdIsSent(t *testing.T) {
	p := &parserDoer{ctx: &ParserCtx{}, ProfileParser: &qvetProfParser{}}
	rows := 0
	for resp := range p.Do() {
		if resp.Error != nil {
			t.Fatal(resp.Error)
		}
		if resp.ProfileRequest == nil {
			continue
		}
		pd := resp.ProfileRequest.(*model.ProfileData)
		if len(pd.TimestampNs) == 0 {
			t.Fatalf("an empty ProfileData is pushed: the profile insert routine appends one row to the array columns and none to the others (non-rectangular block)")
		}
		rows += len(pd.TimestampNs)
	}
	if rows != 1 {
		t.Fatalf("the request is acknowledged but %d profile rows were handed to the insert path, want 1", rows)
	}
}
