package unmarshal

// Demonstration for finding S2/zipkin-ndjson: the newline-delimited Zipkin decoder never reset the per-span state nor set the payload.
// Copy into writer/utils/unmarshal/ of a scratch worktree (before fix 0e817fd):
//   go test -vet=off ./writer/utils/unmarshal/ -run QvetFindingS2Zipkin

import (
	"context"
	"strings"
	"testing"

	"github.com/metrico/qryn/writer/model"
)

func TestQvetFindingS2Zipkin_NDJSONPayloadAndTags(t *testing.T) {
	body := `{"traceId":"00000000000000000000000000000001","id":"0000000000000001","name":"a","timestamp":1700000000000000,"duration":10,"localEndpoint":{"serviceName":"s1"},"tags":{"only_first":"x"}}
{"traceId":"00000000000000000000000000000002","id":"0000000000000002","name":"b","timestamp":1700000000000001,"duration":10,"localEndpoint":{"serviceName":"s2"},"tags":{"only_second":"y"}}
`
	var payloads [][]byte
	var attrs []string
	for resp := range UnmarshalZipkinNDJSONV2(context.Background(), strings.NewReader(body), nil) {
		if resp.Error != nil {
			t.Fatal(resp.Error)
		}
		if s, ok := resp.SpansRequest.(*model.TempoSamples); ok && s != nil {
			payloads = append(payloads, s.MPayload...)
		}
		if a, ok := resp.SpansAttrsRequest.(*model.TempoTag); ok && a != nil {
			for i := range a.MKey {
				attrs = append(attrs, string(a.MSpanId[i])+"|"+a.MKey[i]+"="+a.MVal[i])
			}
		}
	}
	if len(payloads) != 2 {
		t.Fatalf("rows: %d", len(payloads))
	}
	for i, p := range payloads {
		if len(p) == 0 {
			t.Errorf("row %d: stored payload is empty", i)
		}
	}
	for _, a := range attrs {
		if strings.Contains(a, "\x02|only_first") {
			t.Errorf("second span carries the first span's tag: %q", a)
		}
	}
	t.Log(attrs)
}
