package unmarshal

// Demonstration for DESIGN.md §6 #3: an OTLP span whose trace id is not 16 bytes is accepted by the parser and
// later panics in ColFixedStr.Append inside the (recover-less) push goroutine: the process exits.
// Copy into writer/utils/unmarshal/ of a scratch worktree:
//   go test -vet=off ./writer/utils/unmarshal/ -run QvetFinding03

import (
	"testing"

	"github.com/ClickHouse/ch-go/proto"
	"github.com/metrico/qryn/writer/model"
)

func TestQvetFinding03_ShortTraceIdIsRejectedByTheParser(t *testing.T) {
	res := make(chan *model.ParserResponse, 4)
	p := &parserDoer{ctx: &ParserCtx{}, res: res}
	p.resetSpans()
	err := p.onSpan([]byte{1, 2, 3}, make([]byte, 8), 1700000000000000000, 1, "", "n", "s", nil, nil, nil)
	if err != nil {
		return // rejected with an error: the request gets a 4xx
	}
	// accepted: show what the insert routine does with it
	col := &proto.ColFixedStr{}
	col.SetSize(16)
	defer func() {
		if r := recover(); r != nil {
			t.Fatalf("the parser accepted a 3-byte trace id; appending it to the FixedString(16) column panics (%v) in a goroutine without recover", r)
		}
	}()
	for _, id := range p.spans.MTraceId {
		col.Append(id)
	}
}
