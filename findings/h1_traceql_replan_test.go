package clickhouse_transpiler

// Demonstration for finding #24: AttrConditionPlanner.aggregator strips the scope prefix from its own AggregatedAttr field,
// so a complex TraceQL request (Process runs once per portion on the same plan) aggregates another attribute from the
// second portion on when the attribute name itself starts with a scope prefix.
// Copy into reader/traceql/transpiler/clickhouse_transpiler/ of a scratch worktree:
//   go test -vet=off ./reader/traceql/transpiler/clickhouse_transpiler/ -run QvetFinding24

import (
	"strings"
	"testing"
	"time"

	"github.com/metrico/qryn/reader/logql/logql_transpiler_v2/shared"
	traceql_parser "github.com/metrico/qryn/reader/traceql/parser"
	sql "github.com/metrico/qryn/reader/utils/sql_select"
)

func TestQvetFinding24_AggregatedAttributeIsStableAcrossExecutions(t *testing.T) {
	script, err := traceql_parser.Parse(`{.a="b"} | avg(span.span.x) > 1`)
	if err != nil {
		t.Fatal(err)
	}
	plan, err := Plan(script)
	if err != nil {
		t.Fatal(err)
	}
	render := func() string {
		ctx := &shared.PlannerContext{From: time.Unix(1700000000, 0), To: time.Unix(1700000060, 0), Limit: 10,
			TracesAttrsTable: "tempo_traces_attrs_gin", TracesAttrsDistTable: "tempo_traces_attrs_gin_dist", TracesTable: "tempo_traces", TracesDistTable: "tempo_traces_dist"}
		sel, err := plan.Process(ctx)
		if err != nil {
			t.Fatal(err)
		}
		s, err := sel.String(&sql.Ctx{Params: map[string]sql.SQLObject{}, Result: map[string]sql.SQLObject{}})
		if err != nil {
			t.Fatal(err)
		}
		return s
	}
	first, second := render(), render()
	if !strings.Contains(first, "'span.x'") {
		t.Fatalf("first execution does not aggregate the attribute span.x:\n%s", first)
	}
	if !strings.Contains(second, "'span.x'") || strings.Contains(second, "('x')") {
		t.Fatalf("second execution of the same plan aggregates another attribute:\n%s", second)
	}
}
