package controllerv1

// Demonstration for DESIGN.md §6 #20: tag names / values are rendered with strconv.Quote in a JSON body.
// Copy into reader/controller/ of a scratch worktree:
//   go test -vet=off ./reader/controller/ -run QvetFinding20

import (
	"context"
	"encoding/json"
	"net/http/httptest"
	"testing"

	"github.com/metrico/qryn/reader/model"
)

type qvetTagsSvc struct{ model.ITempoService }

func (qvetTagsSvc) Tags(ctx context.Context) (chan string, error) {
	c := make(chan string, 2)
	c <- "plain"
	c <- "ctl\x01byte"
	close(c)
	return c, nil
}
func (qvetTagsSvc) Values(ctx context.Context, tag string) (chan string, error) {
	c := make(chan string, 1)
	c <- "bell\a"
	close(c)
	return c, nil
}

func TestQvetFinding20_TagListsAreJSON(t *testing.T) {
	ctrl := &TempoController{Service: qvetTagsSvc{}}
	rec := httptest.NewRecorder()
	ctrl.Tags(rec, httptest.NewRequest("GET", "/api/search/tags", nil))
	var v struct{ TagNames []string }
	if err := json.Unmarshal(rec.Body.Bytes(), &v); err != nil || len(v.TagNames) != 2 || v.TagNames[1] != "ctl\x01byte" {
		t.Fatalf("tags body %s: err=%v decoded=%q", rec.Body.String(), err, v.TagNames)
	}
	rec = httptest.NewRecorder()
	ctrl.Values(rec, httptest.NewRequest("GET", "/api/search/tag/x/values", nil))
	var w struct{ TagValues []string }
	if err := json.Unmarshal(rec.Body.Bytes(), &w); err != nil || len(w.TagValues) != 1 || w.TagValues[0] != "bell\a" {
		t.Fatalf("values body %s: err=%v decoded=%q", rec.Body.String(), err, w.TagValues)
	}
}
