package unmarshal

// Demonstration for DESIGN.md §6 #6: the stored label document is built with strconv.Quote, whose escapes
// (\x01, \a, …) are Go syntax, not JSON.
// Copy into writer/utils/unmarshal/ of a scratch worktree:
//   go test -vet=off ./writer/utils/unmarshal/ -run QvetFinding06

import (
	"encoding/json"
	"testing"
)

func TestQvetFinding06_LabelDocumentIsJSON(t *testing.T) {
	for _, v := range []string{"x\x01y", "bell\a", "tab\tquote\"back\\slash", "ünïcode", "del\x7f"} {
		doc := encodeLabels([][]string{{"a", v}})
		var m map[string]string
		if err := json.Unmarshal([]byte(doc), &m); err != nil {
			t.Fatalf("label document %s for value %q is not JSON: %v", doc, v, err)
		}
		if m["a"] != v {
			t.Fatalf("label document %s decodes to %q, want %q", doc, m["a"], v)
		}
	}
}
