#!/bin/bash
# usage: wt_patch.sh <patch.diff> [property…] — applies the patch to a scratch worktree of /repo HEAD (removed afterwards; /repo is not
# touched) and prints the verdicts of the given properties (all when none is given) with their first reports.
P=$(readlink -f "$1"); shift
W=/tmp/wt_patch_$$
git -C /repo worktree add -f $W HEAD >/dev/null 2>&1 || exit 3
git -C $W apply "$P" 2>/dev/null || { echo "PATCH DOES NOT APPLY: $P"; git -C /repo worktree remove --force $W; exit 2; }
cd /verif
o=$(QVET_VERIF=/verif QVET_REPO=$W ${QVET_BIN:-./bin/qvet} verdicts 2>&1)
if [ $# -gt 0 ]; then for p in "$@"; do echo "$o" | grep -A${LINES_PER:-6} "^$p " | grep "^$p \|^   \[$p\]" | cut -c1-${CUT:-420}; done
else echo "$o" | grep "^   \[" | cut -c1-${CUT:-420} | head -${HEAD:-12}; echo "ALARMS:$(echo "$o" | awk '$2=="ALARM"{printf " %s",$1}')"; fi
git -C /repo worktree remove --force $W
