#!/bin/bash
# usage: regress.sh [-j N] [benign|seeded|all] [name-glob]
# Full regression of the checks against every stored patch, N at a time: each patch is applied to its own scratch worktree of /repo
# HEAD (under /tmp, removed afterwards; /repo itself is not touched), every property is decided on it by `qvet verdicts`
# (QVET_REPO=<worktree>), and one line per patch is printed:
#   benign/<name> ALARMS: <properties>        — must be empty for every benign patch
#   seeded/<name> CAUGHT_BY: <properties>     — must contain the seed's own property (except the documented misses)
# A summary of the lines that need attention follows.
J=6; [ "$1" = "-j" ] && { J=$2; shift 2; }
KIND=${1:-all}; GLOB=${2:-*}
cd /verif
one() {
  k=$1; n=$2; P=/verif/$k/$n/patch.diff
  [ -f $P ] || exit 0
  W=/tmp/wt_regress_${k}_$n
  git -C /repo worktree remove --force $W >/dev/null 2>&1
  git -C /repo worktree add -f $W HEAD >/dev/null 2>&1 || { echo "$k/$n WORKTREE FAILED"; exit 0; }
  if ! git -C $W apply $P 2>/dev/null; then echo "$k/$n PATCH DOES NOT APPLY"; else
    o=$(QVET_VERIF=/verif QVET_REPO=$W ./bin/qvet verdicts 2>&1)
    a=$(echo "$o" | awk '$2=="ALARM"{printf " %s",$1}')
    echo "$o" | grep -q '^C01 ' || a="$a (NO VERDICTS: $(echo "$o" | head -2 | tr '\n' ' '))"
    if [ $k = benign ]; then echo "benign/$n ALARMS:$a"; [ -n "$a" ] && echo "$o" | grep "^   \[" | cut -c1-300 | head -6 | sed "s#^#   [$n]#"
    else echo "seeded/$n CAUGHT_BY:$a"; fi
  fi
  git -C /repo worktree remove --force $W >/dev/null 2>&1
}
export -f one
{ [ $KIND != seeded ] && for d in benign/$GLOB; do [ -d $d ] && echo "benign $(basename $d)"; done
  [ $KIND != benign ] && for d in seeded/$GLOB; do [ -d $d ] && echo "seeded $(basename $d)"; done; } |
  xargs -P $J -L 1 bash -c 'one $0 $1' | tee /tmp/regress.out
echo "== needs attention"
grep -E '^benign/.* ALARMS: .|DOES NOT APPLY|FAILED|NO VERDICTS' /tmp/regress.out
while read -r l; do
  n=${l%% *}; n=${n#seeded/}; p=${n%%-*}
  echo "$l" | grep -q "CAUGHT_BY:.* $p\b" || echo "MISSED $l"
done < <(grep '^seeded/' /tmp/regress.out)
git -C /repo worktree prune
