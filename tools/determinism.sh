#!/bin/bash
# runs every check N times and compares the (rule, construct, status) lists of the evidence files
cd /verif; N=${1:-3}
for p in $(./bin/qvet list | awk '{print $1}'); do
  prev=""
  for i in $(seq $N); do
    ./bin/qvet check -property $p >/dev/null 2>&1
    h=$(jq -c '[.coverage.samples[] | [.rule,.construct,.status]]' evidence/$p.json | md5sum | cut -c1-8)
    if [ -n "$prev" ] && [ "$h" != "$prev" ]; then echo "NONDETERMINISTIC $p"; fi
    prev=$h
  done
done; echo determinism-done
