#!/bin/bash
# usage: with_patch.sh <patch.diff> <command…> — applies the patch to /repo, runs the command from /verif, restores /repo (including files the patch creates)
P=$(readlink -f "$1"); shift
cd /verif
git -C /repo apply "$P" 2>/dev/null || { echo "PATCH DOES NOT APPLY: $P"; exit 2; }
"$@"; rc=$?
git -C /repo checkout -- .
for f in $(grep -A1 '^--- /dev/null' "$P" | grep '^+++ b/' | sed 's#^+++ b/##'); do rm -f "/repo/$f"; done
exit $rc
