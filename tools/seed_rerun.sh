#!/bin/bash
# usage: seed_rerun.sh [name ...]  — applies each stored seeded change to /repo, decides every property on it (`qvet verdicts`: one
# load, all rules, nothing written) and restores /repo. Every seed must be caught by the check of its own property.
cd /verif
names="$@"; [ -z "$names" ] && names=$(ls seeded)
for n in $names; do
  P=/verif/seeded/$n/patch.diff
  [ -f $P ] || continue
  git -C /repo apply $P || { echo "$n: PATCH DOES NOT APPLY"; continue; }
  o=$(./bin/qvet verdicts 2>&1)
  git -C /repo checkout -- .
  for f in $(grep -A1 '^--- /dev/null' $P | grep '^+++ b/' | sed 's#^+++ b/##'); do rm -f /repo/$f; done
  echo "$o" | grep "^   \[" | cut -c1-240 | head -${SEED_LINES:-4} | sed "s/^/   [$n]/"
  echo "$n CAUGHT_BY:$(echo "$o" | awk '$2=="ALARM"{printf " %s",$1}')"
done
