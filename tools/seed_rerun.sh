#!/bin/bash
# usage: seed_rerun.sh [name ...]  — apply each stored seeded patch to /repo, run all checks, restore /repo
cd /verif
names="$@"; [ -z "$names" ] && names=$(ls seeded)
for n in $names; do
  [ -f seeded/$n/patch.diff ] || continue
  git -C /repo apply /verif/seeded/$n/patch.diff || { echo "$n: PATCH DOES NOT APPLY"; continue; }
  RES=""
  for p in $(./bin/qvet list | awk '{print $1}'); do
    o=$(./bin/qvet check -property $p 2>&1); rc=$?
    if [ $rc -ne 0 ]; then RES="$RES $p"; echo "$o" | grep -v "^VIOLATION\|^qvet\|KNOWN-FINDING" | cut -c1-260 | head -3 | sed "s/^/   [$n $p] /"; fi
  done
  git -C /repo checkout -- .
  echo "$n CAUGHT_BY:$RES"
done
for p in $(./bin/qvet list | awk '{print $1}'); do ./bin/qvet check -property $p >/dev/null 2>&1; done
