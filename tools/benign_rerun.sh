#!/bin/bash
# usage: benign_rerun.sh [name…]  — applies each stored behaviour-preserving refactoring to /repo, decides every property on it
# (`qvet verdicts`: one load, all rules, nothing written) and restores /repo. Every property must stay silent on every one of them.
cd /verif
NAMES="$@"; [ -z "$NAMES" ] && NAMES=$(ls benign)
for n in $NAMES; do
  P=/verif/benign/$n/patch.diff
  [ -f $P ] || continue
  git -C /repo apply $P 2>/dev/null || { echo "$n: PATCH DOES NOT APPLY"; continue; }
  o=$(./bin/qvet verdicts 2>&1)
  git -C /repo checkout -- .
  for f in $(grep -A1 '^--- /dev/null' $P | grep '^+++ b/' | sed 's#^+++ b/##'); do rm -f /repo/$f; done
  echo "$o" | grep "^   \[" | cut -c1-260 | head -${BENIGN_LINES:-12} | sed "s/^/   [$n]/"
  echo "$n ALARMS:$(echo "$o" | awk '$2=="ALARM"{printf " %s",$1}') $(echo "$o" | grep -q '^C01 ' || echo ' (NO VERDICTS: '"$(echo "$o" | head -2)"')')"
done
