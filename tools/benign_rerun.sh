#!/bin/bash
# usage: benign_rerun.sh [name…]  — applies each stored behaviour-preserving refactoring to /repo, runs every check, restores /repo.
# Every check must stay silent (exit 0) on every one of them.
cd /verif
NAMES="$@"; [ -z "$NAMES" ] && NAMES=$(ls benign)
for n in $NAMES; do
  P=/verif/benign/$n/patch.diff
  git -C /repo apply $P 2>/dev/null || { echo "$n: PATCH DOES NOT APPLY"; continue; }
  RES=""
  for p in $(./bin/qvet list | awk '{print $1}'); do
    o=$(./bin/qvet check -property $p 2>&1); rc=$?
    if [ $rc -ne 0 ]; then RES="$RES $p"; echo "$o" | grep -v "^VIOLATION property\|^qvet\|KNOWN-FINDING" | cut -c1-260 | sed "s/^/   [$n $p] /" | head -${BENIGN_LINES:-6}; fi
  done
  git -C /repo checkout -- .
  for f in $(grep -A1 '^--- /dev/null' $P | grep '^+++ b/' | sed 's#^+++ b/##'); do rm -f /repo/$f; done
  echo "$n ALARMS:$RES"
done
# restore clean evidence
for p in $(./bin/qvet list | awk '{print $1}'); do ./bin/qvet check -property $p >/dev/null 2>&1; done
