#!/bin/bash
# usage: mkhand.sh <name> <property list e.g. "C01 C02"> <rules e.g. A1> <what…>
# takes the uncommitted edit in /tmp/wt (a scratch worktree at /repo HEAD), checks that it compiles, stores it as
# /verif/selftest/hand-<name>.diff (one file per property named) and resets the worktree.
set -e
NAME=$1; PROPS=$2; RULES=$3; shift 3; WHAT="$*"
export GOFLAGS=-mod=mod GOPROXY=off
cd /tmp/wt
PK=$(git diff --name-only | xargs -n1 dirname | sort -u | sed 's#^#./#')
if ! go build $PK 2>/tmp/mkhand.err; then echo "DOES NOT COMPILE"; head -5 /tmp/mkhand.err; git checkout -q -- .; exit 1; fi
for P in $PROPS; do
  F=/verif/selftest/hand-$NAME-$P.diff
  echo "# property=$P rules=$RULES what=$WHAT" > $F
  git diff >> $F
done
git checkout -q -- .
echo stored $NAME
