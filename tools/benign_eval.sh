#!/bin/bash
# usage: benign_eval.sh <worktree-under-/tmp> <name>
# Stores a behaviour-preserving refactoring (made by an independent sub-agent) under /verif/benign/<name>, checks that it builds and
# that the existing suite is unchanged, and decides every property (all must stay silent) on a scratch worktree of /repo HEAD with the
# patch applied; nothing is written to /repo.
set -u
SD=$1; NAME=$2
export GOFLAGS=-mod=mod GOPROXY=off
OUT=/verif/benign/$NAME
mkdir -p $OUT
cd $SD || exit 2
git add -N . >/dev/null 2>&1
git diff -- . ':(exclude)REFACTOR_REPORT.md' > $OUT/patch.diff
cp REFACTOR_REPORT.md $OUT/ 2>/dev/null
W=/tmp/wt_bencheck_$NAME
git -C /repo worktree remove --force $W >/dev/null 2>&1
git -C /repo worktree add -f $W HEAD >/dev/null 2>&1 || exit 3
cd $W
git apply $OUT/patch.diff || { echo "PATCH DOES NOT APPLY"; exit 4; }
echo "== gofmt"; gofmt -l $(git diff --name-only | grep '\.go$') 2>/dev/null | head
echo "== build + suite"
go build ./... 2>&1 | grep -v "^#\|writer/http\|unmarshal/legacy\|undefined: model\|cannot use" | head -5
go test -vet=off -count=1 ./... 2>&1 | grep -v "no test files" | grep -v "^ok" | grep -v "writer/http\|unmarshal/legacy\|^#\|undefined: model\|cannot use [rw] \|^FAIL$" | head -10
# decide every property on the scratch worktree with the refactoring applied (tools/benign_rerun.sh repeats this against /repo itself)
cd /verif
QV=${QVET_BIN:-./bin/qvet}
o=$(QVET_VERIF=/verif QVET_REPO=$W $QV verdicts 2>&1)
echo "$o" | grep "^   \[" | cut -c1-500 | head -${BENIGN_LINES:-14}
echo "$o" | grep -q '^C01 ' || echo "NO VERDICTS: $(echo "$o" | head -3)"
echo "ALARMS:$(echo "$o" | awk '$2=="ALARM"{printf " %s",$1}')"
git -C /repo worktree remove --force $W
