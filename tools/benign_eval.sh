#!/bin/bash
# usage: benign_eval.sh <worktree-under-/tmp> <name>
# Stores a behaviour-preserving refactoring (made by an independent sub-agent) under /verif/benign/<name>, checks that it builds and
# that the existing suite is unchanged, applies it to /repo, runs every check (all must stay silent) and restores /repo.
set -u
SD=$1; NAME=$2
export GOFLAGS=-mod=mod GOPROXY=off
OUT=/verif/benign/$NAME
mkdir -p $OUT
cd $SD || exit 2
git add -N . >/dev/null 2>&1
git diff -- . ':(exclude)REFACTOR_REPORT.md' > $OUT/patch.diff
cp REFACTOR_REPORT.md $OUT/ 2>/dev/null
W=/tmp/wt_bencheck
git -C /repo worktree remove --force $W >/dev/null 2>&1
git -C /repo worktree add -f $W HEAD >/dev/null 2>&1 || exit 3
cd $W
git apply $OUT/patch.diff || { echo "PATCH DOES NOT APPLY"; exit 4; }
echo "== gofmt"; gofmt -l $(git diff --name-only | grep '\.go$') 2>/dev/null | head
echo "== build + suite"
go build ./... 2>&1 | grep -v "^#\|writer/http\|unmarshal/legacy\|undefined: model\|cannot use" | head -5
go test -vet=off -count=1 ./... 2>&1 | grep -v "no test files" | grep -v "^ok" | grep -v "writer/http\|unmarshal/legacy\|^#\|undefined: model\|cannot use [rw] \|^FAIL$" | head -10
cd /verif; git -C /repo worktree remove --force $W
git -C /repo apply $OUT/patch.diff || { echo "PATCH DOES NOT APPLY TO /repo"; exit 5; }
RES=""
for p in $(./bin/qvet list | awk '{print $1}'); do
  o=$(./bin/qvet check -property $p 2>&1); rc=$?
  if [ $rc -ne 0 ]; then RES="$RES $p"; echo "--- $p ALARMS:"; echo "$o" | grep -v "^VIOLATION\|^qvet\|KNOWN-FINDING" | cut -c1-500 | head -8; fi
done
git -C /repo checkout -- . ; for f in $(grep -A1 '^--- /dev/null' $OUT/patch.diff | grep '^+++ b/' | sed 's#^+++ b/##'); do rm -f /repo/$f; done; git -C /repo status --short | head -3
echo "ALARMS:$RES"
