#!/bin/bash
# usage: seed_eval.sh <seed-dir-under-/tmp> <name>   e.g. seed_eval.sh /tmp/seed_C01 C01-a
# Confirms a seeded change (compiles, suite unchanged, demo fails with / passes without), stores it under /verif/seeded/<name>,
# then decides every property on a scratch worktree of /repo HEAD with the patch applied (nothing is written to /repo).
set -u
SD=$1; NAME=$2
export GOFLAGS=-mod=mod GOPROXY=off
OUT=/verif/seeded/$NAME
mkdir -p $OUT
cd $SD || exit 2
git diff > $OUT/patch.diff
DEMOS=$(git status --porcelain | grep '^??' | awk '{print $2}' | grep -v SEED_REPORT.md)
for d in $DEMOS; do mkdir -p $OUT/demo/$(dirname $d); cp -r $d $OUT/demo/$d; done
cp SEED_REPORT.md $OUT/ 2>/dev/null
echo "demo files: $DEMOS"
# scratch verification worktree
W=/tmp/wt_seedcheck_$NAME
git -C /repo worktree remove --force $W >/dev/null 2>&1
git -C /repo worktree add -f $W HEAD >/dev/null 2>&1 || exit 3
cd $W
for d in $DEMOS; do mkdir -p $(dirname $d); cp -r $OUT/demo/$d $d; done
PKGS=$(for d in $DEMOS; do if [ -d "$d" ]; then echo ./$d/...; else echo ./$(dirname $d)/; fi; done | sort -u)
RX=$(cat $(for d in $DEMOS; do find $OUT/demo/$d -name '*_test.go'; done) 2>/dev/null | grep -o '^func Test[A-Za-z0-9_]*' | sed 's/func //' | paste -sd'|')
[ -z "$RX" ] && RX='Qvet|qvet|Seed|seed'
echo "== demo WITHOUT the change (must pass)"; go test -vet=off -count=1 -run "$RX" $PKGS 2>&1 | tail -3; A=${PIPESTATUS[0]}
git apply $OUT/patch.diff || { echo "PATCH DOES NOT APPLY"; exit 4; }
echo "== demo WITH the change (must fail)"; go test -vet=off -count=1 -run "$RX" $PKGS 2>&1 | tail -6; B=${PIPESTATUS[0]}
echo "== build + existing suite with the change"
for d in $DEMOS; do rm -rf $d; done
go build ./... 2>&1 | grep -v "^#\|writer/http\|unmarshal/legacy\|undefined: model\|cannot use" | head -5
go test -vet=off -count=1 ./... 2>&1 | grep -v "no test files" | grep -v "^ok" | grep -v "writer/http\|unmarshal/legacy\|^#\|undefined: model\|cannot use [rw] \|^FAIL$" | head -10
echo "demo_without_exit=$A demo_with_exit=$B"
# decide every property on the scratch worktree with the change applied (tools/seed_rerun.sh repeats this against /repo itself)
cd /verif
o=$(QVET_REPO=$W ./bin/qvet verdicts 2>&1)
echo "$o" | grep "^   \[" | cut -c1-400 | head -12
echo "CAUGHT_BY:$(echo "$o" | awk '$2=="ALARM"{printf " %s",$1}')"
git -C /repo worktree remove --force $W
