package main

import (
	"fmt"
	"go/types"
	"strings"

	"golang.org/x/tools/go/ssa"
)

// ---------------------------------------------------------------------------------
// D14  recursive collectors over a syntax tree number the nodes in one order
//
// The regexp stage renders `extractAllGroupsHorizontal(line, re)` and zips its result with a list of label names collected from the
// parsed pattern. The two sides agree only if the collector visits capture groups in the order the regexp engine numbers them (by
// opening parenthesis: a group before the groups nested in it). The collector is a family of mutually recursive accumulator methods
// (`f(acc []T) []T`); each member that contributes an element of its own and descends must do both in the same order as its siblings.
// This is a sibling-agreement rule: it does not know which order is right, it reports the member that deviates.

func sliceOfSameType(a, b types.Type) bool {
	sa, ok1 := a.Underlying().(*types.Slice)
	sb, ok2 := b.Underlying().(*types.Slice)
	return ok1 && ok2 && types.Identical(sa, sb)
}

// accumulatorSig: fn takes a slice and returns a slice of the same type (the accumulator); returns the parameter index.
func accumulatorSig(fn *ssa.Function) int {
	res := fn.Signature.Results()
	if res.Len() != 1 {
		return -1
	}
	for i, p := range fn.Params {
		if sliceOfSameType(p.Type(), res.At(0).Type()) {
			return i
		}
	}
	return -1
}

var ruleD14 = &Rule{
	ID:    "D14",
	Floor: 0,
	Doc: "recursive collectors number the nodes of a syntax tree in one order (SSA, sibling agreement): in every family of mutually recursive accumulator functions `f(acc []T) []T` of the query planners, each member that appends an element of its own and also descends into its children does the two in the same order as every other member — own element first (the accumulator handed to the descent depends on the append) or children first (the append extends the result of the descent). " +
		"The LogQL regexp stage zips the collected group names with the groups the regexp engine extracts, which are numbered by opening parenthesis; a member that deviates shifts every label nested in its node onto its neighbour's value. An opportunistic rule: a collector written without recursion yields no instance (no floor); the seeded change C07-r7 in the overlay self-test is its positive control",
	Run: func(c *Ctx) []Obl {
		var obls []Obl
		var kk keyer
		cands := map[*ssa.Function]int{}
		for _, fn := range liveModuleFuncs(c, "reader") {
			if i := accumulatorSig(fn); i >= 0 && len(fn.Blocks) > 0 {
				cands[fn] = i
			}
		}
		// static calls among the candidates
		calls := map[*ssa.Function][]*ssa.Call{}
		for fn := range cands {
			for _, b := range fn.Blocks {
				for _, ins := range b.Instrs {
					if call, ok := ins.(*ssa.Call); ok {
						if sc := call.Common().StaticCallee(); sc != nil {
							if _, isC := cands[sc]; isC {
								calls[fn] = append(calls[fn], call)
							}
						}
					}
				}
			}
		}
		reach := func(from *ssa.Function) map[*ssa.Function]bool {
			seen := map[*ssa.Function]bool{}
			var walk func(f *ssa.Function)
			walk = func(f *ssa.Function) {
				for _, cl := range calls[f] {
					sc := cl.Common().StaticCallee()
					if !seen[sc] {
						seen[sc] = true
						walk(sc)
					}
				}
			}
			walk(from)
			return seen
		}
		type site struct {
			fn    *ssa.Function
			order string
			app   *ssa.Call
		}
		families := map[string][]site{}
		for fn := range cands {
			r := reach(fn)
			if !r[fn] {
				continue
			}
			// the family: the lexicographically first member names it
			name := ssaName(fn)
			for g := range r {
				if reach(g)[fn] && ssaName(g) < name {
					name = ssaName(g)
				}
			}
			for _, b := range fn.Blocks {
				for _, ins := range b.Instrs {
					app, ok := ins.(*ssa.Call)
					if !ok {
						continue
					}
					bi, ok := app.Common().Value.(*ssa.Builtin)
					if !ok || bi.Name() != "append" || len(app.Common().Args) != 2 || !sliceOfSameType(app.Type(), fn.Params[cands[fn]].Type()) {
						continue
					}
					pre, post := false, false
					for _, rc := range calls[fn] {
						sc := rc.Common().StaticCallee()
						idx := cands[sc]
						if !reach(sc)[fn] || idx >= len(rc.Common().Args) {
							continue
						}
						if dependsOnValue(rc.Common().Args[idx], func(x ssa.Value) bool { return x == ssa.Value(app) }, map[ssa.Value]bool{}, 0) {
							pre = true
						}
						if dependsOnValue(app.Common().Args[0], func(x ssa.Value) bool { return x == ssa.Value(rc) }, map[ssa.Value]bool{}, 0) {
							post = true
						}
					}
					switch {
					case pre && !post:
						families[name] = append(families[name], site{fn, "own element first", app})
					case post && !pre:
						families[name] = append(families[name], site{fn, "children first", app})
					}
				}
			}
		}
		for name, sites := range families {
			n := map[string]int{}
			for _, s := range sites {
				n[s.order]++
			}
			for _, s := range sites {
				key := kk.key(fmt.Sprintf("%s contributes and descends (family of %s)", ssaName(s.fn), name[strings.LastIndex(name, "/")+1:]))
				if len(n) > 1 && n[s.order] <= n[otherOrder(s.order)] {
					obls = append(obls, Obl{Key: key, Pos: c.pos(s.app.Pos()), Status: Violation,
						Msg: fmt.Sprintf("appends its own element with the %s while the other members of the family append theirs with the %s: the collected list no longer follows one traversal order, so the positions it is zipped with (capture groups are numbered by opening parenthesis) are shifted for everything nested in this node", s.order, otherOrder(s.order))})
				} else {
					obls = append(obls, Obl{Key: key, Pos: c.pos(s.app.Pos()), Status: OK, Msg: s.order})
				}
			}
		}
		return obls
	},
}

func otherOrder(o string) string {
	if o == "own element first" {
		return "children first"
	}
	return "own element first"
}

func init() { register(ruleD14) }
