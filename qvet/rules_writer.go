package main

// Writer-side ordering / typestate / lock rules for C01, C02: A1, A2, A3, A4, B1.

import (
	"fmt"
	"go/ast"
	"go/token"
	"go/types"
	"golang.org/x/tools/go/ssa"
	"sort"
	"strings"

	"golang.org/x/tools/go/cfg"
)

const (
	pkgWController = modPath + "/writer/controller"
	pkgWService    = modPath + "/writer/service"
	pkgWModel      = modPath + "/writer/model"
	pkgPromise     = modPath + "/writer/utils/promise"
)

func isTestFile(c *Ctx, n ast.Node) bool {
	return strings.HasSuffix(c.Fset.Position(n.Pos()).Filename, "_test.go")
}

// reachableAvoiding: is `to` reachable from `from` in the CFG without entering any block of avoid
// (from itself may be in avoid only if startAfter is false).
func (f *FuncCFG) reachableAvoiding(from, to *cfg.Block, avoid map[*cfg.Block]bool) bool {
	seen := map[*cfg.Block]bool{}
	var walk func(b *cfg.Block) bool
	walk = func(b *cfg.Block) bool {
		if b == to {
			return true
		}
		if seen[b] {
			return false
		}
		seen[b] = true
		for _, s := range b.Succs {
			if avoid[s] && s != to {
				continue
			}
			if walk(s) {
				return true
			}
		}
		return false
	}
	return walk(from)
}

// exitBlocks: blocks without successors (returns, panics, end of body).
func (f *FuncCFG) exitBlocks() []*cfg.Block {
	var out []*cfg.Block
	for _, b := range f.g.Blocks {
		if len(b.Succs) == 0 && f.Reachable(b) {
			out = append(out, b)
		}
	}
	return out
}

// ---------------------------------------------------------------------------------
// A2 acknowledge-after-wait

var ruleA2old = &Rule{
	ID:    "A2old",
	Floor: 9,
	Doc: "acknowledge after wait: in the ingest driver (the function of writer/controller calling doPush): every doPush result is appended to one promise slice; every request field of model.ParserResponse is handed to a doPush; " +
		"the only success return (`return nil`) lies after a loop that ranges over that slice, calls Get on each element and leaves the function on a non-nil error; every other return yields a value guarded non-nil (`x != nil`) or the error just tested",
	Run: func(c *Ctx) []Obl {
		var obls []Obl
		p := c.ByPathLoaded(pkgWController)
		if p == nil {
			return []Obl{{Key: "writer/controller", Pos: "-", Status: Undecided, Msg: "package not loaded"}}
		}
		doPush := p.Types.Scope().Lookup("doPush")
		if doPush == nil {
			return []Obl{{Key: "writer/controller.doPush", Pos: "-", Status: Undecided, Msg: "anchor not found"}}
		}
		for _, fi := range c.Funcs(c.PkgsUnder("writer/controller")) {
			if isTestFile(c, fi.Decl) {
				continue
			}
			info := fi.Pkg.TypesInfo
			var pushes []*ast.CallExpr
			ast.Inspect(fi.Decl.Body, func(n ast.Node) bool {
				if call, ok := n.(*ast.CallExpr); ok && calleeObj(info, call) == doPush {
					pushes = append(pushes, call)
				}
				return true
			})
			if len(pushes) == 0 {
				continue
			}
			name := fi.Name()
			add := func(k string, ok bool, pos token.Pos, msg string) {
				st := OK
				if !ok {
					st = Violation
				} else {
					msg = ""
				}
				obls = append(obls, Obl{Key: name + " " + k, Pos: c.pos(pos), Status: st, Msg: msg})
			}
			// (1) each doPush is an argument of append(P, …) assigned back to P
			var promObj types.Object
			for _, push := range pushes {
				var holder types.Object
				ast.Inspect(fi.Decl.Body, func(n ast.Node) bool {
					as, ok := n.(*ast.AssignStmt)
					if !ok || len(as.Lhs) != 1 || len(as.Rhs) != 1 {
						return true
					}
					app, ok := as.Rhs[0].(*ast.CallExpr)
					if !ok {
						return true
					}
					if id, ok := app.Fun.(*ast.Ident); !ok || id.Name != "append" || len(app.Args) < 2 {
						return true
					}
					for _, a := range app.Args[1:] {
						if ast.Unparen(a) == ast.Expr(push) {
							l, ok1 := as.Lhs[0].(*ast.Ident)
							f, ok2 := app.Args[0].(*ast.Ident)
							if ok1 && ok2 && info.Uses[l] != nil && info.Uses[l] == info.Uses[f] {
								holder = info.Uses[l]
							}
						}
					}
					return true
				})
				field := "?"
				if len(push.Args) > 0 {
					if se, ok := ast.Unparen(push.Args[0]).(*ast.SelectorExpr); ok {
						field = se.Sel.Name
					}
				}
				add("doPush("+field+") result is collected", holder != nil && (promObj == nil || promObj == holder), push.Pos(),
					"the promise returned by doPush is not appended to the slice that is awaited: its rows may fail to insert while the request is acknowledged")
				if holder != nil {
					promObj = holder
				}
			}
			// (2) every request field of ParserResponse is pushed
			if mp := c.ByPathLoaded(pkgWModel); mp != nil {
				if o := mp.Types.Scope().Lookup("ParserResponse"); o != nil {
					st := o.Type().Underlying().(*types.Struct)
					for i := 0; i < st.NumFields(); i++ {
						f := st.Field(i)
						if f.Name() == "Error" {
							continue
						}
						found := false
						for _, push := range pushes {
							if len(push.Args) > 0 {
								if se, ok := ast.Unparen(push.Args[0]).(*ast.SelectorExpr); ok && info.Uses[se.Sel] == f {
									found = true
								}
							}
						}
						add("ParserResponse."+f.Name()+" is pushed", found, fi.Decl.Pos(), "rows parsed into this field are never submitted to an insert service, yet the request is acknowledged")
					}
				}
			}
			// (3) the wait loop
			var wait *ast.RangeStmt
			g := c.cfgOf(fi, fi.Decl.Body)
			ast.Inspect(fi.Decl.Body, func(n ast.Node) bool {
				rs, ok := n.(*ast.RangeStmt)
				if !ok {
					return true
				}
				id, ok := ast.Unparen(rs.X).(*ast.Ident)
				if !ok || promObj == nil || info.Uses[id] != promObj {
					return true
				}
				v, _ := rs.Value.(*ast.Ident)
				if v == nil {
					return true
				}
				ast.Inspect(rs.Body, func(m ast.Node) bool {
					call, ok := m.(*ast.CallExpr)
					if !ok {
						return true
					}
					se, ok := ast.Unparen(call.Fun).(*ast.SelectorExpr)
					if !ok || se.Sel.Name != "Get" {
						return true
					}
					if rid, ok := ast.Unparen(se.X).(*ast.Ident); ok && info.Uses[rid] == info.Defs[v] && g.SuccessBlock(call) != nil {
						wait = rs
					}
					return true
				})
				return true
			})
			add("waits for every promise", wait != nil, fi.Decl.Pos(), "no loop over the collected promises that calls Get and returns the error")
			// (4) returns
			nRet := 0
			ast.Inspect(fi.Decl.Body, func(n ast.Node) bool {
				if _, ok := n.(*ast.FuncLit); ok {
					return false
				}
				r, ok := n.(*ast.ReturnStmt)
				if !ok || len(r.Results) != 1 {
					return true
				}
				nRet++
				res := ast.Unparen(r.Results[0])
				k := fmt.Sprintf("return #%d (%s)", nRet, c.normText(res))
				if tv, ok := info.Types[res]; ok && tv.IsNil() {
					okPos := wait != nil && r.Pos() > wait.End()
					add(k+" success only after the wait loop", okPos, r.Pos(), "a success return that is not preceded by the wait over all promises acknowledges rows that may never be inserted")
					return true
				}
				// error return: the returned expression must be known non-nil here
				b, _ := g.BlockOf(r)
				guarded := false
				for _, blk := range g.g.Blocks {
					cond, t, _ := condEdges(blk)
					if cond == nil || b == nil {
						continue
					}
					for _, a := range atomsTrueOn(cond) {
						if be, ok := ast.Unparen(a).(*ast.BinaryExpr); ok && be.Op == token.NEQ {
							if tv, ok := info.Types[be.Y]; ok && tv.IsNil() && c.normText(be.X) == c.normText(res) && g.Dominates(t, b) {
								guarded = true
							}
						}
					}
				}
				add(k+" is an error", guarded, r.Pos(), "a return whose value is not known to be a non-nil error may report success before the inserts finished")
				return true
			})
		}
		return obls
	},
}

// ByPathLoaded returns a loaded package by full import path.
func (c *Ctx) ByPathLoaded(path string) *packagesPackage {
	c.Load()
	return c.ByPath[path]
}

// ---------------------------------------------------------------------------------
// A3 success status only after parsing

var ruleA3 = &Rule{
	ID:    "A3",
	Floor: 8,
	Doc: "success status only after parsing: (i) in (*PusherCtx).Do the parse step runs after the PreRequest loop, its error leaves the function, and the PostRequest loop is dominated by its success edge; " +
		"(ii) in writer/controller a function literal that becomes a PreRequest or Parser stage never writes to the ResponseWriter (WriteHeader/Write) — response bytes are written only by PostRequest stages and by the error writer; " +
		"(iii) the parser stages installed by withSimpleParser/withComplexParser return doParse's error unchanged",
	Run: func(c *Ctx) []Obl {
		var obls []Obl
		p, fd := c.FuncDecl("writer/controller", "(*PusherCtx).Do")
		if fd == nil {
			return []Obl{{Key: "writer/controller.(*PusherCtx).Do", Pos: "-", Status: Undecided, Msg: "anchor not found"}}
		}
		_ = p.TypesInfo
		fi := &FuncInfo{Pkg: p, Decl: fd}
		g := c.cfgOf(fi, fd.Body)
		var parseCall *ast.CallExpr
		var pre, post *ast.RangeStmt
		ast.Inspect(fd.Body, func(n ast.Node) bool {
			switch x := n.(type) {
			case *ast.CallExpr:
				if se, ok := ast.Unparen(x.Fun).(*ast.SelectorExpr); ok && se.Sel.Name == "DoParse" {
					parseCall = x
				}
			case *ast.RangeStmt:
				if se, ok := ast.Unparen(x.X).(*ast.SelectorExpr); ok {
					switch se.Sel.Name {
					case "PreRequest":
						pre = x
					case "PostRequest":
						post = x
					}
				}
			}
			return true
		})
		name := fi.Name()
		_, _, _, _ = g, pre, post, parseCall
		// on SSA: the PostRequest list is read only where the parse step's error is known to be nil; the PreRequest list is read
		// before the parse step (the loops themselves may live in a helper that receives the list)
		ok1 := false
		if sf := c.SSAFunc("writer/controller", "(*PusherCtx).Do"); sf != nil {
			var parse *ssa.Call
			var preLoads, postLoads []ssa.Instruction
			for _, b := range sf.Blocks {
				for _, ins := range b.Instrs {
					switch x := ins.(type) {
					case *ssa.Call:
						if sc := x.Common().StaticCallee(); sc != nil && sc.Name() == "DoParse" {
							parse = x
						}
					case *ssa.UnOp:
						if fa, ok := x.X.(*ssa.FieldAddr); ok && x.Op == token.MUL {
							switch fieldNameOf(fa.X.Type(), fa.Field) {
							case "PreRequest":
								preLoads = append(preLoads, x)
							case "PostRequest":
								postLoads = append(postLoads, x)
							}
						}
					}
				}
			}
			if parse != nil && len(preLoads) > 0 && len(postLoads) > 0 {
				ns := errNilSucc(parse)
				ok1 = ns != nil && len(ns.Preds) == 1
				for _, l := range postLoads {
					if ns == nil || !(ns == l.Block() || ns.Dominates(l.Block())) {
						ok1 = false
					}
				}
				for _, l := range preLoads {
					if !before(l, parse) {
						ok1 = false
					}
				}
			}
		}
		st, msg := OK, ""
		if !ok1 {
			st, msg = Violation, "PostRequest stages (which write the success status) are not confined to the success edge of the parse step"
		}
		obls = append(obls, Obl{Key: name + " PreRequest → DoParse → (error ⇒ return) → PostRequest", Pos: c.pos(fd.Pos()), Status: st, Msg: msg})

		// (ii) roles of function literals
		for _, f := range c.Funcs(c.PkgsUnder("writer/controller")) {
			if isTestFile(c, f.Decl) {
				continue
			}
			inf := f.Pkg.TypesInfo
			nth := 0
			var visit func(n ast.Node, role string)
			visit = func(n ast.Node, role string) {
				ast.Inspect(n, func(m ast.Node) bool {
					switch x := m.(type) {
					case *ast.CallExpr:
						callee := calleeObj(inf, x)
						cn := ""
						if callee != nil && objPkgPath(callee) == pkgWController {
							cn = callee.Name()
						}
						argRole := ""
						switch cn {
						case "WithPreRequest", "withParserContext":
							argRole = "pre"
						case "withPostRequest":
							argRole = "post"
						}
						if id, ok := x.Fun.(*ast.Ident); ok && id.Name == "append" && len(x.Args) >= 2 {
							if se, ok := ast.Unparen(x.Args[0]).(*ast.SelectorExpr); ok {
								switch se.Sel.Name {
								case "PreRequest":
									argRole = "pre"
								case "PostRequest":
									argRole = "post"
								}
							}
						}
						if argRole != "" {
							for _, a := range x.Args {
								if fl, ok := ast.Unparen(a).(*ast.FuncLit); ok {
									visit(fl.Body, argRole)
								} else {
									visit(a, role)
								}
							}
							visit(x.Fun, role)
							return false
						}
						// response write?
						if se, ok := ast.Unparen(x.Fun).(*ast.SelectorExpr); ok && (se.Sel.Name == "WriteHeader" || se.Sel.Name == "Write") {
							if tv, ok := inf.Types[se.X]; ok && isHTTPResponseWriter(tv.Type) {
								nth++
								key := fmt.Sprintf("%s response write #%d (%s) in %s stage", f.Name(), nth, se.Sel.Name, orStr(role, "plain"))
								switch role {
								case "pre", "parser":
									obls = append(obls, Obl{Key: key, Pos: c.pos(x.Pos()), Status: Violation, Msg: "a stage that runs before/while the body is parsed writes the response: the client can be told success before any row was inserted"})
								default:
									obls = append(obls, Obl{Key: key, Pos: c.pos(x.Pos()), Status: OK})
								}
							}
						}
					case *ast.AssignStmt:
						// ctx.Parser[k] = func literal
						for i, lh := range x.Lhs {
							if ix, ok := lh.(*ast.IndexExpr); ok && i < len(x.Rhs) {
								if se, ok := ast.Unparen(ix.X).(*ast.SelectorExpr); ok && se.Sel.Name == "Parser" {
									if fl, ok := ast.Unparen(x.Rhs[i]).(*ast.FuncLit); ok {
										visit(fl.Body, "parser")
										// (iii) the literal returns doParse(...) directly
										direct := false
										ast.Inspect(fl.Body, func(k ast.Node) bool {
											if r, ok := k.(*ast.ReturnStmt); ok && len(r.Results) == 1 {
												if call, ok := r.Results[0].(*ast.CallExpr); ok {
													if o := calleeObj(inf, call); o != nil && o.Name() == "doParse" {
														direct = true
													}
												}
											}
											return true
										})
										s, m := OK, ""
										if !direct {
											s, m = Violation, "the parser stage does not return doParse's error unchanged"
										}
										obls = append(obls, Obl{Key: f.Name() + " parser stage returns doParse(…)", Pos: c.pos(fl.Pos()), Status: s, Msg: m})
										return false
									}
								}
							}
						}
					}
					return true
				})
			}
			role := ""
			if f.Decl.Name.Name == "writeErrorResponse" || f.Decl.Name.Name == "ErrorHandler" {
				role = "error-writer"
			}
			visit(f.Decl.Body, role)
		}
		// package-level vars initialised with WithPreRequest(func…)
		for _, pk := range c.PkgsUnder("writer/controller") {
			for _, file := range pk.Syntax {
				if isTestFile(c, file) {
					continue
				}
				for _, d := range file.Decls {
					gd, ok := d.(*ast.GenDecl)
					if !ok || gd.Tok != token.VAR {
						continue
					}
					for _, sp := range gd.Specs {
						vs := sp.(*ast.ValueSpec)
						for i, v := range vs.Values {
							call, ok := v.(*ast.CallExpr)
							if !ok {
								continue
							}
							if o := calleeObj(pk.TypesInfo, call); o != nil && (o.Name() == "WithPreRequest" || o.Name() == "withParserContext") {
								for _, a := range call.Args {
									if fl, ok := a.(*ast.FuncLit); ok {
										n := 0
										ast.Inspect(fl.Body, func(m ast.Node) bool {
											if x, ok := m.(*ast.CallExpr); ok {
												if se, ok := ast.Unparen(x.Fun).(*ast.SelectorExpr); ok && (se.Sel.Name == "WriteHeader" || se.Sel.Name == "Write") {
													if tv, ok := pk.TypesInfo.Types[se.X]; ok && isHTTPResponseWriter(tv.Type) {
														n++
													}
												}
											}
											return true
										})
										s, m := OK, ""
										if n > 0 {
											s, m = Violation, "a PreRequest stage writes the response"
										}
										obls = append(obls, Obl{Key: fmt.Sprintf("writer/controller var %s PreRequest stage writes nothing", vs.Names[i].Name), Pos: c.pos(fl.Pos()), Status: s, Msg: m})
									}
								}
							}
						}
					}
				}
			}
		}
		return obls
	},
}

func orStr(a, b string) string {
	if a == "" {
		return b
	}
	return a
}

func isHTTPResponseWriter(t types.Type) bool {
	n := namedOf(t)
	return n != nil && n.Obj().Pkg() != nil && n.Obj().Pkg().Path() == "net/http" && n.Obj().Name() == "ResponseWriter"
}

// ---------------------------------------------------------------------------------
// A4 batch outcome = INSERT outcome

var ruleA4old = &Rule{
	ID:    "A4old",
	Floor: 7,
	Doc: "batch outcome is the INSERT outcome: in the flush routine (the method of writer/service calling IChClient.Do): the error variable assigned from Do reaches the completer closure call on every path from Do to the function exit, unmodified; " +
		"the completer ranges over a copy of the swapped portion's promise list and calls Done with its own parameter; the block sent is built from the same portion's columns; the portion comes from swapBuffers; " +
		"in doPush the promise is completed with the result of retry.Do, whose function returns the request promise's error unchanged when it is non-nil",
	Run: func(c *Ctx) []Obl {
		var obls []Obl
		for _, fi := range c.Funcs(c.PkgsUnder("writer/service")) {
			if isTestFile(c, fi.Decl) {
				continue
			}
			info := fi.Pkg.TypesInfo
			var doCall *ast.CallExpr
			ast.Inspect(fi.Decl.Body, func(n ast.Node) bool {
				call, ok := n.(*ast.CallExpr)
				if !ok {
					return true
				}
				se, ok := ast.Unparen(call.Fun).(*ast.SelectorExpr)
				if !ok || se.Sel.Name != "Do" || len(call.Args) != 2 {
					return true
				}
				if tv, ok := info.Types[call.Args[1]]; ok {
					if n := namedOf(tv.Type); n != nil && n.Obj().Name() == "Query" && strings.Contains(n.Obj().Pkg().Path(), "ch-go") {
						doCall = call
					}
				}
				return true
			})
			if doCall == nil {
				continue
			}
			name := fi.Name()
			add := func(k string, ok bool, pos token.Pos, msg string) {
				st := OK
				if !ok {
					st = Violation
				} else {
					msg = ""
				}
				obls = append(obls, Obl{Key: name + " " + k, Pos: c.pos(pos), Status: st, Msg: msg})
			}
			g := c.cfgOf(fi, fi.Decl.Body)
			errObj, doStmt := g.errVarOfCall(doCall)
			// completer closure: a local func literal whose body ranges and calls .Done(_, param)
			var completer types.Object
			var completerLit *ast.FuncLit
			var waitingObj types.Object
			ast.Inspect(fi.Decl.Body, func(n ast.Node) bool {
				as, ok := n.(*ast.AssignStmt)
				if !ok || len(as.Lhs) != 1 || len(as.Rhs) != 1 {
					return true
				}
				fl, ok := as.Rhs[0].(*ast.FuncLit)
				if !ok || fl.Type.Params.NumFields() != 1 {
					return true
				}
				var param types.Object
				if len(fl.Type.Params.List[0].Names) == 1 {
					param = info.Defs[fl.Type.Params.List[0].Names[0]]
				}
				good := false
				ast.Inspect(fl.Body, func(m ast.Node) bool {
					rs, ok := m.(*ast.RangeStmt)
					if !ok {
						return true
					}
					v, _ := rs.Value.(*ast.Ident)
					ast.Inspect(rs.Body, func(k ast.Node) bool {
						call, ok := k.(*ast.CallExpr)
						if !ok {
							return true
						}
						se, ok := ast.Unparen(call.Fun).(*ast.SelectorExpr)
						if !ok || se.Sel.Name != "Done" || len(call.Args) != 2 {
							return true
						}
						rid, ok1 := ast.Unparen(se.X).(*ast.Ident)
						aid, ok2 := ast.Unparen(call.Args[1]).(*ast.Ident)
						if ok1 && ok2 && v != nil && info.Uses[rid] == info.Defs[v] && info.Uses[aid] == param {
							good = true
							if wid, ok := ast.Unparen(rs.X).(*ast.Ident); ok {
								waitingObj = info.Uses[wid]
							}
						}
						return true
					})
					return true
				})
				if good {
					if id, ok := as.Lhs[0].(*ast.Ident); ok {
						completer = info.Defs[id]
						completerLit = fl
					}
				}
				return true
			})
			add("completer resolves every waiting promise with its argument", completer != nil, fi.Decl.Pos(), "no closure that ranges over the waiting promises and calls Done(_, err) with its own parameter")
			if completer == nil || errObj == nil {
				add("INSERT error is kept", errObj != nil, doCall.Pos(), "the error of client.Do is not assigned to a variable")
				continue
			}
			_ = completerLit
			// the completer call
			var relCall *ast.CallExpr
			ast.Inspect(fi.Decl.Body, func(n ast.Node) bool {
				if call, ok := n.(*ast.CallExpr); ok {
					if id, ok := call.Fun.(*ast.Ident); ok && info.Uses[id] == completer {
						relCall = call
					}
				}
				return true
			})
			okArg := false
			if relCall != nil && len(relCall.Args) == 1 {
				if id, ok := ast.Unparen(relCall.Args[0]).(*ast.Ident); ok && info.Uses[id] == errObj {
					okArg = true
				}
			}
			add("completer is called with the INSERT error", okArg, doCall.Pos(), "the waiting requests must be resolved with the very error value returned by client.Do (not nil, not another error)")
			if relCall != nil {
				db, di := g.BlockOf(doStmt)
				rb, ri := g.BlockOf(relCall)
				// every path from Do to an exit passes the completer call; err not reassigned in between
				must := db != nil && rb != nil
				if must && db != rb {
					for _, ex := range g.exitBlocks() {
						if ex != rb && g.reachableAvoiding(db, ex, map[*cfg.Block]bool{rb: true}) {
							must = false
						}
					}
				} else if must {
					must = di < ri
				}
				reassigned := false
				ast.Inspect(fi.Decl.Body, func(n ast.Node) bool {
					if as, ok := n.(*ast.AssignStmt); ok && as.Pos() > doStmt.End() && as.End() < relCall.Pos() {
						for _, lh := range as.Lhs {
							if id, ok := lh.(*ast.Ident); ok && info.Uses[id] == errObj {
								reassigned = true
							}
						}
					}
					return true
				})
				add("every path after the INSERT resolves the waiting requests", must && !reassigned, relCall.Pos(), "a path from client.Do to the function exit skips the completer (requests wait forever) or overwrites the error first")
			}
			// waiting = copy of portion.res ; input from portion.cols ; portion from swapBuffers
			var portionObj types.Object
			okWaiting, okCols, okSwap := false, false, false
			ast.Inspect(fi.Decl.Body, func(n ast.Node) bool {
				switch x := n.(type) {
				case *ast.AssignStmt:
					if len(x.Rhs) == 1 {
						if call, ok := x.Rhs[0].(*ast.CallExpr); ok {
							if se, ok := ast.Unparen(call.Fun).(*ast.SelectorExpr); ok && se.Sel.Name == "swapBuffers" && len(x.Lhs) >= 1 {
								if id, ok := x.Lhs[0].(*ast.Ident); ok {
									portionObj = info.Defs[id]
									okSwap = true
								}
							}
							if id, ok := call.Fun.(*ast.Ident); ok && id.Name == "append" && call.Ellipsis.IsValid() && len(call.Args) == 2 {
								if l, ok := x.Lhs[0].(*ast.Ident); ok && info.Defs[l] == waitingObj {
									if se, ok := ast.Unparen(call.Args[1]).(*ast.SelectorExpr); ok && se.Sel.Name == "res" {
										if pid, ok := ast.Unparen(se.X).(*ast.Ident); ok && info.Uses[pid] == portionObj {
											okWaiting = true
										}
									}
								}
							}
						}
					}
				case *ast.RangeStmt:
					if se, ok := ast.Unparen(x.X).(*ast.SelectorExpr); ok && se.Sel.Name == "cols" {
						if pid, ok := ast.Unparen(se.X).(*ast.Ident); ok && info.Uses[pid] == portionObj {
							okCols = true
						}
					}
				}
				return true
			})
			add("portion comes from swapBuffers", okSwap, fi.Decl.Pos(), "")
			add("waiting list is a copy of the swapped portion's promises", okWaiting, fi.Decl.Pos(), "the promises resolved with the INSERT outcome must be exactly those swapped out together with the columns that are sent")
			add("block is built from the swapped portion's columns", okCols, fi.Decl.Pos(), "the block sent must be built from the columns swapped out together with the promises")
		}
		// doPush: Done(0, err) with err := retry.Do(func() error { … return reqErr … })
		if p, fd := c.FuncDecl("writer/controller", "doPush"); fd != nil {
			info := p.TypesInfo
			fi := &FuncInfo{Pkg: p, Decl: fd}
			okDone, okRet := false, false
			ast.Inspect(fd.Body, func(n ast.Node) bool {
				as, ok := n.(*ast.AssignStmt)
				if !ok || len(as.Rhs) != 1 || len(as.Lhs) != 1 {
					return true
				}
				call, ok := as.Rhs[0].(*ast.CallExpr)
				if !ok {
					return true
				}
				o := calleeObj(info, call)
				if o == nil || o.Name() != "Do" || !strings.Contains(objPkgPath(o), "retry") {
					return true
				}
				errID, _ := as.Lhs[0].(*ast.Ident)
				if errID == nil {
					return true
				}
				errObj := info.Defs[errID]
				// p.Done(0, err) follows
				ast.Inspect(fd.Body, func(m ast.Node) bool {
					if dc, ok := m.(*ast.CallExpr); ok && dc.Pos() > as.End() {
						if se, ok := ast.Unparen(dc.Fun).(*ast.SelectorExpr); ok && se.Sel.Name == "Done" && len(dc.Args) == 2 {
							if id, ok := ast.Unparen(dc.Args[1]).(*ast.Ident); ok && info.Uses[id] == errObj {
								okDone = true
							}
						}
					}
					return true
				})
				// the retried function: `_, reqErr := X.Get(); if reqErr != nil { … return reqErr }`
				if len(call.Args) > 0 {
					if fl, ok := call.Args[0].(*ast.FuncLit); ok {
						g := c.cfgOf(fi, fl.Body)
						ast.Inspect(fl.Body, func(m ast.Node) bool {
							gc, ok := m.(*ast.CallExpr)
							if !ok {
								return true
							}
							if se, ok := ast.Unparen(gc.Fun).(*ast.SelectorExpr); ok && se.Sel.Name == "Get" {
								v, _ := g.errVarOfCall(gc)
								if v == nil {
									return true
								}
								// all returns: either `return v` under v != nil, or `return nil` under v == nil
								good := true
								ast.Inspect(fl.Body, func(k ast.Node) bool {
									if r, ok := k.(*ast.ReturnStmt); ok && len(r.Results) == 1 {
										res := ast.Unparen(r.Results[0])
										if id, ok := res.(*ast.Ident); ok && info.Uses[id] == v {
											return true
										}
										if tv, ok := info.Types[res]; ok && tv.IsNil() {
											if sb := g.SuccessBlock(gc); sb != nil {
												if rb, _ := g.BlockOf(r); rb != nil && g.Dominates(sb, rb) {
													return true
												}
											}
										}
										good = false
									}
									return true
								})
								okRet = good
							}
							return true
						})
					}
				}
				return true
			})
			st := func(b bool) string {
				if b {
					return OK
				}
				return Violation
			}
			obls = append(obls, Obl{Key: fi.Name() + " promise completed with the retry result", Pos: c.pos(fd.Pos()), Status: st(okDone), Msg: "the promise returned to the handler must be resolved with the error of the (retried) insert request"})
			obls = append(obls, Obl{Key: fi.Name() + " retried function returns the request error unchanged", Pos: c.pos(fd.Pos()), Status: st(okRet), Msg: "the function retried must return the insert request's error when it is non-nil and nil only when it is nil"})
		} else {
			obls = append(obls, Obl{Key: "writer/controller.doPush", Pos: "-", Status: Undecided, Msg: "anchor not found"})
		}
		return obls
	},
}

// ---------------------------------------------------------------------------------
// B1 batch fields under the batch lock

var b1Fields = map[string]bool{"columns": true, "size": true, "results": true, "insertCtx": true, "insertCancel": true, "lastSend": true}

// frozen exceptions: function → field → reason
var b1Exceptions = map[string]map[string]string{
	"writer/service.(*InsertServiceV2).Run": {
		"insertCtx": "the select reads the current flush context without the lock by design: it is replaced only under the lock in swapBuffers and a stale context re-arms the loop at worst one tick late",
	},
}

var ruleB1old = &Rule{
	ID:    "B1old",
	Floor: 12,
	Doc: "batch fields under the batch lock: every read or write of InsertServiceV2.columns/size/results/insertCtx/insertCancel/lastSend in a method of the service lies in a region where the service mutex is held " +
		"(mtx.Lock() … mtx.Unlock() in the same statement list, or mtx.Lock(); defer mtx.Unlock() for the rest of the function body, including the func(){ Lock; defer Unlock; … }() idiom); reviewed exceptions are frozen per (function, field)",
	Run: func(c *Ctx) []Obl {
		var obls []Obl
		p := c.ByPathLoaded(pkgWService)
		if p == nil {
			return []Obl{{Key: "writer/service", Pos: "-", Status: Undecided, Msg: "package not loaded"}}
		}
		svcT := p.Types.Scope().Lookup("InsertServiceV2")
		if svcT == nil {
			return []Obl{{Key: "writer/service.InsertServiceV2", Pos: "-", Status: Undecided, Msg: "anchor not found"}}
		}
		for _, fi := range c.Funcs(c.PkgsUnder("writer/service")) {
			if isTestFile(c, fi.Decl) {
				continue
			}
			info := fi.Pkg.TypesInfo
			type acc struct {
				field  string
				pos    token.Pos
				locked bool
			}
			var accs []acc
			isLockCall := func(s ast.Stmt, name string) (bool, bool) { // (is call, deferred)
				var call *ast.CallExpr
				deferred := false
				switch x := s.(type) {
				case *ast.ExprStmt:
					call, _ = x.X.(*ast.CallExpr)
				case *ast.DeferStmt:
					call, deferred = x.Call, true
				}
				if call == nil {
					return false, false
				}
				se, ok := ast.Unparen(call.Fun).(*ast.SelectorExpr)
				if !ok || se.Sel.Name != name {
					return false, false
				}
				if inner, ok := ast.Unparen(se.X).(*ast.SelectorExpr); ok && inner.Sel.Name == "mtx" {
					if tv, ok := info.Types[inner.X]; ok && namedOf(tv.Type) != nil && namedOf(tv.Type).Obj() == svcT {
						return true, deferred
					}
				}
				return false, false
			}
			var scanList func(list []ast.Stmt, locked bool)
			var scanNode func(n ast.Node, locked bool)
			scanNode = func(n ast.Node, locked bool) {
				ast.Inspect(n, func(m ast.Node) bool {
					switch x := m.(type) {
					case *ast.FuncLit:
						scanList(x.Body.List, false) // a closure may run later: it has to take the lock itself
						return false
					case *ast.BlockStmt:
						scanList(x.List, locked)
						return false
					case *ast.CaseClause:
						for _, e := range x.List {
							scanNode(e, locked)
						}
						scanList(x.Body, locked)
						return false
					case *ast.CommClause:
						if x.Comm != nil {
							scanNode(x.Comm, locked)
						}
						scanList(x.Body, locked)
						return false
					case *ast.SelectorExpr:
						if sel, ok := info.Selections[x]; ok && sel.Kind() == types.FieldVal && b1Fields[x.Sel.Name] {
							if nt := namedOf(sel.Recv()); nt != nil && nt.Obj() == svcT {
								accs = append(accs, acc{x.Sel.Name, x.Pos(), locked})
							}
						}
					}
					return true
				})
			}
			scanList = func(list []ast.Stmt, locked bool) {
				for _, s := range list {
					if is, _ := isLockCall(s, "Lock"); is {
						locked = true
						continue
					}
					if is, deferred := isLockCall(s, "Unlock"); is {
						if !deferred {
							locked = false
						}
						continue
					}
					scanNode(s, locked)
				}
			}
			scanList(fi.Decl.Body.List, false)
			if len(accs) == 0 {
				continue
			}
			byField := map[string][]acc{}
			for _, a := range accs {
				byField[a.field] = append(byField[a.field], a)
			}
			var fields []string
			for f := range byField {
				fields = append(fields, f)
			}
			sort.Strings(fields)
			for _, f := range fields {
				unl := 0
				var first token.Pos
				for _, a := range byField[f] {
					if !a.locked {
						unl++
						if first == 0 {
							first = a.pos
						}
					}
				}
				key := fmt.Sprintf("%s field %s", fi.Name(), f)
				if unl == 0 {
					obls = append(obls, Obl{Key: key, Pos: c.pos(byField[f][0].pos), Status: OK, Msg: fmt.Sprintf("%d accesses, all under mtx", len(byField[f]))})
				} else if why, ok := b1Exceptions[fi.Name()][f]; ok {
					obls = append(obls, Obl{Key: key, Pos: c.pos(first), Status: Exception, Msg: why})
				} else {
					obls = append(obls, Obl{Key: key, Pos: c.pos(first), Status: Violation,
						Msg: fmt.Sprintf("%d of %d accesses to the shared batch field are outside the service lock: a concurrent request or flush can interleave (rows of different requests across columns, a promise in a batch that does not carry its rows)", unl, len(byField[f]))})
				}
			}
		}
		return obls
	},
}

func init() { register(ruleA3) }

var _ = ruleB1old

var _ = ruleA2old
var _ = ruleA4old
