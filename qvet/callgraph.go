package main

// Call graph over the module's own SSA (dependencies have no bodies):
//   * CHA graph — sound over-approximation, used to decide that code is dead (unreachable from main);
//   * VTA graph seeded by CHA — more precise, used for path rules (panic reachability, taint);
//   * "external higher-order" edges: a function value passed to a body-less function
//     (mux.HandleFunc, retry.Do, sort.Slice, …) is assumed to be called by it, in the caller's goroutine.

import (
	"go/types"
	"sort"
	"strings"

	"golang.org/x/tools/go/callgraph"
	"golang.org/x/tools/go/callgraph/cha"
	"golang.org/x/tools/go/callgraph/vta"
	"golang.org/x/tools/go/ssa"
	"golang.org/x/tools/go/ssa/ssautil"
)

type CGEdge struct {
	Callee   *ssa.Function
	Site     ssa.CallInstruction // nil for synthetic edges
	Kind     string              // call | go | defer | hof (passed to external higher-order function)
	Fallback bool                // CHA edge used because VTA resolved no callee at this interface call
}

type CallGraph struct {
	prog    *ssa.Program
	funcs   map[*ssa.Function]bool
	chaOut  map[*ssa.Function][]CGEdge
	vtaOut  map[*ssa.Function][]CGEdge
	live    map[*ssa.Function]bool // CHA-reachable from main.main and package initialisers
	nCHA    int
	nVTA    int
	nHOF    int
	byObj   map[*types.Func]*ssa.Function
	mainPkg *ssa.Package
}

func (c *Ctx) CG() *CallGraph {
	if c.cg != nil {
		return c.cg
	}
	prog := c.SSA()
	g := &CallGraph{prog: prog, funcs: ssautil.AllFunctions(prog), chaOut: map[*ssa.Function][]CGEdge{}, vtaOut: map[*ssa.Function][]CGEdge{},
		live: map[*ssa.Function]bool{}, byObj: map[*types.Func]*ssa.Function{}}
	for fn := range g.funcs {
		if obj, ok := fn.Object().(*types.Func); ok && fn.Synthetic == "" {
			g.byObj[obj] = fn
		}
	}
	chaG := cha.CallGraph(prog)
	conv := func(cg *callgraph.Graph, out map[*ssa.Function][]CGEdge) int {
		n := 0
		for fn, node := range cg.Nodes {
			if fn == nil {
				continue
			}
			for _, e := range node.Out {
				if e.Callee == nil || e.Callee.Func == nil {
					continue
				}
				kind := "call"
				switch e.Site.(type) {
				case *ssa.Go:
					kind = "go"
				case *ssa.Defer:
					kind = "defer"
				}
				out[fn] = append(out[fn], CGEdge{Callee: e.Callee.Func, Site: e.Site, Kind: kind})
				n++
			}
		}
		return n
	}
	g.nCHA = conv(chaG, g.chaOut)
	vtaG := vta.CallGraph(g.funcs, chaG)
	g.nVTA = conv(vtaG, g.vtaOut)
	// hybrid: VTA cannot resolve an interface call whose receiver came back from a dependency (context.Value, sync.Map …);
	// for call sites where VTA found no callee fall back to the CHA callees (sound), keeping VTA's precision elsewhere.
	for fn, chaEdges := range g.chaOut {
		has := map[ssa.Instruction]bool{}
		for _, e := range g.vtaOut[fn] {
			has[e.Site] = true
		}
		for _, e := range chaEdges {
			if e.Site != nil && !has[e.Site] && e.Site.Common().IsInvoke() {
				e.Fallback = true
				g.vtaOut[fn] = append(g.vtaOut[fn], e)
			}
		}
	}
	// external higher-order edges
	for fn := range g.funcs {
		for _, b := range fn.Blocks {
			for _, ins := range b.Instrs {
				ci, ok := ins.(ssa.CallInstruction)
				if !ok {
					continue
				}
				com := ci.Common()
				external := false
				if sc := com.StaticCallee(); sc != nil {
					external = len(sc.Blocks) == 0
				} else if com.IsInvoke() {
					// interface method of a type declared outside the module
					if m := com.Method; m != nil && m.Pkg() != nil && !strings.HasPrefix(m.Pkg().Path(), modPath) {
						external = true
					}
				}
				if !external {
					continue
				}
				kind := "hof"
				if _, isGo := ins.(*ssa.Go); isGo {
					kind = "go-hof"
				}
				for _, a := range com.Args {
					for _, target := range funcValues(a, 0) {
						e := CGEdge{Callee: target, Site: ci, Kind: kind}
						g.chaOut[fn] = append(g.chaOut[fn], e)
						g.vtaOut[fn] = append(g.vtaOut[fn], e)
						g.nHOF++
					}
				}
			}
		}
	}
	// reference edges (liveness only): a function that takes the address of G (closure creation, function used as a value)
	// may hand it to code that calls it later; a module value converted to an interface declared outside the module may have
	// that interface's methods called by the dependency.
	refOut := map[*ssa.Function][]*ssa.Function{}
	for fn := range g.funcs {
		for _, b := range fn.Blocks {
			for _, ins := range b.Instrs {
				var ops [16]*ssa.Value
				for _, op := range ins.Operands(ops[:0]) {
					if op == nil || *op == nil {
						continue
					}
					if tf, ok := (*op).(*ssa.Function); ok {
						if ci, isCall := ins.(ssa.CallInstruction); isCall && ci.Common().Value == *op {
							continue // static call position
						}
						refOut[fn] = append(refOut[fn], tf)
					}
				}
				if mc, ok := ins.(*ssa.MakeClosure); ok {
					if tf, ok := mc.Fn.(*ssa.Function); ok {
						refOut[fn] = append(refOut[fn], tf)
					}
				}
				if mi, ok := ins.(*ssa.MakeInterface); ok {
					// every method of the concrete type may be invoked by a dependency through some interface
					ms := prog.MethodSets.MethodSet(mi.X.Type())
					for i := 0; i < ms.Len(); i++ {
						if m := prog.MethodValue(ms.At(i)); m != nil && m.Pkg != nil && strings.HasPrefix(m.Pkg.Pkg.Path(), modPath) {
							if !types.IsInterface(mi.Type()) {
								continue
							}
							it := mi.Type().Underlying().(*types.Interface)
							if it.NumMethods() == 0 || hasMethodNamed(it, m.Name()) {
								refOut[fn] = append(refOut[fn], m)
							}
						}
					}
				}
			}
		}
	}
	addrTaken := map[*ssa.Function]bool{}
	for _, ts := range refOut {
		for _, t := range ts {
			addrTaken[t] = true
			if o := t.Origin(); o != nil {
				addrTaken[o] = true
			}
		}
	}
	// liveness
	var roots []*ssa.Function
	for _, p := range prog.AllPackages() {
		if p.Pkg.Path() == modPath {
			g.mainPkg = p
			if m := p.Func("main"); m != nil {
				roots = append(roots, m)
			}
		}
		if strings.HasPrefix(p.Pkg.Path(), modPath) {
			if in := p.Func("init"); in != nil {
				roots = append(roots, in)
			}
		}
	}
	// RTA-style refinement of CHA: a method of a module-declared named type is entered through dynamic dispatch only if a
	// value of that type is created somewhere in live code (composite literal / new / var / conversion to an interface).
	inst := map[*types.Named]bool{}
	noteType := func(t types.Type) {
		var visit func(t types.Type, d int)
		visit = func(t types.Type, d int) {
			if d > 3 {
				return
			}
			switch x := t.(type) {
			case *types.Pointer:
				visit(x.Elem(), d+1)
			case *types.Named:
				if !inst[x.Origin()] {
					inst[x.Origin()] = true
					// embedded structs are created with their container
					if st, ok := x.Underlying().(*types.Struct); ok {
						for i := 0; i < st.NumFields(); i++ {
							if st.Field(i).Embedded() {
								visit(st.Field(i).Type(), d+1)
							}
						}
					}
				}
			case *types.Slice:
				visit(x.Elem(), d+1)
			case *types.Array:
				visit(x.Elem(), d+1)
			case *types.Map:
				visit(x.Elem(), d+1)
			}
		}
		visit(t, 0)
	}
	recvNamed := func(fn *ssa.Function) *types.Named {
		if fn.Signature.Recv() == nil {
			return nil
		}
		if n := namedOf(fn.Signature.Recv().Type()); n != nil && n.Obj().Pkg() != nil && strings.HasPrefix(n.Obj().Pkg().Path(), modPath) {
			return n.Origin()
		}
		return nil
	}
	scanned := map[*ssa.Function]bool{}
	pendingByType := map[*types.Named][]*ssa.Function{}
	pendingByParent := map[*ssa.Function][]*ssa.Function{}
	var walk func(fn *ssa.Function, dynamic bool)
	walk = func(fn *ssa.Function, dynamic bool) {
		if g.live[fn] {
			return
		}
		if dynamic {
			if rn := recvNamed(fn); rn != nil && !inst[rn] {
				pendingByType[rn] = append(pendingByType[rn], fn)
				return
			}
			// an anonymous function exists only once its enclosing function has run
			if par := fn.Parent(); par != nil && !g.live[par] {
				pendingByParent[par] = append(pendingByParent[par], fn)
				return
			}
		}
		g.live[fn] = true
		if o := fn.Origin(); o != nil {
			g.live[o] = true
		}
		if !scanned[fn] {
			scanned[fn] = true
			for _, b := range fn.Blocks {
				for _, ins := range b.Instrs {
					switch x := ins.(type) {
					case *ssa.Alloc:
						noteType(x.Type())
					case *ssa.MakeInterface:
						noteType(x.X.Type())
					case *ssa.MakeSlice:
						noteType(x.Type())
					case *ssa.MakeMap:
						noteType(x.Type())
					case *ssa.Convert:
						noteType(x.Type())
					}
				}
			}
			for _, p := range fn.Params {
				_ = p
			}
		}
		for _, e := range g.chaOut[fn] {
			dyn := e.Site != nil && e.Site.Common().StaticCallee() == nil && e.Kind != "hof" && e.Kind != "go-hof"
			// CHA resolves a call through a function value to every function of that signature; only a function that is used
			// as a value somewhere can be the one called (an unreferenced function of the same signature stays dead)
			if dyn && !e.Site.Common().IsInvoke() && e.Callee.Signature.Recv() == nil && e.Callee.Parent() == nil && !addrTaken[e.Callee] {
				continue
			}
			walk(e.Callee, dyn)
		}
		for _, t := range refOut[fn] {
			walk(t, false)
		}
	}
	for _, r := range roots {
		walk(r, false)
	}
	for changed := true; changed; {
		changed = false
		for t, fns := range pendingByType {
			if inst[t] && len(fns) > 0 {
				pendingByType[t] = nil
				for _, fn := range fns {
					walk(fn, false)
				}
				changed = true
			}
		}
		for par, fns := range pendingByParent {
			if g.live[par] && len(fns) > 0 {
				pendingByParent[par] = nil
				for _, fn := range fns {
					walk(fn, false)
				}
				changed = true
			}
		}
	}
	c.cg = g
	return g
}

// funcValues: the functions a value may denote when it is syntactically a function, closure, bound method or a conversion of one.
func funcValues(v ssa.Value, depth int) []*ssa.Function {
	if depth > 4 {
		return nil
	}
	switch x := v.(type) {
	case *ssa.Function:
		return []*ssa.Function{x}
	case *ssa.MakeClosure:
		if fn, ok := x.Fn.(*ssa.Function); ok {
			return []*ssa.Function{fn}
		}
	case *ssa.ChangeType:
		return funcValues(x.X, depth+1)
	case *ssa.MakeInterface:
		return funcValues(x.X, depth+1)
	case *ssa.Phi:
		var out []*ssa.Function
		for _, e := range x.Edges {
			out = append(out, funcValues(e, depth+1)...)
		}
		return out
	}
	return nil
}

func (c *Ctx) cgStats() map[string]interface{} {
	if c.cg == nil {
		return nil
	}
	nl := 0
	for range c.cg.live {
		nl++
	}
	return map[string]interface{}{"functions": len(c.cg.funcs), "cha_edges": c.cg.nCHA, "vta_edges": c.cg.nVTA, "higher_order_edges_to_external": c.cg.nHOF, "live_functions": nl,
		"note": "SSA bodies for the module only; dependencies are body-less; function values passed to body-less callees are assumed called"}
}

func (c *Ctx) countFuncs() int {
	if c.cg != nil {
		return len(c.cg.funcs)
	}
	n := 0
	for range ssautil.AllFunctions(c.prog) {
		n++
	}
	return n
}

// Live reports whether the declared function is reachable from main (CHA). Unknown objects are live.
func (c *Ctx) Live(obj types.Object) bool {
	fn, ok := obj.(*types.Func)
	if !ok {
		return true
	}
	g := c.CG()
	sf := g.byObj[fn]
	if sf == nil {
		return true
	}
	return g.live[sf]
}

func (c *Ctx) LiveFunc(fi *FuncInfo) bool {
	return c.Live(fi.Pkg.TypesInfo.Defs[fi.Decl.Name])
}

func ssaName(fn *ssa.Function) string {
	if fn == nil {
		return "?"
	}
	s := fn.String()
	s = strings.ReplaceAll(s, modPath+"/", "")
	s = strings.ReplaceAll(s, modPath, "")
	return s
}

func sortedFuncs(m map[*ssa.Function]bool) []*ssa.Function {
	var out []*ssa.Function
	for f := range m {
		out = append(out, f)
	}
	sort.Slice(out, func(i, j int) bool { return out[i].String() < out[j].String() })
	return out
}

func hasMethodNamed(it *types.Interface, name string) bool {
	for i := 0; i < it.NumMethods(); i++ {
		if it.Method(i).Name() == name {
			return true
		}
	}
	return false
}
