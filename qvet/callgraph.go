package main

type CallGraph struct{}

func (c *Ctx) cgStats() map[string]interface{} { return nil }
func (c *Ctx) countFuncs() int                 { return 0 }
