package main

// D12 (C11): positions kept in an interning table and positions stored in plan nodes use one base.

import (
	"fmt"
	"go/token"
	"sort"
	"strings"

	"golang.org/x/tools/go/ssa"
)

// posClass: an integer known as len(S) + off for a slice field S (field-based).
type posClass struct {
	slice string
	off   int64
	ok    bool
}

type posTyper struct {
	mapCls map[string]posClass // map field → class of the values stored into it (ok=false when they disagree / are unknown)
	mapSet map[string]bool
}

func fieldOfLoad(v ssa.Value) (string, bool) {
	if ld, ok := v.(*ssa.UnOp); ok && ld.Op == token.MUL {
		if fa, ok := ld.X.(*ssa.FieldAddr); ok {
			return fieldKey(fa.X.Type(), fa.Field), true
		}
	}
	return "", false
}

func (t *posTyper) classOf(v ssa.Value, depth int) posClass {
	if v == nil || depth > 8 {
		return posClass{}
	}
	switch x := v.(type) {
	case *ssa.Call:
		if bi, ok := x.Common().Value.(*ssa.Builtin); ok && bi.Name() == "len" && len(x.Common().Args) == 1 {
			if f, ok := fieldOfLoad(x.Common().Args[0]); ok {
				return posClass{f, 0, true}
			}
		}
		// a helper that hands out positions: the class all its typed returns agree on
		if sc := x.Common().StaticCallee(); sc != nil && isModuleFn(sc) && sc.Signature.Results().Len() == 1 {
			var c posClass
			n := 0
			for _, r := range returnsOf(sc) {
				if len(r.Results) != 1 {
					return posClass{}
				}
				if _, isK := r.Results[0].(*ssa.Const); isK {
					continue
				}
				rc := t.classOf(r.Results[0], depth+1)
				if !rc.ok || (n > 0 && rc != c) {
					return posClass{}
				}
				c = rc
				n++
			}
			if n > 0 {
				return c
			}
		}
	case *ssa.BinOp:
		if k, ok := x.Y.(*ssa.Const); ok {
			if n, ok := int64Of(k); ok && (x.Op == token.ADD || x.Op == token.SUB) {
				c := t.classOf(x.X, depth+1)
				if c.ok {
					if x.Op == token.SUB {
						n = -n
					}
					c.off += n
					return c
				}
			}
		}
	case *ssa.Convert:
		return t.classOf(x.X, depth+1)
	case *ssa.Lookup:
		if f, ok := fieldOfLoad(x.X); ok && !x.CommaOk {
			return t.mapCls[f]
		}
	case *ssa.Extract:
		if lk, ok := x.Tuple.(*ssa.Lookup); ok && lk.CommaOk && x.Index == 0 {
			if f, ok := fieldOfLoad(lk.X); ok {
				return t.mapCls[f]
			}
		}
	case *ssa.Phi:
		var c posClass
		for i, e := range x.Edges {
			ec := t.classOf(e, depth+1)
			if !ec.ok || (i > 0 && ec != c) {
				return posClass{}
			}
			c = ec
		}
		return c
	}
	return posClass{}
}

var ruleD12 = &Rule{
	ID:    "D12",
	Floor: 1,
	Doc: "one base for positions (SSA, field-based offset typing): in the TraceQL transpiler an integer is typed `len(S)+k` when it is len of a slice field S plus / minus constants, or a value read from a map field all of whose stores have one such type (an interning table that keeps the position of a term, 1-based so that 0 can mean absent). " +
		"All typed values stored into one struct field (the bit a plan node tests) must have the same offset k for the same S: a node created for a repeated term that takes the table's value as it is, where the node of the first occurrence takes len(S)-1, tests the bit of another term. Constants (sentinels) are ignored",
	Run: func(c *Ctx) []Obl {
		funcs := liveModuleFuncs(c, "reader/traceql")
		t := &posTyper{mapCls: map[string]posClass{}, mapSet: map[string]bool{}}
		// classes of the interning tables: two passes so that tables fed from tables settle
		for pass := 0; pass < 2; pass++ {
			acc := map[string]posClass{}
			bad := map[string]bool{}
			for _, fn := range funcs {
				for _, b := range fn.Blocks {
					for _, ins := range b.Instrs {
						mu, ok := ins.(*ssa.MapUpdate)
						if !ok {
							continue
						}
						f, ok := fieldOfLoad(mu.Map)
						if !ok {
							continue
						}
						cl := t.classOf(mu.Value, 0)
						if !cl.ok {
							bad[f] = true
							continue
						}
						if prev, seen := acc[f]; seen && prev != cl {
							bad[f] = true
						}
						acc[f] = cl
					}
				}
			}
			for f, cl := range acc {
				if !bad[f] {
					t.mapCls[f] = cl
				}
			}
		}
		type storeSite struct {
			cl  posClass
			pos token.Pos
			fn  *ssa.Function
		}
		byField := map[string][]storeSite{}
		for _, fn := range funcs {
			for _, b := range fn.Blocks {
				for _, ins := range b.Instrs {
					st, ok := ins.(*ssa.Store)
					if !ok {
						continue
					}
					fa, ok := st.Addr.(*ssa.FieldAddr)
					if !ok {
						continue
					}
					cl := t.classOf(st.Val, 0)
					if !cl.ok {
						continue
					}
					k := fieldKey(fa.X.Type(), fa.Field)
					byField[k] = append(byField[k], storeSite{cl, st.Pos(), fn})
				}
			}
		}
		// the same for the results of a function: a helper handing out positions
		for _, fn := range funcs {
			if fn.Signature.Results().Len() != 1 {
				continue
			}
			for _, r := range returnsOf(fn) {
				if len(r.Results) != 1 {
					continue
				}
				cl := t.classOf(r.Results[0], 0)
				if !cl.ok {
					continue
				}
				k := "result of " + ssaName(fn)
				byField[k] = append(byField[k], storeSite{cl, r.Pos(), fn})
			}
		}
		var obls []Obl
		var keys []string
		for k := range byField {
			keys = append(keys, k)
		}
		sort.Strings(keys)
		for _, k := range keys {
			sites := byField[k]
			if len(sites) < 2 {
				continue
			}
			sort.Slice(sites, func(i, j int) bool { return sites[i].pos < sites[j].pos })
			agree := true
			var desc []string
			for _, s := range sites {
				if s.cl.slice == sites[0].cl.slice && s.cl.off != sites[0].cl.off {
					agree = false
				}
				desc = append(desc, fmt.Sprintf("len(%s)%+d at %s", s.cl.slice[strings.LastIndex(s.cl.slice, ".")+1:], s.cl.off, c.pos(s.pos)))
			}
			key := "positions stored in " + rel(k) + " use one base"
			if agree {
				obls = append(obls, Obl{Key: key, Pos: c.pos(sites[0].pos), Status: OK, Msg: strings.Join(desc, "; ")})
			} else {
				obls = append(obls, Obl{Key: key, Pos: c.pos(sites[0].pos), Status: Violation,
					Msg: "the field receives positions with different offsets: " + strings.Join(desc, "; ") + " — a node built from the interning table's value and a node built from the list length denote different elements for the same term"})
			}
		}
		if len(obls) == 0 {
			obls = append(obls, Obl{Key: "position-typed fields", Pos: "-", Status: Undecided, Msg: "no struct field of reader/traceql receives two position-typed values: the interning table of the condition planner is no longer recognised"})
		}
		return obls
	},
}

func init() { register(ruleD12) }
