package main

import (
	"fmt"
	"go/token"
	"regexp"
	"strings"

	"golang.org/x/tools/go/ssa"
)

// ---------------------------------------------------------------------------------
// D13  a defaulting cast compared ⇒ the parse test of the same expression is conjoined
//
// ClickHouse's `toFloat64OrZero(x)` (and the other `…OrZero` / `…OrDefault` casts) turn a value that does not parse into 0: a comparison
// over it is true for unparsable values whenever 0 satisfies it (`>= 0`, `> -1`, `< 5`, `!= 3`, …). Wherever the read side compares such
// a cast, the comparison must therefore be one conjunct of an AND that also tests `isNotNull(…OrNull(x))` for the same x — on every path
// on which the comparison is used.

var reDefaultCast = regexp.MustCompile(`^\s*(to\w+?)Or(Zero|Default)\((.*)\)\s*$`)

// listSources: the values that can be elements of the (variadic / appended / merged) condition list v, and v itself.
func listSources(v ssa.Value, seen map[ssa.Value]bool, out *[]ssa.Value, depth int) {
	if v == nil || seen[v] || depth > 10 {
		return
	}
	seen[v] = true
	*out = append(*out, v)
	switch x := v.(type) {
	case *ssa.MakeInterface:
		listSources(x.X, seen, out, depth+1)
	case *ssa.ChangeInterface:
		listSources(x.X, seen, out, depth+1)
	case *ssa.ChangeType:
		listSources(x.X, seen, out, depth+1)
	case *ssa.Phi:
		for _, e := range x.Edges {
			listSources(e, seen, out, depth+1)
		}
	case *ssa.Slice:
		listSources(x.X, seen, out, depth+1)
	case *ssa.Alloc:
		if x.Referrers() == nil {
			return
		}
		for _, r := range *x.Referrers() {
			switch y := r.(type) {
			case *ssa.Store:
				if y.Addr == ssa.Value(x) {
					listSources(y.Val, seen, out, depth+1)
				}
			case *ssa.IndexAddr:
				if y.Referrers() != nil {
					for _, rr := range *y.Referrers() {
						if st, ok := rr.(*ssa.Store); ok && st.Addr == ssa.Value(y) {
							listSources(st.Val, seen, out, depth+1)
						}
					}
				}
			}
		}
	case *ssa.UnOp:
		if x.Op == token.MUL {
			listSources(x.X, seen, out, depth+1)
		}
	case *ssa.Call:
		if b, ok := x.Common().Value.(*ssa.Builtin); ok && b.Name() == "append" {
			for _, a := range x.Common().Args {
				listSources(a, seen, out, depth+1)
			}
		}
	}
}

// rawText: v is sql.NewRawObject(<constant>) (possibly behind an interface conversion); returns the constant.
func rawText(v ssa.Value) (string, bool) {
	for i := 0; i < 4; i++ {
		switch x := v.(type) {
		case *ssa.MakeInterface:
			v = x.X
			continue
		case *ssa.ChangeInterface:
			v = x.X
			continue
		}
		break
	}
	call, ok := v.(*ssa.Call)
	if !ok {
		return "", false
	}
	sc := call.Common().StaticCallee()
	if sc == nil || sc.Name() != "NewRawObject" || len(call.Common().Args) != 1 {
		return "", false
	}
	return constStr(call.Common().Args[0])
}

func isCondType(v ssa.Value) bool {
	t := v.Type().String()
	return strings.HasSuffix(t, "sql_select.SQLCondition") || strings.HasSuffix(t, "sql_select.LogicalOp")
}

var ruleD13 = &Rule{
	ID:    "D13",
	Floor: 0,
	Doc: "defaulting casts are compared only under their parse test (SSA): every condition built over a raw SQL operand of the form `to…OrZero(x)` / `to…OrDefault(x)` — which reads 0 for a value that does not parse — is used only as a conjunct of an `sql.And` that, in the same call, also receives `isNotNull(to…OrNull(x)) == 1` for the same x (arguments followed through locals, variadic packing, appends and merges). " +
		"A use of the comparison anywhere else (returned as it is, another AND without the test, an OR) lets unparsable values satisfy the comparison whenever 0 does. No floor (a comparison over the NULL-safe `…OrNull` cast has nothing to pair); positive control: seeded/C11-r7. Scope: live code of reader/",
	Run: func(c *Ctx) []Obl {
		var obls []Obl
		var kk keyer
		for _, fn := range liveModuleFuncs(c, "reader") {
			for _, b := range fn.Blocks {
				for _, ins := range b.Instrs {
					cmp, ok := ins.(*ssa.Call)
					if !ok || !isCondType(cmp) {
						continue
					}
					inner := ""
					castFn := ""
					for _, a := range cmp.Common().Args {
						if s, ok := rawText(a); ok {
							if m := reDefaultCast.FindStringSubmatch(s); m != nil {
								castFn, inner = m[1], strings.TrimSpace(m[3])
							}
						}
					}
					if castFn == "" {
						continue
					}
					key := kk.key(fmt.Sprintf("%s compares %sOr…(%s)", ssaName(fn), castFn, inner))
					// forward: every use of the comparison
					type use struct {
						and *ssa.Call
						pos token.Pos
						why string
					}
					var uses []use
					seen := map[ssa.Value]bool{}
					var fwd func(v ssa.Value, d int)
					fwd = func(v ssa.Value, d int) {
						if seen[v] || d > 10 || v.Referrers() == nil {
							return
						}
						seen[v] = true
						for _, r := range *v.Referrers() {
							switch y := r.(type) {
							case *ssa.MakeInterface:
								fwd(y, d+1)
							case *ssa.ChangeInterface:
								fwd(y, d+1)
							case *ssa.ChangeType:
								fwd(y, d+1)
							case *ssa.Phi:
								fwd(y, d+1)
							case *ssa.Store:
								if y.Val != v {
									continue
								}
								switch ad := y.Addr.(type) {
								case *ssa.IndexAddr:
									// element of a packed list: the list is what travels
									if al, ok := ad.X.(*ssa.Alloc); ok {
										fwd(al, d+1)
									} else {
										fwd(ad.X, d+1)
									}
								case *ssa.Alloc:
									fwd(ad, d+1)
								default:
									uses = append(uses, use{nil, y.Pos(), "stored outside the function's locals"})
								}
							case *ssa.Slice:
								fwd(y, d+1)
							case *ssa.UnOp:
								if y.Op == token.MUL {
									fwd(y, d+1)
								}
							case *ssa.IndexAddr:
								// reading / writing other elements of the list: not a use of the comparison
							case *ssa.Return:
								uses = append(uses, use{nil, y.Pos(), "returned as it is"})
							case *ssa.Call:
								if bi, ok := y.Common().Value.(*ssa.Builtin); ok {
									if bi.Name() == "append" {
										fwd(y, d+1)
									}
									continue
								}
								if sc := y.Common().StaticCallee(); sc != nil && sc.Name() == "And" && strings.HasSuffix(fnPkgRel(sc), "sql_select") {
									uses = append(uses, use{y, y.Pos(), ""})
									continue
								}
								n := "a function value"
								if sc := y.Common().StaticCallee(); sc != nil {
									n = sc.Name()
								}
								uses = append(uses, use{nil, y.Pos(), "handed to " + n})
							case ssa.Value:
								_ = y
							}
						}
					}
					fwd(cmp, 0)
					if len(uses) == 0 {
						obls = append(obls, Obl{Key: key, Pos: c.pos(cmp.Pos()), Status: Undecided, Msg: "the comparison over a defaulting cast has no recognised use"})
						continue
					}
					bad := ""
					var badPos token.Pos
					for _, u := range uses {
						if u.and == nil {
							bad, badPos = u.why, u.pos
							break
						}
						guarded := false
						var srcs []ssa.Value
						sseen := map[ssa.Value]bool{}
						for _, a := range u.and.Common().Args {
							listSources(a, sseen, &srcs, 0)
						}
						for _, s := range srcs {
							g, ok := s.(*ssa.Call)
							if !ok || g == cmp {
								continue
							}
							for _, a := range g.Common().Args {
								if t, ok := rawText(a); ok && strings.Contains(t, "isNotNull(") && strings.Contains(t, castFn+"OrNull("+inner+")") {
									guarded = true
								}
							}
						}
						if !guarded {
							bad, badPos = "conjoined by an AND that lacks `isNotNull("+castFn+"OrNull("+inner+"))`", u.pos
							break
						}
					}
					if bad != "" {
						obls = append(obls, Obl{Key: key, Pos: c.pos(badPos), Status: Violation,
							Msg: fmt.Sprintf("the comparison over %sOr…(%s) is %s: a value that does not parse reads as 0 and satisfies the comparison whenever 0 does (`>= 0`, `> -1`, `< 5`, `!= 3`), so spans / lines whose attribute is not a number are selected", castFn, inner, bad)})
					} else {
						obls = append(obls, Obl{Key: key, Pos: c.pos(cmp.Pos()), Status: OK})
					}
				}
			}
		}
		if len(obls) == 0 {
			// no floor: comparing the NULL-safe `…OrNull` cast instead needs no parse test
			obls = append(obls, Obl{Key: "reader: comparisons over defaulting casts", Pos: "-", Status: Info, Msg: "none found; nothing to decide (positive control: seeded/C11-r7)"})
		}
		return obls
	},
}

func init() { register(ruleD13) }
