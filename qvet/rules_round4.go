package main

// Rules added after the fourth round of seeded changes:
// O4 arrays of a handed-over row-model object are not reused; F7 a pipeline stage that stops reading its upstream hands it to a drainer;
// H6 execution-scoped planner flags have a known value at the start of every execution; E5 format strings of SQL text are not built
// from rendered / escaped text; R1 data returned together with io.EOF by a line reader is not dropped.

import (
	"fmt"
	"go/token"
	"go/types"
	"sort"
	"strings"

	"golang.org/x/tools/go/ssa"
)

// ---------------------------------------------------------------------------------
// O4

func isModelStruct(t types.Type) bool {
	n := namedOf(t)
	return n != nil && n.Obj().Pkg() != nil && strings.HasSuffix(n.Obj().Pkg().Path(), "/writer/model")
}

var ruleO4 = &Rule{
	ID:    "O4",
	Floor: 4,
	Doc: "a handed-over row-model object is replaced wholesale: the chunk builders of writer/utils/unmarshal keep the chunk under construction in a struct field (a pointer to a writer/model struct) and hand it over by sending it — directly or inside a ParserResponse — on the response channel; the consumer inserts it asynchronously. " +
		"Handed-over fields are computed from the sends (field-based). No function may take a re-slice (x[:n]) of an array that belongs to an object loaded from such a field — through locals and phis — and store it into a row-model object: the next chunk would be built in the arrays the previous, still unsent chunk is made of, and its rows would carry lines and values of later entries",
	Run: func(c *Ctx) []Obl {
		var obls []Obl
		funcs := liveModuleFuncs(c, "writer")
		// 1. handed-over fields
		handed := map[string]token.Pos{}
		var mark func(v ssa.Value, pos token.Pos, seen map[ssa.Value]bool)
		mark = func(v ssa.Value, pos token.Pos, seen map[ssa.Value]bool) {
			if v == nil || seen[v] {
				return
			}
			seen[v] = true
			switch x := v.(type) {
			case *ssa.MakeInterface:
				mark(x.X, pos, seen)
			case *ssa.ChangeInterface:
				mark(x.X, pos, seen)
			case *ssa.Phi:
				for _, e := range x.Edges {
					mark(e, pos, seen)
				}
			case *ssa.Call:
				// the response is built by a helper: what the helper returns is what is sent
				if sc := x.Common().StaticCallee(); sc != nil && isModuleFn(sc) {
					for _, r := range returnsOf(sc) {
						if len(r.Results) == 1 {
							mark(r.Results[0], pos, seen)
						}
					}
				}
			case *ssa.Alloc:
				// a struct built for sending: what is stored into its fields travels with it
				if refs := x.Referrers(); refs != nil {
					for _, r := range *refs {
						if fa, ok := r.(*ssa.FieldAddr); ok && fa.Referrers() != nil {
							for _, rr := range *fa.Referrers() {
								if st, ok := rr.(*ssa.Store); ok && st.Addr == ssa.Value(fa) {
									mark(st.Val, pos, seen)
								}
							}
						}
					}
				}
			case *ssa.UnOp:
				if x.Op == token.MUL {
					if fa, ok := x.X.(*ssa.FieldAddr); ok {
						if pt, ok := x.Type().Underlying().(*types.Pointer); ok && isModelStruct(pt.Elem()) {
							k := fieldKey(fa.X.Type(), fa.Field)
							if _, ok := handed[k]; !ok {
								handed[k] = pos
							}
						}
					}
				}
			}
		}
		for _, fn := range funcs {
			for _, b := range fn.Blocks {
				for _, ins := range b.Instrs {
					if s, ok := ins.(*ssa.Send); ok {
						mark(s.X, s.Pos(), map[ssa.Value]bool{})
					}
				}
			}
		}
		var hk []string
		for k := range handed {
			hk = append(hk, k)
		}
		sort.Strings(hk)
		for _, k := range hk {
			obls = append(obls, Obl{Key: "handed-over field " + rel(k), Pos: c.pos(handed[k]), Status: OK, Msg: "sent on the response channel"})
		}
		// 2. re-slices of arrays of handed-over objects stored into row-model objects
		var fromHanded func(v ssa.Value, seen map[ssa.Value]bool) string
		fromHanded = func(v ssa.Value, seen map[ssa.Value]bool) string {
			if v == nil || seen[v] {
				return ""
			}
			seen[v] = true
			switch x := v.(type) {
			case *ssa.Phi:
				for _, e := range x.Edges {
					if k := fromHanded(e, seen); k != "" {
						return k
					}
				}
			case *ssa.UnOp:
				if x.Op != token.MUL {
					return ""
				}
				switch a := x.X.(type) {
				case *ssa.FieldAddr:
					k := fieldKey(a.X.Type(), a.Field)
					if _, ok := handed[k]; ok {
						return k
					}
				case *ssa.Alloc:
					if refs := a.Referrers(); refs != nil {
						for _, r := range *refs {
							if st, ok := r.(*ssa.Store); ok && st.Addr == ssa.Value(a) {
								if k := fromHanded(st.Val, seen); k != "" {
									return k
								}
							}
						}
					}
				}
			}
			return ""
		}
		var kk keyer
		for _, fn := range funcs {
			for _, b := range fn.Blocks {
				for _, ins := range b.Instrs {
					sl, ok := ins.(*ssa.Slice)
					if !ok {
						continue
					}
					ld, ok := sl.X.(*ssa.UnOp)
					if !ok || ld.Op != token.MUL {
						continue
					}
					fa, ok := ld.X.(*ssa.FieldAddr)
					if !ok || !isModelStruct(fa.X.Type()) {
						continue
					}
					k := fromHanded(fa.X, map[ssa.Value]bool{})
					if k == "" {
						continue
					}
					// stored into a row-model object?
					stored := false
					if sl.Referrers() != nil {
						for _, r := range *sl.Referrers() {
							if st, ok := r.(*ssa.Store); ok && st.Val == ssa.Value(sl) {
								if dst, ok := st.Addr.(*ssa.FieldAddr); ok && isModelStruct(dst.X.Type()) {
									stored = true
								}
							}
						}
					}
					key := kk.key(ssaName(fn) + " re-slices an array of the object in " + rel(k))
					if stored {
						obls = append(obls, Obl{Key: key, Pos: c.pos(sl.Pos()), Status: Violation,
							Msg: "the array belongs to a row-model object that is handed to the insert path by a channel send (" + c.pos(handed[k]) + "); re-slicing it into another row-model object makes the next chunk overwrite rows the consumer has not inserted yet"})
					} else {
						obls = append(obls, Obl{Key: key, Pos: c.pos(sl.Pos()), Status: OK, Msg: "not stored into a row-model object"})
					}
				}
			}
		}
		// 3. the same through helpers: a slice stored into a row-model object that may share its backing array with an array of a
		// handed-over object — re-slices, phis and the results of module functions (generic instances included) are followed,
		// parameters bound to the arguments of the call they were entered through
		var shares func(v ssa.Value, bind map[*ssa.Parameter]ssa.Value, depth int, seen map[ssa.Value]bool) string
		shares = func(v ssa.Value, bind map[*ssa.Parameter]ssa.Value, depth int, seen map[ssa.Value]bool) string {
			if v == nil || seen[v] || depth > 4 {
				return ""
			}
			seen[v] = true
			switch x := v.(type) {
			case *ssa.Slice:
				return shares(x.X, bind, depth, seen)
			case *ssa.ChangeType:
				return shares(x.X, bind, depth, seen)
			case *ssa.Phi:
				for _, e := range x.Edges {
					if k := shares(e, bind, depth, seen); k != "" {
						return k
					}
				}
			case *ssa.Parameter:
				if a, ok := bind[x]; ok {
					return shares(a, bind, depth, seen)
				}
			case *ssa.UnOp:
				if x.Op == token.MUL {
					if fa, ok := x.X.(*ssa.FieldAddr); ok && isModelStruct(fa.X.Type()) {
						if _, isSlice := x.Type().Underlying().(*types.Slice); isSlice {
							return fromHanded(fa.X, map[ssa.Value]bool{})
						}
					}
				}
			case *ssa.Call:
				sc := x.Common().StaticCallee()
				if sc == nil || len(sc.Blocks) == 0 || !isModuleFn(sc) {
					return ""
				}
				nb := map[*ssa.Parameter]ssa.Value{}
				for k, val := range bind {
					nb[k] = val
				}
				for i, p := range sc.Params {
					if i < len(x.Common().Args) {
						nb[p] = x.Common().Args[i]
					}
				}
				for _, r := range returnsOf(sc) {
					if len(r.Results) == 1 {
						if k := shares(r.Results[0], nb, depth+1, seen); k != "" {
							return k
						}
					}
				}
			}
			return ""
		}
		for _, fn := range funcs {
			for _, b := range fn.Blocks {
				for _, ins := range b.Instrs {
					st, ok := ins.(*ssa.Store)
					if !ok {
						continue
					}
					dst, ok := st.Addr.(*ssa.FieldAddr)
					if !ok || !isModelStruct(dst.X.Type()) {
						continue
					}
					if _, isSlice := st.Val.Type().Underlying().(*types.Slice); !isSlice {
						continue
					}
					if _, direct := st.Val.(*ssa.Slice); direct {
						continue // judged above
					}
					if _, isCall := st.Val.(*ssa.Call); !isCall {
						if _, isPhi := st.Val.(*ssa.Phi); !isPhi {
							continue
						}
					}
					if bi, ok := st.Val.(*ssa.Call); ok {
						if _, isBuiltin := bi.Common().Value.(*ssa.Builtin); isBuiltin {
							continue // append(x.f, …) extends the object's own array
						}
					}
					if k := shares(st.Val, map[*ssa.Parameter]ssa.Value{}, 0, map[ssa.Value]bool{}); k != "" {
						key := kk.key(ssaName(fn) + " stores an array shared with the object in " + rel(k))
						obls = append(obls, Obl{Key: key, Pos: c.pos(st.Pos()), Status: Violation,
							Msg: "the stored slice may be a re-slice (through a helper) of an array of a row-model object that is handed to the insert path by a channel send (" + c.pos(handed[k]) + "): the next chunk overwrites rows the consumer has not inserted yet"})
					}
				}
			}
		}
		return obls
	},
}

// ---------------------------------------------------------------------------------
// F7

// rootCell follows a captured variable to the cell (Alloc / Parameter) it was captured from.
func rootCell(v ssa.Value) ssa.Value {
	for i := 0; i < 10; i++ {
		switch x := v.(type) {
		case *ssa.UnOp:
			if x.Op == token.MUL {
				v = x.X
				continue
			}
		case *ssa.FreeVar:
			fn := x.Parent()
			idx := -1
			for j, fv := range fn.FreeVars {
				if fv == x {
					idx = j
				}
			}
			par := fn.Parent()
			if par == nil || idx < 0 {
				return v
			}
			var bound ssa.Value
			for _, b := range par.Blocks {
				for _, ins := range b.Instrs {
					if mc, ok := ins.(*ssa.MakeClosure); ok && mc.Fn == ssa.Value(fn) && idx < len(mc.Bindings) {
						bound = mc.Bindings[idx]
					}
				}
			}
			if bound == nil {
				return v
			}
			v = bound
			continue
		}
		return v
	}
	return v
}

// receivesFrom: fn contains a receive (range / <-) on the channel cell.
func receivesFrom(fn *ssa.Function, cell ssa.Value) bool {
	for _, b := range fn.Blocks {
		for _, ins := range b.Instrs {
			if u, ok := ins.(*ssa.UnOp); ok && u.Op == token.ARROW && sameChanCell(rootCell(u.X), cell) {
				return true
			}
		}
	}
	return false
}

// goDrains: the go statement starts a function that receives from the channel identified by cell (captured, or passed as argument).
func goDrains(x *ssa.Go, cell ssa.Value) bool {
	if mc, ok := x.Call.Value.(*ssa.MakeClosure); ok {
		if f, ok := mc.Fn.(*ssa.Function); ok && receivesFrom(f, cell) {
			return true
		}
	}
	if sc := x.Call.StaticCallee(); sc != nil && len(sc.Blocks) > 0 {
		if receivesFrom(sc, cell) {
			return true
		}
		for i, a := range x.Call.Args {
			if i < len(sc.Params) && (sameChanCell(rootCell(a), cell) || canon(a) == canon(cell)) && receivesFrom(sc, sc.Params[i]) {
				return true
			}
		}
	}
	return false
}

// sameChanCell: two channel cells denote the same channel — the same variable, or the same field of a stage object (the stage's
// methods reach the channel through their own receiver; objects of one type are not told apart).
func sameChanCell(a, b ssa.Value) bool {
	if a == b {
		return true
	}
	fa, ok1 := a.(*ssa.FieldAddr)
	fb, ok2 := b.(*ssa.FieldAddr)
	return ok1 && ok2 && fieldKey(fa.X.Type(), fa.Field) == fieldKey(fb.X.Type(), fb.Field)
}

// startsDrainer: calling fn starts, on every path to a return, a goroutine that keeps receiving from the channel cell.
func startsDrainer(fn *ssa.Function, cell ssa.Value, depth int) bool {
	if fn == nil || depth > 3 || len(fn.Blocks) == 0 {
		return false
	}
	drain := map[*ssa.BasicBlock]bool{}
	for _, b := range fn.Blocks {
		for _, ins := range b.Instrs {
			switch x := ins.(type) {
			case *ssa.Go:
				if goDrains(x, cell) {
					drain[b] = true
				}
			}
		}
	}
	if len(drain) == 0 {
		return false
	}
	// no return may be reachable from the entry around the blocks that start the drainer
	seen := map[*ssa.BasicBlock]bool{}
	var dfs func(b *ssa.BasicBlock) bool
	dfs = func(b *ssa.BasicBlock) bool {
		if seen[b] || drain[b] {
			return false
		}
		seen[b] = true
		if len(b.Succs) == 0 {
			_, isRet := b.Instrs[len(b.Instrs)-1].(*ssa.Return)
			return isRet
		}
		for _, n := range b.Succs {
			if dfs(n) {
				return true
			}
		}
		return false
	}
	return !dfs(fn.Blocks[0])
}

var ruleF7 = &Rule{
	ID:    "F7",
	Floor: 2,
	Doc: "a stage that stops reading its upstream hands it to a drainer: the in-process pipeline is a chain of goroutines connected by unbuffered channels; a producer blocked in a send can only end when its consumer keeps receiving until the channel is closed. For every loop that ranges over a channel in the live code of the LogQL pipeline (reader/logql/logql_transpiler_v2 and the stages below it; the HTTP-side consumers follow a different protocol — they stop at an error entry, which is by construction the last thing its producer sends), each exit from the loop other than the channel being closed (break / return inside the body) " +
		"must be dominated, inside the loop, by a call that starts a goroutine receiving from the same channel (the `go func(){ for range in {} }()` drain, directly or through a helper closure such as onErr — which must start it on every one of its paths; cancelling the request context is no substitute, the stages hand their batches over with unconditional sends). Otherwise the upstream stage — in the end the database scan with its open rows — stays blocked forever after a cancelled or limited request",
	Run: func(c *Ctx) []Obl {
		var obls []Obl
		var kk keyer
		for _, fn := range liveModuleFuncs(c, "reader/logql/logql_transpiler_v2") {
			for _, hb := range fn.Blocks {
				// header of a range-over-channel loop: t = <-ch,ok ; if ok … else …
				var recv *ssa.UnOp
				for _, ins := range hb.Instrs {
					if u, ok := ins.(*ssa.UnOp); ok && u.Op == token.ARROW && u.CommaOk {
						recv = u
					}
				}
				if recv == nil {
					continue
				}
				loop := inCycle(hb)
				if loop == nil {
					continue
				}
				cell := rootCell(recv.X)
				// helper closures defined in this function (and its parents) that start a drainer
				isDrainCall := func(ins ssa.Instruction) bool {
					switch x := ins.(type) {
					case *ssa.Go:
						if goDrains(x, cell) {
							return true
						}
					case *ssa.Call:
						var callee *ssa.Function
						if sc := x.Common().StaticCallee(); sc != nil {
							callee = sc
						} else {
							// call of a local closure value: resolve through the cell it was stored in
							v := x.Common().Value
							if u, ok := v.(*ssa.UnOp); ok && u.Op == token.MUL {
								if a, ok := u.X.(*ssa.Alloc); ok && a.Referrers() != nil {
									for _, r := range *a.Referrers() {
										if st, ok := r.(*ssa.Store); ok && st.Addr == ssa.Value(a) {
											if mc, ok := st.Val.(*ssa.MakeClosure); ok {
												callee, _ = mc.Fn.(*ssa.Function)
											}
										}
									}
								}
							}
							if mc, ok := v.(*ssa.MakeClosure); ok {
								callee, _ = mc.Fn.(*ssa.Function)
							}
						}
						if callee != nil && startsDrainer(callee, cell, 0) {
							return true
						}
						// the channel is handed to a helper as an argument
						if callee != nil && len(callee.Blocks) > 0 {
							for i, a := range x.Common().Args {
								if i < len(callee.Params) && (sameChanCell(rootCell(a), cell) || canon(a) == canon(cell)) && startsDrainer(callee, callee.Params[i], 0) {
									return true
								}
							}
						}
					}
					return false
				}
				drainBlocks := map[*ssa.BasicBlock]bool{}
				for b := range loop {
					for _, ins := range b.Instrs {
						if isDrainCall(ins) {
							drainBlocks[b] = true
						}
					}
				}
				key := kk.key(ssaName(fn) + " ranges over a channel")
				bad := ""
				var badPos token.Pos
				nExits := 0
				// can a return be reached from s without passing a block that starts a drainer?
				allDrain := map[*ssa.BasicBlock]bool{}
				for _, b := range fn.Blocks {
					for _, ins := range b.Instrs {
						if isDrainCall(ins) {
							allDrain[b] = true
						}
					}
				}
				undrained := func(s *ssa.BasicBlock) bool {
					seen := map[*ssa.BasicBlock]bool{}
					var dfs func(b *ssa.BasicBlock) bool
					dfs = func(b *ssa.BasicBlock) bool {
						if seen[b] || allDrain[b] {
							return false
						}
						seen[b] = true
						if len(b.Succs) == 0 {
							_, isRet := b.Instrs[len(b.Instrs)-1].(*ssa.Return)
							return isRet
						}
						for _, n := range b.Succs {
							if dfs(n) {
								return true
							}
						}
						return false
					}
					return dfs(s)
				}
				for b := range loop {
					if b == hb {
						continue
					}
					for _, s := range b.Succs {
						if loop[s] {
							continue
						}
						nExits++
						dominatedByDrain := false
						for d := range drainBlocks {
							if d == b || d.Dominates(b) {
								dominatedByDrain = true
							}
						}
						if !dominatedByDrain && undrained(s) {
							bad = "leaves the loop early"
							badPos = token.NoPos
							for _, ins := range s.Instrs {
								if ins.Pos() != token.NoPos && badPos == token.NoPos {
									badPos = ins.Pos()
								}
							}
							if badPos == token.NoPos {
								for _, ins := range b.Instrs {
									if ins.Pos() != token.NoPos {
										badPos = ins.Pos()
									}
								}
							}
						}
					}
				}
				if bad != "" {
					// the function may hand the failure to its caller, which then starts the drainer: every call site must, on the
					// path where the returned error is not nil, pass a drain of the same channel before it returns
					if _, isCell := cell.(*ssa.FieldAddr); isCell && fn.Signature.Results().Len() > 0 {
						sites := callSitesOf(c, fn)
						lifted := len(sites) > 0
						for _, site := range sites {
							sv, ok := site.(ssa.Value)
							if !ok {
								lifted = false
								continue
							}
							caller := site.Parent()
							isNilK := func(v ssa.Value) bool { k, ok := v.(*ssa.Const); return ok && k.Value == nil }
							isRes := func(v ssa.Value) bool {
								if v == sv {
									return true
								}
								ex, ok := v.(*ssa.Extract)
								return ok && ex.Tuple == sv
							}
							seen := map[*ssa.BasicBlock]bool{}
							var walk func(b *ssa.BasicBlock, from int) bool // true: a return is reached without a drain
							walk = func(b *ssa.BasicBlock, from int) bool {
								for i := from; i < len(b.Instrs); i++ {
									ins := b.Instrs[i]
									if isDrainCall(ins) {
										return false
									}
									switch x := ins.(type) {
									case *ssa.Return:
										return true
									case *ssa.If:
										if cmp, ok := x.Cond.(*ssa.BinOp); ok && (cmp.Op == token.NEQ || cmp.Op == token.EQL) && ((isRes(cmp.X) && isNilK(cmp.Y)) || (isRes(cmp.Y) && isNilK(cmp.X))) {
											next := b.Succs[0]
											if cmp.Op == token.EQL {
												next = b.Succs[1]
											}
											if seen[next] {
												return false
											}
											seen[next] = true
											return walk(next, 0)
										}
									}
								}
								for _, sb := range b.Succs {
									if !seen[sb] {
										seen[sb] = true
										if walk(sb, 0) {
											return true
										}
									}
								}
								return false
							}
							if walk(site.Block(), instrIndex(site.(ssa.Instruction))+1) {
								lifted = false
							}
							_ = caller
						}
						if lifted {
							obls = append(obls, Obl{Key: key, Pos: c.pos(recv.Pos()), Status: OK, Msg: fmt.Sprintf("%d early exits hand the error to the caller, which drains at every call site", nExits)})
							continue
						}
					}
					obls = append(obls, Obl{Key: key, Pos: c.pos(badPos), Status: Violation,
						Msg: "the loop over the upstream channel (" + c.pos(recv.Pos()) + ") can be left before the channel is closed without a goroutine draining it: the producing stage stays blocked in its send, and with it the database scan and its open rows"})
				} else {
					obls = append(obls, Obl{Key: key, Pos: c.pos(recv.Pos()), Status: OK, Msg: fmt.Sprintf("%d early exits, each after a drain", nExits)})
				}
			}
		}
		return obls
	},
}

// ---------------------------------------------------------------------------------
// H6

var ruleH6 = &Rule{
	ID:    "H6",
	Floor: 1,
	Doc: "execution-scoped flags have a known value when an execution starts: a planner field of basic type that is read during Process (in Process or in the same-receiver helpers it calls) and that the same call tree sets to two different constants is per-execution state kept in the plan object. Every execution must start from the same value: " +
		"either a constant store to the field dominates every read of it in Process, or every return of Process is dominated by a store of the field's zero value (reset on all exits). A reset that is missing on one return path lets the next execution of the same plan (tail ticks, the portions of a complex TraceQL request) render different SQL",
	Run: func(c *Ctx) []Obl {
		var obls []Obl
		g := c.CG()
		_ = g
		nProc := 0
		for _, proc := range liveModuleFuncs(c, "reader") {
			if proc.Name() != "Process" || proc.Signature.Recv() == nil || len(proc.Params) == 0 {
				continue
			}
			sk := structKeyOf(proc.Signature.Recv().Type())
			if sk == "" {
				continue
			}
			nProc++
			// same-receiver call tree
			tree := map[*ssa.Function]bool{}
			var walk func(fn *ssa.Function, d int)
			walk = func(fn *ssa.Function, d int) {
				if fn == nil || tree[fn] || d > 6 || len(fn.Blocks) == 0 {
					return
				}
				tree[fn] = true
				for _, b := range fn.Blocks {
					for _, ins := range b.Instrs {
						switch x := ins.(type) {
						case *ssa.MakeClosure:
							f, _ := x.Fn.(*ssa.Function)
							walk(f, d+1)
						case ssa.CallInstruction:
							sc := x.Common().StaticCallee()
							if sc != nil && sc.Signature.Recv() != nil && structKeyOf(sc.Signature.Recv().Type()) == sk {
								walk(sc, d+1)
							}
						}
					}
				}
			}
			walk(proc, 0)
			type finfo struct {
				consts map[string]bool
				reads  int
				stores []*ssa.Store
			}
			fields := map[string]*finfo{}
			get := func(k string) *finfo {
				if fields[k] == nil {
					fields[k] = &finfo{consts: map[string]bool{}}
				}
				return fields[k]
			}
			for fn := range tree {
				for _, b := range fn.Blocks {
					for _, ins := range b.Instrs {
						switch x := ins.(type) {
						case *ssa.Store:
							if fa, ok := x.Addr.(*ssa.FieldAddr); ok && structKeyOf(fa.X.Type()) == sk {
								if _, isBasic := fa.Type().(*types.Pointer).Elem().Underlying().(*types.Basic); !isBasic {
									continue
								}
								fi := get(fieldKey(fa.X.Type(), fa.Field))
								fi.stores = append(fi.stores, x)
								if k, ok := x.Val.(*ssa.Const); ok {
									fi.consts[k.String()] = true
								} else {
									fi.consts["<non-constant>"] = true
								}
							}
						case *ssa.UnOp:
							if x.Op == token.MUL {
								if fa, ok := x.X.(*ssa.FieldAddr); ok && structKeyOf(fa.X.Type()) == sk {
									if _, isBasic := x.Type().Underlying().(*types.Basic); isBasic {
										get(fieldKey(fa.X.Type(), fa.Field)).reads++
									}
								}
							}
						}
					}
				}
			}
			var keys []string
			for k, fi := range fields {
				if fi.reads > 0 && len(fi.consts) >= 2 && !fi.consts["<non-constant>"] {
					keys = append(keys, k)
				}
			}
			sort.Strings(keys)
			for _, k := range keys {
				fi := fields[k]
				short := k[strings.LastIndex(k, ".")+1:]
				key := ssaName(proc) + " execution-scoped flag " + short
				// (a) every return of Process dominated by a zero store in Process
				isZero := func(st *ssa.Store) bool {
					k, ok := st.Val.(*ssa.Const)
					if !ok {
						return false
					}
					if k.Value == nil {
						return true
					}
					s := k.Value.ExactString()
					return s == "false" || s == "0" || s == `""`
				}
				var missing token.Pos
				allReset := true
				nRet := 0
				for _, b := range proc.Blocks {
					for _, ins := range b.Instrs {
						r, ok := ins.(*ssa.Return)
						if !ok {
							continue
						}
						// error returns (non-nil error constant? unknown) are counted too: a failed execution must not poison the next
						nRet++
						ok2 := false
						for _, st := range fi.stores {
							if st.Parent() == proc && isZero(st) && before(st, r) {
								ok2 = true
							}
						}
						if !ok2 && returnsNilError(r) {
							allReset = false
							missing = r.Pos()
						}
					}
				}
				// (b) a constant store dominating every read in Process itself and every call into the tree
				initFirst := false
				for _, st := range fi.stores {
					if st.Parent() != proc {
						continue
					}
					if _, isConst := st.Val.(*ssa.Const); !isConst {
						continue
					}
					domAll := true
					for _, b := range proc.Blocks {
						for _, ins := range b.Instrs {
							switch x := ins.(type) {
							case *ssa.UnOp:
								if x.Op == token.MUL {
									if fa, ok := x.X.(*ssa.FieldAddr); ok && fieldKey(fa.X.Type(), fa.Field) == k && !before(st, x) {
										domAll = false
									}
								}
							case ssa.CallInstruction:
								if sc := x.Common().StaticCallee(); sc != nil && tree[sc] && sc != proc && !before(st, x.(ssa.Instruction)) {
									domAll = false
								}
							}
						}
					}
					if domAll {
						initFirst = true
					}
				}
				switch {
				case initFirst:
					obls = append(obls, Obl{Key: key, Pos: c.pos(proc.Pos()), Status: OK, Msg: "set before any read at the start of every execution"})
				case allReset:
					obls = append(obls, Obl{Key: key, Pos: c.pos(proc.Pos()), Status: OK, Msg: fmt.Sprintf("reset to its zero value before each of the %d returns", nRet)})
				default:
					obls = append(obls, Obl{Key: key, Pos: c.pos(missing), Status: Violation,
						Msg: "the flag " + short + " is toggled while a statement is built and read to decide what is rendered, but the return at " + c.pos(missing) + " is not preceded by its reset (and it is not initialised at the start of Process): the next execution of the same plan starts with the value the previous one left and renders different SQL"})
				}
			}
		}
		// the scan itself is the instance that must never vanish: a plan object without execution-scoped flags satisfies the rule
		if nProc >= 40 {
			obls = append(obls, Obl{Key: "planner Process methods scanned for execution-scoped flags", Pos: "-", Status: OK, Msg: fmt.Sprintf("%d Process methods, %d flags", nProc, len(obls))})
		} else {
			obls = append(obls, Obl{Key: "planner Process methods scanned for execution-scoped flags", Pos: "-", Status: Undecided, Msg: fmt.Sprintf("only %d live Process methods found under reader/ (expected the planners of three query languages)", nProc)})
		}
		return obls
	},
}

// returnsNilError: the last result of the return is the nil constant (a success return), or the function has no error result.
func returnsNilError(r *ssa.Return) bool {
	if len(r.Results) == 0 {
		return true
	}
	last := r.Results[len(r.Results)-1]
	if k, ok := last.(*ssa.Const); ok {
		return k.Value == nil
	}
	return false
}

// ---------------------------------------------------------------------------------
// E5

var ruleE5 = &Rule{
	ID:    "E5",
	Floor: 3,
	Doc: "SQL text is never a format string: in the live code of the read path the format argument of fmt.Sprintf / Fprintf / Errorf is a constant, or a concatenation whose non-constant operands are neither text produced by an SQL renderer (String(*sql.Ctx, …), including the literal-escaping routine) nor values derived from it. " +
		"A request string that went through the escaping routine is safe as an *argument*; spliced into the *format* its % sequences are interpreted by fmt — `%.1[1]s` expands to the first character of another argument (a quote) and the literal is terminated by request text",
	Run: func(c *Ctx) []Obl {
		var obls []Obl
		var kk keyer
		a := &e4{c: c, g: c.CG(), nth: map[string]int{}}
		a.findWrappers()
		isRenderCall := func(v ssa.Value) bool {
			ex, ok := v.(*ssa.Extract)
			if !ok || ex.Index != 0 {
				return false
			}
			call, ok := ex.Tuple.(*ssa.Call)
			if !ok {
				return false
			}
			com := call.Common()
			var sig *types.Signature
			name := ""
			if com.IsInvoke() {
				sig, _ = com.Method.Type().(*types.Signature)
				name = com.Method.Name()
			} else if sc := com.StaticCallee(); sc != nil {
				sig = sc.Signature
				name = sc.Name()
				if a.wrappers[sc] {
					return true
				}
			}
			return sig != nil && name == "String" && sig.Params().Len() >= 1 && strings.HasSuffix(sig.Params().At(0).Type().String(), "sql_select.Ctx")
		}
		var rendered func(v ssa.Value, seen map[ssa.Value]bool, d int) bool
		rendered = func(v ssa.Value, seen map[ssa.Value]bool, d int) bool {
			if v == nil || seen[v] || d > 20 {
				return false
			}
			seen[v] = true
			if isRenderCall(v) {
				return true
			}
			switch x := v.(type) {
			case *ssa.BinOp:
				return rendered(x.X, seen, d+1) || rendered(x.Y, seen, d+1)
			case *ssa.Phi:
				for _, e := range x.Edges {
					if rendered(e, seen, d+1) {
						return true
					}
				}
			case *ssa.Call:
				// strings.Join / Replace / … of rendered text is still rendered text
				if sc := x.Common().StaticCallee(); sc != nil && sc.Pkg != nil && (sc.Pkg.Pkg.Path() == "strings" || sc.Pkg.Pkg.Path() == "fmt") {
					for _, arg := range x.Common().Args {
						if rendered(arg, seen, d+1) {
							return true
						}
					}
				}
			case *ssa.Slice:
				return rendered(x.X, seen, d+1)
			case *ssa.Alloc:
				if refs := x.Referrers(); refs != nil {
					for _, r := range *refs {
						switch y := r.(type) {
						case *ssa.Store:
							if y.Addr == ssa.Value(x) && rendered(y.Val, seen, d+1) {
								return true
							}
						case *ssa.IndexAddr:
							if y.Referrers() != nil {
								for _, rr := range *y.Referrers() {
									if st, ok := rr.(*ssa.Store); ok && st.Addr == ssa.Value(y) && rendered(st.Val, seen, d+1) {
										return true
									}
								}
							}
						}
					}
				}
			case *ssa.UnOp:
				if x.Op == token.MUL {
					return rendered(x.X, seen, d+1)
				}
			case *ssa.MakeInterface:
				return rendered(x.X, seen, d+1)
			case *ssa.IndexAddr:
				return rendered(x.X, seen, d+1)
			}
			return false
		}
		for _, fn := range liveModuleFuncs(c, "reader") {
			for _, b := range fn.Blocks {
				for _, ins := range b.Instrs {
					call, ok := ins.(*ssa.Call)
					if !ok {
						continue
					}
					sc := call.Common().StaticCallee()
					if sc == nil || sc.Pkg == nil || sc.Pkg.Pkg.Path() != "fmt" {
						continue
					}
					fi := -1
					switch sc.Name() {
					case "Sprintf", "Errorf":
						fi = 0
					case "Fprintf":
						fi = 1
					}
					if fi < 0 || fi >= len(call.Common().Args) {
						continue
					}
					format := call.Common().Args[fi]
					if _, isConst := format.(*ssa.Const); isConst {
						continue
					}
					key := kk.key(ssaName(fn) + " non-constant format")
					if rendered(format, map[ssa.Value]bool{}, 0) {
						obls = append(obls, Obl{Key: key, Pos: c.pos(call.Pos()), Status: Violation,
							Msg: "the format string of " + sc.Name() + " contains text produced by an SQL renderer / the escaping routine: % sequences of a request string are interpreted by fmt and can reproduce a quote from another argument"})
					} else {
						obls = append(obls, Obl{Key: key, Pos: c.pos(call.Pos()), Status: OK, Msg: "non-constant operands are not rendered SQL text"})
					}
				}
			}
		}
		// constant formats are the norm: count them so that the rule cannot pass vacuously
		n := 0
		for _, fn := range liveModuleFuncs(c, "reader") {
			for _, b := range fn.Blocks {
				for _, ins := range b.Instrs {
					if call, ok := ins.(*ssa.Call); ok {
						if sc := call.Common().StaticCallee(); sc != nil && sc.Pkg != nil && sc.Pkg.Pkg.Path() == "fmt" && (sc.Name() == "Sprintf" || sc.Name() == "Errorf" || sc.Name() == "Fprintf") {
							n++
						}
					}
				}
			}
		}
		obls = append(obls, Obl{Key: "fmt format calls under reader/", Pos: "-", Status: OK, Msg: fmt.Sprintf("%d calls examined", n)})
		return obls
	},
}

// ---------------------------------------------------------------------------------
// R1

var ruleR1 = &Rule{
	ID:    "R1",
	Floor: 0,
	Doc: "a line reader does not drop the data that comes with io.EOF: bufio.Reader.ReadBytes / ReadString / ReadLine return the final, unterminated record together with io.EOF. Where the ingest path uses them, the branch taken when the error is io.EOF must not leave the loop / function before the returned data was used (passed to a call, tested for emptiness): otherwise the last record of a body that does not end in a newline is silently discarded while the request succeeds. " +
		"(The tree frames newline-delimited bodies with bufio.Scanner, which has no such trap; the rule has no instance today and exists for the day that changes)",
	Run: func(c *Ctx) []Obl {
		var obls []Obl
		var kk keyer
		for _, fn := range liveModuleFuncs(c, "writer", "reader") {
			for _, b := range fn.Blocks {
				for _, ins := range b.Instrs {
					call, ok := ins.(*ssa.Call)
					if !ok {
						continue
					}
					sc := call.Common().StaticCallee()
					if sc == nil {
						continue
					}
					switch sc.String() {
					case "(*bufio.Reader).ReadBytes", "(*bufio.Reader).ReadString", "(*bufio.Reader).ReadLine":
					default:
						continue
					}
					var data, errv ssa.Value
					if call.Referrers() != nil {
						for _, r := range *call.Referrers() {
							if ex, ok := r.(*ssa.Extract); ok {
								if ex.Index == 0 {
									data = ex
								}
								if ex.Index == call.Type().(*types.Tuple).Len()-1 {
									errv = ex
								}
							}
						}
					}
					key := kk.key(ssaName(fn) + " " + sc.Name())
					if data == nil || errv == nil || errv.Referrers() == nil {
						obls = append(obls, Obl{Key: key, Pos: c.pos(call.Pos()), Status: Violation, Msg: "the data or the error of the read is discarded"})
						continue
					}
					// uses of the data
					var uses []ssa.Instruction
					if data.Referrers() != nil {
						uses = append(uses, *data.Referrers()...)
					}
					bad := ""
					for _, r := range *errv.Referrers() {
						cmp, ok := r.(*ssa.BinOp)
						isEOF := false
						if ok && (cmp.Op == token.EQL || cmp.Op == token.NEQ) {
							for _, o := range []ssa.Value{cmp.X, cmp.Y} {
								if u, ok := o.(*ssa.UnOp); ok {
									if gl, ok := u.X.(*ssa.Global); ok && gl.Name() == "EOF" {
										isEOF = true
									}
								}
							}
						}
						if !isEOF || cmp.Referrers() == nil {
							continue
						}
						for _, rr := range *cmp.Referrers() {
							iff, ok := rr.(*ssa.If)
							if !ok {
								continue
							}
							eofBlk := iff.Block().Succs[0]
							if cmp.Op == token.NEQ {
								eofBlk = iff.Block().Succs[1]
							}
							// is the data used before the comparison, or in the EOF branch?
							used := false
							for _, u := range uses {
								if before(u, iff) || u.Block() == eofBlk || eofBlk.Dominates(u.Block()) {
									used = true
								}
							}
							if !used {
								bad = "the io.EOF branch at " + c.pos(cmp.Pos()) + " is taken before the data returned with it was looked at"
							}
						}
					}
					if bad != "" {
						obls = append(obls, Obl{Key: key, Pos: c.pos(call.Pos()), Status: Violation, Msg: bad + ": the final record of a body without a trailing newline is dropped silently"})
					} else {
						obls = append(obls, Obl{Key: key, Pos: c.pos(call.Pos()), Status: OK})
					}
				}
			}
		}
		obls = append(obls, Obl{Key: "line readers scanned", Pos: "-", Status: OK, Msg: "bufio.Reader.ReadBytes/ReadString/ReadLine call sites in live writer/ and reader/ code"})
		return obls
	},
}

func init() { register(ruleO4, ruleF7, ruleH6, ruleE5, ruleR1) }
