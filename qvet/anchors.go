package main

// Semantic anchors and constant resolution shared by the ctrl rules: functions are found by what they do (the SQL they run), not by
// their names, and the constants an expression can take are resolved through parameters (all call sites) and through rows of
// constant tables (local or package-level composite literals walked by a loop).

import (
	"fmt"
	"go/ast"
	"go/constant"
	"go/token"
	"go/types"
	"os"
	"sort"
	"strings"

	"golang.org/x/tools/go/ssa"
)

// settingsFns: the functions of ctrl/ that write (`INSERT INTO settings`) and read (a Query over the settings table) the markers.
func (c *Ctx) settingsFns() (put, get *ssa.Function) {
	for _, fn := range moduleFuncs(c.CG()) {
		if isTestFunc(c, fn) || !strings.HasPrefix(fnPkgRel(fn), "ctrl") {
			continue
		}
		mentions := false
		for _, b := range fn.Blocks {
			for _, ins := range b.Instrs {
				call, ok := ins.(*ssa.Call)
				if !ok {
					continue
				}
				if call.Common().IsInvoke() && isDriverConn(call.Common().Value.Type()) && len(call.Common().Args) >= 2 {
					for _, t := range queryTextsOf(call.Common().Args[1]) {
						up := strings.ToUpper(strings.Join(strings.Fields(t), " "))
						if call.Common().Method.Name() == "Exec" && strings.HasPrefix(up, "INSERT INTO SETTINGS") {
							put = fn
						}
						if call.Common().Method.Name() == "Query" && strings.Contains(up, "ARGMAX(VALUE") {
							mentions = true
						}
					}
				}
			}
		}
		if mentions {
			get = fn
		}
	}
	return
}

// stringArgs: the string-typed arguments of a call in order (receiver excluded).
func stringArgs(call *ssa.Call) []ssa.Value {
	var out []ssa.Value
	args := call.Common().Args
	sc := call.Common().StaticCallee()
	start := 0
	if sc != nil && sc.Signature.Recv() != nil {
		start = 1
	}
	for _, a := range args[start:] {
		if b, ok := a.Type().Underlying().(*types.Basic); ok && b.Info()&types.IsString != 0 {
			out = append(out, a)
		}
	}
	return out
}

// tableRows evaluates the composite literal a package-level or local variable is initialised with: one map (field name → constant
// in Go syntax, strings unquoted) per element.
func (c *Ctx) tableRowsOfGlobal(g *ssa.Global) []map[string]string {
	if g == nil || g.Pkg == nil {
		return nil
	}
	p := c.ByPath[g.Pkg.Pkg.Path()]
	if p == nil {
		return nil
	}
	var lit *ast.CompositeLit
	for _, f := range p.Syntax {
		for _, d := range f.Decls {
			gd, ok := d.(*ast.GenDecl)
			if !ok || gd.Tok != token.VAR {
				continue
			}
			for _, sp := range gd.Specs {
				vs := sp.(*ast.ValueSpec)
				for i, n := range vs.Names {
					if n.Name == g.Name() && i < len(vs.Values) {
						lit, _ = ast.Unparen(vs.Values[i]).(*ast.CompositeLit)
					}
				}
			}
		}
	}
	if lit == nil {
		return nil
	}
	return c.literalRows(p.TypesInfo, lit)
}

func (c *Ctx) literalRows(info *types.Info, lit *ast.CompositeLit) []map[string]string {
	var elemT *types.Struct
	single := false
	if tv, ok := info.Types[lit]; ok {
		switch u := tv.Type.Underlying().(type) {
		case *types.Slice:
			elemT, _ = u.Elem().Underlying().(*types.Struct)
		case *types.Array:
			elemT, _ = u.Elem().Underlying().(*types.Struct)
		case *types.Map:
			// rows keyed by a constant: the values are the rows (a key that is absent reads as the zero row, which the rules
			// using such tables treat like any other unlisted constant)
			elemT, _ = u.Elem().Underlying().(*types.Struct)
		case *types.Struct:
			// a single record: one row
			elemT, single = u, true
		}
	}
	if elemT == nil {
		return nil
	}
	// fields of nested struct literals (embedded or named) appear under "outer.inner"; promoted fields of embedded structs also
	// under their own name
	var fill func(row map[string]string, prefix string, st *types.Struct, rl *ast.CompositeLit, promote bool)
	fill = func(row map[string]string, prefix string, st *types.Struct, rl *ast.CompositeLit, promote bool) {
		for i, sub := range rl.Elts {
			name := ""
			var fld *types.Var
			if kv, ok := sub.(*ast.KeyValueExpr); ok {
				if id, ok := kv.Key.(*ast.Ident); ok {
					name = id.Name
					for j := 0; j < st.NumFields(); j++ {
						if st.Field(j).Name() == name {
							fld = st.Field(j)
						}
					}
				}
				sub = kv.Value
			} else if i < st.NumFields() {
				fld = st.Field(i)
				name = fld.Name()
			}
			if name == "" {
				continue
			}
			if tv, ok := info.Types[sub]; ok && tv.Value != nil {
				val := tv.Value.ExactString()
				if tv.Value.Kind() == constant.String {
					val = constant.StringVal(tv.Value)
				}
				row[prefix+name] = val
				if promote {
					if _, dup := row[name]; !dup {
						row[name] = val
					}
				}
				continue
			}
			if inner, ok := ast.Unparen(sub).(*ast.CompositeLit); ok && fld != nil {
				if ist, ok := fld.Type().Underlying().(*types.Struct); ok {
					fill(row, prefix+name+".", ist, inner, fld.Embedded() && (promote || prefix == ""))
				}
			}
		}
	}
	if single {
		row := map[string]string{}
		fill(row, "", elemT, lit, false)
		return []map[string]string{row}
	}
	var rows []map[string]string
	for _, el := range lit.Elts {
		if kv, ok := el.(*ast.KeyValueExpr); ok {
			el = kv.Value
		}
		rl, ok := ast.Unparen(el).(*ast.CompositeLit)
		if !ok {
			return nil
		}
		row := map[string]string{}
		fill(row, "", elemT, rl, false)
		rows = append(rows, row)
	}
	return rows
}

// rowSource: the value is (a copy of) an element of a package-level table; returns the table's rows.
func (c *Ctx) rowSource(v ssa.Value, depth int) []map[string]string {
	if v == nil || depth > 6 {
		return nil
	}
	switch x := v.(type) {
	case *ssa.UnOp:
		if x.Op == token.MUL {
			switch a := x.X.(type) {
			case *ssa.IndexAddr:
				return c.rowSource(a.X, depth+1)
			case *ssa.Global:
				return c.tableRowsOfGlobal(a)
			case *ssa.Alloc:
				if a.Referrers() != nil {
					for _, r := range *a.Referrers() {
						if st, ok := r.(*ssa.Store); ok && st.Addr == ssa.Value(a) {
							if rows := c.rowSource(st.Val, depth+1); rows != nil {
								return rows
							}
						}
					}
				}
			}
		}
	case *ssa.Alloc:
		if x.Referrers() != nil {
			for _, r := range *x.Referrers() {
				if st, ok := r.(*ssa.Store); ok && st.Addr == ssa.Value(x) {
					if rows := c.rowSource(st.Val, depth+1); rows != nil {
						return rows
					}
				}
			}
		}
	case *ssa.IndexAddr:
		return c.rowSource(x.X, depth+1)
	case *ssa.Global:
		return c.tableRowsOfGlobal(x)
	case *ssa.Index:
		return c.rowSource(x.X, depth+1)
	case *ssa.Lookup:
		return c.rowSource(x.X, depth+1)
	case *ssa.Slice:
		return c.rowSource(x.X, depth+1)
	case *ssa.Phi:
		for _, e := range x.Edges {
			if rows := c.rowSource(e, depth+1); rows != nil {
				return rows
			}
		}
	case *ssa.Extract:
		return c.rowSource(x.Tuple, depth+1)
	case *ssa.Next:
		return c.rowSource(x.Iter, depth+1)
	case *ssa.Range:
		return c.rowSource(x.X, depth+1)
	case *ssa.Parameter:
		fn := x.Parent()
		idx := -1
		for i, p := range fn.Params {
			if p == x {
				idx = i
			}
		}
		for _, site := range callSitesOf(c, fn) {
			if idx >= 0 && idx < len(site.Common().Args) {
				if rows := c.rowSource(site.Common().Args[idx], depth+1); rows != nil {
					return rows
				}
			}
		}
	}
	return nil
}

// constsOf: the constant values (Go syntax, strings unquoted) a value can take, resolved through phis, parameters (all call sites)
// and fields of table rows; "?" marks an unresolved contribution.
func (c *Ctx) constsOf(v ssa.Value, depth int) []string {
	m := c.constsCount(v, depth)
	var out []string
	for k := range m {
		out = append(out, k)
	}
	sort.Strings(out)
	return out
}

// constsCount: like constsOf, with the number of independent sources (call sites of the function whose parameter it is, rows of the
// table whose field it is) each constant comes from; alternatives of one merge count once.
func (c *Ctx) constsCount(v ssa.Value, depth int) map[string]int {
	one := func(k string) map[string]int { return map[string]int{k: 1} }
	var walk func(v ssa.Value, d int) map[string]int
	walk = func(v ssa.Value, d int) map[string]int {
		if v == nil || d > 8 {
			return one("?")
		}
		switch x := v.(type) {
		case *ssa.Const:
			if x.Value == nil {
				return one("nil")
			} else if x.Value.Kind() == constant.String {
				return one(constant.StringVal(x.Value))
			}
			return one(x.Value.ExactString())
		case *ssa.Phi:
			out := map[string]int{}
			for _, e := range x.Edges {
				for k, n := range walk(e, d+1) {
					if n > out[k] {
						out[k] = n
					}
				}
			}
			return out
		case *ssa.Convert:
			return walk(x.X, d+1)
		case *ssa.ChangeType:
			return walk(x.X, d+1)
		case *ssa.Parameter:
			fn := x.Parent()
			idx := -1
			for i, p := range fn.Params {
				if p == x {
					idx = i
				}
			}
			sites := callSitesOf(c, fn)
			if len(sites) == 0 || idx < 0 {
				if os.Getenv("QVET_DEBUG_CONSTS") != "" {
					fmt.Fprintf(os.Stderr, "constsCount: no call sites of %v (param %v) synthetic=%q live=%v\n", fn, x, fn.Synthetic, c.CG().live[fn])
				}
				return one("?")
			}
			out := map[string]int{}
			for _, site := range sites {
				if idx < len(site.Common().Args) {
					for k, n := range walk(site.Common().Args[idx], d+1) {
						out[k] += n
					}
				} else {
					out["?"]++
				}
			}
			return out
		}
		// a field (chain) of a table row / record
		if base, path := accessPath(v); len(path) > 0 {
			if m := c.rowFieldCount(base, path); m != nil {
				return m
			}
		}
		if os.Getenv("QVET_DEBUG_CONSTS") != "" {
			b, pth := accessPath(v)
			fmt.Fprintf(os.Stderr, "constsCount ? at %T %v in %v; base %T %v path %v\n", v, v, func() string {
				if i, ok := v.(ssa.Instruction); ok && i.Parent() != nil {
					return i.Parent().String()
				}
				return ""
			}(), b, b, pth)
		}
		return one("?")
	}
	return walk(v, depth)
}

// rowFieldCount: the constants of one field (path) over the rows of the constant table base is an element of; nil when base is none.
func (c *Ctx) rowFieldCount(base ssa.Value, path []int) map[string]int {
	rows := c.rowSource(base, 0)
	if rows == nil {
		return nil
	}
	fname := fieldPathName(base.Type(), path)
	out := map[string]int{}
	for _, r := range rows {
		if val, ok := r[fname]; ok {
			out[val]++
		} else {
			out["?"]++
		}
	}
	return out
}

// fieldPathName: the dotted name of a field path from a struct (or pointer to struct) type.
func fieldPathName(t types.Type, path []int) string {
	var parts []string
	for _, idx := range path {
		if p, ok := t.Underlying().(*types.Pointer); ok {
			t = p.Elem()
		}
		st, ok := t.Underlying().(*types.Struct)
		if !ok || idx >= st.NumFields() {
			return ""
		}
		parts = append(parts, st.Field(idx).Name())
		t = st.Field(idx).Type()
	}
	return strings.Join(parts, ".")
}

func fieldNameOf(t types.Type, idx int) string {
	if p, ok := t.Underlying().(*types.Pointer); ok {
		t = p.Elem()
	}
	if st, ok := t.Underlying().(*types.Struct); ok && idx < st.NumFields() {
		return st.Field(idx).Name()
	}
	return ""
}

// ---- the settings API seen through wrappers ----

// sym: a value of some frame, or a field (chain) of it that the frame itself never loads.
type sym struct {
	v    ssa.Value
	path []int
}

func (a sym) ok() bool { return a.v != nil }

// settingRoles: the (type, name, value) of a settings access, in the frame that holds the call.
type settingRoles struct {
	tp, name, value sym
}

// symOf: strips conversions and quoting, splits field loads into (struct, path); a by-value parameter kept in a cell is the parameter.
func symOf(v ssa.Value) sym {
	for i := 0; i < 6 && v != nil; i++ {
		switch x := v.(type) {
		case *ssa.Convert:
			v = x.X
			continue
		case *ssa.ChangeType:
			v = x.X
			continue
		case *ssa.MakeInterface:
			v = x.X
			continue
		case *ssa.Call:
			if sc := x.Common().StaticCallee(); sc != nil && sc.String() == "strconv.Quote" && len(x.Common().Args) == 1 {
				v = x.Common().Args[0]
				continue
			}
		}
		break
	}
	if v == nil {
		return sym{}
	}
	base, path := accessPath(v)
	// the struct itself loaded from its cell
	if u, ok := base.(*ssa.UnOp); ok && u.Op == token.MUL {
		if al, ok := u.X.(*ssa.Alloc); ok {
			base = al
		}
	}
	if al, ok := base.(*ssa.Alloc); ok {
		if p, spilled := isSpilledParam(al); spilled {
			return sym{p, path}
		}
		if len(path) > 0 {
			if fv, ok := fieldValueIn(al, path, 0); ok {
				return symOf(fv)
			}
		}
	}
	return sym{base, path}
}

// resolveAtSite: a value of the callee's frame expressed in the caller's frame of one call: parameters become arguments, fields
// read from a struct parameter become what the caller stored into that field of the struct it passes.
func resolveAtSite(a sym, call ssa.CallInstruction, callee *ssa.Function) sym {
	if !a.ok() {
		return sym{}
	}
	switch x := a.v.(type) {
	case *ssa.Const:
		return a
	case *ssa.Global:
		return a
	case *ssa.UnOp:
		if _, ok := x.X.(*ssa.Global); ok && x.Op == token.MUL {
			return a
		}
	case *ssa.Parameter:
		for i, p := range callee.Params {
			if p == x && i < len(call.Common().Args) {
				arg := symOf(call.Common().Args[i])
				if !arg.ok() {
					return sym{}
				}
				full := sym{arg.v, append(append([]int{}, arg.path...), a.path...)}
				if al, ok := full.v.(*ssa.Alloc); ok && len(full.path) > 0 {
					if fv, ok := fieldValueIn(al, full.path, 0); ok {
						return symOf(fv)
					}
				}
				return full
			}
		}
	}
	return sym{}
}

// fieldValueIn: the value stored into field path of the struct object obj (a local composite literal, possibly nested).
func fieldValueIn(obj ssa.Value, path []int, depth int) (ssa.Value, bool) {
	if len(path) == 0 {
		return obj, true
	}
	if depth > 4 {
		return nil, false
	}
	var cell *ssa.Alloc
	switch x := obj.(type) {
	case *ssa.UnOp:
		if x.Op == token.MUL {
			cell, _ = x.X.(*ssa.Alloc)
		}
	case *ssa.Alloc:
		cell = x
	}
	if cell == nil || cell.Referrers() == nil {
		return nil, false
	}
	for _, r := range *cell.Referrers() {
		fa, ok := r.(*ssa.FieldAddr)
		if !ok || fa.Field != path[0] || fa.Referrers() == nil {
			continue
		}
		for _, rr := range *fa.Referrers() {
			if st, ok := rr.(*ssa.Store); ok && st.Addr == ssa.Value(fa) {
				return fieldValueIn(st.Val, path[1:], depth+1)
			}
		}
		// nested struct field initialised in place: &cell.f.g
		if len(path) > 1 {
			for _, rr := range *fa.Referrers() {
				if fa2, ok := rr.(*ssa.FieldAddr); ok && fa2.Field == path[1] && fa2.Referrers() != nil {
					for _, r3 := range *fa2.Referrers() {
						if st, ok := r3.(*ssa.Store); ok && st.Addr == ssa.Value(fa2) {
							return fieldValueIn(st.Val, path[2:], depth+1)
						}
					}
				}
			}
		}
	}
	return nil, false
}

// sameSym: two symbolic values of one frame denote the same value.
func sameSym(a, b sym) bool {
	if !a.ok() || !b.ok() || !samePath(a.path, b.path) {
		return false
	}
	if a.v == b.v || sameExpr(a.v, b.v, 0) {
		return true
	}
	sa, ok1 := constStr(a.v)
	sb, ok2 := constStr(b.v)
	return ok1 && ok2 && sa == sb
}

// constsOfSym: constsCount for a symbolic value.
func (c *Ctx) constsOfSym(a sym) map[string]int {
	if !a.ok() {
		if os.Getenv("QVET_DEBUG_CONSTS") != "" {
			fmt.Fprintf(os.Stderr, "constsOfSym: not ok %v\n", a)
		}
		return map[string]int{"?": 1}
	}
	if len(a.path) == 0 {
		return c.constsCount(a.v, 0)
	}
	if m := c.rowFieldCount(a.v, a.path); m != nil {
		return m
	}
	// a field of a struct parameter: every call site contributes
	if p, ok := a.v.(*ssa.Parameter); ok {
		fn := p.Parent()
		out := map[string]int{}
		for i, q := range fn.Params {
			if q != p {
				continue
			}
			for _, site := range callSitesOf(c, fn) {
				if i >= len(site.Common().Args) {
					out["?"]++
					continue
				}
				arg := symOf(site.Common().Args[i])
				full := sym{arg.v, append(append([]int{}, arg.path...), a.path...)}
				if al, ok := full.v.(*ssa.Alloc); ok {
					if fv, ok := fieldValueIn(al, full.path, 0); ok {
						full = symOf(fv)
					}
				}
				if full.ok() && (full.v != a.v || !samePath(full.path, a.path)) {
					for k, n := range c.constsOfSym(full) {
						out[k] += n
					}
				} else {
					out["?"]++
				}
			}
		}
		if len(out) > 0 {
			return out
		}
	}
	return map[string]int{"?": 1}
}

// keyRolesIn: the (type, name) values from which fn derives the fingerprint of a setting — the arguments of the Sprintf whose format
// mentions "type": and "name": — in fn's own frame (lifted out of a key helper it calls).
func keyRolesIn(fn *ssa.Function, depth int) (tp, name sym, ok bool) {
	if fn == nil || depth > 2 {
		return sym{}, sym{}, false
	}
	for _, b := range fn.Blocks {
		for _, ins := range b.Instrs {
			call, isCall := ins.(*ssa.Call)
			if !isCall {
				continue
			}
			sc := call.Common().StaticCallee()
			if sc == nil {
				continue
			}
			if sc.String() == "fmt.Sprintf" && len(call.Common().Args) == 2 {
				f, isK := constStr(call.Common().Args[0])
				if !isK || !strings.Contains(f, `"type":`) || !strings.Contains(f, `"name":`) {
					continue
				}
				el := variadicElems(call.Common().Args[1])
				if len(el) != 2 {
					continue
				}
				a, bb := symOf(el[0]), symOf(el[1])
				if strings.Index(f, `"type":`) > strings.Index(f, `"name":`) {
					a, bb = bb, a
				}
				return a, bb, a.ok() && bb.ok()
			}
			if isModuleFn(sc) && strings.HasPrefix(fnPkgRel(sc), "ctrl") {
				if t2, n2, ok2 := keyRolesIn(sc, depth+1); ok2 {
					rt := resolveAtSite(t2, call, sc)
					rn := resolveAtSite(n2, call, sc)
					if rt.ok() && rn.ok() {
						return rt, rn, true
					}
				}
			}
		}
	}
	return sym{}, sym{}, false
}

type settingsAPI struct {
	basePut, baseGet *ssa.Function
	putLike, getLike map[*ssa.Function]bool
	inner            map[*ssa.Function]*ssa.Call // thin wrapper → the settings call it forwards to
}

// settingsAPIOf: the base routines (found by their SQL) and the thin wrappers around them: functions without loops and without
// database calls of their own that make exactly one settings call and return its result.
func (c *Ctx) settingsAPIOf() *settingsAPI {
	if v, ok := c.memo["settingsAPI"]; ok {
		return v.(*settingsAPI)
	}
	api := &settingsAPI{putLike: map[*ssa.Function]bool{}, getLike: map[*ssa.Function]bool{}, inner: map[*ssa.Function]*ssa.Call{}}
	c.memo["settingsAPI"] = api
	api.basePut, api.baseGet = c.settingsFns()
	if api.basePut != nil {
		api.putLike[api.basePut] = true
	}
	if api.baseGet != nil {
		api.getLike[api.baseGet] = true
	}
	for changed := true; changed; {
		changed = false
		for _, fn := range moduleFuncs(c.CG()) {
			if isTestFunc(c, fn) || !strings.HasPrefix(fnPkgRel(fn), "ctrl") || api.putLike[fn] || api.getLike[fn] || len(fn.Blocks) == 0 {
				continue
			}
			var calls []*ssa.Call
			thin := true
			for _, b := range fn.Blocks {
				if inCycle(b) != nil {
					thin = false
				}
				for _, ins := range b.Instrs {
					call, ok := ins.(*ssa.Call)
					if !ok {
						continue
					}
					if call.Common().IsInvoke() && isDriverConn(call.Common().Value.Type()) {
						thin = false
					}
					if sc := call.Common().StaticCallee(); sc != nil && (api.putLike[sc] || api.getLike[sc]) {
						calls = append(calls, call)
					}
				}
			}
			if !thin || len(calls) != 1 {
				continue
			}
			// the wrapper returns what the settings call returns
			returnsIt := false
			for _, r := range returnsOf(fn) {
				for _, res := range r.Results {
					if res == ssa.Value(calls[0]) {
						returnsIt = true
					}
					if ex, ok := res.(*ssa.Extract); ok && ex.Tuple == ssa.Value(calls[0]) {
						returnsIt = true
					}
				}
			}
			if !returnsIt {
				continue
			}
			api.inner[fn] = calls[0]
			if api.putLike[calls[0].Common().StaticCallee()] {
				api.putLike[fn] = true
			} else {
				api.getLike[fn] = true
			}
			changed = true
		}
	}
	return api
}

// rolesAt: the (type, name, value) of the settings call, in the frame of the function that makes it.
func (api *settingsAPI) rolesAt(call *ssa.Call, depth int) (settingRoles, bool) {
	var r settingRoles
	sc := call.Common().StaticCallee()
	if sc == nil || depth > 4 {
		return r, false
	}
	var in settingRoles // in sc's frame
	switch {
	case sc == api.basePut:
		// INSERT INTO settings (fingerprint, type, name, value, …) VALUES ($1, $2, $3, $4, …)
		for _, b := range sc.Blocks {
			for _, ins := range b.Instrs {
				ex, ok := ins.(*ssa.Call)
				if !ok || !ex.Common().IsInvoke() || ex.Common().Method.Name() != "Exec" || len(ex.Common().Args) < 3 {
					continue
				}
				el := variadicElems(ex.Common().Args[2])
				if len(el) < 4 {
					continue
				}
				in = settingRoles{symOf(el[1]), symOf(el[2]), symOf(el[3])}
			}
		}
		if !in.tp.ok() {
			return r, false
		}
	case sc == api.baseGet:
		t, n, ok := keyRolesIn(sc, 0)
		if !ok {
			return r, false
		}
		in = settingRoles{t, n, sym{}}
	case api.inner[sc] != nil:
		var ok bool
		in, ok = api.rolesAt(api.inner[sc], depth+1)
		if !ok {
			return r, false
		}
	default:
		return r, false
	}
	r.tp = resolveAtSite(in.tp, call, sc)
	r.name = resolveAtSite(in.name, call, sc)
	r.value = resolveAtSite(in.value, call, sc)
	return r, r.tp.ok() && r.name.ok()
}
