package main

// Semantic anchors and constant resolution shared by the ctrl rules: functions are found by what they do (the SQL they run), not by
// their names, and the constants an expression can take are resolved through parameters (all call sites) and through rows of
// constant tables (local or package-level composite literals walked by a loop).

import (
	"go/ast"
	"go/constant"
	"go/token"
	"go/types"
	"sort"
	"strings"

	"golang.org/x/tools/go/ssa"
)

// settingsFns: the functions of ctrl/ that write (`INSERT INTO settings`) and read (a Query over the settings table) the markers.
func (c *Ctx) settingsFns() (put, get *ssa.Function) {
	for _, fn := range moduleFuncs(c.CG()) {
		if isTestFunc(c, fn) || !strings.HasPrefix(fnPkgRel(fn), "ctrl") {
			continue
		}
		mentions := false
		for _, b := range fn.Blocks {
			for _, ins := range b.Instrs {
				call, ok := ins.(*ssa.Call)
				if !ok {
					continue
				}
				if call.Common().IsInvoke() && isDriverConn(call.Common().Value.Type()) && len(call.Common().Args) >= 2 {
					for _, t := range queryTextsOf(call.Common().Args[1]) {
						up := strings.ToUpper(strings.Join(strings.Fields(t), " "))
						if call.Common().Method.Name() == "Exec" && strings.HasPrefix(up, "INSERT INTO SETTINGS") {
							put = fn
						}
						if call.Common().Method.Name() == "Query" && strings.Contains(up, "ARGMAX(VALUE") {
							mentions = true
						}
					}
				}
			}
		}
		if mentions {
			get = fn
		}
	}
	return
}

// stringArgs: the string-typed arguments of a call in order (receiver excluded).
func stringArgs(call *ssa.Call) []ssa.Value {
	var out []ssa.Value
	args := call.Common().Args
	sc := call.Common().StaticCallee()
	start := 0
	if sc != nil && sc.Signature.Recv() != nil {
		start = 1
	}
	for _, a := range args[start:] {
		if b, ok := a.Type().Underlying().(*types.Basic); ok && b.Info()&types.IsString != 0 {
			out = append(out, a)
		}
	}
	return out
}

// tableRows evaluates the composite literal a package-level or local variable is initialised with: one map (field name → constant
// in Go syntax, strings unquoted) per element.
func (c *Ctx) tableRowsOfGlobal(g *ssa.Global) []map[string]string {
	if g == nil || g.Pkg == nil {
		return nil
	}
	p := c.ByPath[g.Pkg.Pkg.Path()]
	if p == nil {
		return nil
	}
	var lit *ast.CompositeLit
	for _, f := range p.Syntax {
		for _, d := range f.Decls {
			gd, ok := d.(*ast.GenDecl)
			if !ok || gd.Tok != token.VAR {
				continue
			}
			for _, sp := range gd.Specs {
				vs := sp.(*ast.ValueSpec)
				for i, n := range vs.Names {
					if n.Name == g.Name() && i < len(vs.Values) {
						lit, _ = ast.Unparen(vs.Values[i]).(*ast.CompositeLit)
					}
				}
			}
		}
	}
	if lit == nil {
		return nil
	}
	return c.literalRows(p.TypesInfo, lit)
}

func (c *Ctx) literalRows(info *types.Info, lit *ast.CompositeLit) []map[string]string {
	var elemT *types.Struct
	if tv, ok := info.Types[lit]; ok {
		switch u := tv.Type.Underlying().(type) {
		case *types.Slice:
			elemT, _ = u.Elem().Underlying().(*types.Struct)
		case *types.Array:
			elemT, _ = u.Elem().Underlying().(*types.Struct)
		}
	}
	if elemT == nil {
		return nil
	}
	var rows []map[string]string
	for _, el := range lit.Elts {
		if kv, ok := el.(*ast.KeyValueExpr); ok {
			el = kv.Value
		}
		rl, ok := ast.Unparen(el).(*ast.CompositeLit)
		if !ok {
			return nil
		}
		row := map[string]string{}
		for i, sub := range rl.Elts {
			name := ""
			if kv, ok := sub.(*ast.KeyValueExpr); ok {
				if id, ok := kv.Key.(*ast.Ident); ok {
					name = id.Name
				}
				sub = kv.Value
			} else if i < elemT.NumFields() {
				name = elemT.Field(i).Name()
			}
			if tv, ok := info.Types[sub]; ok && tv.Value != nil && name != "" {
				if tv.Value.Kind() == constant.String {
					row[name] = constant.StringVal(tv.Value)
				} else {
					row[name] = tv.Value.ExactString()
				}
			}
		}
		rows = append(rows, row)
	}
	return rows
}

// rowSource: the value is (a copy of) an element of a package-level table; returns the table's rows.
func (c *Ctx) rowSource(v ssa.Value, depth int) []map[string]string {
	if v == nil || depth > 6 {
		return nil
	}
	switch x := v.(type) {
	case *ssa.UnOp:
		if x.Op == token.MUL {
			switch a := x.X.(type) {
			case *ssa.IndexAddr:
				return c.rowSource(a.X, depth+1)
			case *ssa.Global:
				return c.tableRowsOfGlobal(a)
			case *ssa.Alloc:
				if a.Referrers() != nil {
					for _, r := range *a.Referrers() {
						if st, ok := r.(*ssa.Store); ok && st.Addr == ssa.Value(a) {
							if rows := c.rowSource(st.Val, depth+1); rows != nil {
								return rows
							}
						}
					}
				}
			}
		}
	case *ssa.Alloc:
		if x.Referrers() != nil {
			for _, r := range *x.Referrers() {
				if st, ok := r.(*ssa.Store); ok && st.Addr == ssa.Value(x) {
					if rows := c.rowSource(st.Val, depth+1); rows != nil {
						return rows
					}
				}
			}
		}
	case *ssa.IndexAddr:
		return c.rowSource(x.X, depth+1)
	case *ssa.Global:
		return c.tableRowsOfGlobal(x)
	case *ssa.Index:
		return c.rowSource(x.X, depth+1)
	case *ssa.Slice:
		return c.rowSource(x.X, depth+1)
	case *ssa.Phi:
		for _, e := range x.Edges {
			if rows := c.rowSource(e, depth+1); rows != nil {
				return rows
			}
		}
	case *ssa.Extract:
		return c.rowSource(x.Tuple, depth+1)
	case *ssa.Next:
		return c.rowSource(x.Iter, depth+1)
	case *ssa.Range:
		return c.rowSource(x.X, depth+1)
	case *ssa.Parameter:
		fn := x.Parent()
		idx := -1
		for i, p := range fn.Params {
			if p == x {
				idx = i
			}
		}
		for _, site := range callSitesOf(c, fn) {
			if idx >= 0 && idx < len(site.Common().Args) {
				if rows := c.rowSource(site.Common().Args[idx], depth+1); rows != nil {
					return rows
				}
			}
		}
	}
	return nil
}

// constsOf: the constant values (Go syntax, strings unquoted) a value can take, resolved through phis, parameters (all call sites)
// and fields of table rows; "?" marks an unresolved contribution.
func (c *Ctx) constsOf(v ssa.Value, depth int) []string {
	set := map[string]bool{}
	var walk func(v ssa.Value, d int)
	walk = func(v ssa.Value, d int) {
		if v == nil || d > 8 {
			set["?"] = true
			return
		}
		switch x := v.(type) {
		case *ssa.Const:
			if x.Value == nil {
				set["nil"] = true
			} else if x.Value.Kind() == constant.String {
				set[constant.StringVal(x.Value)] = true
			} else {
				set[x.Value.ExactString()] = true
			}
			return
		case *ssa.Phi:
			for _, e := range x.Edges {
				walk(e, d+1)
			}
			return
		case *ssa.Convert:
			walk(x.X, d+1)
			return
		case *ssa.ChangeType:
			walk(x.X, d+1)
			return
		case *ssa.Parameter:
			fn := x.Parent()
			idx := -1
			for i, p := range fn.Params {
				if p == x {
					idx = i
				}
			}
			sites := callSitesOf(c, fn)
			if len(sites) == 0 || idx < 0 {
				set["?"] = true
				return
			}
			for _, site := range sites {
				if idx < len(site.Common().Args) {
					walk(site.Common().Args[idx], d+1)
				} else {
					set["?"] = true
				}
			}
			return
		case *ssa.Field:
			if rows := c.rowSource(x.X, 0); rows != nil {
				fname := fieldNameOf(x.X.Type(), x.Field)
				for _, r := range rows {
					if val, ok := r[fname]; ok {
						set[val] = true
					} else {
						set["?"] = true
					}
				}
				return
			}
		case *ssa.UnOp:
			if x.Op == token.MUL {
				if fa, ok := x.X.(*ssa.FieldAddr); ok {
					if rows := c.rowSource(fa.X, 0); rows != nil {
						fname := fieldNameOf(fa.X.Type(), fa.Field)
						for _, r := range rows {
							if val, ok := r[fname]; ok {
								set[val] = true
							} else {
								set["?"] = true
							}
						}
						return
					}
				}
			}
		}
		set["?"] = true
	}
	walk(v, depth)
	var out []string
	for k := range set {
		out = append(out, k)
	}
	sort.Strings(out)
	return out
}

func fieldNameOf(t types.Type, idx int) string {
	if p, ok := t.Underlying().(*types.Pointer); ok {
		t = p.Elem()
	}
	if st, ok := t.Underlying().(*types.Struct); ok && idx < st.NumFields() {
		return st.Field(idx).Name()
	}
	return ""
}
