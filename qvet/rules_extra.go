package main

// Rules added after the first round of seeded changes: B2 atomic swap, O1 hand-over detaches, D7 stage chains wrap the accumulator,
// H4 memoised sub-plans do not depend on the window end, F5 fixed-width ids validated where they enter the row model.

import (
	"fmt"
	"go/ast"
	"go/token"
	"go/types"
	"sort"
	"strings"

	"golang.org/x/tools/go/ssa"
)

// ---------------------------------------------------------------------------------
// B2

var ruleB2old = &Rule{
	ID:    "B2",
	Floor: 2,
	Doc: "atomic buffer swap: in every method of the insert service that resets two or more of the shared batch fields (columns, results, size), all reads and writes of those fields happen inside one single critical section (one Lock … Unlock span / one Lock + deferred Unlock): " +
		"splitting the swap into two lock holds lets a request append rows to columns that are already swapped out while its promise stays with the next batch",
	Run: func(c *Ctx) []Obl {
		var obls []Obl
		p := c.ByPathLoaded(pkgWService)
		if p == nil {
			return []Obl{{Key: "writer/service", Pos: "-", Status: Undecided, Msg: "package not loaded"}}
		}
		svcT := p.Types.Scope().Lookup("InsertServiceV2")
		trio := map[string]bool{"columns": true, "results": true, "size": true}
		for _, fi := range c.Funcs(c.PkgsUnder("writer/service")) {
			if isTestFile(c, fi.Decl) || fi.Decl.Recv == nil {
				continue
			}
			info := fi.Pkg.TypesInfo
			// count Lock() calls on the service mutex and field resets
			locks := 0
			resets := map[string]bool{}
			touched := map[string]bool{}
			ast.Inspect(fi.Decl.Body, func(n ast.Node) bool {
				switch x := n.(type) {
				case *ast.CallExpr:
					if se, ok := ast.Unparen(x.Fun).(*ast.SelectorExpr); ok && se.Sel.Name == "Lock" {
						if inner, ok := ast.Unparen(se.X).(*ast.SelectorExpr); ok && inner.Sel.Name == "mtx" {
							if tv, ok := info.Types[inner.X]; ok && namedOf(tv.Type) != nil && namedOf(tv.Type).Obj() == svcT {
								locks++
							}
						}
					}
				case *ast.AssignStmt:
					for _, lh := range x.Lhs {
						if se, ok := ast.Unparen(lh).(*ast.SelectorExpr); ok && trio[se.Sel.Name] {
							if sel, ok := info.Selections[se]; ok && namedOf(sel.Recv()) != nil && namedOf(sel.Recv()).Obj() == svcT {
								resets[se.Sel.Name] = true
							}
						}
					}
				case *ast.SelectorExpr:
					if trio[x.Sel.Name] {
						if sel, ok := info.Selections[x]; ok && sel.Kind() == types.FieldVal && namedOf(sel.Recv()) != nil && namedOf(sel.Recv()).Obj() == svcT {
							touched[x.Sel.Name] = true
						}
					}
				}
				return true
			})
			if len(resets) < 2 {
				continue
			}
			key := fmt.Sprintf("%s swaps %v in one critical section", fi.Name(), keysOf(resets))
			if locks == 1 {
				obls = append(obls, Obl{Key: key, Pos: c.pos(fi.Decl.Pos()), Status: OK, Msg: "one lock hold"})
			} else {
				obls = append(obls, Obl{Key: key, Pos: c.pos(fi.Decl.Pos()), Status: Violation,
					Msg: fmt.Sprintf("the shared batch fields are swapped under %d separate lock holds: a request arriving between them appends its rows to the outgoing columns while its promise is queued with the next batch (it is told the outcome of an INSERT that did not carry its rows)", locks)})
			}
		}
		return obls
	},
}

// ---------------------------------------------------------------------------------
// O1 hand-over detaches

var ruleO1 = &Rule{
	ID:    "O1",
	Floor: 6,
	Doc: "hand-over detaches: once a slice has been handed to another party — sent on a channel, or copied to a local that is returned / sent / put in a returned struct — the owner must replace it by a fresh value (nil, make, a new literal, a call result). " +
		"Re-slicing it (x = x[:0]) keeps the backing array, so later appends overwrite elements the receiver is still reading. Scope: live code of reader/ and writer/",
	Run: func(c *Ctx) []Obl {
		var obls []Obl
		for _, fi := range c.Funcs(c.PkgsUnder("reader", "writer")) {
			if isTestFile(c, fi.Decl) || isGeneratedPos(c, fi) {
				continue
			}
			info := fi.Pkg.TypesInfo
			isSlice := func(e ast.Expr) bool {
				tv, ok := info.Types[e]
				if !ok {
					return false
				}
				_, s := tv.Type.Underlying().(*types.Slice)
				return s
			}
			// analyse every function body (declaration and literals) on its own
			var bodies []*ast.BlockStmt
			bodies = append(bodies, fi.Decl.Body)
			ast.Inspect(fi.Decl.Body, func(n ast.Node) bool {
				if fl, ok := n.(*ast.FuncLit); ok {
					bodies = append(bodies, fl.Body)
				}
				return true
			})
			nth := 0
			seenKey := map[string]bool{}
			for _, body := range bodies {
				// handed-over expressions (by text) in this body and in closures defined in the same declaration
				handed := map[string]token.Pos{}
				alias := map[types.Object]string{}     // local → field text it aliases
				carries := map[types.Object][]string{} // local holding a composite literal → slice fields / variables stored in it
				// slice-typed fields / variables placed directly in a (pointer to a) composite literal
				var litSources func(e ast.Expr) []string
				litSources = func(e ast.Expr) []string {
					e = ast.Unparen(e)
					if ue, ok := e.(*ast.UnaryExpr); ok && ue.Op == token.AND {
						e = ast.Unparen(ue.X)
					}
					cl, ok := e.(*ast.CompositeLit)
					if !ok {
						return nil
					}
					var out []string
					for _, el := range cl.Elts {
						v := el
						if kv, ok := el.(*ast.KeyValueExpr); ok {
							v = kv.Value
						}
						switch ast.Unparen(v).(type) {
						case *ast.SelectorExpr, *ast.Ident:
							if isSlice(v) {
								out = append(out, c.normText(v))
							}
						case *ast.CompositeLit, *ast.UnaryExpr:
							out = append(out, litSources(v)...)
						}
					}
					return out
				}
				inspectOwn := func(f func(n ast.Node) bool) {
					ast.Inspect(body, func(n ast.Node) bool {
						if fl, ok := n.(*ast.FuncLit); ok && fl.Body != body {
							return false
						}
						return f(n)
					})
				}
				inspectOwn(func(n ast.Node) bool {
					switch x := n.(type) {
					case *ast.SendStmt:
						if isSlice(x.Value) {
							handed[c.normText(x.Value)] = x.Pos()
						}
					case *ast.AssignStmt:
						// L := F (alias of a field / variable slice)
						if len(x.Lhs) == 1 && len(x.Rhs) == 1 && isSlice(x.Rhs[0]) {
							if id, ok := x.Lhs[0].(*ast.Ident); ok {
								switch ast.Unparen(x.Rhs[0]).(type) {
								case *ast.SelectorExpr, *ast.Ident:
									if obj := info.Defs[id]; obj != nil {
										alias[obj] = c.normText(x.Rhs[0])
									}
								}
							}
						}
						// L := &T{F, …} (the slice travels inside an object built here)
						if len(x.Lhs) == 1 && len(x.Rhs) == 1 && x.Tok == token.DEFINE {
							if id, ok := x.Lhs[0].(*ast.Ident); ok {
								if src := litSources(x.Rhs[0]); len(src) > 0 {
									if obj := info.Defs[id]; obj != nil {
										carries[obj] = src
									}
								}
							}
						}
					}
					return true
				})
				// aliases that escape: returned, sent, or placed in a composite literal that is returned/sent
				inspectOwn(func(n ast.Node) bool {
					var exprs []ast.Expr
					switch x := n.(type) {
					case *ast.ReturnStmt:
						exprs = x.Results
					case *ast.SendStmt:
						exprs = []ast.Expr{x.Value}
					default:
						return true
					}
					for _, e := range exprs {
						ast.Inspect(e, func(m ast.Node) bool {
							if id, ok := m.(*ast.Ident); ok {
								if src, ok := alias[info.Uses[id]]; ok {
									handed[src] = id.Pos()
								}
								for _, src := range carries[info.Uses[id]] {
									handed[src] = id.Pos()
								}
							}
							return true
						})
						for _, src := range litSources(e) {
							handed[src] = e.Pos()
						}
					}
					return true
				})
				if len(handed) == 0 {
					continue
				}
				// closures of the same declaration share captured variables: look for reslices in the whole declaration
				ast.Inspect(fi.Decl.Body, func(n ast.Node) bool {
					as, ok := n.(*ast.AssignStmt)
					if !ok || len(as.Lhs) != 1 || len(as.Rhs) != 1 {
						return true
					}
					lt := c.normText(as.Lhs[0])
					if _, ok := handed[lt]; !ok {
						return true
					}
					nth++
					key := fmt.Sprintf("%s %s is replaced by a fresh value after being handed over", fi.Name(), lt)
					if seenKey[key] {
						key = fmt.Sprintf("%s #%d", key, nth)
					}
					seenKey[key] = true
					resliced := false
					if sl, ok := ast.Unparen(as.Rhs[0]).(*ast.SliceExpr); ok {
						if c.normText(sl.X) == lt {
							resliced = true
						}
						// … or a re-slice of the local copy that was handed over (same backing array)
						if id, ok := ast.Unparen(sl.X).(*ast.Ident); ok && alias[info.Uses[id]] == lt {
							resliced = true
						}
					}
					if resliced {
						obls = append(obls, Obl{Key: key, Pos: c.pos(as.Pos()), Status: Violation,
							Msg: fmt.Sprintf("`%s` keeps the backing array of a slice that was handed to another goroutine / returned to a caller: the next appends overwrite elements the receiver is still reading (entries lost or duplicated; a promise list shared between two batches)", c.normText(as))})
					} else {
						obls = append(obls, Obl{Key: key, Pos: c.pos(as.Pos()), Status: OK})
					}
					return true
				})
			}
		}
		sort.SliceStable(obls, func(i, j int) bool { return obls[i].Key < obls[j].Key })
		return obls
	},
}

// ---------------------------------------------------------------------------------
// D7 stage chains wrap the accumulator

var ruleD7 = &Rule{
	ID:    "D7",
	Floor: 15,
	Doc: "stage chains wrap the accumulator: in the LogQL planners, a statement `acc = &Stage{…}` whose target is a planner-typed accumulator (field or variable) and whose literal has planner-typed fields must pass the accumulator itself in one of them — each stage decorates the chain built so far. " +
		"A literal that wraps some other planner variable instead silently drops every stage added before it. Initial stages (no planner-typed field references a variable of the enclosing function) are exempt",
	Run: func(c *Ctx) []Obl {
		var obls []Obl
		sp := c.ByPathLoaded(pkgShared)
		if sp == nil {
			return []Obl{{Key: "shared", Pos: "-", Status: Undecided, Msg: "package not loaded"}}
		}
		var ifaces []*types.Interface
		for _, n := range []string{"SQLRequestPlanner", "RequestProcessor"} {
			if o := sp.Types.Scope().Lookup(n); o != nil {
				if it, ok := o.Type().Underlying().(*types.Interface); ok {
					ifaces = append(ifaces, it)
				}
			}
		}
		isPlannerT := func(t types.Type) bool {
			if t == nil {
				return false
			}
			for _, it := range ifaces {
				if types.Identical(t.Underlying(), it) {
					return true
				}
			}
			return false
		}
		for _, fi := range c.Funcs(c.PkgsUnder("reader/logql", "reader/traceql", "reader/promql", "reader/prof/transpiler")) {
			if isTestFile(c, fi.Decl) {
				continue
			}
			info := fi.Pkg.TypesInfo
			nth := map[string]int{}
			ast.Inspect(fi.Decl.Body, func(n ast.Node) bool {
				as, ok := n.(*ast.AssignStmt)
				if !ok || len(as.Lhs) != 1 || len(as.Rhs) != 1 || as.Tok != token.ASSIGN {
					return true
				}
				tv, ok := info.Types[as.Lhs[0]]
				if !ok || !isPlannerT(tv.Type) {
					return true
				}
				ue, ok := ast.Unparen(as.Rhs[0]).(*ast.UnaryExpr)
				if !ok || ue.Op != token.AND {
					return true
				}
				cl, ok := ue.X.(*ast.CompositeLit)
				if !ok {
					return true
				}
				acc := c.normText(as.Lhs[0])
				if _, isIdx := ast.Unparen(as.Lhs[0]).(*ast.IndexExpr); isIdx {
					return true // a fresh element of a planner list, not a chain accumulator
				}
				// the accumulator must already hold a chain: assigned earlier in this function, or a field
				holds := false
				if _, isSel := ast.Unparen(as.Lhs[0]).(*ast.SelectorExpr); isSel {
					holds = true
				}
				if !holds {
					g := c.cfgOf(fi, fi.Decl.Body)
					tb, _ := g.BlockOf(as)
					ast.Inspect(fi.Decl.Body, func(m ast.Node) bool {
						if pa, ok := m.(*ast.AssignStmt); ok && pa.End() < as.Pos() {
							for _, lh := range pa.Lhs {
								if c.normText(lh) == acc {
									if pb, _ := g.BlockOf(pa); pb != nil && tb != nil && (pb == tb || g.reachableAvoiding(pb, tb, nil)) {
										holds = true
									}
								}
							}
						}
						return true
					})
				}
				// a base stage: the literal itself creates the source planner through a constructor call
				base := false
				ast.Inspect(cl, func(m ast.Node) bool {
					if call, ok := m.(*ast.CallExpr); ok {
						if o := calleeObj(info, call); o != nil && strings.HasPrefix(o.Name(), "New") {
							base = true
						}
					}
					return true
				})
				if !holds || base {
					return true
				}
				var plannerVals []string
				wraps := false
				ast.Inspect(cl, func(m ast.Node) bool {
					if e, ok := m.(ast.Expr); ok && c.normText(e) == acc {
						wraps = true
					}
					return true
				})
				for i, el := range cl.Elts {
					var val ast.Expr = el
					var ft types.Type
					if kv, ok := el.(*ast.KeyValueExpr); ok {
						val = kv.Value
						if id, ok := kv.Key.(*ast.Ident); ok {
							if st, ok := info.Types[cl].Type.Underlying().(*types.Struct); ok {
								for j := 0; j < st.NumFields(); j++ {
									if st.Field(j).Name() == id.Name {
										ft = st.Field(j).Type()
									}
								}
							}
						}
					} else if st, ok := info.Types[cl].Type.Underlying().(*types.Struct); ok && i < st.NumFields() {
						ft = st.Field(i).Type()
					}
					inner := val
					// embedded GenericPlanner{in}
					if icl, ok := ast.Unparen(val).(*ast.CompositeLit); ok && len(icl.Elts) == 1 {
						if itv, ok := info.Types[icl]; ok {
							if st, ok := itv.Type.Underlying().(*types.Struct); ok && st.NumFields() >= 1 && isPlannerT(st.Field(0).Type()) {
								ft = st.Field(0).Type()
								inner = icl.Elts[0]
								if kv, ok := inner.(*ast.KeyValueExpr); ok {
									inner = kv.Value
								}
							}
						}
					}
					if !isPlannerT(ft) {
						continue
					}
					t := c.normText(inner)
					if t == acc {
						wraps = true
					}
					switch ast.Unparen(inner).(type) {
					case *ast.Ident, *ast.SelectorExpr:
						plannerVals = append(plannerVals, t)
					}
				}
				if len(plannerVals) == 0 {
					return true // initial stage
				}
				k := fmt.Sprintf("%s %s = &%s{…} wraps the chain built so far", fi.Name(), acc, c.normText(cl.Type))
				nth[k]++
				key := k
				if nth[k] > 1 {
					key = fmt.Sprintf("%s #%d", k, nth[k])
				}
				if wraps {
					obls = append(obls, Obl{Key: key, Pos: c.pos(as.Pos()), Status: OK})
				} else {
					obls = append(obls, Obl{Key: key, Pos: c.pos(as.Pos()), Status: Violation,
						Msg: fmt.Sprintf("the new stage wraps %v instead of the accumulator %s: every stage planned before it is dropped from the query", plannerVals, acc)})
				}
				return true
			})
		}
		return obls
	},
}

// ---------------------------------------------------------------------------------
// H4 memoised sub-plans

type memoSite struct {
	fn    *ssa.Function          // the function holding the memo
	call  *ssa.Call              // the sub-planner call whose result is memoised
	reach map[*ssa.Function]bool // functions that may run below that call
}

// memoSites: on SSA, a store to a cell (a planner field, or the target of a pointer kept in one) that cannot be reached from the
// branch on which that same cell was found non-nil, and the sub-planner calls that run only on the empty-memo side.
func (c *Ctx) memoSites() []memoSite {
	if v, ok := c.memo["memoSites"]; ok {
		return v.([]memoSite)
	}
	g := c.CG()
	var out []memoSite
	for _, sf := range liveModuleFuncs(c, transpilerScopes...) {
		if sf.Signature.Recv() == nil && sf.Parent() == nil {
			continue
		}
		for _, sb := range sf.Blocks {
			for _, sins := range sb.Instrs {
				st, ok := sins.(*ssa.Store)
				if !ok || !isCellAddr(st.Addr) {
					continue
				}
				for _, gb := range sf.Blocks {
					if len(gb.Instrs) == 0 {
						continue
					}
					iff, ok := gb.Instrs[len(gb.Instrs)-1].(*ssa.If)
					if !ok {
						continue
					}
					cmp, ok := iff.Cond.(*ssa.BinOp)
					if !ok || (cmp.Op != token.NEQ && cmp.Op != token.EQL) {
						continue
					}
					isNilK := func(v ssa.Value) bool { k, ok := v.(*ssa.Const); return ok && k.Value == nil }
					var tested ssa.Value
					if isNilK(cmp.Y) {
						tested = cmp.X
					} else if isNilK(cmp.X) {
						tested = cmp.Y
					}
					if ld, ok := tested.(*ssa.UnOp); ok {
						if ld.Op != token.MUL || !sameAddr(ld.X, st.Addr, 0) {
							continue
						}
					} else if !helperLoadsCell(tested, st.Addr) {
						continue
					}
					nonNil, isNil := gb.Succs[0], gb.Succs[1]
					if cmp.Op == token.EQL {
						nonNil, isNil = isNil, nonNil
					}
					fromNonNil := reachableBlocks(nonNil)
					if fromNonNil[sb] {
						continue // the store also happens when the cell is filled: not a memo
					}
					fromNil := reachableBlocks(isNil)
					for _, b := range sf.Blocks {
						if !fromNil[b] || fromNonNil[b] {
							continue
						}
						for _, ins := range b.Instrs {
							call, ok := ins.(*ssa.Call)
							if !ok || !call.Call.IsInvoke() || call.Call.Method.Name() != "Process" {
								continue
							}
							seen := map[*ssa.Function]bool{}
							seenInv := map[*ssa.Function]bool{}
							var walk func(fn *ssa.Function, allowInvoke bool)
							walk = func(fn *ssa.Function, allowInvoke bool) {
								if allowInvoke {
									if seenInv[fn] {
										return
									}
									seenInv[fn] = true
								} else if seen[fn] || seenInv[fn] {
									return
								}
								seen[fn] = true
								for _, e := range g.vtaOut[fn] {
									if e.Fallback {
										continue
									}
									inModule := e.Callee.Pkg != nil && strings.HasPrefix(e.Callee.Pkg.Pkg.Path(), modPath) || e.Callee.Parent() != nil
									if !inModule {
										continue
									}
									isInvoke := e.Site != nil && e.Site.Common().IsInvoke()
									if isInvoke {
										if allowInvoke && e.Site.Common().Method.Name() == "Process" {
											walk(e.Callee, true)
										}
										continue
									}
									walk(e.Callee, false)
								}
							}
							for _, e := range g.vtaOut[sf] {
								if e.Site == ssa.CallInstruction(call) {
									walk(e.Callee, true)
								}
							}
							out = append(out, memoSite{sf, call, seen})
						}
					}
				}
			}
		}
	}
	c.memo["memoSites"] = out
	return out
}

var ruleH4 = &Rule{
	ID:    "H4",
	Floor: 1,
	Doc: "memoised sub-plans do not depend on the window end: where a planner's Process stores the statement produced by a sub-planner in a memo cell (written only while empty, so it is reused by every later execution of the plan), " +
		"no function reachable from that sub-planner call may read PlannerContext.To (or a field of a window object the value was merely copied into; copying it there is not a read) — the window end advances on every execution (live tail), a frozen upper bound excludes everything newer than the first execution; a frozen lower bound only widens",
	Run: func(c *Ctx) []Obl {
		g := c.CG()
		var obls []Obl
		shp := c.ssaPkgs[pkgShared]
		if shp == nil {
			return []Obl{{Key: "shared", Pos: "-", Status: Undecided, Msg: "package not loaded"}}
		}
		// fields that hold the window end: PlannerContext.To and, transitively, every struct field a load of such a field is merely
		// copied into (a window object built from the context); a function reads the window end when it uses such a load for
		// anything else
		endFields := map[string]bool{}
		if nt, ok := shp.Pkg.Scope().Lookup("PlannerContext").Type().(*types.Named); ok {
			if st, ok := nt.Underlying().(*types.Struct); ok {
				for i := 0; i < st.NumFields(); i++ {
					if st.Field(i).Name() == "To" {
						endFields[fieldKey(types.NewPointer(nt), i)] = true
					}
				}
			}
		}
		if len(endFields) == 0 {
			return []Obl{{Key: "PlannerContext.To", Pos: "-", Status: Undecided, Msg: "field not found"}}
		}
		readsTo := map[*ssa.Function]bool{}
		for changed := true; changed; {
			changed = false
			readsTo = map[*ssa.Function]bool{}
			for _, fn := range moduleFuncs(g) {
				for _, b := range fn.Blocks {
					for _, ins := range b.Instrs {
						fa, ok := ins.(*ssa.FieldAddr)
						if !ok || !endFields[fieldKey(fa.X.Type(), fa.Field)] || fa.Referrers() == nil {
							continue
						}
						for _, r := range *fa.Referrers() {
							ld, ok := r.(*ssa.UnOp)
							if !ok || ld.Op != token.MUL {
								// a store into the field is not a read; anything else (address taken) is
								if st, isSt := r.(*ssa.Store); !isSt || st.Addr != ssa.Value(fa) {
									readsTo[fn] = true
								}
								continue
							}
							onlyCopied := ld.Referrers() != nil && len(*ld.Referrers()) > 0
							if ld.Referrers() != nil {
								for _, u := range *ld.Referrers() {
									st, isSt := u.(*ssa.Store)
									tf, isF := (ssa.Value)(nil), false
									if isSt && st.Val == ssa.Value(ld) {
										tf, isF = st.Addr, true
									}
									tfa, okF := tf.(*ssa.FieldAddr)
									if !isF || !okF {
										onlyCopied = false
										continue
									}
									k := fieldKey(tfa.X.Type(), tfa.Field)
									if !endFields[k] {
										endFields[k] = true
										changed = true
									}
								}
							}
							if !onlyCopied {
								readsTo[fn] = true
							}
						}
					}
				}
			}
		}
		for _, ms := range c.memoSites() {
			var offenders []string
			for fn := range ms.reach {
				if readsTo[fn] {
					offenders = append(offenders, ssaName(fn))
				}
			}
			key := fmt.Sprintf("%s memoises the statement of %s", ssaName(ms.fn), c.fieldOfCall(ms.call))
			sort.Strings(offenders)
			if len(offenders) == 0 {
				obls = append(obls, Obl{Key: key, Pos: c.pos(ms.call.Pos()), Status: OK, Msg: fmt.Sprintf("%d functions reachable, none reads the window end", len(ms.reach))})
			} else {
				obls = append(obls, Obl{Key: key, Pos: c.pos(ms.call.Pos()), Status: Violation, Path: offenders,
					Msg: "the memoised statement is built by code that reads PlannerContext.To: its upper bound is frozen at the first execution, so a live tail stops seeing series/rows newer than that"})
			}
		}
		// dedupe by key
		seenK := map[string]bool{}
		var out []Obl
		for _, o := range obls {
			if !seenK[o.Key] {
				seenK[o.Key] = true
				out = append(out, o)
			}
		}
		return out
	},
}

// isCellAddr: the address of a struct field, or of the target of a pointer that is itself loaded from a struct field.
func isCellAddr(a ssa.Value) bool {
	switch x := a.(type) {
	case *ssa.FieldAddr:
		return true
	case *ssa.UnOp:
		if x.Op == token.MUL {
			_, ok := x.X.(*ssa.FieldAddr)
			return ok
		}
	}
	return false
}

// sameAddr: two address expressions denote the same cell (same field of the same object, same pointer loaded from the same field).
func sameAddr(a, b ssa.Value, d int) bool {
	if a == b {
		return true
	}
	if d > 4 {
		return false
	}
	switch x := a.(type) {
	case *ssa.FieldAddr:
		y, ok := b.(*ssa.FieldAddr)
		return ok && x.Field == y.Field && (canon(x.X) == canon(y.X) || sameAddr(x.X, y.X, d+1))
	case *ssa.UnOp:
		y, ok := b.(*ssa.UnOp)
		return ok && x.Op == token.MUL && y.Op == token.MUL && sameAddr(x.X, y.X, d+1)
	}
	return canon(a) == canon(b)
}

func reachableBlocks(from *ssa.BasicBlock) map[*ssa.BasicBlock]bool {
	out := map[*ssa.BasicBlock]bool{}
	var walk func(b *ssa.BasicBlock)
	walk = func(b *ssa.BasicBlock) {
		if out[b] {
			return
		}
		out[b] = true
		for _, s := range b.Succs {
			walk(s)
		}
	}
	walk(from)
	return out
}

func (c *Ctx) ssaFuncOf(fi *FuncInfo) *ssa.Function {
	g := c.CG()
	if fn, ok := fi.Pkg.TypesInfo.Defs[fi.Decl.Name].(*types.Func); ok {
		return g.byObj[fn]
	}
	return nil
}

func (c *Ctx) insideMemoGuard(w fieldWrite, pos token.Pos) bool {
	return w.gStart.IsValid() && w.gStart <= pos && pos <= w.gEnd
}

func (c *Ctx) fieldOfCall(call *ssa.Call) string {
	v := call.Call.Value
	for i := 0; i < 4; i++ {
		switch x := v.(type) {
		case *ssa.UnOp:
			v = x.X
			continue
		case *ssa.FieldAddr:
			if pt, ok := x.X.Type().Underlying().(*types.Pointer); ok {
				if st, ok := pt.Elem().Underlying().(*types.Struct); ok {
					return "field " + st.Field(x.Field).Name()
				}
			}
		}
		break
	}
	return "a sub-planner"
}

// ---------------------------------------------------------------------------------
// F5 fixed-width ids validated

// fixedWidthModelFields: model struct field → FixedString width of the column it feeds (from the insert services).
func (c *Ctx) fixedWidthModelFields() map[string]int {
	out := map[string]int{}
	for _, svc := range c.insertServices() {
		feeds := c.columnFeeds(svc.procFn, svc.ai)
		for f, w := range svc.ai.sizeOf {
			for m := range feeds[f] {
				if m != "?" {
					out[m] = w
				}
			}
		}
	}
	return out
}

// lenChecked: at instruction `at` of fn the byte slice v is known to have length w. v is described as an access path (a base
// value and a chain of struct fields read from it); the fact is established by
//
//	(1) a branch on `len(path) != w` / `== w` whose ok-edge dominates `at`;
//	(2) a module helper called with the base whose "accepted" outcome (nil error / true) dominates `at` and inside which the fact
//	    holds at every return that can report acceptance;
//	(3) the base being a parameter and the fact holding at every call site for the argument;
//	(4) the base being a local struct whose field was stored once, from a value for which the fact holds.
func lenChecked(g *CallGraph, rev map[*ssa.Function][]cgIn, fn *ssa.Function, v ssa.Value, at ssa.Instruction, w int, depth int) bool {
	base, path := accessPath(v)
	q := &lenQ{g: g, rev: rev, w: w}
	return q.known(fn, base, path, at, depth)
}

type lenQ struct {
	g   *CallGraph
	rev map[*ssa.Function][]cgIn
	w   int
}

// accessPath splits a value into the base it is read from and the chain of struct fields followed.
func accessPath(v ssa.Value) (ssa.Value, []int) {
	var path []int
	for i := 0; i < 6; i++ {
		switch x := v.(type) {
		case *ssa.UnOp:
			if x.Op == token.MUL {
				if fa, ok := x.X.(*ssa.FieldAddr); ok {
					path = append([]int{fa.Field}, path...)
					v = fa.X
					continue
				}
			}
		case *ssa.Field:
			path = append([]int{x.Field}, path...)
			v = x.X
			continue
		case *ssa.FieldAddr:
			// the address chain under a load: &(&s.a).b
			if len(path) > 0 {
				path = append([]int{x.Field}, path...)
				v = x.X
				continue
			}
		}
		break
	}
	return v, path
}

func samePath(a, b []int) bool {
	if len(a) != len(b) {
		return false
	}
	for i := range a {
		if a[i] != b[i] {
			return false
		}
	}
	return true
}

func (q *lenQ) is(x ssa.Value, base ssa.Value, path []int) bool {
	b2, p2 := accessPath(x)
	return samePath(p2, path) && canon(b2) == canon(base)
}

func domAt(b *ssa.BasicBlock, at ssa.Instruction) bool {
	return len(b.Preds) == 1 && (b == at.Block() || b.Dominates(at.Block()))
}

func (q *lenQ) known(fn *ssa.Function, base ssa.Value, path []int, at ssa.Instruction, depth int) bool {
	if depth > 5 || fn == nil || at == nil {
		return false
	}
	// a struct parameter passed by value is spilled into a local cell: the cell stands for the parameter
	if al, ok := canon(base).(*ssa.Alloc); ok {
		if p, spilled := isSpilledParam(al); spilled && p.Parent() == fn {
			base = p
		}
	}
	isW := func(x ssa.Value) bool {
		k, ok := x.(*ssa.Const)
		return ok && k.Value != nil && k.Value.ExactString() == fmt.Sprint(q.w)
	}
	isNil := func(x ssa.Value) bool { k, ok := x.(*ssa.Const); return ok && k.Value == nil }
	isLenOf := func(x ssa.Value) bool {
		call, ok := x.(*ssa.Call)
		if !ok {
			return false
		}
		bi, ok := call.Common().Value.(*ssa.Builtin)
		return ok && bi.Name() == "len" && len(call.Common().Args) == 1 && q.is(call.Common().Args[0], base, path)
	}
	// helperAccepts: call hands the base to a module helper inside which the fact holds wherever it can report acceptance
	helperAccepts := func(call *ssa.Call, accepted func(r *ssa.Return) bool) bool {
		sc := call.Common().StaticCallee()
		if sc == nil || !isModuleFn(sc) {
			return false
		}
		for i, a := range call.Common().Args {
			if canon(a) != canon(base) || i >= len(sc.Params) {
				continue
			}
			all, any := true, false
			for _, r := range returnsOf(sc) {
				if !accepted(r) {
					continue
				}
				any = true
				if !q.known(sc, sc.Params[i], path, r, depth+1) {
					all = false
				}
			}
			if any && all {
				return true
			}
		}
		return false
	}
	mayBeNil := func(r *ssa.Return) bool {
		if len(r.Results) == 0 {
			return false
		}
		return !neverNil(r.Results[len(r.Results)-1], 0)
	}
	mayBeTrue := func(r *ssa.Return) bool {
		if len(r.Results) != 1 {
			return false
		}
		if k, ok := r.Results[0].(*ssa.Const); ok && k.Value != nil {
			return k.Value.ExactString() == "true"
		}
		return true
	}
	for _, b := range fn.Blocks {
		if len(b.Instrs) == 0 {
			continue
		}
		iff, ok := b.Instrs[len(b.Instrs)-1].(*ssa.If)
		if !ok {
			continue
		}
		switch cond := iff.Cond.(type) {
		case *ssa.BinOp:
			if cond.Op != token.NEQ && cond.Op != token.EQL {
				continue
			}
			okSucc := b.Succs[1]
			if cond.Op == token.EQL {
				okSucc = b.Succs[0]
			}
			// (1)
			if (isLenOf(cond.X) && isW(cond.Y)) || (isLenOf(cond.Y) && isW(cond.X)) {
				if domAt(okSucc, at) {
					return true
				}
				continue
			}
			// (2) err := helper(base); err != nil → reject
			var tested ssa.Value
			if isNil(cond.Y) {
				tested = cond.X
			} else if isNil(cond.X) {
				tested = cond.Y
			}
			if tested == nil {
				continue
			}
			nilSucc := b.Succs[1]
			if cond.Op == token.EQL {
				nilSucc = b.Succs[0]
			}
			if ex, ok := tested.(*ssa.Extract); ok {
				tested = ex.Tuple
			}
			if call, ok := tested.(*ssa.Call); ok && domAt(nilSucc, at) && helperAccepts(call, mayBeNil) {
				return true
			}
		case *ssa.Call:
			// (2) if helper(base) { … }
			if _, isBool := cond.Type().Underlying().(*types.Basic); isBool && domAt(b.Succs[0], at) && helperAccepts(cond, mayBeTrue) {
				return true
			}
		case *ssa.UnOp:
			if call, ok := cond.X.(*ssa.Call); ok && cond.Op == token.NOT && domAt(b.Succs[1], at) && helperAccepts(call, mayBeTrue) {
				return true
			}
		}
	}
	// (4) a local struct: the field was stored once, before `at`, from a value for which the fact holds
	if al, ok := canon(base).(*ssa.Alloc); ok && len(path) > 0 && al.Referrers() != nil {
		var stores []*ssa.Store
		for _, r := range *al.Referrers() {
			if fa, ok := r.(*ssa.FieldAddr); ok && fa.Field == path[0] && fa.Referrers() != nil {
				for _, rr := range *fa.Referrers() {
					if st, ok := rr.(*ssa.Store); ok && st.Addr == ssa.Value(fa) {
						stores = append(stores, st)
					}
				}
			}
		}
		if len(stores) == 1 {
			vb, vp := accessPath(stores[0].Val)
			if q.known(fn, vb, append(vp, path[1:]...), at, depth+1) {
				return true
			}
		}
	}
	// (3)
	if p, ok := base.(*ssa.Parameter); ok {
		idx := -1
		for i, pp := range fn.Params {
			if pp == p {
				idx = i
			}
		}
		n := 0
		for _, in := range q.rev[fn] {
			site := in.edge.Site
			if site == nil || in.edge.Fallback || idx < 0 {
				continue
			}
			args := site.Common().Args
			ai := idx
			if site.Common().IsInvoke() {
				ai = idx - 1
			}
			if ai < 0 || ai >= len(args) {
				continue
			}
			n++
			ab, ap := accessPath(args[ai])
			if !q.known(in.caller, ab, append(ap, path...), site.(ssa.Instruction), depth+1) {
				return false
			}
		}
		return n > 0
	}
	return false
}

var ruleF5 = &Rule{
	ID:    "F5",
	Floor: 4,
	Doc: "fixed-width ids are validated where they enter the row model (SSA, interprocedural): every append to a row-model field that feeds a FixedString(n) column (the widths come from the insert services' SetSize calls, the feeding fields from the services' request processors) appends a value whose length is known to be n at that point: " +
		"a branch on `len(v) != n` (or `== n`) whose ok-edge dominates the append, in the same function or — when v is a parameter — at every call site. ColFixedStr.Append panics on any other length, after earlier columns of the shared batch were already extended, so an unchecked id skews the batch for every client",
	Run: func(c *Ctx) []Obl {
		widths := c.fixedWidthModelFields()
		var obls []Obl
		if len(widths) == 0 {
			return []Obl{{Key: "fixed-width model fields", Pos: "-", Status: Undecided, Msg: "no FixedString-fed model field recognised"}}
		}
		g := c.CG()
		rev := g.reverseVTA()
		var kk keyer
		for _, fn := range liveModuleFuncs(c, "writer/utils/unmarshal") {
			for _, b := range fn.Blocks {
				for _, ins := range b.Instrs {
					st, ok := ins.(*ssa.Store)
					if !ok {
						continue
					}
					fa, ok := st.Addr.(*ssa.FieldAddr)
					if !ok {
						continue
					}
					nt := namedOf(fa.X.Type())
					if nt == nil {
						continue
					}
					k := fieldKey(fa.X.Type(), fa.Field)
					fname := k[strings.LastIndex(k, ".")+1:]
					w, ok := widths[nt.Obj().Name()+"."+fname]
					if !ok {
						continue
					}
					app, ok := st.Val.(*ssa.Call)
					if !ok {
						continue
					}
					if bi, ok := app.Common().Value.(*ssa.Builtin); !ok || bi.Name() != "append" || len(app.Common().Args) != 2 {
						continue
					}
					elems := variadicElems(app.Common().Args[1])
					key := kk.key(fmt.Sprintf("%s appends to %s.%s (FixedString(%d))", ssaName(fn), nt.Obj().Name(), fname, w))
					if len(elems) == 0 {
						obls = append(obls, Obl{Key: key, Pos: c.pos(app.Pos()), Status: Violation, Msg: "a whole slice is spread into a fixed-width id column: the lengths of its elements cannot be checked here"})
						continue
					}
					okAll := true
					for _, e := range elems {
						if !lenChecked(g, rev, fn, e, st, w, 0) {
							okAll = false
						}
					}
					if okAll {
						obls = append(obls, Obl{Key: key, Pos: c.pos(app.Pos()), Status: OK})
					} else {
						obls = append(obls, Obl{Key: key, Pos: c.pos(app.Pos()), Status: Violation,
							Msg: fmt.Sprintf("the appended id reaches a FixedString(%d) column without a length check that dominates the append (here or at every call site): a span with an id of another length panics inside the insert routine after part of the shared batch was extended", w)})
					}
				}
			}
		}
		return obls
	},
}

var _ = ruleB2old

func init() { register(ruleB2, ruleO1, ruleD7, ruleH4, ruleF5) }

// addrPathOf: an address written as a path from the function's parameters (p0.F, *(p0.F), …); "" when it is anything else.
func addrPathOf(v ssa.Value, d int) string {
	if d > 6 || v == nil {
		return ""
	}
	switch x := v.(type) {
	case *ssa.Parameter:
		for i, p := range x.Parent().Params {
			if p == x {
				return fmt.Sprintf("p%d", i)
			}
		}
	case *ssa.FieldAddr:
		if b := addrPathOf(x.X, d+1); b != "" {
			return b + "." + fieldNameOf(x.X.Type(), x.Field)
		}
	case *ssa.UnOp:
		if x.Op == token.MUL {
			if b := addrPathOf(x.X, d+1); b != "" {
				return "*(" + b + ")"
			}
		}
	}
	return ""
}

// helperLoadsCell: tested is the result of a module helper every return of which is nil or the content of the cell at addr (the
// helper's parameters replaced by the call's arguments).
func helperLoadsCell(tested ssa.Value, addr ssa.Value) bool {
	call, ok := tested.(*ssa.Call)
	if !ok {
		return false
	}
	sc := call.Common().StaticCallee()
	if sc == nil || !isModuleFn(sc) {
		return false
	}
	want := addrPathOf(addr, 0)
	if want == "" {
		return false
	}
	loads := 0
	for _, r := range returnsOf(sc) {
		if len(r.Results) != 1 {
			return false
		}
		if k, ok := r.Results[0].(*ssa.Const); ok && k.Value == nil {
			continue
		}
		ld, ok := r.Results[0].(*ssa.UnOp)
		if !ok || ld.Op != token.MUL {
			return false
		}
		p := addrPathOf(ld.X, 0)
		if p == "" {
			return false
		}
		for i, a := range call.Common().Args {
			if ap := addrPathOf(a, 0); ap != "" {
				p = strings.ReplaceAll(p, fmt.Sprintf("p%d", i), "\x00"+ap+"\x00")
			}
		}
		p = strings.ReplaceAll(p, "\x00", "")
		if p != want {
			return false
		}
		loads++
	}
	return loads > 0
}

// neverNil: an interface value that cannot be nil — a concrete value boxed into it, or the result of a constructor every return of
// which is such a value (fmt.Errorf / errors.New included).
func neverNil(v ssa.Value, depth int) bool {
	if depth > 4 {
		return false
	}
	switch x := v.(type) {
	case *ssa.MakeInterface:
		return true
	case *ssa.ChangeInterface:
		return neverNil(x.X, depth+1)
	case *ssa.Phi:
		for _, e := range x.Edges {
			if !neverNil(e, depth+1) {
				return false
			}
		}
		return len(x.Edges) > 0
	case *ssa.Call:
		sc := x.Common().StaticCallee()
		if sc == nil {
			return false
		}
		switch sc.String() {
		case "fmt.Errorf", "errors.New":
			return true
		}
		if !isModuleFn(sc) {
			return false
		}
		rets := returnsOf(sc)
		for _, r := range rets {
			if len(r.Results) != 1 || !neverNil(r.Results[0], depth+1) {
				return false
			}
		}
		return len(rets) > 0
	}
	return false
}
