package main

// S2: per-record decoder state is re-established for every record, on every entry that reaches the emission (C03 / C06).

import (
	"fmt"
	"go/token"
	"go/types"
	"sort"
	"strings"

	"golang.org/x/tools/go/ssa"
)

type s2Step struct {
	fn   *ssa.Function
	site ssa.Instruction // call / MakeClosure leading to the next function, or the emission itself for the last step
}

type s2 struct {
	c      *Ctx
	g      *CallGraph
	stores map[string][]*ssa.Store // field key → stores
}

func structKeyOf(t types.Type) string {
	if p, ok := t.Underlying().(*types.Pointer); ok {
		t = p.Elem()
	}
	n := namedOf(t)
	if n == nil || n.Obj().Pkg() == nil {
		return ""
	}
	return n.Origin().Obj().Pkg().Path() + "." + n.Obj().Name()
}

// emission: dynamic call through a handler field of a decoder struct
func emissionStruct(call ssa.CallInstruction) (string, bool) {
	u, ok := call.Common().Value.(*ssa.UnOp)
	if !ok || u.Op != token.MUL {
		return "", false
	}
	fa, ok := u.X.(*ssa.FieldAddr)
	if !ok {
		return "", false
	}
	if _, isFn := u.Type().Underlying().(*types.Signature); !isFn {
		return "", false
	}
	k := structKeyOf(fa.X.Type())
	return k, k != ""
}

// depFields: the fields of struct sk the value depends on (backward data dependence, field-based through stores).
func (a *s2) depFields(v ssa.Value, sk string, out map[string]bool, seen map[ssa.Value]bool, depth int) {
	if v == nil || seen[v] || depth > 60 {
		return
	}
	seen[v] = true
	switch x := v.(type) {
	case *ssa.Const, *ssa.Parameter, *ssa.Global, *ssa.Builtin, *ssa.Function:
		return
	case *ssa.FreeVar:
		fn := x.Parent()
		for i, fv := range fn.FreeVars {
			if fv != x || fn.Parent() == nil {
				continue
			}
			for _, b := range fn.Parent().Blocks {
				for _, ins := range b.Instrs {
					if mc, ok := ins.(*ssa.MakeClosure); ok && mc.Fn == ssa.Value(fn) && i < len(mc.Bindings) {
						a.depFields(mc.Bindings[i], sk, out, seen, depth+1)
					}
				}
			}
		}
		return
	case *ssa.Alloc:
		if refs := x.Referrers(); refs != nil {
			for _, r := range *refs {
				switch y := r.(type) {
				case *ssa.Store:
					if y.Addr == ssa.Value(x) {
						a.depFields(y.Val, sk, out, seen, depth+1)
					}
				case *ssa.IndexAddr:
					if ir := y.Referrers(); ir != nil {
						for _, z := range *ir {
							if st, ok := z.(*ssa.Store); ok && st.Addr == ssa.Value(y) {
								a.depFields(st.Val, sk, out, seen, depth+1)
							}
						}
					}
				}
			}
		}
		return
	case *ssa.UnOp:
		if x.Op == token.MUL {
			if fa, ok := x.X.(*ssa.FieldAddr); ok {
				k := fieldKey(fa.X.Type(), fa.Field)
				if structKeyOf(fa.X.Type()) == sk {
					if !out[k] {
						out[k] = true
						for _, st := range a.stores[k] {
							a.depFields(st.Val, sk, out, seen, depth+1)
						}
					}
					return
				}
			}
		}
	case *ssa.Extract:
		if call, ok := x.Tuple.(*ssa.Call); ok {
			if sc := call.Common().StaticCallee(); sc != nil && len(sc.Blocks) > 0 {
				for _, b := range sc.Blocks {
					for _, ins := range b.Instrs {
						if r, ok := ins.(*ssa.Return); ok && x.Index < len(r.Results) {
							a.depFields(r.Results[x.Index], sk, out, seen, depth+1)
						}
					}
				}
				for _, arg := range call.Common().Args {
					a.depFields(arg, sk, out, seen, depth+1)
				}
				return
			}
		}
	case *ssa.Call:
		com := x.Common()
		if sc := com.StaticCallee(); sc != nil && len(sc.Blocks) > 0 {
			for _, b := range sc.Blocks {
				for _, ins := range b.Instrs {
					if r, ok := ins.(*ssa.Return); ok {
						for _, rv := range r.Results {
							a.depFields(rv, sk, out, seen, depth+1)
						}
					}
				}
			}
		}
	}
	if ins, ok := v.(ssa.Instruction); ok {
		for _, op := range ins.Operands(nil) {
			if *op != nil {
				a.depFields(*op, sk, out, seen, depth+1)
			}
		}
	}
}

// isReset: the store gives the field a value that does not depend on its previous content (x = nil, "", 0, make, literal,
// call result), or truncates it to length zero (x = x[:0]).
func (a *s2) isReset(st *ssa.Store, key string) bool {
	if sl, ok := st.Val.(*ssa.Slice); ok {
		if k, ok := sl.High.(*ssa.Const); ok && k.Value != nil && k.Int64() == 0 && sl.Low == nil {
			return true
		}
	}
	dep := false
	seen := map[ssa.Value]bool{}
	var walk func(v ssa.Value, d int)
	walk = func(v ssa.Value, d int) {
		if v == nil || seen[v] || d > 12 || dep {
			return
		}
		seen[v] = true
		if u, ok := v.(*ssa.UnOp); ok && u.Op == token.MUL {
			if fa, ok := u.X.(*ssa.FieldAddr); ok && fieldKey(fa.X.Type(), fa.Field) == key {
				dep = true
				return
			}
		}
		if ins, ok := v.(ssa.Instruction); ok {
			for _, op := range ins.Operands(nil) {
				if *op != nil {
					walk(*op, d+1)
				}
			}
		}
	}
	walk(st.Val, 0)
	return !dep
}

func instrIndex(ins ssa.Instruction) int {
	for i, x := range ins.Block().Instrs {
		if x == ins {
			return i
		}
	}
	return -1
}

// before: instruction x is executed before y on every path reaching y.
func before(x, y ssa.Instruction) bool {
	if x.Block() == y.Block() {
		return instrIndex(x) < instrIndex(y)
	}
	return x.Block().Dominates(y.Block())
}

func inCycle(b *ssa.BasicBlock) map[*ssa.BasicBlock]bool {
	// blocks on a cycle through b (reachable from b and reaching b)
	fwd := map[*ssa.BasicBlock]bool{}
	var f func(x *ssa.BasicBlock)
	f = func(x *ssa.BasicBlock) {
		for _, s := range x.Succs {
			if !fwd[s] {
				fwd[s] = true
				f(s)
			}
		}
	}
	f(b)
	if !fwd[b] {
		return nil
	}
	bwd := map[*ssa.BasicBlock]bool{}
	var r func(x *ssa.BasicBlock)
	r = func(x *ssa.BasicBlock) {
		for _, p := range x.Preds {
			if !bwd[p] {
				bwd[p] = true
				r(p)
			}
		}
	}
	r(b)
	out := map[*ssa.BasicBlock]bool{}
	for x := range fwd {
		if bwd[x] {
			out[x] = true
		}
	}
	return out
}

// fieldStores of struct sk in fn: key → stores
func (a *s2) storesIn(fn *ssa.Function, sk string) []*ssa.Store {
	var out []*ssa.Store
	for _, b := range fn.Blocks {
		for _, ins := range b.Instrs {
			if st, ok := ins.(*ssa.Store); ok {
				if fa, ok := st.Addr.(*ssa.FieldAddr); ok && structKeyOf(fa.X.Type()) == sk {
					out = append(out, st)
				}
			}
		}
	}
	return out
}

// mustReset: fields of sk reset on every normal path through fn (stores dominating every return), including callees called
// unconditionally.
func (a *s2) mustReset(fn *ssa.Function, sk string, depth int) map[string]bool {
	out := map[string]bool{}
	if depth > 3 || len(fn.Blocks) == 0 {
		return out
	}
	var rets []ssa.Instruction
	for _, b := range fn.Blocks {
		for _, ins := range b.Instrs {
			if r, ok := ins.(*ssa.Return); ok {
				rets = append(rets, r)
			}
		}
	}
	domAll := func(x ssa.Instruction) bool {
		for _, r := range rets {
			if !before(x, r) {
				return false
			}
		}
		return len(rets) > 0
	}
	for _, st := range a.storesIn(fn, sk) {
		k := fieldKey(st.Addr.(*ssa.FieldAddr).X.Type(), st.Addr.(*ssa.FieldAddr).Field)
		if a.isReset(st, k) && domAll(st) {
			out[k] = true
		}
	}
	for _, b := range fn.Blocks {
		for _, ins := range b.Instrs {
			if call, ok := ins.(*ssa.Call); ok && domAll(call) {
				if sc := call.Common().StaticCallee(); sc != nil && len(sc.Blocks) > 0 && strings.HasPrefix(fnPkgRel(sc), "writer") {
					for k := range a.mustReset(sc, sk, depth+1) {
						out[k] = true
					}
				}
			}
		}
	}
	return out
}

// resetsBefore: fields reset in fn before site (restricted to blocks `within` when non-nil).
func (a *s2) resetsBefore(fn *ssa.Function, site ssa.Instruction, sk string, within map[*ssa.BasicBlock]bool) map[string]bool {
	out := map[string]bool{}
	for _, st := range a.storesIn(fn, sk) {
		if within != nil && !within[st.Block()] {
			continue
		}
		k := fieldKey(st.Addr.(*ssa.FieldAddr).X.Type(), st.Addr.(*ssa.FieldAddr).Field)
		if a.isReset(st, k) && before(st, site) {
			out[k] = true
		}
	}
	for _, b := range fn.Blocks {
		if within != nil && !within[b] {
			continue
		}
		for _, ins := range b.Instrs {
			call, ok := ins.(*ssa.Call)
			if !ok || ssa.Instruction(call) == site || !before(call, site) {
				continue
			}
			if sc := call.Common().StaticCallee(); sc != nil && len(sc.Blocks) > 0 && strings.HasPrefix(fnPkgRel(sc), "writer") {
				for k := range a.mustReset(sc, sk, 0) {
					out[k] = true
				}
			}
		}
	}
	return out
}

// callbackClosure: the MakeClosure value is handed to a function outside the module (dec.Arr, dec.Obj, …): the closure body is
// one iteration.
func callbackClosure(mc *ssa.MakeClosure) bool {
	refs := mc.Referrers()
	if refs == nil {
		return false
	}
	for _, r := range *refs {
		if ci, ok := r.(ssa.CallInstruction); ok {
			sc := ci.Common().StaticCallee()
			if sc == nil || len(sc.Blocks) == 0 {
				return true
			}
			if !strings.HasPrefix(fnPkgRel(sc), "writer") && !strings.HasPrefix(fnPkgRel(sc), "reader") {
				return true
			}
		}
	}
	return false
}

// chains from entry to the function containing the emission
func (a *s2) chains(entry *ssa.Function, target *ssa.Function, emit ssa.Instruction) [][]s2Step {
	var out [][]s2Step
	var cur []s2Step
	on := map[*ssa.Function]bool{}
	var dfs func(fn *ssa.Function)
	dfs = func(fn *ssa.Function) {
		if len(out) >= 16 || len(cur) > 10 || on[fn] {
			return
		}
		if fn == target {
			ch := append(append([]s2Step{}, cur...), s2Step{fn, emit})
			out = append(out, ch)
			return
		}
		on[fn] = true
		defer delete(on, fn)
		for _, b := range fn.Blocks {
			for _, ins := range b.Instrs {
				var next *ssa.Function
				switch x := ins.(type) {
				case *ssa.MakeClosure:
					next, _ = x.Fn.(*ssa.Function)
				case ssa.CallInstruction:
					if sc := x.Common().StaticCallee(); sc != nil && len(sc.Blocks) > 0 && strings.HasPrefix(fnPkgRel(sc), "writer") {
						next = sc
					}
				}
				if next == nil {
					continue
				}
				cur = append(cur, s2Step{fn, ins})
				dfs(next)
				cur = cur[:len(cur)-1]
			}
		}
	}
	dfs(entry)
	return out
}

// reachable functions (static calls and closures) from a set of roots
func (a *s2) reach(roots []*ssa.Function) map[*ssa.Function]bool {
	seen := map[*ssa.Function]bool{}
	var walk func(fn *ssa.Function)
	walk = func(fn *ssa.Function) {
		if fn == nil || seen[fn] || len(fn.Blocks) == 0 {
			return
		}
		seen[fn] = true
		for _, b := range fn.Blocks {
			for _, ins := range b.Instrs {
				switch x := ins.(type) {
				case *ssa.MakeClosure:
					f, _ := x.Fn.(*ssa.Function)
					walk(f)
				case ssa.CallInstruction:
					if sc := x.Common().StaticCallee(); sc != nil && strings.HasPrefix(fnPkgRel(sc), "writer") {
						walk(sc)
					}
				}
			}
		}
	}
	for _, r := range roots {
		walk(r)
	}
	return seen
}

// reachWithin: like reach, but of the first root only the calls / closures inside the given blocks count.
func (a *s2) reachWithin(roots []*ssa.Function, within map[*ssa.BasicBlock]bool) map[*ssa.Function]bool {
	if within == nil || len(roots) == 0 {
		return a.reach(roots)
	}
	var next []*ssa.Function
	for _, b := range roots[0].Blocks {
		if !within[b] {
			continue
		}
		for _, ins := range b.Instrs {
			switch x := ins.(type) {
			case *ssa.MakeClosure:
				if f, ok := x.Fn.(*ssa.Function); ok {
					next = append(next, f)
				}
			case ssa.CallInstruction:
				if sc := x.Common().StaticCallee(); sc != nil && strings.HasPrefix(fnPkgRel(sc), "writer") {
					next = append(next, sc)
				}
			}
		}
	}
	out := a.reach(append(next, roots[1:]...))
	out[roots[0]] = true
	return out
}

// frozen exceptions: entry|field → reason
var s2Exceptions = map[string]string{
	"(*writer/utils/unmarshal.elasticBulkDec).Decode|labels": "bulk protocol: the labels decoded from an action line (index/create) are deliberately kept for the document line that follows it; delete/update lines clear them",
}

var ruleS2 = &Rule{
	ID:    "S2",
	Floor: 20,
	Doc: "per-record decoder state is re-established for every record: streaming decoders keep the fields of the record being decoded in their struct and hand them to the row handler (a call through a handler field: onEntries / onSpan / …). For every live Decode entry of the decoder type (or of a type embedding it) and every call chain from it to such an emission, each struct field the emitted arguments depend on (backward data dependence, field-based) " +
		"that is written anywhere in the record scope of any entry must be reset — assigned a value independent of its previous content, or truncated with x[:0] — inside the innermost iteration construct (loop body / tokenizer callback) enclosing the emission, before the emission, on every path (dominating stores, and callees called unconditionally). " +
		"A field that is only appended to or only conditionally assigned keeps the previous record's value when the current record lacks it: rows get tags, labels, ids or payload of another record",
	Run: func(c *Ctx) []Obl {
		g := c.CG()
		a := &s2{c: c, g: g, stores: map[string][]*ssa.Store{}}
		funcs := liveModuleFuncs(c, "writer/utils/unmarshal")
		for _, fn := range funcs {
			for _, b := range fn.Blocks {
				for _, ins := range b.Instrs {
					if st, ok := ins.(*ssa.Store); ok {
						if fa, ok := st.Addr.(*ssa.FieldAddr); ok {
							k := fieldKey(fa.X.Type(), fa.Field)
							a.stores[k] = append(a.stores[k], st)
						}
					}
				}
			}
		}
		type emission struct {
			fn   *ssa.Function
			call ssa.CallInstruction
			sk   string
		}
		var ems []emission
		for _, fn := range funcs {
			for _, b := range fn.Blocks {
				for _, ins := range b.Instrs {
					if ci, ok := ins.(ssa.CallInstruction); ok {
						if sk, ok := emissionStruct(ci); ok {
							ems = append(ems, emission{fn, ci, sk})
						}
					}
				}
			}
		}
		// entries: live methods named Decode whose receiver is the struct or embeds it
		entriesFor := func(sk string) []*ssa.Function {
			var out []*ssa.Function
			for _, fn := range funcs {
				if fn.Name() != "Decode" || fn.Signature.Recv() == nil {
					continue
				}
				rt := fn.Signature.Recv().Type()
				if structKeyOf(rt) == sk {
					out = append(out, fn)
					continue
				}
				if p, ok := rt.Underlying().(*types.Pointer); ok {
					rt = p.Elem()
				}
				if st, ok := rt.Underlying().(*types.Struct); ok {
					for i := 0; i < st.NumFields(); i++ {
						if st.Field(i).Embedded() && structKeyOf(st.Field(i).Type()) == sk {
							out = append(out, fn)
						}
					}
				}
			}
			return out
		}
		var obls []Obl
		for _, em := range ems {
			E := map[string]bool{}
			seen := map[ssa.Value]bool{}
			for _, arg := range em.call.Common().Args {
				a.depFields(arg, em.sk, E, seen, 0)
			}
			if len(E) == 0 {
				continue
			}
			entries := entriesFor(em.sk)
			type chainInfo struct {
				entry  *ssa.Function
				scope  []*ssa.Function
				resets map[string]bool
				within map[*ssa.BasicBlock]bool // when the scope starts inside a loop of scope[0]: its blocks
			}
			var infos []chainInfo
			for _, en := range entries {
				for _, ch := range a.chains(en, em.fn, em.call.(ssa.Instruction)) {
					// innermost iteration construct
					r, loopOnly := -1, false
					for i, stp := range ch {
						if mc, ok := stp.site.(*ssa.MakeClosure); ok && callbackClosure(mc) {
							r, loopOnly = i, false
						} else if cyc := inCycle(stp.site.Block()); cyc != nil {
							r, loopOnly = i, true
						}
					}
					resets := map[string]bool{}
					var scope []*ssa.Function
					for i, stp := range ch {
						if i < r || (i == r && !loopOnly) {
							continue
						}
						var within map[*ssa.BasicBlock]bool
						if i == r && loopOnly {
							within = inCycle(stp.site.Block())
						}
						for k := range a.resetsBefore(stp.fn, stp.site, em.sk, within) {
							resets[k] = true
						}
						scope = append(scope, stp.fn)
					}
					if r == len(ch)-1 && !loopOnly {
						// cannot happen: the emission is not a closure creation
					}
					if r >= 0 && !loopOnly && r+1 < len(ch) {
						// closure body starts the scope: already included as ch[r+1]
					}
					var rootWithin map[*ssa.BasicBlock]bool
					if r >= 0 && loopOnly {
						rootWithin = inCycle(ch[r].site.Block())
					}
					infos = append(infos, chainInfo{en, scope, resets, rootWithin})
				}
			}
			if len(infos) == 0 {
				continue
			}
			// W: fields written in the record scope of any entry
			W := map[string]bool{}
			for _, inf := range infos {
				for fn := range a.reachWithin(inf.scope, inf.within) {
					for _, st := range a.storesIn(fn, em.sk) {
						if inf.within != nil && len(inf.scope) > 0 && fn == inf.scope[0] && !inf.within[st.Block()] {
							continue // before / after the record loop
						}
						W[fieldKey(st.Addr.(*ssa.FieldAddr).X.Type(), st.Addr.(*ssa.FieldAddr).Field)] = true
					}
				}
			}
			var fields []string
			for k := range E {
				if W[k] {
					fields = append(fields, k)
				}
			}
			sort.Strings(fields)
			done := map[string]bool{}
			for _, inf := range infos {
				for _, k := range fields {
					short := k[strings.LastIndex(k, ".")+1:]
					key := fmt.Sprintf("%s → emission in %s: field %s", ssaName(inf.entry), ssaName(em.fn), short)
					if inf.resets[k] {
						if !done[key] {
							done[key] = true
							obls = append(obls, Obl{Key: key, Pos: c.pos(em.call.Pos()), Status: OK})
						}
						continue
					}
					if done[key+"!"] {
						continue
					}
					done[key+"!"] = true
					if why := s2Exceptions[ssaName(inf.entry)+"|"+short]; why != "" {
						obls = append(obls, Obl{Key: key, Pos: c.pos(em.call.Pos()), Status: Exception, Msg: why})
						continue
					}
					obls = append(obls, Obl{Key: key, Pos: c.pos(em.call.Pos()), Status: Violation,
						Msg: fmt.Sprintf("the emitted row depends on decoder field %s, which is written while a record is decoded but is not reset for every record on the path from %s: a record that does not set it is emitted with the previous record's value", short, ssaName(inf.entry))})
				}
			}
		}
		// an OK and a violation may exist for the same key when two chains of one entry differ: the violation wins
		viol := map[string]bool{}
		for _, o := range obls {
			if o.Status == Violation {
				viol[o.Key] = true
			}
		}
		var out []Obl
		for _, o := range obls {
			if o.Status == OK && viol[o.Key] {
				continue
			}
			out = append(out, o)
		}
		return out
	},
}

func init() { register(ruleS2) }
