package main

func runSelftests(p *Property) map[string]interface{} { return nil }
func cmdSelftest(args []string) int                  { return 0 }
