package main

// Thorough tier: mutation self-test by overlay. Every stored change that is known to break the property — the seeded changes
// under /verif/seeded (made by independent sub-agents) and the reversals of the `fix:` commits under /verif/selftest — is applied
// in memory (packages.Config.Overlay: nothing is written, /repo is not copied) and the property's rules are run on the variant.
// The result is recorded in the evidence. It is informational: a change that no longer applies to the current tree is `skipped`;
// a change that applies and is not flagged is listed as `missed` and printed, but the verdict on /repo comes from /repo alone.

import (
	"encoding/json"
	"fmt"
	"os"
	"path/filepath"
	"regexp"
	"runtime"
	"sort"
	"strings"
)

type mutant struct {
	Name     string
	Patch    string
	Expected []string // rule ids expected to flag it (may be empty)
	What     string
}

type hunk struct {
	oldStart int
	old, new []string
}

// parsePatch: unified diff → file → hunks
func parsePatch(text string) (map[string][]hunk, error) {
	out := map[string][]hunk{}
	var file string
	var cur *hunk
	flush := func() {
		if cur != nil && file != "" {
			out[file] = append(out[file], *cur)
		}
		cur = nil
	}
	reHunk := regexp.MustCompile(`^@@ -(\d+)(?:,\d+)? \+\d+(?:,\d+)? @@`)
	for _, l := range strings.Split(text, "\n") {
		switch {
		case strings.HasPrefix(l, "diff --git "):
			flush()
			file = ""
		case strings.HasPrefix(l, "--- "):
			// "--- /dev/null": the file is created (its single hunk has no old lines)
		case strings.HasPrefix(l, "+++ "):
			flush()
			f := strings.TrimPrefix(l, "+++ ")
			if f == "/dev/null" {
				return nil, fmt.Errorf("patch deletes a file")
			}
			file = strings.TrimPrefix(f, "b/")
		case reHunk.MatchString(l):
			flush()
			m := reHunk.FindStringSubmatch(l)
			n := 0
			fmt.Sscanf(m[1], "%d", &n)
			cur = &hunk{oldStart: n}
		case cur != nil && strings.HasPrefix(l, "+"):
			cur.new = append(cur.new, l[1:])
		case cur != nil && strings.HasPrefix(l, "-"):
			cur.old = append(cur.old, l[1:])
		case cur != nil && strings.HasPrefix(l, " "):
			cur.old = append(cur.old, l[1:])
			cur.new = append(cur.new, l[1:])
		case cur != nil && l == "":
			// blank context line whose leading space was stripped, or the end of the patch
			cur.old = append(cur.old, "")
			cur.new = append(cur.new, "")
		}
	}
	flush()
	// drop trailing blank pseudo-context produced by the final newline
	for f, hs := range out {
		for i := range hs {
			for len(hs[i].old) > 0 && len(hs[i].new) > 0 && hs[i].old[len(hs[i].old)-1] == "" && hs[i].new[len(hs[i].new)-1] == "" {
				hs[i].old = hs[i].old[:len(hs[i].old)-1]
				hs[i].new = hs[i].new[:len(hs[i].new)-1]
			}
		}
		out[f] = hs
	}
	return out, nil
}

func applyHunks(content string, hs []hunk) (string, bool) {
	lines := strings.Split(content, "\n")
	shift := 0
	for _, h := range hs {
		want := h.oldStart - 1 + shift
		match := func(at int) bool {
			if at < 0 || at+len(h.old) > len(lines) {
				return false
			}
			for i, o := range h.old {
				if lines[at+i] != o {
					return false
				}
			}
			return true
		}
		at := -1
		for d := 0; d <= len(lines); d++ {
			if match(want + d) {
				at = want + d
				break
			}
			if match(want - d) {
				at = want - d
				break
			}
		}
		if at < 0 {
			return "", false
		}
		nl := append([]string{}, lines[:at]...)
		nl = append(nl, h.new...)
		nl = append(nl, lines[at+len(h.old):]...)
		lines = nl
		shift += len(h.new) - len(h.old)
	}
	return strings.Join(lines, "\n"), true
}

func overlayFor(repo, patch string) (map[string][]byte, error) {
	files, err := parsePatch(patch)
	if err != nil {
		return nil, err
	}
	ov := map[string][]byte{}
	for f, hs := range files {
		abs := filepath.Join(repo, f)
		b, err := os.ReadFile(abs)
		if err != nil {
			if os.IsNotExist(err) && len(hs) == 1 && len(hs[0].old) == 0 {
				ov[abs] = []byte(strings.Join(hs[0].new, "\n") + "\n")
				continue
			}
			return nil, fmt.Errorf("%s: %v", f, err)
		}
		s, ok := applyHunks(string(b), hs)
		if !ok {
			return nil, fmt.Errorf("%s: hunk context not found", f)
		}
		ov[abs] = []byte(s)
	}
	return ov, nil
}

var reRuleID = regexp.MustCompile(`\b[A-Z][0-9]{1,2}\b`)

func mutantsFor(prop string) []mutant {
	vdir := verifDir()
	var out []mutant
	// seeded changes
	metas, _ := filepath.Glob(filepath.Join(vdir, "seeded", "*", "meta.json"))
	sort.Strings(metas)
	for _, mp := range metas {
		b, err := os.ReadFile(mp)
		if err != nil {
			continue
		}
		var m struct {
			Property string `json:"property"`
			Change   string `json:"change"`
			CaughtBy string `json:"caught_by"`
		}
		if json.Unmarshal(b, &m) != nil {
			continue
		}
		// a seed is relevant to the property it was made for and to every property named in caught_by
		rel := m.Property == prop || strings.Contains(m.CaughtBy, prop)
		if !rel {
			continue
		}
		pb, err := os.ReadFile(filepath.Join(filepath.Dir(mp), "patch.diff"))
		if err != nil {
			continue
		}
		cb := m.CaughtBy
		if i := strings.Index(cb, "("); i > 0 {
			cb = cb[:i]
		}
		out = append(out, mutant{Name: "seeded/" + filepath.Base(filepath.Dir(mp)), Patch: string(pb), Expected: reRuleID.FindAllString(cb, -1), What: m.Change})
	}
	// reversals of fix commits recorded for this property
	known, _ := loadKnown(vdir)
	byCommit := map[string]*mutant{}
	var order []string
	for _, k := range known {
		if k.Status != "fixed" || k.Property != prop || k.Commit == "" {
			continue
		}
		mu := byCommit[k.Commit]
		if mu == nil {
			pb, err := os.ReadFile(filepath.Join(vdir, "selftest", "revert-"+k.Commit+".diff"))
			if err != nil {
				continue
			}
			mu = &mutant{Name: "revert-" + k.Commit, Patch: string(pb), What: "reversal of fix " + k.Commit + ": " + k.What}
			byCommit[k.Commit] = mu
			order = append(order, k.Commit)
		}
		has := false
		for _, e := range mu.Expected {
			if e == k.Rule {
				has = true
			}
		}
		if !has {
			mu.Expected = append(mu.Expected, k.Rule)
		}
	}
	for _, c := range order {
		out = append(out, *byCommit[c])
	}
	// hand-written single-edit variants
	hand, _ := filepath.Glob(filepath.Join(vdir, "selftest", "hand-*.diff"))
	sort.Strings(hand)
	for _, hp := range hand {
		b, err := os.ReadFile(hp)
		if err != nil {
			continue
		}
		// header line: "# property=C14 rules=H2 what=…"
		first := strings.SplitN(string(b), "\n", 2)[0]
		if !strings.HasPrefix(first, "#") || !strings.Contains(first, "property="+prop) {
			continue
		}
		mu := mutant{Name: strings.TrimSuffix(filepath.Base(hp), ".diff"), Patch: string(b)}
		if i := strings.Index(first, "rules="); i >= 0 {
			mu.Expected = reRuleID.FindAllString(strings.Fields(first[i+6:])[0], -1)
		}
		if i := strings.Index(first, "what="); i >= 0 {
			mu.What = first[i+5:]
		}
		out = append(out, mu)
	}
	return out
}

type oblID struct{ rule, key, status string }

func bad(st string) bool { return st == Violation || st == Undecided }

func runPropertyRules(c *Ctx, p *Property) []Obl {
	var all []Obl
	for _, id := range p.Rules {
		r := ruleByID(id)
		if r == nil {
			continue
		}
		obls := runRule(c, r)
		if p.Filter != nil {
			obls = p.Filter(id, obls)
		}
		all = append(all, obls...)
	}
	return all
}

func runSelftests(p *Property, prop string, baseline []Obl) map[string]interface{} {
	base := map[oblID]bool{}
	for _, o := range baseline {
		base[oblID{o.Rule, o.Key, o.Status}] = true
	}
	var results []map[string]interface{}
	nApplied, nFlagged, nSkipped := 0, 0, 0
	var missed []string
	for _, mu := range mutantsFor(prop) {
		res := map[string]interface{}{"mutant": mu.Name, "what": mu.What, "expected_rules": mu.Expected}
		ov, err := overlayFor(repoDir(), mu.Patch)
		if err != nil {
			res["outcome"] = "skipped"
			res["reason"] = "does not apply to the current tree: " + err.Error()
			nSkipped++
			results = append(results, res)
			continue
		}
		c := NewCtx(repoDir())
		c.Overlay = ov
		c.Load()
		if len(c.LoadErr) > 0 {
			res["outcome"] = "skipped"
			res["reason"] = "variant does not type-check: " + firstLines(c.LoadErr[0], 1)
			nSkipped++
			results = append(results, res)
			continue
		}
		nApplied++
		by := map[string]bool{}
		var first string
		for _, o := range runPropertyRules(c, p) {
			if bad(o.Status) && !base[oblID{o.Rule, o.Key, o.Status}] {
				by[o.Rule] = true
				if first == "" {
					first = fmt.Sprintf("%s %s [%s]", o.Rule, o.Key, o.Pos)
				}
			}
		}
		var rules []string
		for r := range by {
			rules = append(rules, r)
		}
		sort.Strings(rules)
		if len(rules) > 0 {
			res["outcome"] = "flagged"
			res["flagged_by"] = rules
			res["first_report"] = first
			nFlagged++
		} else {
			res["outcome"] = "missed"
			missed = append(missed, mu.Name)
		}
		results = append(results, res)
		c = nil
		runtime.GC()
	}
	for _, m := range missed {
		fmt.Printf("SELFTEST-MISS property=%s %s applies to the current tree but no rule of the property reports it\n", prop, m)
	}
	return map[string]interface{}{
		"method":  "each stored breaking change is applied in memory (go/packages overlay) and the property's rules are re-run on the variant; a report that is not in the baseline run counts as flagged",
		"applied": nApplied, "flagged": nFlagged, "skipped": nSkipped, "missed": missed, "variants": results,
	}
}

func cmdSelftest(args []string) int {
	ids := args
	if len(ids) == 0 {
		for id := range properties {
			ids = append(ids, id)
		}
		sort.Strings(ids)
	}
	rc := 0
	for _, id := range ids {
		p := properties[id]
		if p == nil {
			continue
		}
		c := NewCtx(repoDir())
		c.Load()
		basel := runPropertyRules(c, p)
		r := runSelftests(p, id, basel)
		fmt.Printf("%s: applied=%v flagged=%v skipped=%v missed=%v\n", id, r["applied"], r["flagged"], r["skipped"], r["missed"])
		if len(r["missed"].([]string)) > 0 {
			rc = 1
		}
	}
	return rc
}
