package main

// S5: arrays handed to the row handler are built for this record, not carried over from an earlier one.

import (
	"fmt"
	"go/types"
	"sort"
	"strings"

	"golang.org/x/tools/go/ssa"
)

var ruleS5 = &Rule{
	ID:    "S5",
	Floor: 8,
	Doc: "per-record argument arrays (SSA, path-sensitive): at every emission of a decoder in writer/utils/unmarshal (a call through a handler field: onEntries / onSpan / …) each slice argument kept in a local is followed forward along the control-flow graph — through merges, conversions and re-slices without an upper bound — to the next emission on the path. " +
		"If the array reaches a later emission after it was written again (an element store, or an append that extends it) without having been re-created (make / literal) or cut to the new record's content (x[:n], x[:0]) in between, the later record is handed elements of the earlier one: the handler turns every element into a row. Re-emitting an unchanged array (the labels of one series for several chunks) is fine. (Buffers kept in decoder fields are rule S2's.)",
	Run: func(c *Ctx) []Obl {
		var obls []Obl
		var kk keyer
		for _, fn := range liveModuleFuncs(c, "writer/utils/unmarshal") {
			for _, b := range fn.Blocks {
				for _, ins := range b.Instrs {
					ci, ok := ins.(ssa.CallInstruction)
					if !ok {
						continue
					}
					if _, isEm := emissionStruct(ci); !isEm {
						continue
					}
					hname := "handler"
					if u, ok := ci.Common().Value.(*ssa.UnOp); ok {
						if fa, ok := u.X.(*ssa.FieldAddr); ok {
							hname = fieldNameOf(fa.X.Type(), fa.Field)
						}
					}
					key := kk.key(fmt.Sprintf("%s %s(…) arrays are not re-emitted after being written again", ssaName(fn), hname))
					bad := ""
					n := 0
					for i, a := range ci.Common().Args {
						if _, isSlice := a.Type().Underlying().(*types.Slice); !isSlice {
							continue
						}
						if _, isLoad := a.(*ssa.UnOp); isLoad {
							continue // a decoder field: rule S2
						}
						n++
						if at := reEmittedDirty(ins, a); at != nil {
							bad = fmt.Sprintf("argument #%d is written again after this emission (element store / append) and handed to the emission at %s without having been re-created or cut to the new record in between: that record also receives elements of this one", i+1, c.pos(at.Pos()))
						}
					}
					if bad == "" {
						obls = append(obls, Obl{Key: key, Pos: c.pos(ins.Pos()), Status: OK, Msg: fmt.Sprintf("%d local arrays followed", n)})
					} else {
						obls = append(obls, Obl{Key: key, Pos: c.pos(ins.Pos()), Status: Violation, Msg: bad})
					}
				}
			}
		}
		return obls
	},
}

// reEmittedDirty follows the array emitted at `from` forward along the CFG; returns a later emission that receives it after it was
// written again without a cut / re-creation in between (nil when there is none).
func reEmittedDirty(from ssa.Instruction, arr ssa.Value) ssa.Instruction {
	type state struct {
		b     *ssa.BasicBlock
		idx   int
		t     map[ssa.Value]bool
		dirty bool
	}
	keyOf := func(st state) string {
		var ids []string
		for v := range st.t {
			ids = append(ids, v.Name())
		}
		sort.Strings(ids)
		return fmt.Sprintf("%d|%d|%v|%s", st.b.Index, st.idx, st.dirty, strings.Join(ids, ","))
	}
	seen := map[string]bool{}
	work := []state{{from.Block(), instrIndex(from) + 1, map[ssa.Value]bool{arr: true}, false}}
	steps := 0
	for len(work) > 0 {
		st := work[len(work)-1]
		work = work[:len(work)-1]
		k := keyOf(st)
		if seen[k] || len(st.t) == 0 {
			continue
		}
		seen[k] = true
		steps++
		if steps > 5000 {
			return nil
		}
		t := map[ssa.Value]bool{}
		for v := range st.t {
			t[v] = true
		}
		dirty := st.dirty
		for i := st.idx; i < len(st.b.Instrs); i++ {
			// an instruction that is executed again defines a new dynamic instance of its value: the old one is gone
			if v, ok := st.b.Instrs[i].(ssa.Value); ok && t[v] {
				if _, isPhi := v.(*ssa.Phi); !isPhi {
					delete(t, v)
				}
			}
			switch x := st.b.Instrs[i].(type) {
			case *ssa.Call:
				if bi, ok := x.Common().Value.(*ssa.Builtin); ok && bi.Name() == "append" && len(x.Common().Args) > 0 && t[x.Common().Args[0]] {
					t[x] = true
					dirty = true
					continue
				}
				if _, isEm := emissionStruct(x); isEm && dirty {
					for _, a := range x.Common().Args {
						if t[a] {
							return x
						}
					}
				}
			case *ssa.ChangeType:
				if t[x.X] {
					t[x] = true
				}
			case *ssa.Slice:
				if t[x.X] && x.High == nil {
					t[x] = true
				}
			case *ssa.Store:
				if ia, ok := x.Addr.(*ssa.IndexAddr); ok && t[ia.X] {
					dirty = true
				}
			}
		}
		for si, s := range st.b.Succs {
			_ = si
			nt := map[ssa.Value]bool{}
			for v := range t {
				if ph, ok := v.(*ssa.Phi); ok && ph.Block() == s {
					continue // recomputed below
				}
				nt[v] = true
			}
			pi := -1
			for j, p := range s.Preds {
				if p == st.b {
					pi = j
				}
			}
			for _, ins := range s.Instrs {
				ph, ok := ins.(*ssa.Phi)
				if !ok {
					break
				}
				if pi >= 0 && pi < len(ph.Edges) && t[ph.Edges[pi]] {
					nt[ph] = true
				}
			}
			work = append(work, state{s, 0, nt, dirty})
		}
	}
	return nil
}

func init() { register(ruleS5) }
