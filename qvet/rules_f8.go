package main

// F8 (C12, C05): indices into fixed-length batch buffers stay inside the buffer — a small interval analysis over SSA.

import (
	"fmt"
	"go/token"
	"go/types"
	"math"
	"sort"

	"golang.org/x/tools/go/ssa"
)

type itv struct {
	lo, hi int64 // math.MinInt64 / math.MaxInt64 stand for -inf / +inf
	bot    bool  // no value yet (unreached)
}

var itvTop = itv{math.MinInt64, math.MaxInt64, false}
var itvBot = itv{0, 0, true}

func (a itv) join(b itv) itv {
	if a.bot {
		return b
	}
	if b.bot {
		return a
	}
	r := a
	if b.lo < r.lo {
		r.lo = b.lo
	}
	if b.hi > r.hi {
		r.hi = b.hi
	}
	return r
}

func (a itv) meet(b itv) itv {
	if a.bot || b.bot {
		return itvBot
	}
	r := a
	if b.lo > r.lo {
		r.lo = b.lo
	}
	if b.hi < r.hi {
		r.hi = b.hi
	}
	if r.lo > r.hi {
		return itvBot
	}
	return r
}

func (a itv) add(k int64) itv {
	if a.bot {
		return a
	}
	r := a
	if r.lo != math.MinInt64 {
		r.lo += k
	}
	if r.hi != math.MaxInt64 {
		r.hi += k
	}
	return r
}

func (a itv) String() string {
	if a.bot {
		return "⊥"
	}
	lo, hi := fmt.Sprint(a.lo), fmt.Sprint(a.hi)
	if a.lo == math.MinInt64 {
		lo = "-inf"
	}
	if a.hi == math.MaxInt64 {
		hi = "+inf"
	}
	return "[" + lo + "," + hi + "]"
}

type itvAnalysis struct {
	fn   *ssa.Function
	phis map[*ssa.Phi]itv
}

// constLenOf: the slice always has the same constant length (made with a constant length on every path).
func constLenOf(v ssa.Value, seen map[ssa.Value]bool) (int64, bool) {
	if v == nil || seen[v] {
		return 0, false
	}
	seen[v] = true
	switch x := v.(type) {
	case *ssa.MakeSlice:
		if k, ok := x.Len.(*ssa.Const); ok {
			return int64Of(k)
		}
	case *ssa.Slice:
		// make([]T, N) with constant N is lowered to a slice of a new [N]T
		if al, ok := x.X.(*ssa.Alloc); ok && x.Low == nil {
			if pt, ok := al.Type().Underlying().(*types.Pointer); ok {
				if at, ok := pt.Elem().Underlying().(*types.Array); ok {
					if x.High == nil {
						return at.Len(), true
					}
					if k, ok := x.High.(*ssa.Const); ok {
						return int64Of(k)
					}
				}
			}
		}
	case *ssa.Phi:
		n, have := int64(0), false
		for _, e := range x.Edges {
			if seen[e] {
				continue
			}
			m, ok := constLenOf(e, seen)
			if !ok || (have && m != n) {
				return 0, false
			}
			n, have = m, true
		}
		return n, have
	}
	return 0, false
}

// refineBy: the interval of v on the edge taken when cond has the given truth value.
func (a *itvAnalysis) refineBy(v ssa.Value, cond ssa.Value, truth bool, at *ssa.BasicBlock, depth int) itv {
	cmp, ok := cond.(*ssa.BinOp)
	if !ok {
		return itvTop
	}
	op := cmp.Op
	var other ssa.Value
	switch {
	case cmp.X == v:
		other = cmp.Y
	case cmp.Y == v:
		other = cmp.X
		// mirror: k op v  ⇔  v op' k
		switch op {
		case token.LSS:
			op = token.GTR
		case token.LEQ:
			op = token.GEQ
		case token.GTR:
			op = token.LSS
		case token.GEQ:
			op = token.LEQ
		}
	default:
		return itvTop
	}
	if !truth {
		switch op {
		case token.LSS:
			op = token.GEQ
		case token.LEQ:
			op = token.GTR
		case token.GTR:
			op = token.LEQ
		case token.GEQ:
			op = token.LSS
		case token.EQL:
			op = token.NEQ
		case token.NEQ:
			op = token.EQL
		}
	}
	o := a.rng(other, at, depth+1)
	if o.bot {
		return itvTop
	}
	r := itvTop
	switch op {
	case token.LSS:
		if o.hi != math.MaxInt64 {
			r.hi = o.hi - 1
		}
	case token.LEQ:
		r.hi = o.hi
	case token.GTR:
		if o.lo != math.MinInt64 {
			r.lo = o.lo + 1
		}
	case token.GEQ:
		r.lo = o.lo
	case token.EQL:
		r = o
	}
	return r
}

// rng: the interval of the integer value v as seen in block `at` (its own interval met with the branch edges that dominate at).
func (a *itvAnalysis) rng(v ssa.Value, at *ssa.BasicBlock, depth int) itv {
	if depth > 12 {
		return itvTop
	}
	base := itvTop
	switch x := v.(type) {
	case *ssa.Const:
		if n, ok := int64Of(x); ok {
			return itv{n, n, false}
		}
	case *ssa.Phi:
		if r, ok := a.phis[x]; ok {
			base = r
		}
	case *ssa.BinOp:
		if k, ok := x.Y.(*ssa.Const); ok {
			if n, ok := int64Of(k); ok {
				switch x.Op {
				case token.ADD:
					base = a.rng(x.X, at, depth+1).add(n)
				case token.SUB:
					base = a.rng(x.X, at, depth+1).add(-n)
				}
			}
		}
	case *ssa.Convert:
		base = a.rng(x.X, at, depth+1)
	case *ssa.Call:
		if bi, ok := x.Common().Value.(*ssa.Builtin); ok && (bi.Name() == "len" || bi.Name() == "cap") {
			base = itv{0, math.MaxInt64, false}
			if bi.Name() == "len" {
				if n, ok := constLenOf(x.Common().Args[0], map[ssa.Value]bool{}); ok {
					base = itv{n, n, false}
				}
			}
		}
	}
	if base.bot || at == nil {
		return base
	}
	// dominating branch edges that test v
	for _, gb := range a.fn.Blocks {
		if len(gb.Instrs) == 0 {
			continue
		}
		iff, ok := gb.Instrs[len(gb.Instrs)-1].(*ssa.If)
		if !ok {
			continue
		}
		for i, s := range gb.Succs {
			if len(s.Preds) == 1 && (s == at || s.Dominates(at)) {
				base = base.meet(a.refineBy(v, iff.Cond, i == 0, gb, depth+1))
				if base.bot {
					// the refinement contradicts the value's range: this block is unreachable for v's current approximation
					return base
				}
			}
		}
	}
	return base
}

// edgeVal: the interval the phi receives from predecessor number pi.
func (a *itvAnalysis) edgeVal(ph *ssa.Phi, pi int) itv {
	pred := ph.Block().Preds[pi]
	e := ph.Edges[pi]
	r := a.rng(e, pred, 0)
	if r.bot {
		return r
	}
	if len(pred.Instrs) > 0 {
		if iff, ok := pred.Instrs[len(pred.Instrs)-1].(*ssa.If); ok && len(pred.Succs) == 2 && pred.Succs[0] != pred.Succs[1] {
			for i, s := range pred.Succs {
				if s == ph.Block() {
					r = r.meet(a.refineBy(e, iff.Cond, i == 0, pred, 0))
				}
			}
		}
	}
	return r
}

func (a *itvAnalysis) solve() {
	var phis []*ssa.Phi
	for _, b := range a.fn.Blocks {
		for _, ins := range b.Instrs {
			if ph, ok := ins.(*ssa.Phi); ok {
				if bt, ok := ph.Type().Underlying().(interface{ Info() int }); ok {
					_ = bt
				}
				phis = append(phis, ph)
			}
		}
	}
	a.phis = map[*ssa.Phi]itv{}
	for _, ph := range phis {
		a.phis[ph] = itvBot
	}
	step := func(widen bool) bool {
		changed := false
		for _, ph := range phis {
			nv := itvBot
			for i := range ph.Edges {
				nv = nv.join(a.edgeVal(ph, i))
			}
			old := a.phis[ph]
			if widen && !old.bot && !nv.bot {
				if nv.hi > old.hi {
					nv.hi = math.MaxInt64
				}
				if nv.lo < old.lo {
					nv.lo = math.MinInt64
				}
			}
			if nv != old {
				a.phis[ph] = nv
				changed = true
			}
		}
		return changed
	}
	for i := 0; i < 4; i++ {
		if !step(false) {
			return
		}
	}
	for i := 0; i < 6 && step(true); i++ {
	}
	// narrowing: recompute without widening, values can only shrink towards the fixpoint below the widened one
	for i := 0; i < 4; i++ {
		changed := false
		for _, ph := range phis {
			nv := itvBot
			for j := range ph.Edges {
				nv = nv.join(a.edgeVal(ph, j))
			}
			old := a.phis[ph]
			m := old.meet(nv)
			if old.bot {
				m = nv
			}
			if m != old && !m.bot {
				a.phis[ph] = m
				changed = true
			}
		}
		if !changed {
			break
		}
	}
}

var ruleF8 = &Rule{
	ID:    "F8",
	Floor: 15,
	Doc: "indices into fixed-length batch buffers (interval analysis over SSA): the row scanners fill a buffer made with a constant length and flush it when it is full; they run in goroutines without a recover, so an index one past the end ends the process, not the request. For every element access `buf[i]` and re-slice `buf[:n]` in the live code of reader/ and writer/ whose buffer has the same constant length N on every path (all its definitions are `make([]T, N)`), " +
		"the interval of the index — integer constants, +/- constants, phis solved by iteration with widening and one narrowing pass, refined by the comparison edges that dominate the access or guard a phi input — must not have a finite upper bound above N-1 (N for the upper bound of a re-slice) nor a finite lower bound below 0. An index whose bound the analysis cannot establish is listed as not decided, not as a violation",
	Run: func(c *Ctx) []Obl {
		var obls []Obl
		var kk keyer
		for _, fn := range liveModuleFuncs(c, "reader", "writer") {
			var an *itvAnalysis
			for _, b := range fn.Blocks {
				for _, ins := range b.Instrs {
					var buf, idx ssa.Value
					limitIsLen := false
					switch x := ins.(type) {
					case *ssa.IndexAddr:
						buf, idx = x.X, x.Index
					case *ssa.Index:
						buf, idx = x.X, x.Index
					case *ssa.Slice:
						if x.High != nil {
							buf, idx, limitIsLen = x.X, x.High, true
						}
					}
					if buf == nil {
						continue
					}
					if _, isK := idx.(*ssa.Const); isK {
						continue
					}
					n, ok := constLenOf(buf, map[ssa.Value]bool{})
					if !ok {
						continue
					}
					if an == nil {
						an = &itvAnalysis{fn: fn}
						an.solve()
					}
					r := an.rng(idx, b, 0)
					max := n - 1
					if limitIsLen {
						max = n
					}
					key := kk.key(fmt.Sprintf("%s index into a buffer of %d elements", ssaName(fn), n))
					switch {
					case r.bot:
						obls = append(obls, Obl{Key: key, Pos: c.pos(ins.Pos()), Status: OK, Msg: "unreachable"})
					case r.hi != math.MaxInt64 && r.hi > max:
						obls = append(obls, Obl{Key: key, Pos: c.pos(ins.Pos()), Status: Violation,
							Msg: fmt.Sprintf("the index ranges over %s but the buffer has %d elements: on the path where it reaches %d the access panics; the goroutine has no recover, so the process ends", r, n, r.hi)})
					case r.lo != math.MinInt64 && r.lo < 0:
						obls = append(obls, Obl{Key: key, Pos: c.pos(ins.Pos()), Status: Violation, Msg: fmt.Sprintf("the index ranges over %s: a negative index panics", r)})
					case r.hi == math.MaxInt64 || r.lo == math.MinInt64:
						obls = append(obls, Obl{Key: key, Pos: c.pos(ins.Pos()), Status: Info, Msg: "index range " + r.String() + " not decided by the interval analysis"})
					default:
						obls = append(obls, Obl{Key: key, Pos: c.pos(ins.Pos()), Status: OK, Msg: "index range " + r.String()})
					}
				}
			}
		}
		sort.SliceStable(obls, func(i, j int) bool { return obls[i].Key < obls[j].Key })
		return obls
	},
}

func init() { register(ruleF8) }
