package main

// E1: static taint of raw SQL text (C10). Backward origin analysis on SSA: for every raw-SQL sink the analysis collects the
// leaves its string argument is assembled from and requires each leaf to be clean: constant, number, table name, identifier
// restricted by a query lexer, an already rendered sub-object, or the result of the literal-escaping routine.

import (
	"fmt"
	"go/token"
	"go/types"
	"os"
	"reflect"
	"regexp"
	"regexp/syntax"
	"sort"
	"strings"

	"golang.org/x/tools/go/ssa"
)

type taintAnalysis struct {
	c        *Ctx
	g        *CallGraph
	rev      map[*ssa.Function][]cgIn
	stores   map[string][]ssa.Value // struct field key → stored values
	gstores  map[*ssa.Global][]ssa.Value
	closures map[*ssa.Function][]*ssa.MakeClosure
	lexSafe  map[string]string // parser field key → "safe"/"risky:<why>"
	budget   int
}

type originSet map[string]bool

func (o originSet) add(s string) { o[s] = true }

// provenance of the first discovery of each leaf (diagnostic only)
var taintStack []string
var taintWhy = map[string]string{}

func noteWhy(leaf string) {
	if _, ok := taintWhy[leaf]; !ok {
		st := taintStack
		if len(st) > 12 {
			st = st[len(st)-12:]
		}
		taintWhy[leaf] = strings.Join(st, " ← ")
	}
}

func describeValue(c *Ctx, v ssa.Value) string {
	fn := ""
	if v.Parent() != nil {
		fn = ssaName(v.Parent())
	}
	s := v.String()
	if len(s) > 50 {
		s = s[:50]
	}
	return fmt.Sprintf("%s{%s}@%s", fn, s, c.pos(v.Pos()))
}

func (o originSet) merge(p originSet) {
	for k := range p {
		o[k] = true
	}
}

func fieldKey(t types.Type, idx int) string {
	if p, ok := t.Underlying().(*types.Pointer); ok {
		t = p.Elem()
	}
	n := namedOf(t)
	st, _ := t.Underlying().(*types.Struct)
	if st == nil || idx >= st.NumFields() {
		return "?"
	}
	name := "anon"
	if n != nil {
		name = n.Origin().Obj().Pkg().Path() + "." + n.Obj().Name()
	}
	return name + "." + st.Field(idx).Name()
}

func (c *Ctx) newTaint() *taintAnalysis {
	g := c.CG()
	t := &taintAnalysis{c: c, g: g, rev: g.reverseVTA(), stores: map[string][]ssa.Value{}, gstores: map[*ssa.Global][]ssa.Value{}, closures: map[*ssa.Function][]*ssa.MakeClosure{}, lexSafe: map[string]string{}}
	for _, fn := range moduleFuncs(g) {
		for _, b := range fn.Blocks {
			for _, ins := range b.Instrs {
				switch x := ins.(type) {
				case *ssa.Store:
					switch a := x.Addr.(type) {
					case *ssa.FieldAddr:
						k := fieldKey(a.X.Type(), a.Field)
						t.stores[k] = append(t.stores[k], x.Val)
					case *ssa.Global:
						t.gstores[a] = append(t.gstores[a], x.Val)
					}
				case *ssa.MakeClosure:
					if f, ok := x.Fn.(*ssa.Function); ok {
						t.closures[f] = append(t.closures[f], x)
					}
				}
			}
		}
	}
	t.computeLexerSafety()
	return t
}

// computeLexerSafety classifies the string fields of the participle grammar structs: a field is lexer-safe when every token
// class / literal alternative its tag captures matches only strings without quote, backslash, whitespace or control bytes.
func (t *taintAnalysis) computeLexerSafety() {
	for _, pk := range t.c.Pkgs {
		r := rel(pk.PkgPath)
		// grammar packages (…parser), and any other module package that declares participle grammar structs (string fields
		// whose tag captures a token with `@`), e.g. the JSON-path grammar of the LogQL json stage
		isGrammarPkg := strings.HasSuffix(r, "parser")
		if !isGrammarPkg && strings.HasPrefix(pk.PkgPath, modPath) {
			sc := pk.Types.Scope()
			for _, n := range sc.Names() {
				if tn, ok := sc.Lookup(n).(*types.TypeName); ok {
					if st, ok := tn.Type().Underlying().(*types.Struct); ok {
						for i := 0; i < st.NumFields(); i++ {
							if b, ok := st.Field(i).Type().Underlying().(*types.Basic); ok && b.Kind() == types.String && reGrammarTag.MatchString(st.Tag(i)) {
								isGrammarPkg = true
							}
						}
					}
				}
			}
		}
		if !isGrammarPkg {
			continue
		}
		strict := !strings.HasSuffix(r, "parser")
		// lexer rules: []lexer.SimpleRule{{"Name", `regex`}, …} literals in the package
		rules := map[string]string{}
		for _, f := range pk.Syntax {
			for _, m := range reRule.FindAllStringSubmatch(t.c.text(f), -1) {
				rules[m[1]] = m[2]
			}
		}
		sc := pk.Types.Scope()
		for _, n := range sc.Names() {
			tn, ok := sc.Lookup(n).(*types.TypeName)
			if !ok {
				continue
			}
			st, ok := tn.Type().Underlying().(*types.Struct)
			if !ok {
				continue
			}
			for i := 0; i < st.NumFields(); i++ {
				f := st.Field(i)
				if b, ok := f.Type().Underlying().(*types.Basic); !ok || b.Kind() != types.String {
					continue
				}
				tag := st.Tag(i)
				key := pk.PkgPath + "." + n + "." + f.Name()
				verdict := "safe"
				// token classes referenced in the tag
				if strict && !reGrammarTag.MatchString(tag) {
					continue // not a grammar field of this (non-parser) package
				}
				for _, m := range reTagTok.FindAllString(tag, -1) {
					if rx, isRule := rules[m]; isRule {
						if why := riskyRegex(rx); why != "" {
							verdict = "risky: token class " + m + " " + why
						}
					} else if strict && len(rules) == 0 && !scannerSafeTokens[m] && strings.Contains(tag, "@") {
						// a lexer without a rule table (text/scanner): only identifier / number tokens are known harmless
						verdict = "risky: token class " + m + " of a lexer without a rule table (text/scanner string tokens carry quotes and escapes)"
					}
				}
				// quoted literal alternatives in the tag are fixed keywords: safe
				if !strings.Contains(tag, "@") {
					verdict = "safe" // not captured from input
				}
				t.lexSafe[key] = verdict
				if os.Getenv("QVET_DEBUG_LEX") != "" {
					fmt.Fprintf(os.Stderr, "lexSafe %s = %s (tag %q)\n", key, verdict, tag)
				}
			}
		}
	}
}

var reGrammarTag = regexp.MustCompile(`@\(?[A-Z@]`)
var scannerSafeTokens = map[string]bool{"Ident": true, "Int": true, "Float": true, "Dot": true, "OSQBrack": true, "CSQBrack": true, "EOF": true}

var reRule = regexp.MustCompile("\\{\\s*\"([A-Za-z_]+)\"\\s*,\\s*`([^`]*)`")
var reTagTok = regexp.MustCompile(`[A-Z][A-Za-z_]+`)

// riskyRegex: can the token class match a quote, a backslash, white space or a control byte?
func riskyRegex(rx string) string {
	re, err := syntax.Parse(rx, syntax.Perl)
	if err != nil {
		return "unparsable"
	}
	bad := []rune{'\'', '\\', '"', '`', ' ', '\n', 0, ';', '(', ')'}
	var walk func(r *syntax.Regexp) string
	walk = func(r *syntax.Regexp) string {
		switch r.Op {
		case syntax.OpLiteral:
			for _, x := range r.Rune {
				for _, b := range bad {
					if x == b {
						return fmt.Sprintf("contains %q", string(x))
					}
				}
			}
		case syntax.OpCharClass:
			for i := 0; i+1 < len(r.Rune); i += 2 {
				for _, b := range bad {
					if r.Rune[i] <= b && b <= r.Rune[i+1] {
						return fmt.Sprintf("class admits %q", string(b))
					}
				}
			}
		case syntax.OpAnyChar, syntax.OpAnyCharNotNL:
			return "admits any character"
		}
		for _, s := range r.Sub {
			if w := walk(s); w != "" {
				return w
			}
		}
		return ""
	}
	return walk(re)
}

func stringish(t types.Type) bool {
	switch u := t.Underlying().(type) {
	case *types.Basic:
		return u.Info()&types.IsString != 0
	case *types.Slice:
		return stringish(u.Elem()) || isByte(u.Elem())
	case *types.Array:
		return stringish(u.Elem()) || isByte(u.Elem())
	case *types.Map:
		return stringish(u.Elem()) || stringish(u.Key())
	case *types.Interface:
		return u.NumMethods() == 0 // only `any` (fmt arguments); object interfaces (ISelect, SQLObject, error) do not carry text by value
	case *types.Pointer:
		return stringish(u.Elem())
	case *types.Tuple:
		for i := 0; i < u.Len(); i++ {
			if stringish(u.At(i).Type()) {
				return true
			}
		}
	}
	return false
}

func isByte(t types.Type) bool {
	b, ok := t.Underlying().(*types.Basic)
	return ok && (b.Kind() == types.Byte || b.Kind() == types.Uint8)
}

var taintSourcePkgs = []string{"net/http", "net/url", "github.com/gorilla/mux", "github.com/gorilla/websocket"}
var taintExternalRequestStructs = []string{"github.com/prometheus/prometheus", "prompb", "/prof/", "connectrpc", "querier", "typesv1", "types/v1"}

type tctx struct {
	call ssa.CallInstruction
	up   *tctx
}

func (t *taintAnalysis) origins(v ssa.Value, cx *tctx, seen map[ssa.Value]bool, depth int) originSet {
	out := originSet{}
	if v == nil {
		return out
	}
	if seen[v] {
		return out
	}
	if depth > 40 || t.budget <= 0 {
		out.add("U:analysis depth/budget exceeded at " + v.Name())
		return out
	}
	t.budget--
	seen[v] = true
	defer delete(seen, v)
	if taintTrace {
		fmt.Fprintf(os.Stderr, "%*s%s  [%T %s]\n", depth, "", describeValue(t.c, v), v, v.Type())
	}
	taintStack = append(taintStack, describeValue(t.c, v))
	defer func() { taintStack = taintStack[:len(taintStack)-1] }()
	if !stringish(v.Type()) {
		return out // numbers, bools, structs: cannot carry text (struct fields are followed by field, not by value)
	}
	rec := func(x ssa.Value) { out.merge(t.origins(x, cx, seen, depth+1)) }
	switch x := v.(type) {
	case *ssa.Const:
	case *ssa.Phi:
		for _, e := range x.Edges {
			rec(e)
		}
	case *ssa.BinOp:
		rec(x.X)
		rec(x.Y)
	case *ssa.Convert:
		rec(x.X)
	case *ssa.ChangeType:
		rec(x.X)
	case *ssa.ChangeInterface:
		rec(x.X)
	case *ssa.MakeInterface:
		rec(x.X)
	case *ssa.TypeAssert:
		rec(x.X)
	case *ssa.Slice:
		rec(x.X)
	case *ssa.Index:
		rec(x.X)
	case *ssa.Lookup:
		rec(x.X)
	case *ssa.Extract:
		rec(x.Tuple)
	case *ssa.Next:
		rec(x.Iter)
	case *ssa.Range:
		rec(x.X)
	case *ssa.MakeSlice, *ssa.MakeMap:
		// contents arrive through stores / appends, handled at the store sites below
		t.storesInto(x, cx, seen, depth, out)
	case *ssa.Alloc:
		t.storesInto(x, cx, seen, depth, out)
	case *ssa.IndexAddr:
		rec(x.X)
	case *ssa.FieldAddr:
		out.merge(t.fieldOrigins(x, cx, seen, depth))
	case *ssa.Global:
		for _, s := range t.gstores[x] {
			out.merge(t.origins(s, nil, seen, depth+1))
		}
	case *ssa.UnOp:
		if x.Op == token.MUL {
			rec(x.X)
		} else {
			rec(x.X)
		}
	case *ssa.Parameter:
		out.merge(t.paramOrigins(x, cx, seen, depth))
	case *ssa.FreeVar:
		fn := x.Parent()
		idx := -1
		for i, fv := range fn.FreeVars {
			if fv == x {
				idx = i
			}
		}
		for _, mc := range t.closures[fn] {
			if idx >= 0 && idx < len(mc.Bindings) {
				out.merge(t.origins(mc.Bindings[idx], nil, seen, depth+1))
			}
		}
	case *ssa.Call:
		out.merge(t.callOrigins(x, cx, seen, depth))
	default:
		out.add("U:unhandled SSA value " + reflect.TypeOf(v).String())
	}
	return out
}

// storesInto: values stored through an allocation / slice (element stores, field stores, appends are calls).
func (t *taintAnalysis) storesInto(base ssa.Value, cx *tctx, seen map[ssa.Value]bool, depth int, out originSet) {
	refs := base.Referrers()
	if refs == nil {
		return
	}
	for _, r := range *refs {
		switch x := r.(type) {
		case *ssa.Store:
			if x.Addr == base {
				out.merge(t.origins(x.Val, cx, seen, depth+1))
			}
		case *ssa.IndexAddr:
			if x.X == base && x.Referrers() != nil {
				for _, rr := range *x.Referrers() {
					if st, ok := rr.(*ssa.Store); ok && st.Addr == ssa.Value(x) {
						out.merge(t.origins(st.Val, cx, seen, depth+1))
					}
				}
			}
		case *ssa.UnOp:
			// the cell holds a slice / map (an address-taken or captured variable): element stores go through a reloaded copy
			// of the header — `t = *cell; &t[i]; *(&t[i]) = v` — and write the same backing array
			if x.Op == token.MUL && x.X == base && x.Referrers() != nil {
				for _, lr := range *x.Referrers() {
					switch y := lr.(type) {
					case *ssa.IndexAddr:
						if y.X == ssa.Value(x) && y.Referrers() != nil {
							for _, rr := range *y.Referrers() {
								if st, ok := rr.(*ssa.Store); ok && st.Addr == ssa.Value(y) {
									out.merge(t.origins(st.Val, cx, seen, depth+1))
								}
							}
						}
					case *ssa.MapUpdate:
						if y.Map == ssa.Value(x) {
							out.merge(t.origins(y.Key, cx, seen, depth+1))
							out.merge(t.origins(y.Value, cx, seen, depth+1))
						}
					}
				}
			}
		case *ssa.Slice:
			// slicing an array allocation (varargs): element stores are referrers of the allocation itself
		case *ssa.MakeInterface:
			// &x passed as `any` (json.Unmarshal(data, &x)): look at the calls receiving the interface value
			if x.X == base {
				t.escapesTo(x, base, cx, seen, depth, out)
			}
		case ssa.CallInstruction:
			// the address escapes to a call (json.Unmarshal(data, &res), rows.Scan(&x)): the cell then holds something derived from the other arguments
			com := x.Common()
			passed := false
			for _, a := range com.Args {
				if a == base {
					passed = true
				}
			}
			if !passed {
				continue
			}
			if sc := com.StaticCallee(); sc != nil && len(sc.Blocks) > 0 {
				continue // module callee: its stores are seen as field/elem stores
			}
			name := ""
			if sc := com.StaticCallee(); sc != nil {
				name = sc.String()
			} else if com.Method != nil {
				name = com.Method.FullName()
			}
			if strings.Contains(name, "Scan") || strings.Contains(name, "database/sql") {
				continue // value read from the database: not request text
			}
			for _, a := range com.Args {
				if a != base {
					out.merge(t.origins(a, cx, seen, depth+1))
				}
			}
			if com.IsInvoke() {
				out.merge(t.origins(com.Value, cx, seen, depth+1))
			}
		}
	}
}

// escapesTo: the address (wrapped in an interface value iv) is handed to an external call: the cell afterwards holds data derived
// from that call's other arguments.
func (t *taintAnalysis) escapesTo(iv ssa.Value, base ssa.Value, cx *tctx, seen map[ssa.Value]bool, depth int, out originSet) {
	refs := iv.Referrers()
	if refs == nil {
		return
	}
	for _, r := range *refs {
		ci, ok := r.(ssa.CallInstruction)
		if !ok {
			continue
		}
		com := ci.Common()
		if sc := com.StaticCallee(); sc != nil && len(sc.Blocks) > 0 {
			continue
		}
		name := ""
		if sc := com.StaticCallee(); sc != nil {
			name = sc.String()
		} else if com.Method != nil {
			name = com.Method.FullName()
		}
		if strings.Contains(name, "Scan") || strings.Contains(name, "database/sql") {
			continue
		}
		for _, a := range com.Args {
			if a != iv {
				out.merge(t.origins(a, cx, seen, depth+1))
			}
		}
	}
}

func (t *taintAnalysis) fieldOrigins(fa *ssa.FieldAddr, cx *tctx, seen map[ssa.Value]bool, depth int) originSet {
	out := originSet{}
	k := fieldKey(fa.X.Type(), fa.Field)
	if verdict, isParser := t.lexSafe[k]; isParser {
		if strings.HasPrefix(verdict, "risky") {
			l := "S:grammar field " + shortKey(k) + " (" + verdict + ")"
			noteWhy(l)
			out.add(l)
		}
		return out
	}
	pkg := k
	if i := strings.LastIndex(k, "."); i > 0 {
		pkg = k[:i]
	}
	if !strings.HasPrefix(pkg, modPath) {
		for _, p := range taintExternalRequestStructs {
			if strings.Contains(pkg, p) {
				noteWhy("S:request message field " + shortKey(k))
				out.add("S:request message field " + shortKey(k))
				return out
			}
		}
		return out // configuration and other library structs
	}
	if strings.Contains(pkg, "/prof/") && (strings.Contains(pkg, "/v1") || strings.Contains(pkg, "types")) {
		out.add("S:request message field " + shortKey(k))
		return out
	}
	sts := t.stores[k]
	for _, s := range sts {
		out.merge(t.origins(s, nil, seen, depth+1))
	}
	return out
}

func shortKey(k string) string { return strings.ReplaceAll(k, modPath+"/", "") }

func (t *taintAnalysis) paramOrigins(p *ssa.Parameter, cx *tctx, seen map[ssa.Value]bool, depth int) originSet {
	out := originSet{}
	fn := p.Parent()
	idx := -1
	for i, q := range fn.Params {
		if q == p {
			idx = i
		}
	}
	if idx < 0 {
		return out
	}
	argOf := func(ci ssa.CallInstruction) ssa.Value {
		com := ci.Common()
		args := com.Args
		if com.IsInvoke() {
			// receiver is not in Args for invoke mode
			if idx == 0 {
				return com.Value
			}
			if idx-1 < len(args) {
				return args[idx-1]
			}
			return nil
		}
		if idx < len(args) {
			return args[idx]
		}
		return nil
	}
	if cx != nil && cx.call != nil {
		// context-sensitive return: we came into this function from a specific call site
		for _, e := range t.g.vtaOut[cx.call.Parent()] {
			if e.Site == cx.call && e.Callee == fn {
				if a := argOf(cx.call); a != nil {
					out.merge(t.origins(a, cx.up, seen, depth+1))
				}
				return out
			}
		}
	}
	ins := t.rev[fn]
	if len(ins) == 0 {
		// entry point: HTTP handlers receive the request; anything string-ish from it is a source
		if strings.Contains(p.Type().String(), "net/http") {
			out.add("S:http request parameter of " + ssaName(fn))
		}
		return out
	}
	n := 0
	for _, in := range ins {
		if in.edge.Site == nil || in.edge.Kind == "hof" || in.edge.Kind == "go-hof" {
			continue
		}
		if a := argOf(in.edge.Site); a != nil {
			n++
			out.merge(t.origins(a, nil, seen, depth+1))
		}
	}
	return out
}

var cleanStrFuncs = map[string]bool{
	"strconv.Itoa": true, "strconv.FormatInt": true, "strconv.FormatUint": true, "strconv.FormatFloat": true, "strconv.FormatBool": true,
	"time.Time.Format": true, "(time.Time).Format": true, "(time.Duration).String": true, "encoding/hex.EncodeToString": true,
}

func (t *taintAnalysis) callOrigins(call *ssa.Call, cx *tctx, seen map[ssa.Value]bool, depth int) originSet {
	out := originSet{}
	com := call.Common()
	rec := func(x ssa.Value) { out.merge(t.origins(x, cx, seen, depth+1)) }
	if bi, ok := com.Value.(*ssa.Builtin); ok {
		switch bi.Name() {
		case "append", "copy", "min", "max":
			for _, a := range com.Args {
				rec(a)
			}
		}
		return out
	}
	// rendered sub-object or the escaping routine: String(ctx *sql.Ctx, …)
	isSQLString := func(sig *types.Signature, name string) bool {
		if name != "String" || sig.Params().Len() < 1 {
			return false
		}
		return strings.HasSuffix(sig.Params().At(0).Type().String(), "sql_select.Ctx")
	}
	if com.IsInvoke() {
		if isSQLString(com.Method.Type().(*types.Signature), com.Method.Name()) {
			return out
		}
	}
	sc := com.StaticCallee()
	if sc != nil {
		if isSQLString(sc.Signature, sc.Name()) {
			return out
		}
		full := sc.String()
		pkg := ""
		if sc.Pkg != nil {
			pkg = sc.Pkg.Pkg.Path()
		} else if sc.Object() != nil && sc.Object().Pkg() != nil {
			pkg = sc.Object().Pkg().Path()
		}
		if cleanStrFuncs[full] || strings.HasPrefix(full, "strconv.Format") || strings.HasPrefix(full, "(time.") {
			return out
		}
		if strings.HasSuffix(pkg, "/reader/utils/tables") {
			return out
		}
		for _, sp := range taintSourcePkgs {
			if pkg == sp {
				noteWhy("S:" + full + " (request accessor)")
				out.add("S:" + full + " (request accessor)")
				return out
			}
		}
		if len(sc.Blocks) > 0 {
			// module function: union of its returned values, parameters bound to this call
			ncx := &tctx{call: call, up: cx}
			for _, b := range sc.Blocks {
				for _, ins := range b.Instrs {
					if r, ok := ins.(*ssa.Return); ok {
						for _, rv := range r.Results {
							out.merge(t.origins(rv, ncx, seen, depth+1))
						}
					}
				}
			}
			return out
		}
		// external library function: the result may carry any argument (fmt.Sprintf, strings.*, …)
		for _, a := range com.Args {
			rec(a)
		}
		return out
	}
	// dynamic call
	callees := 0
	for _, e := range t.g.vtaOut[call.Parent()] {
		if e.Site != ssa.CallInstruction(call) || e.Fallback {
			continue
		}
		callees++
		if len(e.Callee.Blocks) > 0 {
			ncx := &tctx{call: call, up: cx}
			for _, b := range e.Callee.Blocks {
				for _, ins := range b.Instrs {
					if r, ok := ins.(*ssa.Return); ok {
						for _, rv := range r.Results {
							out.merge(t.origins(rv, ncx, seen, depth+1))
						}
					}
				}
			}
		}
	}
	if callees == 0 {
		for _, a := range com.Args {
			rec(a)
		}
		if com.IsInvoke() {
			rec(com.Value)
		}
	}
	return out
}

type sqlSink struct {
	fn   *ssa.Function
	pos  token.Pos
	what string
	val  ssa.Value
}

func (t *taintAnalysis) sinks() []sqlSink {
	var out []sqlSink
	for _, fn := range moduleFuncs(t.g) {
		if isTestFunc(t.c, fn) || !t.g.live[fn] {
			continue
		}
		top := fn
		for top.Parent() != nil {
			top = top.Parent()
		}
		if top.Pkg == nil || !strings.Contains(top.Pkg.Pkg.Path(), "/reader") {
			continue
		}
		// S2: String(ctx *sql.Ctx, …) methods and closures handed to NewCustomCol
		isRenderer := false
		if fn.Signature.Params().Len() >= 1 && strings.HasSuffix(fn.Signature.Params().At(0).Type().String(), "sql_select.Ctx") && fn.Signature.Results().Len() == 2 {
			if fn.Name() == "String" || fn.Parent() != nil {
				isRenderer = true
			}
		}
		for _, b := range fn.Blocks {
			for _, ins := range b.Instrs {
				switch x := ins.(type) {
				case *ssa.Return:
					if isRenderer && len(x.Results) == 2 {
						switch fn.String() {
						case "(*" + pkgSQL + ".StringVal).String":
							continue // the escaping routine itself (checked structurally by E1's escape obligation)
						case "(*" + pkgSQL + ".RawObject).String", "(*" + pkgSQL + ".CustomCol).String":
							continue // pass-through of what the constructors were given: the constructor call sites / closures are the sinks
						}
						out = append(out, sqlSink{fn, x.Pos(), "text returned by the SQL renderer " + ssaName(fn), x.Results[0]})
					}
				case ssa.CallInstruction:
					sc := x.Common().StaticCallee()
					if sc == nil || sc.Pkg == nil || sc.Pkg.Pkg.Path() != pkgSQL {
						continue
					}
					args := x.Common().Args
					switch sc.Name() {
					case "NewRawObject":
						out = append(out, sqlSink{fn, x.Pos(), "NewRawObject text", args[0]})
					case "NewSimpleCol":
						out = append(out, sqlSink{fn, x.Pos(), "NewSimpleCol expression", args[0]}, sqlSink{fn, x.Pos(), "NewSimpleCol alias", args[1]})
					case "NewCol":
						out = append(out, sqlSink{fn, x.Pos(), "NewCol alias", args[1]})
					case "NewWith":
						out = append(out, sqlSink{fn, x.Pos(), "NewWith alias", args[1]})
					case "NewJoin":
						out = append(out, sqlSink{fn, x.Pos(), "NewJoin type", args[0]})
					case "FmtRawObject":
						for _, a := range args {
							out = append(out, sqlSink{fn, x.Pos(), "FmtRawObject argument", a})
						}
					}
				}
			}
		}
	}
	sort.Slice(out, func(i, j int) bool { return out[i].pos < out[j].pos })
	return out
}

// frozen, reviewed exceptions: sink function → reason
var e1Exceptions = map[string]string{}

var ruleE1 = &Rule{
	ID:    "E1",
	Floor: 300,
	Doc: "static taint of raw SQL text: every string that becomes SQL text without passing the literal-escaping routine — the arguments of sql.NewRawObject / NewSimpleCol / FmtRawObject, aliases of NewCol / NewWith, the join type, and the text returned by every String(*sql.Ctx, …) renderer or NewCustomCol closure under reader/ — " +
		"is traced backwards over SSA (assignments, phis, concatenation, fmt/strings transforms, struct fields by (type, field), parameters to call sites, closures, calls through the VTA call graph). Its leaves must be clean: constants, numbers, table names, grammar fields whose participle tag captures only token classes that cannot contain quote / backslash / space " +
		"(decided from the lexer regexps), already rendered sub-objects (results of String(ctx, …)), or database values. A leaf that is request text — a grammar field capturing a quoted string, an HTTP / mux accessor, a field of a decoded request message — is a violation; the only way for such text into SQL is sql.NewStringVal, whose renderer is checked by rule E3",
	Run: func(c *Ctx) []Obl {
		t := c.newTaint()
		var obls []Obl
		nth := map[string]int{}
		for _, s := range t.sinks() {
			t.budget = 20000
			taintTrace = osGetenv("QVET_TRACE_TAINT") != "" && strings.Contains(fmt.Sprintf("%s %s", ssaName(s.fn), s.what)+"@"+c.pos(s.pos), osGetenv("QVET_TRACE_TAINT"))
			os := t.origins(s.val, nil, map[ssa.Value]bool{}, 0)
			taintTrace = false
			base := fmt.Sprintf("%s %s", ssaName(s.fn), s.what)
			if d := osGetenv("QVET_DEBUG_TAINT"); d != "" && strings.Contains(base, d) {
				fmt.Fprintf(osStderr(), "TAINT %s @%s: %v\n", base, c.pos(s.pos), os)
			}
			nth[base]++
			key := fmt.Sprintf("%s #%d", base, nth[base])
			var src, unk []string
			for o := range os {
				switch {
				case strings.HasPrefix(o, "S:"):
					src = append(src, o[2:])
				case strings.HasPrefix(o, "U:"):
					unk = append(unk, o[2:])
				}
			}
			sort.Strings(src)
			sort.Strings(unk)
			switch {
			case len(src) > 0 && e1Exceptions[base] != "":
				obls = append(obls, Obl{Key: key, Pos: c.pos(s.pos), Status: Exception, Msg: e1Exceptions[base] + " [leaves: " + strings.Join(src, "; ") + "]"})
			case len(src) > 0:
				var why []string
				for _, l := range src {
					why = append(why, l+"  VIA  "+taintWhy["S:"+l])
				}
				obls = append(obls, Obl{Key: key, Pos: c.pos(s.pos), Status: Violation, Path: why,
					Msg: "request text reaches raw SQL without the literal-escaping routine: " + strings.Join(src, "; ")})
			case len(unk) > 0:
				obls = append(obls, Obl{Key: key, Pos: c.pos(s.pos), Status: Undecided, Msg: strings.Join(unk, "; ")})
			default:
				obls = append(obls, Obl{Key: key, Pos: c.pos(s.pos), Status: OK})
			}
		}
		return obls
	},
}

func init() { register(ruleE1) }

func osGetenv(k string) string { return os.Getenv(k) }
func osStderr() *os.File       { return os.Stderr }

var taintTrace bool
