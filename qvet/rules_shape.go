package main

// Shape / sibling agreement rules for C02, C03, C06: C1 column sets, C2 lock-step growth, C3 length coupling, C4 payload tags.

import (
	"fmt"
	"go/ast"
	"go/token"
	"go/types"
	"golang.org/x/tools/go/ssa"
	"regexp"
	"sort"
	"strconv"
	"strings"
)

// ---------------------------------------------------------------------------------
// schema: table → column → type text, from the embedded migration scripts

var reCreateTable = regexp.MustCompile("(?is)^CREATE\\s+TABLE\\s+(?:IF\\s+NOT\\s+EXISTS\\s+)?(?:\\{\\{\\.DB\\}\\}\\.)?`?(\\w+)`?[^(]*\\((.*)\\)\\s*ENGINE")
var reAlterAdd = regexp.MustCompile("(?is)ADD\\s+COLUMN\\s+(?:IF\\s+NOT\\s+EXISTS\\s+)?`?(\\w+)`?\\s+([^,;)]+)")

func splitTopLevel(s string) []string {
	var out []string
	depth, start := 0, 0
	for i, r := range s {
		switch r {
		case '(':
			depth++
		case ')':
			depth--
		case ',':
			if depth == 0 {
				out = append(out, s[start:i])
				start = i + 1
			}
		}
	}
	return append(out, s[start:])
}

func (c *Ctx) schema() (map[string]map[string]string, error) {
	if v, ok := c.memo["schema"]; ok {
		return v.(map[string]map[string]string), nil
	}
	scripts, _, err := c.embeddedScripts()
	if err != nil {
		return nil, err
	}
	sch := map[string]map[string]string{}
	for _, stmts := range scripts {
		for _, st := range stmts {
			if m := reCreateTable.FindStringSubmatch(st); m != nil {
				cols := map[string]string{}
				for _, part := range splitTopLevel(m[2]) {
					f := strings.Fields(strings.TrimSpace(part))
					if len(f) >= 2 {
						cols[strings.Trim(f[0], "`")] = f[1]
					}
				}
				sch[m[1]] = cols
			} else if m := reAlter.FindStringSubmatch(strings.Join(strings.Fields(st), " ")); m != nil {
				tbl := stmtObject(m[1])
				for _, a := range reAlterAdd.FindAllStringSubmatch(st, -1) {
					if sch[tbl] == nil {
						sch[tbl] = map[string]string{}
					}
					sch[tbl][a[1]] = strings.Fields(a[2])[0]
				}
			}
		}
	}
	c.memo["schema"] = sch
	return sch, nil
}

// ---------------------------------------------------------------------------------
// C1 / C2(i): insert services

type acquirerInfo struct {
	typeName string
	named    *types.Named
	colOf    map[string]string // field → column name
	sizeOf   map[string]int    // field → SetSize(n)
	ser      []string          // field order in serialize / toIFace
	deser    []string          // field at index i in deserialize / fromIFace
	deserT   []string          // asserted type text at index i
}

func (c *Ctx) acquirers() map[string]*acquirerInfo {
	out := map[string]*acquirerInfo{}
	for _, fi := range c.Funcs(c.PkgsUnder("writer/service/impl")) {
		if fi.Decl.Recv == nil || isTestFile(c, fi.Decl) {
			continue
		}
		info := fi.Pkg.TypesInfo
		tn := recvTypeName(fi.Decl)
		ai := out[tn]
		if ai == nil {
			ai = &acquirerInfo{typeName: tn, colOf: map[string]string{}, sizeOf: map[string]int{}}
			out[tn] = ai
			if o := fi.Pkg.Types.Scope().Lookup(tn); o != nil {
				ai.named, _ = o.Type().(*types.Named)
			}
		}
		recv := ""
		if len(fi.Decl.Recv.List[0].Names) > 0 {
			recv = fi.Decl.Recv.List[0].Names[0].Name
		}
		fieldOf := func(e ast.Expr) string {
			se, ok := ast.Unparen(e).(*ast.SelectorExpr)
			if !ok {
				return ""
			}
			if id, ok := ast.Unparen(se.X).(*ast.Ident); ok && id.Name == recv {
				return se.Sel.Name
			}
			return ""
		}
		ast.Inspect(fi.Decl.Body, func(n ast.Node) bool {
			switch x := n.(type) {
			case *ast.AssignStmt:
				for i, lh := range x.Lhs {
					f := fieldOf(lh)
					if f == "" || i >= len(x.Rhs) && len(x.Rhs) != 1 {
						continue
					}
					var rhs ast.Expr
					if len(x.Rhs) == len(x.Lhs) {
						rhs = x.Rhs[i]
					}
					if rhs == nil {
						continue
					}
					switch r := ast.Unparen(rhs).(type) {
					case *ast.CallExpr:
						if se, ok := ast.Unparen(r.Fun).(*ast.SelectorExpr); ok && se.Sel.Name == "Acquire" && len(r.Args) == 1 {
							if s, ok := constString(info, r.Args[0]); ok {
								ai.colOf[f] = s
							}
						}
					case *ast.TypeAssertExpr:
						if ix, ok := ast.Unparen(r.X).(*ast.IndexExpr); ok {
							if tv, ok := info.Types[ix.Index]; ok && tv.Value != nil {
								idx, _ := strconv.Atoi(tv.Value.ExactString())
								for len(ai.deser) <= idx {
									ai.deser = append(ai.deser, "")
									ai.deserT = append(ai.deserT, "")
								}
								ai.deser[idx] = f
								ai.deserT[idx] = types.TypeString(info.Types[r.Type].Type, func(p *types.Package) string { return p.Name() })
							}
						}
					}
				}
			case *ast.CallExpr:
				// recv.f.Data.SetSize(n)
				if se, ok := ast.Unparen(x.Fun).(*ast.SelectorExpr); ok && se.Sel.Name == "SetSize" && len(x.Args) == 1 {
					if d, ok := ast.Unparen(se.X).(*ast.SelectorExpr); ok && d.Sel.Name == "Data" {
						if f := fieldOf(d.X); f != "" {
							if tv, ok := info.Types[x.Args[0]]; ok && tv.Value != nil {
								ai.sizeOf[f], _ = strconv.Atoi(tv.Value.ExactString())
							}
						}
					}
				}
			case *ast.ReturnStmt:
				// return []service.IColPoolRes{recv.a, recv.b, …}
				if len(x.Results) == 1 {
					if cl, ok := ast.Unparen(x.Results[0]).(*ast.CompositeLit); ok {
						var fields []string
						for _, el := range cl.Elts {
							if f := fieldOf(el); f != "" {
								fields = append(fields, f)
							}
						}
						if len(fields) == len(cl.Elts) && len(fields) > 1 {
							ai.ser = fields
						}
					}
				}
			}
			return true
		})
	}
	for k, v := range out {
		if len(v.colOf) == 0 {
			delete(out, k)
		}
	}
	return out
}

var reInsertCols = regexp.MustCompile(`(?is)INSERT\s+INTO\s+\S+\s*\(([^)]*)\)`)

var ruleC1 = &Rule{
	ID:    "C1",
	Floor: 60,
	Doc: "column-set agreement per insert service (writer/service/impl): the set of column names acquired by the service's acquirer equals the set named in its INSERT statement (set, not order: the server matches block columns by name); " +
		"position i of serialize/toIFace and index i of deserialize/fromIFace denote the same acquirer field and the asserted type equals the field's declared type; every column exists in the target table of the migration scripts (CREATE TABLE plus ADD COLUMN); " +
		"FixedString widths set with SetSize(n) equal the schema's FixedString(n); in the request processor every acquirer column receives appends fed from exactly one field of the request model and no two columns are fed from the same field",
	Run: func(c *Ctx) []Obl {
		var obls []Obl
		acqs := c.acquirers()
		sch, err := c.schema()
		if err != nil {
			return []Obl{{Key: "schema", Pos: "-", Status: Undecided, Msg: err.Error()}}
		}
		for _, fi := range c.Funcs(c.PkgsUnder("writer/service/impl")) {
			if isTestFile(c, fi.Decl) || fi.Decl.Recv != nil {
				continue
			}
			info := fi.Pkg.TypesInfo
			// service constructor: contains a composite literal with keys InsertRequest, AcquireColumns, ProcessRequest
			// service constructor: contains a struct literal that gives the INSERT text (a string that reads as `INSERT INTO t (cols)`),
			// the column acquirer (func() []IColPoolRes) and the request processor (func(any, []IColPoolRes) (int, []IColPoolRes, error)) —
			// the service itself, or a description handed to a generic builder. A literal that only forwards them is not one.
			var lit *ast.CompositeLit
			var insertExpr ast.Expr
			var descPos token.Pos
			ast.Inspect(fi.Decl.Body, func(n ast.Node) bool {
				if cl, ok := n.(*ast.CompositeLit); ok {
					hasAcq, hasProc := false, false
					var ins ast.Expr
					for _, el := range cl.Elts {
						kv, ok := el.(*ast.KeyValueExpr)
						if !ok {
							continue
						}
						tv, ok := info.Types[kv.Value]
						if !ok {
							continue
						}
						switch {
						case isAcquireSig(tv.Type):
							hasAcq = true
						case isProcessSig(tv.Type):
							hasProc = true
						case types.Identical(tv.Type.Underlying(), types.Typ[types.String]):
							if reInsertCols.MatchString(c.queryText(fi, kv.Value)) {
								ins = kv.Value
							}
						}
					}
					if hasAcq && hasProc && ins != nil {
						lit, insertExpr = cl, ins
						descPos = cl.Pos()
					}
				}
				// … or the same three things handed as arguments to a generic builder
				if call, ok := n.(*ast.CallExpr); ok && lit == nil {
					hasAcq, hasProc := false, false
					var ins ast.Expr
					for _, a := range call.Args {
						tv, ok := info.Types[a]
						if !ok || tv.Type == nil {
							continue
						}
						switch {
						case isAcquireSig(tv.Type):
							hasAcq = true
						case isProcessSig(tv.Type):
							hasProc = true
						case types.Identical(tv.Type.Underlying(), types.Typ[types.String]):
							if reInsertCols.MatchString(c.queryText(fi, a)) {
								ins = a
							}
						}
					}
					if hasAcq && hasProc && ins != nil {
						insertExpr = ins
						descPos = call.Pos()
					}
				}
				return true
			})
			if descPos == token.NoPos {
				continue
			}
			name := fi.Name()
			add := func(k string, ok bool, pos token.Pos, msg string) {
				st := OK
				if !ok {
					st = Violation
				} else {
					msg = ""
				}
				obls = append(obls, Obl{Key: name + " " + k, Pos: c.pos(pos), Status: st, Msg: msg})
			}
			var insertText, table string
			var acqLit, procLit *ast.FuncLit
			insertText = c.queryText(fi, insertExpr)
			// table literal: the first string assigned to a local that feeds the Sprintf …
			ast.Inspect(fi.Decl.Body, func(n ast.Node) bool {
				if as, ok := n.(*ast.AssignStmt); ok && as.Tok == token.DEFINE && len(as.Rhs) == 1 && table == "" {
					if s, ok := constString(info, as.Rhs[0]); ok && regexp.MustCompile(`^[a-z_0-9]+$`).MatchString(s) {
						table = s
					}
				}
				return true
			})
			// … or, when the name is computed by a helper (base name + cluster suffix), the first constant string of the
			// constructor that names a table of the migration scripts
			if _, known := sch[table]; !known {
				ast.Inspect(fi.Decl.Body, func(n ast.Node) bool {
					if bl, ok := n.(*ast.BasicLit); ok && bl.Kind == token.STRING {
						if s, ok := constString(info, bl); ok {
							if _, isTable := sch[s]; isTable {
								if _, known := sch[table]; !known {
									table = s
								}
							}
						}
					}
					return true
				})
			}
			m := reInsertCols.FindStringSubmatch(insertText)
			_, _ = acqLit, procLit
			// the two function values of the service, resolved on SSA (a literal, a named function, a method value)
			var acqFn, procFn *ssa.Function
			if cfn := c.SSAFunc(rel(fi.Pkg.PkgPath), declName(fi.Decl)); cfn != nil {
				for _, b := range cfn.Blocks {
					for _, ins := range b.Instrs {
						st, ok := ins.(*ssa.Store)
						if !ok {
							continue
						}
						fa, ok := st.Addr.(*ssa.FieldAddr)
						if !ok {
							continue
						}
						k := fieldKey(fa.X.Type(), fa.Field)
						var fv *ssa.Function
						v := st.Val
						for {
							if ct, ok := v.(*ssa.ChangeType); ok {
								v = ct.X
								continue
							}
							break
						}
						switch f := v.(type) {
						case *ssa.MakeClosure:
							fv, _ = f.Fn.(*ssa.Function)
						case *ssa.Function:
							fv = f
						}
						if fv == nil {
							continue
						}
						_ = k
						if ft := fieldTypeOf(fa); ft != nil && isAcquireSig(ft) {
							acqFn = fv
						}
						if ft := fieldTypeOf(fa); ft != nil && isProcessSig(ft) {
							procFn = fv
						}
					}
				}
			}
			if cfn := c.SSAFunc(rel(fi.Pkg.PkgPath), declName(fi.Decl)); cfn != nil && (acqFn == nil || procFn == nil) {
				for _, b := range cfn.Blocks {
					for _, ins := range b.Instrs {
						call, ok := ins.(*ssa.Call)
						if !ok {
							continue
						}
						for _, a := range call.Common().Args {
							v := a
							for {
								if ct, ok := v.(*ssa.ChangeType); ok {
									v = ct.X
									continue
								}
								break
							}
							var fv *ssa.Function
							switch f := v.(type) {
							case *ssa.MakeClosure:
								fv, _ = f.Fn.(*ssa.Function)
							case *ssa.Function:
								fv = f
							}
							if fv == nil {
								continue
							}
							if isAcquireSig(a.Type()) {
								acqFn = fv
							}
							if isProcessSig(a.Type()) {
								procFn = fv
							}
						}
					}
				}
			}
			if m == nil || acqFn == nil || procFn == nil {
				add("service shape", false, descPos, "INSERT text, AcquireColumns or ProcessRequest not recognised")
				continue
			}
			var insCols []string
			for _, p := range strings.Split(m[1], ",") {
				insCols = append(insCols, strings.Trim(strings.TrimSpace(p), "`"))
			}
			// acquirer type: the struct allocated by the AcquireColumns function (or a helper it calls)
			var ai *acquirerInfo
			{
				seenF := map[*ssa.Function]bool{}
				var scan func(f *ssa.Function, d int)
				scan = func(f *ssa.Function, d int) {
					if f == nil || seenF[f] || d > 2 {
						return
					}
					seenF[f] = true
					for _, b := range f.Blocks {
						for _, ins := range b.Instrs {
							if al, ok := ins.(*ssa.Alloc); ok {
								if nt := namedOf(al.Type()); nt != nil && acqs[nt.Obj().Name()] != nil && ai == nil {
									ai = acqs[nt.Obj().Name()]
								}
							}
							if ci, ok := ins.(ssa.CallInstruction); ok {
								if sc := ci.Common().StaticCallee(); sc != nil && len(sc.Blocks) > 0 && fnPkgRel(sc) == "writer/service/impl" {
									if sc.Signature.Recv() != nil && ai == nil {
										if nt := namedOf(sc.Signature.Recv().Type()); nt != nil && acqs[nt.Obj().Name()] != nil {
											ai = acqs[nt.Obj().Name()]
										}
									}
									scan(sc, d+1)
								}
							}
						}
					}
				}
				scan(acqFn, 0)
			}
			if ai == nil {
				add("acquirer", false, descPos, "acquirer type not recognised")
				continue
			}
			// (a) sets
			acqSet := map[string]bool{}
			for _, col := range ai.colOf {
				acqSet[col] = true
			}
			insSet := map[string]bool{}
			for _, col := range insCols {
				insSet[col] = true
			}
			var all []string
			for k := range acqSet {
				all = append(all, k)
			}
			for k := range insSet {
				if !acqSet[k] {
					all = append(all, k)
				}
			}
			sort.Strings(all)
			for _, col := range all {
				add(fmt.Sprintf("column %s acquired and inserted", col), acqSet[col] && insSet[col] && len(insCols) == len(insSet), descPos,
					fmt.Sprintf("column %q: acquired=%v, named in the INSERT statement=%v — the block sent does not match the statement", col, acqSet[col], insSet[col]))
				// (c) schema
				tcols := sch[table]
				_, inSchema := tcols[col]
				add(fmt.Sprintf("column %s exists in table %s", col, table), inSchema, descPos, fmt.Sprintf("table %s of the migration scripts has no column %q", table, col))
			}
			// (b) positions
			okPos := len(ai.ser) == len(ai.deser) && len(ai.ser) == len(ai.colOf)
			for i := range ai.ser {
				if !okPos || ai.ser[i] != ai.deser[i] {
					okPos = false
					break
				}
			}
			add("serialize and deserialize agree position by position", okPos, descPos, fmt.Sprintf("serialize order %v, deserialize order %v", ai.ser, ai.deser))
			if ai.named != nil {
				st := ai.named.Underlying().(*types.Struct)
				for i, f := range ai.deser {
					for j := 0; j < st.NumFields(); j++ {
						if st.Field(j).Name() == f {
							want := types.TypeString(st.Field(j).Type(), func(p *types.Package) string { return p.Name() })
							add(fmt.Sprintf("deserialize[%d] asserts the type of field %s", i, f), want == ai.deserT[i], descPos, fmt.Sprintf("asserted %s, field is %s", ai.deserT[i], want))
						}
					}
				}
			}
			// (d) fixed string widths
			for f, n := range ai.sizeOf {
				col := ai.colOf[f]
				t := sch[table][col]
				add(fmt.Sprintf("column %s width %d matches the schema", col, n), t == fmt.Sprintf("FixedString(%d)", n), descPos, fmt.Sprintf("SetSize(%d) but the schema declares %s", n, t))
			}
			// (e) request processor: column ← model field, on SSA over the processor and the module functions it calls
			fedFull := c.columnFeeds(procFn, ai)
			fed := map[string]map[string]bool{}
			for af, ms := range fedFull {
				fed[af] = map[string]bool{}
				for m := range ms {
					fed[af][m[strings.LastIndex(m, ".")+1:]] = true
				}
			}
			// the request processor is shared by every channel of the service (round-robin, sync + async): it must keep no
			// state of its own between calls
			if w := writesCapturedState(procFn); w != "" {
				add("request processor keeps no state between calls", false, descPos, "the ProcessRequest function writes to "+w+", which it captured from the constructor: all insert channels of the service run this one function concurrently under different locks, so two requests overwrite each other's column pointers")
			} else {
				add("request processor keeps no state between calls", true, descPos, "")
			}
			usedBy := map[string]string{}
			var afs []string
			for f := range ai.colOf {
				afs = append(afs, f)
			}
			sort.Strings(afs)
			for _, f := range afs {
				srcs := []string{}
				for s := range fed[f] {
					srcs = append(srcs, s)
				}
				sort.Strings(srcs)
				okFeed := len(srcs) == 1 && srcs[0] != "?"
				msg := fmt.Sprintf("column %s (field %s) is appended from %v: it must be fed from exactly one field of the request model", ai.colOf[f], f, srcs)
				if okFeed {
					if prev, dup := usedBy[srcs[0]]; dup {
						okFeed = false
						msg = fmt.Sprintf("columns %s and %s are both fed from the request field %s", prev, ai.colOf[f], srcs[0])
					}
					usedBy[srcs[0]] = ai.colOf[f]
				}
				add(fmt.Sprintf("column %s is fed from exactly one request field", ai.colOf[f]), okFeed, descPos, msg)
			}
		}
		return obls
	},
}

// ---------------------------------------------------------------------------------
// C2 lock-step growth in the parser callbacks

// per-request fields of the row models (assigned once per request by design, not per row)
var c2PerRequest = map[string]map[string]string{
	"ProfileData": {
		"SamplesTypesUnits": "one value per request: the profile decoders produce exactly one profile per body (Parse builds its result with a single append), and the insert routine appends each of these once",
		"Tags":              "one value per request (see SamplesTypesUnits)",
		"ValuesAgg":         "one value per request (see SamplesTypesUnits)",
		"Tree":              "one value per request (see SamplesTypesUnits)",
		"Function":          "one value per request (see SamplesTypesUnits)",
	},
}

var ruleC2 = &Rule{
	ID:    "C2",
	Floor: 5,
	Doc: "lock-step growth: in writer/utils/unmarshal, whenever a statement list appends to a slice field of a row model (a struct of writer/model) through some receiver, it appends exactly once to every slice field of that struct through the same receiver — so all per-row arrays of a chunk grow together; " +
		"spread appends (`append(f, xs...)`) must spread a callback parameter or fastFillArray(len(<callback parameter>), …); fields assigned once per request are a frozen table",
	Run: func(c *Ctx) []Obl {
		var obls []Obl
		batchFields := map[*types.Named][]string{} // parameter-object types whose fields are spread into rows
		for _, fi := range c.Funcs(c.PkgsUnder("writer/utils/unmarshal")) {
			if isTestFile(c, fi.Decl) {
				continue
			}
			info := fi.Pkg.TypesInfo
			params := map[types.Object]bool{}
			for _, f := range fi.Decl.Type.Params.List {
				for _, n := range f.Names {
					params[info.Defs[n]] = true
				}
			}
			var scan func(list []ast.Stmt)
			scan = func(list []ast.Stmt) {
				type key struct {
					recv string
					st   *types.Named
				}
				counts := map[key]map[string]int{}
				assigned := map[key]map[string]bool{}
				badSpread := map[key][]string{}
				var firstPos = map[key]token.Pos{}
				for _, s := range list {
					ast.Inspect(s, func(n ast.Node) bool {
						switch x := n.(type) {
						case *ast.BlockStmt:
							scan(x.List)
							return false
						case *ast.CaseClause:
							scan(x.Body)
							return false
						case *ast.FuncLit:
							scan(x.Body.List)
							return false
						}
						return true
					})
					as, ok := s.(*ast.AssignStmt)
					if !ok || len(as.Lhs) != 1 || len(as.Rhs) != 1 {
						continue
					}
					se, ok := as.Lhs[0].(*ast.SelectorExpr)
					if !ok {
						continue
					}
					sel, ok := info.Selections[se]
					if !ok || sel.Kind() != types.FieldVal {
						continue
					}
					nt := namedOf(sel.Recv())
					if nt == nil || nt.Obj().Pkg() == nil || nt.Obj().Pkg().Path() != pkgWModel {
						continue
					}
					if _, isSlice := sel.Obj().Type().Underlying().(*types.Slice); !isSlice {
						continue
					}
					k := key{c.normText(se.X), nt}
					if counts[k] == nil {
						counts[k] = map[string]int{}
						assigned[k] = map[string]bool{}
						firstPos[k] = as.Pos()
					}
					call, isCall := as.Rhs[0].(*ast.CallExpr)
					if isCall {
						if id, ok := call.Fun.(*ast.Ident); ok && id.Name == "append" && len(call.Args) == 2 && c.normText(call.Args[0]) == c.normText(se) {
							counts[k][se.Sel.Name]++
							if call.Ellipsis.IsValid() {
								okSpread := false
								arg := ast.Unparen(call.Args[1])
								if id, ok := arg.(*ast.Ident); ok && params[info.Uses[id]] {
									okSpread = true
								}
								// a field of a parameter object that carries the callback's arrays (checked as a whole below)
								if bt, f := paramField(info, params, arg); bt != nil {
									okSpread = true
									batchFields[bt] = append(batchFields[bt], f)
								}
								if fc, ok := arg.(*ast.CallExpr); ok && len(fc.Args) == 2 {
									if o := calleeObj(info, fc); o != nil && o.Name() == "fastFillArray" {
										lenArg := ast.Unparen(fc.Args[0])
										// n := len(param) kept in a local that is assigned once
										if nid, ok := lenArg.(*ast.Ident); ok {
											nobj := info.Uses[nid]
											defs := 0
											var def ast.Expr
											ast.Inspect(fi.Decl.Body, func(m ast.Node) bool {
												if das, ok := m.(*ast.AssignStmt); ok {
													for i, lh := range das.Lhs {
														if l, ok := lh.(*ast.Ident); ok && (info.Defs[l] == nobj || info.Uses[l] == nobj) && nobj != nil {
															defs++
															if i < len(das.Rhs) {
																def = das.Rhs[i]
															}
														}
													}
												}
												return true
											})
											if defs == 1 && def != nil {
												lenArg = ast.Unparen(def)
											}
										}
										if lc, ok := lenArg.(*ast.CallExpr); ok {
											if lid, ok := lc.Fun.(*ast.Ident); ok && lid.Name == "len" && len(lc.Args) == 1 {
												if pid, ok := ast.Unparen(lc.Args[0]).(*ast.Ident); ok && params[info.Uses[pid]] {
													okSpread = true
												}
												if bt, f := paramField(info, params, lc.Args[0]); bt != nil {
													okSpread = true
													batchFields[bt] = append(batchFields[bt], f)
												}
											}
											// p.count() where count is `return len(p.field)`
											if se, ok := ast.Unparen(lc.Fun).(*ast.SelectorExpr); ok {
												if rid, ok := ast.Unparen(se.X).(*ast.Ident); ok && params[info.Uses[rid]] {
													if hfi, le := c.lenAccessor(info, lc); hfi != nil {
														if fse, ok := ast.Unparen(le).(*ast.SelectorExpr); ok {
															if sel, ok := hfi.Pkg.TypesInfo.Selections[fse]; ok && sel.Kind() == types.FieldVal {
																if nt := namedOf(sel.Recv()); nt != nil {
																	okSpread = true
																	batchFields[nt] = append(batchFields[nt], fse.Sel.Name)
																}
															}
														}
													}
												}
											}
										}
									}
								}
								if !okSpread {
									badSpread[k] = append(badSpread[k], se.Sel.Name)
								}
							}
							continue
						}
					}
					assigned[k][se.Sel.Name] = true
				}
				for k, cnt := range counts {
					if len(cnt) == 0 {
						continue
					}
					st := k.st.Underlying().(*types.Struct)
					var missing, multi, exc []string
					for i := 0; i < st.NumFields(); i++ {
						f := st.Field(i)
						if _, isSlice := f.Type().Underlying().(*types.Slice); !isSlice {
							continue
						}
						switch {
						case cnt[f.Name()] == 1:
						case cnt[f.Name()] > 1:
							multi = append(multi, f.Name())
						case c2PerRequest[k.st.Obj().Name()][f.Name()] != "":
							exc = append(exc, f.Name())
						default:
							missing = append(missing, f.Name())
						}
					}
					key := fmt.Sprintf("%s appends a row to %s via %s", fi.Name(), k.st.Obj().Name(), k.recv)
					switch {
					case len(missing) > 0 || len(multi) > 0:
						obls = append(obls, Obl{Key: key, Pos: c.pos(firstPos[k]), Status: Violation,
							Msg: fmt.Sprintf("the per-row arrays do not grow together: not appended %v, appended more than once %v — the chunk's columns get different lengths (a non-rectangular block, or values attributed to the wrong row)", missing, multi)})
					case len(badSpread[k]) > 0:
						obls = append(obls, Obl{Key: key, Pos: c.pos(firstPos[k]), Status: Violation,
							Msg: fmt.Sprintf("fields %v are extended by a spread whose length is not tied to the callback's arrays", badSpread[k])})
					default:
						msg := fmt.Sprintf("%d arrays in lock-step", len(cnt))
						if len(exc) > 0 {
							msg += fmt.Sprintf("; per-request fields %v (frozen exception: %s)", exc, c2PerRequest[k.st.Obj().Name()][exc[0]])
						}
						obls = append(obls, Obl{Key: key, Pos: c.pos(firstPos[k]), Status: OK, Msg: msg})
					}
				}
			}
			scan(fi.Decl.Body.List)
		}
		// parameter objects: their spread fields are set only where the object is built, each from its own parameter of the
		// building function — so they are the callback's arrays, whose lengths rule C3 couples at the callback's call sites
		var bts []*types.Named
		for bt := range batchFields {
			bts = append(bts, bt)
		}
		sort.Slice(bts, func(i, j int) bool { return bts[i].Obj().Name() < bts[j].Obj().Name() })
		for _, bt := range bts {
			fields := uniq(batchFields[bt])
			sort.Strings(fields)
			isSpread := map[string]bool{}
			for _, f := range fields {
				isSpread[f] = true
			}
			var bad []string
			lits := 0
			pos := bt.Obj().Pos()
			for _, fi := range c.Funcs(c.PkgsUnder("writer/utils/unmarshal")) {
				if isTestFile(c, fi.Decl) {
					continue
				}
				info := fi.Pkg.TypesInfo
				fparams := map[types.Object]bool{}
				for _, f := range fi.Decl.Type.Params.List {
					for _, n := range f.Names {
						fparams[info.Defs[n]] = true
					}
				}
				ast.Inspect(fi.Decl.Body, func(n ast.Node) bool {
					switch x := n.(type) {
					case *ast.AssignStmt:
						for _, lh := range x.Lhs {
							if se, ok := ast.Unparen(lh).(*ast.SelectorExpr); ok && isSpread[se.Sel.Name] {
								if sel, ok := info.Selections[se]; ok && sel.Kind() == types.FieldVal && namedOf(sel.Recv()) == bt {
									bad = append(bad, fmt.Sprintf("%s is assigned at %s", se.Sel.Name, c.pos(x.Pos())))
								}
							}
						}
					case *ast.CompositeLit:
						tv, ok := info.Types[x]
						if !ok || namedOf(tv.Type) != bt {
							return true
						}
						lits++
						used := map[types.Object]string{}
						set := map[string]bool{}
						for _, el := range x.Elts {
							kv, ok := el.(*ast.KeyValueExpr)
							if !ok {
								bad = append(bad, "positional literal at "+c.pos(x.Pos()))
								continue
							}
							kid, ok := kv.Key.(*ast.Ident)
							if !ok || !isSpread[kid.Name] {
								continue
							}
							set[kid.Name] = true
							vid, ok := ast.Unparen(kv.Value).(*ast.Ident)
							if !ok || !fparams[info.Uses[vid]] {
								bad = append(bad, fmt.Sprintf("%s is not set from a parameter of %s", kid.Name, fi.Decl.Name.Name))
								continue
							}
							if prev, dup := used[info.Uses[vid]]; dup {
								bad = append(bad, fmt.Sprintf("%s and %s are set from the same parameter", prev, kid.Name))
							}
							used[info.Uses[vid]] = kid.Name
						}
						for _, f := range fields {
							if !set[f] {
								bad = append(bad, fmt.Sprintf("%s is not set in the literal at %s", f, c.pos(x.Pos())))
							}
						}
					}
					return true
				})
			}
			key := fmt.Sprintf("writer/utils/unmarshal.%s fields %v are the callback's arrays", bt.Obj().Name(), fields)
			switch {
			case lits == 0:
				obls = append(obls, Obl{Key: key, Pos: c.pos(pos), Status: Violation, Msg: "the object whose fields are spread into the rows is never built from a callback's parameters"})
			case len(bad) > 0:
				obls = append(obls, Obl{Key: key, Pos: c.pos(pos), Status: Violation, Msg: "the spread fields are not tied one-to-one to the callback's arrays: " + strings.Join(uniq(bad), "; ")})
			default:
				obls = append(obls, Obl{Key: key, Pos: c.pos(pos), Status: OK, Msg: fmt.Sprintf("%d construction site(s)", lits)})
			}
		}
		sort.SliceStable(obls, func(i, j int) bool { return obls[i].Key < obls[j].Key })
		return obls
	},
}

// paramField: e is `p.f` with p a parameter whose type is a struct (or pointer to one) of the package: returns the struct type and f.
func paramField(info *types.Info, params map[types.Object]bool, e ast.Expr) (*types.Named, string) {
	se, ok := ast.Unparen(e).(*ast.SelectorExpr)
	if !ok {
		return nil, ""
	}
	id, ok := ast.Unparen(se.X).(*ast.Ident)
	if !ok || !params[info.Uses[id]] {
		return nil, ""
	}
	sel, ok := info.Selections[se]
	if !ok || sel.Kind() != types.FieldVal {
		return nil, ""
	}
	nt := namedOf(sel.Recv())
	if nt == nil {
		return nil, ""
	}
	if _, isStruct := nt.Underlying().(*types.Struct); !isStruct {
		return nil, ""
	}
	return nt, se.Sel.Name
}

// ---------------------------------------------------------------------------------
// C3 length coupling at callback sites

type lenClasses struct {
	c     *Ctx
	fi    *FuncInfo
	pkgFs []*FuncInfo
}

// events that change the length of a slice variable / field, keyed by the enclosing statement list
func (l *lenClasses) signature(obj types.Object, isField bool) string {
	var evs []string
	scope := []*FuncInfo{l.fi}
	if isField {
		scope = l.pkgFs
	}
	for _, fi := range scope {
		info := fi.Pkg.TypesInfo
		refers := func(e ast.Expr) bool {
			switch x := ast.Unparen(e).(type) {
			case *ast.Ident:
				return info.Uses[x] == obj || info.Defs[x] == obj
			case *ast.SelectorExpr:
				return info.Uses[x.Sel] == obj
			}
			return false
		}
		var scan func(list []ast.Stmt, blockID string)
		scan = func(list []ast.Stmt, blockID string) {
			for _, s := range list {
				ast.Inspect(s, func(n ast.Node) bool {
					switch x := n.(type) {
					case *ast.BlockStmt:
						scan(x.List, fmt.Sprintf("%s@%d", fi.Decl.Name.Name, l.c.Fset.Position(x.Pos()).Offset))
						return false
					case *ast.CaseClause:
						scan(x.Body, fmt.Sprintf("%s@%d", fi.Decl.Name.Name, l.c.Fset.Position(x.Pos()).Offset))
						return false
					case *ast.FuncLit:
						scan(x.Body.List, fmt.Sprintf("%s@%d", fi.Decl.Name.Name, l.c.Fset.Position(x.Body.Pos()).Offset))
						return false
					}
					return true
				})
				as, ok := s.(*ast.AssignStmt)
				if !ok {
					continue
				}
				for i, lh := range as.Lhs {
					if !refers(lh) || len(as.Rhs) != len(as.Lhs) {
						continue
					}
					rhs := ast.Unparen(as.Rhs[i])
					switch r := rhs.(type) {
					case *ast.CallExpr:
						if id, ok := r.Fun.(*ast.Ident); ok && id.Name == "append" && len(r.Args) >= 2 && refers(r.Args[0]) {
							if r.Ellipsis.IsValid() {
								evs = append(evs, "appN("+l.classOf(r.Args[1], 1)+")|"+blockID)
							} else {
								evs = append(evs, fmt.Sprintf("app%d|%s", len(r.Args)-1, blockID))
							}
							continue
						}
						if id, ok := r.Fun.(*ast.Ident); ok && id.Name == "make" && len(r.Args) >= 2 {
							if tv, ok := info.Types[r.Args[1]]; ok && tv.Value != nil && tv.Value.ExactString() == "0" {
								evs = append(evs, "new0|"+blockID)
							} else {
								evs = append(evs, "newN("+l.lenDesc(r.Args[1], 1)+")")
							}
							continue
						}
						if o := calleeObj(info, r); o != nil && o.Name() == "fastFillArray" && len(r.Args) == 2 {
							evs = append(evs, "newN("+l.lenDesc(r.Args[0], 1)+")")
							continue
						}
						evs = append(evs, "other("+l.c.normText(rhs)+")|"+blockID)
					case *ast.SliceExpr:
						if refers(r.X) && r.Low == nil && r.High != nil {
							evs = append(evs, "trunc("+l.c.normText(r.High)+")|"+blockID)
							continue
						}
						evs = append(evs, "other("+l.c.normText(rhs)+")|"+blockID)
					default:
						evs = append(evs, "other("+l.c.normText(rhs)+")|"+blockID)
					}
				}
			}
		}
		scan(fi.Decl.Body.List, fi.Decl.Name.Name+"@body")
	}
	sort.Strings(evs)
	// an untouched parameter: its length is whatever the caller passes (resolved at the call sites by rule C3)
	if len(evs) == 0 && !isField && l.fi.Decl.Type.Params != nil {
		i := 0
		for _, f := range l.fi.Decl.Type.Params.List {
			for _, n := range f.Names {
				if l.fi.Pkg.TypesInfo.Defs[n] == obj {
					return fmt.Sprintf("param#%d", i)
				}
				i++
			}
		}
	}
	// a variable that is only ever created with a fixed length is that length
	if len(evs) == 1 && strings.HasPrefix(evs[0], "newN(") {
		return strings.TrimSuffix(strings.TrimPrefix(evs[0], "newN("), ")")
	}
	return "sig{" + strings.Join(evs, ";") + "}"
}

func (l *lenClasses) lenDesc(n ast.Expr, depth int) string {
	if call, ok := ast.Unparen(n).(*ast.CallExpr); ok {
		if id, ok := call.Fun.(*ast.Ident); ok && id.Name == "len" && len(call.Args) == 1 {
			return l.classOf(call.Args[0], depth+1)
		}
	}
	info := l.fi.Pkg.TypesInfo
	if tv, ok := info.Types[n]; ok && tv.Value != nil {
		return "const:" + tv.Value.ExactString()
	}
	// a length accessor: a module function whose body is `return len(<field or parameter>)`
	if call, ok := ast.Unparen(n).(*ast.CallExpr); ok && depth < 4 {
		if hfi, le := l.c.lenAccessor(info, call); hfi != nil {
			sub := &lenClasses{c: l.c, fi: hfi, pkgFs: l.pkgFs}
			if se, ok := ast.Unparen(le).(*ast.SelectorExpr); ok {
				if sel, ok := hfi.Pkg.TypesInfo.Selections[se]; ok && sel.Kind() == types.FieldVal {
					return sub.signature(sel.Obj(), true)
				}
			}
		}
	}
	return "n=" + l.c.normText(n)
}

// lenAccessor: call runs a module function whose only statement is `return len(X)`; returns the function and X.
func (c *Ctx) lenAccessor(info *types.Info, call *ast.CallExpr) (*FuncInfo, ast.Expr) {
	fn, ok := calleeObj(info, call).(*types.Func)
	if !ok || !strings.HasPrefix(objPkgPath(fn), modPath) {
		return nil, nil
	}
	p := c.ByPath[objPkgPath(fn)]
	if p == nil {
		return nil, nil
	}
	fd := c.declOf(p, fn)
	if fd == nil || fd.Body == nil || len(fd.Body.List) != 1 {
		return nil, nil
	}
	r, ok := fd.Body.List[0].(*ast.ReturnStmt)
	if !ok || len(r.Results) != 1 {
		return nil, nil
	}
	lc, ok := ast.Unparen(r.Results[0]).(*ast.CallExpr)
	if !ok || len(lc.Args) != 1 {
		return nil, nil
	}
	if id, ok := lc.Fun.(*ast.Ident); !ok || id.Name != "len" {
		return nil, nil
	}
	return &FuncInfo{Pkg: p, Decl: fd}, lc.Args[0]
}

// classOf: canonical description of the length of a slice-valued expression.
func (l *lenClasses) classOf(e ast.Expr, depth int) string {
	info := l.fi.Pkg.TypesInfo
	if depth > 4 {
		return "expr:" + l.c.normText(e)
	}
	switch x := ast.Unparen(e).(type) {
	case *ast.CompositeLit:
		return fmt.Sprintf("const:%d", len(x.Elts))
	case *ast.CallExpr:
		if id, ok := x.Fun.(*ast.Ident); ok && id.Name == "make" && len(x.Args) >= 2 {
			return l.lenDesc(x.Args[1], depth)
		}
		if o := calleeObj(info, x); o != nil && o.Name() == "fastFillArray" && len(x.Args) == 2 {
			return l.lenDesc(x.Args[0], depth)
		}
		return "expr:" + l.c.normText(x)
	case *ast.Ident:
		if v, ok := info.Uses[x].(*types.Var); ok && !v.IsField() {
			return l.signature(v, false)
		}
	case *ast.SelectorExpr:
		if sel, ok := info.Selections[x]; ok && sel.Kind() == types.FieldVal {
			return l.signature(sel.Obj(), true)
		}
	}
	return "expr:" + l.c.normText(e)
}

var ruleC3 = &Rule{
	ID:    "C3",
	Floor: 6, // call sites of the row handler; a shared emit helper legitimately merges several decoders' sites
	Doc: "length coupling at callback sites: at every call of an onEntriesHandler value in writer/utils/unmarshal, the four per-entry arguments (timestamps, messages, values, types) belong to one length class. " +
		"Classes: literals of equal element count; make/fastFillArray whose length is len(x) of a member; slices whose every length-changing statement (append of one element, truncation, creation) occurs in the same statement lists the same number of times",
	Run: func(c *Ctx) []Obl {
		var obls []Obl
		pkgs := c.PkgsUnder("writer/utils/unmarshal")
		var pkgFs []*FuncInfo
		for _, fi := range c.Funcs(pkgs) {
			if !isTestFile(c, fi.Decl) && rel(fi.Pkg.PkgPath) == "writer/utils/unmarshal" {
				pkgFs = append(pkgFs, fi)
			}
		}
		for _, fi := range pkgFs {
			info := fi.Pkg.TypesInfo
			n := 0
			ast.Inspect(fi.Decl.Body, func(m ast.Node) bool {
				call, ok := m.(*ast.CallExpr)
				if !ok || len(call.Args) != 5 {
					return true
				}
				tv, ok := info.Types[call.Fun]
				if !ok {
					return true
				}
				nt, ok := tv.Type.(*types.Named)
				if !ok || nt.Obj().Name() != "onEntriesHandler" {
					return true
				}
				n++
				lc := &lenClasses{c: c, fi: fi, pkgFs: pkgFs}
				var classes []string
				for _, a := range call.Args[1:] {
					classes = append(classes, lc.classOf(a, 0))
				}
				same := true
				for _, cl := range classes[1:] {
					if cl != classes[0] {
						same = false
					}
				}
				key := fmt.Sprintf("%s onEntries call #%d", fi.Name(), n)
				// arrays that are parameters of a forwarding helper: decide at every call site of the helper
				usesParams := false
				for _, cl := range classes {
					if strings.HasPrefix(cl, "param#") {
						usesParams = true
					}
				}
				if usesParams {
					fnObj := info.Defs[fi.Decl.Name]
					sites := 0
					same = true
					var parts []string
					for _, cfi := range pkgFs {
						cinfo := cfi.Pkg.TypesInfo
						ast.Inspect(cfi.Decl.Body, func(k ast.Node) bool {
							cc, ok := k.(*ast.CallExpr)
							if !ok || calleeObj(cinfo, cc) != fnObj {
								return true
							}
							sites++
							clc := &lenClasses{c: c, fi: cfi, pkgFs: pkgFs}
							var resolved []string
							for _, cl := range classes {
								if strings.HasPrefix(cl, "param#") {
									var pi int
									fmt.Sscanf(cl, "param#%d", &pi)
									if pi < len(cc.Args) {
										cl = clc.classOf(cc.Args[pi], 0)
									}
								}
								resolved = append(resolved, cl)
							}
							for _, cl := range resolved[1:] {
								if cl != resolved[0] {
									same = false
									parts = append(parts, fmt.Sprintf("at %s: %s", c.pos(cc.Pos()), strings.Join(resolved, " | ")))
								}
							}
							return true
						})
					}
					if sites == 0 {
						same = false
						parts = append(parts, "the forwarding helper has no call site")
					}
					if same {
						obls = append(obls, Obl{Key: key, Pos: c.pos(call.Pos()), Status: OK, Msg: fmt.Sprintf("forwarding helper: classes agree at its %d call sites", sites)})
					} else {
						obls = append(obls, Obl{Key: key, Pos: c.pos(call.Pos()), Status: Violation,
							Msg: "the per-entry arrays passed to the row builder are not provably of one length: " + shorten(strings.Join(parts, " ; "), 400)})
					}
					return true
				}
				if same {
					obls = append(obls, Obl{Key: key, Pos: c.pos(call.Pos()), Status: OK, Msg: "class " + shorten(classes[0], 80)})
				} else {
					var parts []string
					for i, cl := range classes {
						parts = append(parts, fmt.Sprintf("%s: %s", c.normText(call.Args[i+1]), shorten(cl, 120)))
					}
					obls = append(obls, Obl{Key: key, Pos: c.pos(call.Pos()), Status: Violation,
						Msg: "the per-entry arrays passed to the row builder are not provably of one length: " + strings.Join(parts, " | ")})
				}
				return true
			})
		}
		return obls
	},
}

func shorten(s string, n int) string {
	if len(s) > n {
		return s[:n] + "…"
	}
	return s
}

// ---------------------------------------------------------------------------------
// C4 payload tag agreement

var ruleC4 = &Rule{
	ID:    "C4",
	Floor: 3,
	Doc: "payload-type tags: the set of constants passed to withPayloadType by the span decoders (writer) equals the set of case constants of the payload-type switch in the trace read path (the switch over the stored payload type in the live code of reader/service, in the row loop or a helper); " +
		"the Zipkin-JSON tag is dispatched to the JSON parser and the OTLP tag to the protobuf parser; the ids are written and sliced with the widths 16 / 8 of the schema",
	Run: func(c *Ctx) []Obl {
		var obls []Obl
		written := map[string]string{} // tag → decoder family
		for _, pk := range c.PkgsUnder("writer/utils/unmarshal") {
			info := pk.TypesInfo
			for _, file := range pk.Syntax {
				if isTestFile(c, file) {
					continue
				}
				ast.Inspect(file, func(n ast.Node) bool {
					call, ok := n.(*ast.CallExpr)
					if !ok {
						return true
					}
					o := calleeObj(info, call)
					if o == nil || o.Name() != "Build" || objPkgPath(o) != pk.PkgPath {
						return true
					}
					tag, fam := "", ""
					for _, a := range call.Args {
						ac, ok := a.(*ast.CallExpr)
						if !ok {
							continue
						}
						if ao := calleeObj(info, ac); ao != nil && ao.Name() == "withPayloadType" && len(ac.Args) == 1 {
							if tv, ok := info.Types[ac.Args[0]]; ok && tv.Value != nil {
								tag = tv.Value.ExactString()
							}
						}
						if ao := calleeObj(info, ac); ao != nil && ao.Name() == "withSpansParser" {
							t := strings.ToLower(c.normText(ac))
							switch {
							case strings.Contains(t, "zipkin"):
								fam = "zipkin"
							case strings.Contains(t, "otlp"):
								fam = "otlp"
							}
						}
					}
					if tag != "" {
						if prev, ok := written[tag]; ok && prev != fam {
							fam = prev + "+" + fam
						}
						written[tag] = fam
					}
					return true
				})
			}
		}
		// reader switch: the switch over a payload-type value with integer constant cases, wherever it lives in reader/service
		// (the row loop itself or a helper it calls)
		var p *packagesPackage
		var fd *ast.FuncDecl
		for _, cfi := range c.Funcs(c.PkgsUnder("reader/service")) {
			if isTestFile(c, cfi.Decl) || !c.LiveFunc(cfi) {
				continue
			}
			ast.Inspect(cfi.Decl.Body, func(n ast.Node) bool {
				if sw, ok := n.(*ast.SwitchStmt); ok && sw.Tag != nil && strings.Contains(strings.ToLower(c.normText(sw.Tag)), "payloadtype") && fd == nil {
					p, fd = cfi.Pkg, cfi.Decl
				}
				return true
			})
		}
		read := map[string]string{}
		var swPos token.Pos
		famOf := func(t string) string {
			t = strings.ToLower(t)
			switch {
			case strings.Contains(t, "zipkin") && !strings.Contains(t, "parseotlp"):
				return "zipkin"
			case strings.Contains(t, "otlp"):
				return "otlp"
			}
			return ""
		}
		if fd == nil {
			// the dispatch may be a table: a map from the payload-type constants to decoders, indexed by the stored payload type
			for _, cfi := range c.Funcs(c.PkgsUnder("reader/service")) {
				if isTestFile(c, cfi.Decl) || !c.LiveFunc(cfi) {
					continue
				}
				cinfo := cfi.Pkg.TypesInfo
				ast.Inspect(cfi.Decl.Body, func(n ast.Node) bool {
					ix, ok := n.(*ast.IndexExpr)
					if !ok || swPos != token.NoPos || !strings.Contains(strings.ToLower(c.normText(ix.Index)), "payloadtype") {
						return true
					}
					tv, ok := cinfo.Types[ix.X]
					if !ok {
						return true
					}
					if _, isMap := tv.Type.Underlying().(*types.Map); !isMap {
						return true
					}
					id, ok := ast.Unparen(ix.X).(*ast.Ident)
					if !ok {
						return true
					}
					lit := c.initLiteralOf(cfi.Pkg, cinfo.Uses[id])
					if lit == nil {
						return true
					}
					for _, el := range lit.Elts {
						kv, ok := el.(*ast.KeyValueExpr)
						if !ok {
							continue
						}
						if ktv, ok := cinfo.Types[kv.Key]; ok && ktv.Value != nil {
							read[ktv.Value.ExactString()] = famOf(c.normText(kv.Value))
							swPos = ix.Pos()
						}
					}
					return true
				})
			}
			if swPos == token.NoPos {
				return []Obl{{Key: "reader/service payload-type switch", Pos: "-", Status: Undecided, Msg: "no switch over the payload type (and no decoder table indexed by it) found in the live code of reader/service"}}
			}
		}
		var info *types.Info
		var body ast.Node = &ast.BlockStmt{}
		if fd != nil {
			info = p.TypesInfo
			body = fd.Body
		}
		ast.Inspect(body, func(n ast.Node) bool {
			sw, ok := n.(*ast.SwitchStmt)
			if !ok || sw.Tag == nil || !strings.Contains(strings.ToLower(c.normText(sw.Tag)), "payloadtype") {
				return true
			}
			swPos = sw.Pos()
			for _, st := range sw.Body.List {
				cc := st.(*ast.CaseClause)
				fam := famOf(c.stmtsText(cc.Body))
				for _, e := range cc.List {
					if tv, ok := info.Types[e]; ok && tv.Value != nil {
						read[tv.Value.ExactString()] = fam
					}
				}
			}
			return true
		})
		var tags []string
		for t := range written {
			tags = append(tags, t)
		}
		for t := range read {
			if _, ok := written[t]; !ok {
				tags = append(tags, t)
			}
		}
		sort.Strings(tags)
		for _, t := range tags {
			w, wok := written[t]
			r, rok := read[t]
			key := "payload type " + t + " written and dispatched alike"
			if wok && rok && w == r && w != "" {
				obls = append(obls, Obl{Key: key, Pos: c.pos(swPos), Status: OK, Msg: w})
			} else {
				obls = append(obls, Obl{Key: key, Pos: c.pos(swPos), Status: Violation,
					Msg: fmt.Sprintf("written by the %q decoders (present=%v), read as %q (present=%v): a stored span of this type cannot be decoded back", w, wok, r, rok)})
			}
		}
		// id widths on the read side: slices [:16] / [:8] in the zipkin JSON parser
		if p2, fd2 := c.FuncDecl("reader/service", "parseZipkinJSON"); fd2 != nil {
			widths := map[string]bool{}
			ast.Inspect(fd2.Body, func(n ast.Node) bool {
				if se, ok := n.(*ast.SliceExpr); ok && se.High != nil && se.Low == nil {
					if tv, ok := p2.TypesInfo.Types[se.High]; ok && tv.Value != nil {
						widths[strings.ToLower(c.normText(se.X))+":"+tv.Value.ExactString()] = true
					}
				}
				return true
			})
			okW := widths["traceid:16"] && widths["id:8"]
			st, msg := OK, "traceId[:16], id[:8]"
			if !okW {
				st, msg = Violation, fmt.Sprintf("read side slices the ids as %v; the schema stores FixedString(16) / FixedString(8)", keysOf(widths))
			}
			obls = append(obls, Obl{Key: "reader/service.parseZipkinJSON id widths 16/8", Pos: c.pos(fd2.Pos()), Status: st, Msg: msg})
		}
		return obls
	},
}

func keysOf(m map[string]bool) []string {
	var out []string
	for k := range m {
		out = append(out, k)
	}
	sort.Strings(out)
	return out
}

func init() { register(ruleC1, ruleC2, ruleC3, ruleC4) }

// writesCapturedState: does the closure store through one of its free variables (directly or by calling a method on it that
// stores into its receiver)?
func writesCapturedState(fn *ssa.Function) string {
	if fn == nil || len(fn.FreeVars) == 0 {
		return ""
	}
	rooted := func(v ssa.Value) *ssa.FreeVar {
		for i := 0; i < 8 && v != nil; i++ {
			switch x := v.(type) {
			case *ssa.FreeVar:
				return x
			case *ssa.UnOp:
				v = x.X
			case *ssa.FieldAddr:
				v = x.X
			case *ssa.IndexAddr:
				v = x.X
			default:
				return nil
			}
		}
		return nil
	}
	mutates := func(m *ssa.Function) bool {
		if m == nil || len(m.Params) == 0 {
			return false
		}
		for _, b := range m.Blocks {
			for _, ins := range b.Instrs {
				if st, ok := ins.(*ssa.Store); ok {
					if fa, ok := st.Addr.(*ssa.FieldAddr); ok && fa.X == ssa.Value(m.Params[0]) {
						return true
					}
				}
			}
		}
		return false
	}
	for _, b := range fn.Blocks {
		for _, ins := range b.Instrs {
			switch x := ins.(type) {
			case *ssa.Store:
				if _, isCell := x.Addr.(*ssa.FreeVar); isCell {
					return "the captured variable " + x.Addr.Name()
				}
				if fv := rooted(x.Addr); fv != nil {
					if _, isField := x.Addr.(*ssa.FieldAddr); isField {
						return "a field of the captured " + fv.Name()
					}
				}
			case ssa.CallInstruction:
				sc := x.Common().StaticCallee()
				if sc != nil && sc.Signature.Recv() != nil && len(x.Common().Args) > 0 {
					if fv := rooted(x.Common().Args[0]); fv != nil && mutates(sc) {
						return "the captured " + fv.Name() + " (through " + sc.Name() + ")"
					}
				}
			}
		}
	}
	return ""
}

// columnFeeds: for the request processor of an insert service, which request-model fields ("Type.Field") feed the appends on each
// acquirer column field. Computed on SSA over the processor and the functions of the package it calls, one call site at a time.
func (c *Ctx) columnFeeds(procFn *ssa.Function, ai *acquirerInfo) map[string]map[string]bool {
	fed := map[string]map[string]bool{}
	paramBindings = map[*ssa.Parameter][]ssa.Value{}
	{
		seenF := map[*ssa.Function]bool{}
		var scan func(f *ssa.Function, d int)
		scan = func(f *ssa.Function, d int) {
			if f == nil || seenF[f] || d > 3 || len(f.Blocks) == 0 {
				return
			}
			seenF[f] = true
			for _, b := range f.Blocks {
				for _, ins := range b.Instrs {
					if mc, ok := ins.(*ssa.MakeClosure); ok {
						if cf, ok := mc.Fn.(*ssa.Function); ok {
							scan(cf, d+1)
						}
					}
					ci, ok := ins.(ssa.CallInstruction)
					if !ok {
						continue
					}
					com := ci.Common()
					sc := com.StaticCallee()
					if sc != nil && len(sc.Blocks) > 0 && fnPkgRel(sc) == "writer/service/impl" {
						// one call site at a time: the helper is analysed with this site's arguments bound to its parameters
						saved := map[*ssa.Parameter][]ssa.Value{}
						for i, arg := range com.Args {
							if i < len(sc.Params) {
								saved[sc.Params[i]] = paramBindings[sc.Params[i]]
								paramBindings[sc.Params[i]] = []ssa.Value{arg}
							}
						}
						delete(seenF, sc)
						scan(sc, d+1)
						for p, v := range saved {
							paramBindings[p] = v
						}
					}
					mname := ""
					var recv ssa.Value
					var args []ssa.Value
					if com.IsInvoke() {
						mname, recv, args = com.Method.Name(), com.Value, com.Args
					} else if sc != nil && sc.Signature.Recv() != nil && len(com.Args) > 0 {
						mname, recv, args = sc.Name(), com.Args[0], com.Args[1:]
					}
					if !strings.HasPrefix(mname, "Append") || len(args) == 0 {
						continue
					}
					// which acquirer field is the receiver built from?
					af := ""
					dependsOnValue(recv, func(v ssa.Value) bool {
						if u, ok := v.(*ssa.UnOp); ok && u.Op == token.MUL {
							if fa, ok := u.X.(*ssa.FieldAddr); ok && namedOf(fa.X.Type()) == ai.named {
								k := fieldKey(fa.X.Type(), fa.Field)
								af = k[strings.LastIndex(k, ".")+1:]
								return true
							}
						}
						if fa, ok := v.(*ssa.FieldAddr); ok && namedOf(fa.X.Type()) == ai.named {
							k := fieldKey(fa.X.Type(), fa.Field)
							af = k[strings.LastIndex(k, ".")+1:]
							return true
						}
						return false
					}, map[ssa.Value]bool{}, 0)
					if af == "" {
						continue
					}
					mf := ""
					dependsOnValue(args[0], func(v ssa.Value) bool {
						var fa *ssa.FieldAddr
						if u, ok := v.(*ssa.UnOp); ok && u.Op == token.MUL {
							fa, _ = u.X.(*ssa.FieldAddr)
						}
						if fa != nil {
							if nt := namedOf(fa.X.Type()); nt != nil && nt.Obj().Pkg() != nil && nt.Obj().Pkg().Path() == pkgWModel {
								k := fieldKey(fa.X.Type(), fa.Field)
								mf = nt.Obj().Name() + "." + k[strings.LastIndex(k, ".")+1:]
								return true
							}
						}
						if fl, ok := v.(*ssa.Field); ok {
							if nt := namedOf(fl.X.Type()); nt != nil && nt.Obj().Pkg() != nil && nt.Obj().Pkg().Path() == pkgWModel {
								k := fieldKey(fl.X.Type(), fl.Field)
								mf = nt.Obj().Name() + "." + k[strings.LastIndex(k, ".")+1:]
								return true
							}
						}
						return false
					}, map[ssa.Value]bool{}, 0)
					if fed[af] == nil {
						fed[af] = map[string]bool{}
					}
					fed[af][orStr(mf, "?")] = true
				}
			}
		}
		scan(procFn, 0)
	}
	paramBindings = nil
	return fed
}

type insertService struct {
	ctor   *ssa.Function
	acqFn  *ssa.Function
	procFn *ssa.Function
	ai     *acquirerInfo
}

// insertServices enumerates the insert services of writer/service/impl from SSA: a constructor is a function that stores function
// values into fields named AcquireColumns and ProcessRequest of one struct.
func (c *Ctx) insertServices() []insertService {
	acqs := c.acquirers()
	var out []insertService
	funcVal := func(v ssa.Value) *ssa.Function {
		for {
			if ct, ok := v.(*ssa.ChangeType); ok {
				v = ct.X
				continue
			}
			break
		}
		switch f := v.(type) {
		case *ssa.MakeClosure:
			fn, _ := f.Fn.(*ssa.Function)
			return fn
		case *ssa.Function:
			return f
		}
		return nil
	}
	for _, fn := range liveModuleFuncs(c, "writer/service/impl") {
		var svc insertService
		for _, b := range fn.Blocks {
			for _, ins := range b.Instrs {
				st, ok := ins.(*ssa.Store)
				if !ok {
					continue
				}
				fa, ok := st.Addr.(*ssa.FieldAddr)
				if !ok {
					continue
				}
				ft := fieldTypeOf(fa)
				if ft == nil {
					continue
				}
				if isAcquireSig(ft) && funcVal(st.Val) != nil {
					svc.acqFn = funcVal(st.Val)
				}
				if isProcessSig(ft) && funcVal(st.Val) != nil {
					svc.procFn = funcVal(st.Val)
				}
			}
		}
		if svc.acqFn == nil || svc.procFn == nil {
			// the two functions handed as arguments to a generic builder
			for _, b := range fn.Blocks {
				for _, ins := range b.Instrs {
					call, ok := ins.(*ssa.Call)
					if !ok {
						continue
					}
					for _, a := range call.Common().Args {
						if isAcquireSig(a.Type()) && funcVal(a) != nil {
							svc.acqFn = funcVal(a)
						}
						if isProcessSig(a.Type()) && funcVal(a) != nil {
							svc.procFn = funcVal(a)
						}
					}
				}
			}
		}
		if svc.acqFn == nil || svc.procFn == nil {
			continue
		}
		svc.ctor = fn
		seenF := map[*ssa.Function]bool{}
		var scan func(f *ssa.Function, d int)
		scan = func(f *ssa.Function, d int) {
			if f == nil || seenF[f] || d > 2 {
				return
			}
			seenF[f] = true
			for _, b := range f.Blocks {
				for _, ins := range b.Instrs {
					if al, ok := ins.(*ssa.Alloc); ok {
						if nt := namedOf(al.Type()); nt != nil && acqs[nt.Obj().Name()] != nil && svc.ai == nil {
							svc.ai = acqs[nt.Obj().Name()]
						}
					}
					if ci, ok := ins.(ssa.CallInstruction); ok {
						if sc := ci.Common().StaticCallee(); sc != nil && len(sc.Blocks) > 0 && fnPkgRel(sc) == "writer/service/impl" {
							if sc.Signature.Recv() != nil && svc.ai == nil {
								if nt := namedOf(sc.Signature.Recv().Type()); nt != nil && acqs[nt.Obj().Name()] != nil {
									svc.ai = acqs[nt.Obj().Name()]
								}
							}
							scan(sc, d+1)
						}
					}
				}
			}
		}
		scan(svc.acqFn, 0)
		if svc.ai != nil {
			out = append(out, svc)
		}
	}
	return out
}

// initLiteralOf: the composite literal a package-level variable of the package is initialised with.
func (c *Ctx) initLiteralOf(p *packagesPackage, obj types.Object) *ast.CompositeLit {
	if obj == nil {
		return nil
	}
	for _, pk := range c.Pkgs {
		if pk.Types != obj.Pkg() {
			continue
		}
		for _, f := range pk.Syntax {
			for _, d := range f.Decls {
				gd, ok := d.(*ast.GenDecl)
				if !ok || gd.Tok != token.VAR {
					continue
				}
				for _, sp := range gd.Specs {
					vs := sp.(*ast.ValueSpec)
					for i, n := range vs.Names {
						if pk.TypesInfo.Defs[n] == obj && i < len(vs.Values) {
							lit, _ := ast.Unparen(vs.Values[i]).(*ast.CompositeLit)
							return lit
						}
					}
				}
			}
		}
	}
	return nil
}

func fieldTypeOf(fa *ssa.FieldAddr) types.Type {
	t := fa.X.Type()
	if p, ok := t.Underlying().(*types.Pointer); ok {
		t = p.Elem()
	}
	if st, ok := t.Underlying().(*types.Struct); ok && fa.Field < st.NumFields() {
		return st.Field(fa.Field).Type()
	}
	return nil
}

func isColPoolResSlice(t types.Type) bool {
	sl, ok := t.Underlying().(*types.Slice)
	if !ok {
		return false
	}
	nt := namedOf(sl.Elem())
	return nt != nil && nt.Obj().Name() == "IColPoolRes"
}

// isAcquireSig: func() []IColPoolRes — the column acquirer of an insert service.
func isAcquireSig(t types.Type) bool {
	sig, ok := t.Underlying().(*types.Signature)
	return ok && sig.Params().Len() == 0 && sig.Results().Len() == 1 && isColPoolResSlice(sig.Results().At(0).Type())
}

// isProcessSig: func(any, []IColPoolRes) (int, []IColPoolRes, error) — the request processor of an insert service.
func isProcessSig(t types.Type) bool {
	sig, ok := t.Underlying().(*types.Signature)
	if !ok || sig.Params().Len() != 2 || sig.Results().Len() != 3 {
		return false
	}
	return isColPoolResSlice(sig.Params().At(1).Type()) && isColPoolResSlice(sig.Results().At(1).Type())
}
