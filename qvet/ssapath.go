package main

// Shared SSA helpers for path rules that must survive "extract function" refactorings: canonical identity of a value across
// local cells and closure captures, path search avoiding instructions, and memoised callee summaries.

import (
	"go/token"
	"strings"

	"golang.org/x/tools/go/ssa"
)

// cellOf: the local cell (Alloc) a value is kept in, when it is stored into exactly one cell that has no other store.
func cellOf(v ssa.Value) ssa.Value {
	refs := v.Referrers()
	if refs == nil {
		return nil
	}
	var cell *ssa.Alloc
	for _, r := range *refs {
		if st, ok := r.(*ssa.Store); ok && st.Val == v {
			if a, ok := st.Addr.(*ssa.Alloc); ok {
				if cell != nil && cell != a {
					return nil
				}
				cell = a
			}
		}
	}
	if cell == nil {
		return nil
	}
	n := 0
	if cr := cell.Referrers(); cr != nil {
		for _, r := range *cr {
			if st, ok := r.(*ssa.Store); ok && st.Addr == ssa.Value(cell) {
				n++
			}
		}
	}
	if n != 1 {
		return nil
	}
	return cell
}

// canon: one representative for a value, its local cell, loads of that cell and captures of it by closures.
func canon(v ssa.Value) ssa.Value {
	if v == nil {
		return nil
	}
	for i := 0; i < 6; i++ {
		switch x := v.(type) {
		case *ssa.ChangeType:
			v = x.X
			continue
		case *ssa.MakeInterface:
			v = x.X
			continue
		case *ssa.ChangeInterface:
			v = x.X
			continue
		}
		break
	}
	r := rootCell(v)
	if _, ok := r.(*ssa.Alloc); ok {
		return r
	}
	if c := cellOf(r); c != nil {
		return c
	}
	return r
}

// reachAvoiding: is there a path from just after instruction `from` (or from the function entry when from is nil) to instruction
// `to` that executes no instruction for which avoid returns true?
func reachAvoiding(fn *ssa.Function, from ssa.Instruction, to ssa.Instruction, avoid func(ssa.Instruction) bool) bool {
	if len(fn.Blocks) == 0 {
		return false
	}
	startBlk, startIdx := fn.Blocks[0], 0
	if from != nil {
		startBlk = from.Block()
		startIdx = instrIndex(from) + 1
	}
	seen := map[*ssa.BasicBlock]bool{}
	var walk func(b *ssa.BasicBlock, idx int) bool
	walk = func(b *ssa.BasicBlock, idx int) bool {
		for i := idx; i < len(b.Instrs); i++ {
			ins := b.Instrs[i]
			if ins == to {
				return true
			}
			if avoid(ins) {
				return false
			}
		}
		for _, s := range b.Succs {
			if !seen[s] {
				seen[s] = true
				if walk(s, 0) {
					return true
				}
			}
		}
		return false
	}
	return walk(startBlk, startIdx)
}

// returnsOf lists the Return instructions of a function.
func returnsOf(fn *ssa.Function) []*ssa.Return {
	var out []*ssa.Return
	for _, b := range fn.Blocks {
		for _, ins := range b.Instrs {
			if r, ok := ins.(*ssa.Return); ok {
				out = append(out, r)
			}
		}
	}
	return out
}

// calleeOf resolves the function a call instruction runs when that is statically known: a static callee, a closure made at the
// call site, or a closure kept in a single-assignment local.
func calleeOf(ci ssa.CallInstruction) (*ssa.Function, *ssa.MakeClosure) {
	com := ci.Common()
	if sc := com.StaticCallee(); sc != nil {
		if mc, ok := com.Value.(*ssa.MakeClosure); ok {
			return sc, mc
		}
		return sc, nil
	}
	v := com.Value
	if mc, ok := v.(*ssa.MakeClosure); ok {
		f, _ := mc.Fn.(*ssa.Function)
		return f, mc
	}
	if u, ok := v.(*ssa.UnOp); ok && u.Op == token.MUL {
		if a, ok := u.X.(*ssa.Alloc); ok && a.Referrers() != nil {
			var mc *ssa.MakeClosure
			n := 0
			for _, r := range *a.Referrers() {
				if st, ok := r.(*ssa.Store); ok && st.Addr == ssa.Value(a) {
					n++
					mc, _ = st.Val.(*ssa.MakeClosure)
				}
			}
			if n == 1 && mc != nil {
				f, _ := mc.Fn.(*ssa.Function)
				return f, mc
			}
		}
	}
	return nil, nil
}

// boundIn maps a value of the caller that is passed to / captured by the callee to the callee's parameter or free variable.
func boundIn(ci ssa.CallInstruction, callee *ssa.Function, mc *ssa.MakeClosure, cv ssa.Value) []ssa.Value {
	var out []ssa.Value
	for i, a := range ci.Common().Args {
		if canon(a) == cv && i < len(callee.Params) {
			out = append(out, callee.Params[i])
		}
	}
	if mc != nil {
		for i, b := range mc.Bindings {
			if canon(b) == cv && i < len(callee.FreeVars) {
				out = append(out, callee.FreeVars[i])
			}
		}
	}
	return out
}

func isModuleFn(fn *ssa.Function) bool {
	if fn == nil || len(fn.Blocks) == 0 {
		return false
	}
	r := fnPkgRel(fn)
	return strings.HasPrefix(r, "writer") || strings.HasPrefix(r, "reader") || strings.HasPrefix(r, "ctrl") || strings.HasPrefix(r, "shared") || r == ""
}
