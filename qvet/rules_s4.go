package main

// S4 (C09): in-process stages write into an entry's label map only after having excluded the marker / error entries, whose map is nil.

import (
	"fmt"
	"go/token"
	"sort"

	"golang.org/x/tools/go/ssa"
)

// labelsLoadOf: v is the map loaded from the Labels field of a LogEntry; returns the entry.
func labelsLoadOf(v ssa.Value) ssa.Value {
	if ld, ok := v.(*ssa.UnOp); ok && ld.Op == token.MUL {
		if fa, ok := ld.X.(*ssa.FieldAddr); ok && isLogEntryField(fa, "Labels") {
			return fa.X
		}
	}
	return nil
}

// guardedEntry: instruction `at` is dominated by the edge of a test that excludes entries without labels: `e.Err == nil` (the
// markers and error entries carry Err) or `e.Labels != nil`.
func guardedEntry(at ssa.Instruction, entry ssa.Value) bool {
	fn := at.Parent()
	ce := canon(entry)
	for _, b := range fn.Blocks {
		if len(b.Instrs) == 0 {
			continue
		}
		iff, ok := b.Instrs[len(b.Instrs)-1].(*ssa.If)
		if !ok {
			continue
		}
		cmp, ok := iff.Cond.(*ssa.BinOp)
		if !ok || (cmp.Op != token.EQL && cmp.Op != token.NEQ) {
			continue
		}
		isNil := func(v ssa.Value) bool { k, ok := v.(*ssa.Const); return ok && k.Value == nil }
		var tested ssa.Value
		if isNil(cmp.Y) {
			tested = cmp.X
		} else if isNil(cmp.X) {
			tested = cmp.Y
		}
		ld, ok := tested.(*ssa.UnOp)
		if !ok || ld.Op != token.MUL {
			continue
		}
		fa, ok := ld.X.(*ssa.FieldAddr)
		if !ok || canon(fa.X) != ce {
			continue
		}
		var okSucc *ssa.BasicBlock
		switch {
		case isLogEntryField(fa, "Err"):
			// entries that carry no error
			okSucc = b.Succs[1]
			if cmp.Op == token.EQL {
				okSucc = b.Succs[0]
			}
		case isLogEntryField(fa, "Labels"):
			okSucc = b.Succs[0]
			if cmp.Op == token.EQL {
				okSucc = b.Succs[1]
			}
		default:
			continue
		}
		if len(okSucc.Preds) == 1 && (okSucc == at.Block() || okSucc.Dominates(at.Block())) {
			return true
		}
	}
	return false
}

var ruleS4 = &Rule{
	ID:    "S4",
	Floor: 1,
	Doc: "label writers skip entries without labels (SSA, call graph): every batch ends with a marker entry (Err = io.EOF) and errors travel as entries too; their Labels map is nil, and storing into a nil map panics — the stage's recover turns that into an error answer for a query that had succeeded. " +
		"In the in-process LogQL engine, wherever an element is stored into the map loaded from an entry's Labels field, or that map is handed to a function (also a closure kept in a list) that stores into its map parameter, the place is dominated by the edge of a test that excludes such entries: `entry.Err == nil` or `entry.Labels != nil`. (delete on a nil map is harmless and not covered.)",
	Run: func(c *Ctx) []Obl {
		var obls []Obl
		g := c.CG()
		funcs := liveModuleFuncs(c, "reader/logql/logql_transpiler_v2/internal_planner")
		// functions that store into a map parameter
		writesParam := map[*ssa.Function]map[int]bool{}
		for _, fn := range funcs {
			for _, b := range fn.Blocks {
				for _, ins := range b.Instrs {
					mu, ok := ins.(*ssa.MapUpdate)
					if !ok {
						continue
					}
					mv := mu.Map
					if ld, ok := mv.(*ssa.UnOp); ok && ld.Op == token.MUL {
						mv = ld.X // the map reached through a *map parameter
					}
					if p, ok := mv.(*ssa.Parameter); ok {
						for i, q := range fn.Params {
							if q == p {
								if writesParam[fn] == nil {
									writesParam[fn] = map[int]bool{}
								}
								writesParam[fn][i] = true
							}
						}
					}
				}
			}
		}
		var kk keyer
		for _, fn := range funcs {
			for _, b := range fn.Blocks {
				for _, ins := range b.Instrs {
					var entry ssa.Value
					what := ""
					switch x := ins.(type) {
					case *ssa.MapUpdate:
						if e := labelsLoadOf(x.Map); e != nil {
							entry, what = e, "stores into the entry's label map"
						}
					case ssa.CallInstruction:
						for ai, a := range x.Common().Args {
							e := labelsLoadOf(a)
							if fa, ok := a.(*ssa.FieldAddr); ok && isLogEntryField(fa, "Labels") {
								e = fa.X // &entry.Labels
							}
							if e == nil {
								continue
							}
							for _, ed := range g.vtaOut[fn] {
								if ed.Site != x || ed.Fallback {
									continue
								}
								pi := ai
								if x.Common().IsInvoke() {
									pi = ai + 1
								}
								if writesParam[ed.Callee][pi] {
									entry, what = e, "hands the entry's label map to "+ssaName(ed.Callee)+", which stores into it"
								}
							}
						}
					}
					if entry == nil {
						continue
					}
					key := kk.key(fmt.Sprintf("%s %s only for entries that have one", ssaName(fn), what))
					if guardedEntry(ins, entry) {
						obls = append(obls, Obl{Key: key, Pos: c.pos(ins.Pos()), Status: OK})
					} else {
						obls = append(obls, Obl{Key: key, Pos: c.pos(ins.Pos()), Status: Violation,
							Msg: "no test of entry.Err / entry.Labels dominates this write: the end-of-stream marker and error entries have a nil label map, the store panics and the query that had delivered all its rows ends with an error"})
					}
				}
			}
		}
		sort.SliceStable(obls, func(i, j int) bool { return obls[i].Key < obls[j].Key })
		return obls
	},
}

func init() { register(ruleS4) }
