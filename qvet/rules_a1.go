package main

// A1 (SSA, interprocedural): promise typestate.

import (
	"fmt"
	"go/token"
	"strings"

	"golang.org/x/tools/go/ssa"
)

type settleAnalysis struct {
	memo map[string]bool
	// the promise under examination may be kept in a field of a task object built by the creating function
	holderObj   ssa.Value
	holderField int
}

// isHeldPromise: v is the promise kept in field holderField of the object obj (a load of that field).
func isHeldPromise(v ssa.Value, obj ssa.Value, field int) bool {
	ld, ok := v.(*ssa.UnOp)
	if !ok || ld.Op != token.MUL {
		return false
	}
	fa, ok := ld.X.(*ssa.FieldAddr)
	return ok && fa.Field == field && canon(fa.X) == canon(obj)
}

// settlesAllField: every path through fn settles the promise kept in field `field` of the object in parameter / capture obj.
func (a *settleAnalysis) settlesAllField(fn *ssa.Function, obj ssa.Value, field int, depth int) bool {
	key := fmt.Sprintf("%p|%s|f%d", fn, obj.Name(), field)
	if r, ok := a.memo[key]; ok {
		return r
	}
	a.memo[key] = false
	rets := returnsOf(fn)
	ok := len(rets) > 0
	for _, r := range rets {
		if reachAvoiding(fn, nil, r, func(i ssa.Instruction) bool {
			ci, isCall := i.(ssa.CallInstruction)
			if !isCall {
				return false
			}
			if _, isDefer := i.(*ssa.Defer); isDefer {
				return false
			}
			com := ci.Common()
			if sc := com.StaticCallee(); isPromiseDone(sc) && len(com.Args) > 0 && isHeldPromise(com.Args[0], obj, field) {
				return true
			}
			callee, mc := calleeOf(ci)
			if callee == nil || !isModuleFn(callee) || depth > 3 {
				return false
			}
			for _, inner := range boundIn(ci, callee, mc, canon(obj)) {
				if a.settlesAllField(callee, inner, field, depth+1) {
					return true
				}
			}
			return false
		}) {
			ok = false
		}
	}
	a.memo[key] = ok
	return ok
}

func isPromiseDone(sc *ssa.Function) bool {
	return sc != nil && strings.HasPrefix(sc.Name(), "Done") && strings.Contains(sc.String(), "/writer/utils/promise.Promise")
}

// settles: does executing ins settle (complete, queue, or hand to an unconditional completer) the promise identified by cv?
func (a *settleAnalysis) settles(ins ssa.Instruction, cv ssa.Value, depth int) bool {
	switch x := ins.(type) {
	case *ssa.Store:
		// svc.results = append(svc.results, p): the appended list is stored into a struct field
		if _, ok := x.Addr.(*ssa.FieldAddr); !ok {
			return false
		}
		call, ok := x.Val.(*ssa.Call)
		if !ok {
			return false
		}
		if bi, ok := call.Common().Value.(*ssa.Builtin); ok && bi.Name() == "append" && len(call.Common().Args) == 2 {
			for _, e := range variadicElems(call.Common().Args[1]) {
				if canon(e) == cv {
					return true
				}
			}
		}
		return false
	case ssa.CallInstruction:
		if _, isDefer := ins.(*ssa.Defer); isDefer {
			return false // runs at exit, possibly conditionally (recover handlers): not a guarantee on the normal path
		}
		com := x.Common()
		if sc := com.StaticCallee(); isPromiseDone(sc) && len(com.Args) > 0 && canon(com.Args[0]) == cv {
			return true
		}
		callee, mc := calleeOf(x)
		if callee == nil || !isModuleFn(callee) || depth > 4 {
			return false
		}
		for _, inner := range boundIn(x, callee, mc, cv) {
			if a.settlesAll(callee, inner, depth+1) {
				return true
			}
		}
		// the promise travels inside a task object handed to (or started as a goroutine of) a function that settles the field
		if a.holderObj != nil {
			for _, inner := range boundIn(x, callee, mc, canon(a.holderObj)) {
				if a.settlesAllField(callee, inner, a.holderField, depth+1) {
					return true
				}
			}
		}
	}
	return false
}

// settlesAll: every path through fn from its entry to a return settles the promise held in the given parameter / free variable.
func (a *settleAnalysis) settlesAll(fn *ssa.Function, v ssa.Value, depth int) bool {
	key := fmt.Sprintf("%p|%s", fn, v.Name())
	if r, ok := a.memo[key]; ok {
		return r
	}
	a.memo[key] = false // cycles: not a guarantee
	cv := canon(v)
	rets := returnsOf(fn)
	ok := len(rets) > 0
	for _, r := range rets {
		if reachAvoiding(fn, nil, r, func(i ssa.Instruction) bool { return a.settles(i, cv, depth) }) {
			ok = false
		}
	}
	a.memo[key] = ok
	return ok
}

// casResult: the boolean is the outcome of an atomic compare-and-swap (directly, negated, or returned by a helper that returns one).
func casResult(v ssa.Value, depth int) (isCAS bool, negated bool) {
	if depth > 3 || v == nil {
		return false, false
	}
	switch x := v.(type) {
	case *ssa.UnOp:
		if x.Op == token.NOT {
			ok, neg := casResult(x.X, depth+1)
			return ok, !neg
		}
	case *ssa.Call:
		sc := x.Common().StaticCallee()
		if sc == nil {
			return false, false
		}
		if strings.HasPrefix(sc.String(), "sync/atomic.CompareAndSwap") || (strings.Contains(sc.String(), "sync/atomic.") && strings.HasSuffix(sc.Name(), "CompareAndSwap")) {
			return true, false
		}
		if isModuleFn(sc) {
			rets := returnsOf(sc)
			if len(rets) == 0 {
				return false, false
			}
			for _, r := range rets {
				if len(r.Results) != 1 {
					return false, false
				}
				ok, neg := casResult(r.Results[0], depth+1)
				if !ok || neg {
					return false, false
				}
			}
			return true, false
		}
	}
	return false, false
}

var ruleA1 = &Rule{
	ID:    "A1",
	Floor: 4,
	Doc: "promise typestate (SSA, interprocedural): for every promise created with promise.New in the live code of writer/, every path from the creation to a return of the creating function executes an instruction that settles it: a call of Done on it, the store of an append of it into a struct field (the batch's promise list — under the batch lock, B1), " +
		"or a call / go of a function or closure that receives or captures it and settles it on every one of its own paths (summaries are computed recursively, so extracting the critical section or the goroutine body into a named function changes nothing). Deferred calls are not counted. " +
		"Done itself completes at most once: every store to the promise's fields and the close of its wait channel are dominated by the success edge of a branch on an atomic compare-and-swap (directly, negated, or through a helper that returns its result)",
	Run: func(c *Ctx) []Obl {
		var obls []Obl
		a := &settleAnalysis{memo: map[string]bool{}}
		for _, fn := range liveModuleFuncs(c, "writer") {
			n := 0
			for _, b := range fn.Blocks {
				for _, ins := range b.Instrs {
					call, ok := ins.(*ssa.Call)
					if !ok {
						continue
					}
					sc := call.Common().StaticCallee()
					if sc == nil || !strings.HasPrefix(sc.Name(), "New") || !strings.Contains(sc.String(), "/writer/utils/promise.New") {
						continue
					}
					cv := canon(call)
					a.holderObj, a.holderField = nil, 0
					if refs := call.Referrers(); refs != nil {
						for _, rf := range *refs {
							if st, ok := rf.(*ssa.Store); ok && st.Val == ssa.Value(call) {
								if fa, ok := st.Addr.(*ssa.FieldAddr); ok {
									if al, ok := canon(fa.X).(*ssa.Alloc); ok && al.Parent() == fn {
										a.holderObj, a.holderField = fa.X, fa.Field
									}
								}
							}
						}
					}
					for _, r := range returnsOf(fn) {
						// returns that hand the promise to the caller, on paths on which the creation was executed
						returnsIt := false
						for _, res := range r.Results {
							if canon(res) == cv || (a.holderObj != nil && isHeldPromise(res, a.holderObj, a.holderField)) {
								returnsIt = true
							}
						}
						if !returnsIt || !reachAvoiding(fn, call, r, func(ssa.Instruction) bool { return false }) {
							continue
						}
						n++
						key := fmt.Sprintf("%s promise return #%d", ssaName(fn), n)
						if reachAvoiding(fn, call, r, func(i ssa.Instruction) bool { return a.settles(i, cv, 0) }) {
							obls = append(obls, Obl{Key: key, Pos: c.pos(r.Pos()), Status: Violation,
								Msg: "a path from the creation of the promise (" + c.pos(call.Pos()) + ") reaches this return without completing it, queuing it with the batch, or starting a completer: the request blocks forever (or its promise is in no batch while its rows are)"})
						} else {
							obls = append(obls, Obl{Key: key, Pos: c.pos(r.Pos()), Status: OK})
						}
					}
				}
			}
		}
		// Done completes at most once
		var done *ssa.Function
		for _, fn := range sortedFuncs(c.CG().funcs) {
			if strings.HasPrefix(fn.Name(), "Done") && strings.Contains(fn.String(), "/writer/utils/promise.Promise") && len(fn.Blocks) > 0 && done == nil {
				done = fn
			}
		}
		if done == nil {
			obls = append(obls, Obl{Key: "writer/utils/promise.(*Promise).Done", Pos: "-", Status: Undecided, Msg: "anchor not found"})
			return obls
		}
		var okBlocks []*ssa.BasicBlock
		for _, b := range done.Blocks {
			if len(b.Instrs) == 0 {
				continue
			}
			iff, ok := b.Instrs[len(b.Instrs)-1].(*ssa.If)
			if !ok {
				continue
			}
			if isCAS, neg := casResult(iff.Cond, 0); isCAS {
				if neg {
					okBlocks = append(okBlocks, b.Succs[1])
				} else {
					okBlocks = append(okBlocks, b.Succs[0])
				}
			}
		}
		effects, guarded := 0, 0
		recv := ssa.Value(nil)
		if len(done.Params) > 0 {
			recv = done.Params[0]
		}
		for _, b := range done.Blocks {
			for _, ins := range b.Instrs {
				isEffect := false
				switch x := ins.(type) {
				case *ssa.Store:
					if fa, ok := x.Addr.(*ssa.FieldAddr); ok && canon(fa.X) == canon(recv) {
						isEffect = true
					}
				case *ssa.Call:
					if bi, ok := x.Common().Value.(*ssa.Builtin); ok && bi.Name() == "close" {
						isEffect = true
					}
				}
				if !isEffect {
					continue
				}
				effects++
				for _, ob := range okBlocks {
					// the success block must not be reachable from the failure side: it has the branch block as only predecessor
					if (ob == b || ob.Dominates(b)) && len(ob.Preds) == 1 {
						guarded++
						break
					}
				}
			}
		}
		st, msg := OK, fmt.Sprintf("%d effects, all behind the compare-and-swap", effects)
		if effects < 2 || guarded != effects {
			st, msg = Violation, fmt.Sprintf("%d of the %d writes / closes in Done are not confined to the successful compare-and-swap: a second completion overwrites the outcome or panics on a closed channel", effects-guarded, effects)
		}
		obls = append(obls, Obl{Key: "writer/utils/promise.(*Promise).Done completes at most once (CAS-guarded)", Pos: c.pos(done.Pos()), Status: st, Msg: msg})
		return obls
	},
}

func init() { register(ruleA1) }
