package main

// K3 (SSA, interprocedural): the auth middleware lets a request through only when both credentials matched.

import (
	"fmt"
	"go/token"
	"go/types"
	"sort"
	"strings"

	"golang.org/x/tools/go/ssa"
)

// authFacts: what is known when control is at a point, as a set of normalised string comparisons, e.g. "pair[0]==cred:0",
// "parts[0]==const:Basic", "header!=const:". Computed from the branch edges that dominate the point and from the boolean results of
// module helpers (facts implied by a helper returning true / false, with its parameters replaced by the call's arguments).
type authCtx struct {
	ctor *ssa.Function // BasicAuthMiddleware
}

// describe normalises one side of a comparison.
func (a *authCtx) describe(v ssa.Value, bind map[ssa.Value]ssa.Value, d int) string {
	if v == nil || d > 8 {
		return "?"
	}
	if b, ok := bind[v]; ok {
		return a.describe(b, nil, d+1)
	}
	if s, ok := constStr(v); ok {
		return "const:" + s
	}
	if k, ok := v.(*ssa.Const); ok && k.Value != nil {
		return "const:" + k.Value.ExactString()
	}
	// a credential of the constructor (through closure captures)
	r := rootCell(v)
	if p, ok := r.(*ssa.Parameter); ok && p.Parent() == a.ctor {
		for i, q := range a.ctor.Params {
			if q == p {
				return fmt.Sprintf("cred:%d", i)
			}
		}
	}
	if al, ok := r.(*ssa.Alloc); ok && al.Parent() == a.ctor && al.Referrers() != nil {
		for _, rr := range *al.Referrers() {
			if st, ok := rr.(*ssa.Store); ok && st.Addr == ssa.Value(al) {
				if p, ok := st.Val.(*ssa.Parameter); ok {
					for i, q := range a.ctor.Params {
						if q == p {
							return fmt.Sprintf("cred:%d", i)
						}
					}
				}
			}
		}
	}
	switch x := v.(type) {
	case *ssa.UnOp:
		if x.Op == token.MUL {
			if fa, ok := x.X.(*ssa.FieldAddr); ok {
				if i := a.credField(fa); i >= 0 {
					return fmt.Sprintf("cred:%d", i)
				}
			}
			if ia, ok := x.X.(*ssa.IndexAddr); ok {
				if k, ok := ia.Index.(*ssa.Const); ok && k.Value != nil {
					return a.describe(ia.X, bind, d+1) + "[" + k.Value.ExactString() + "]"
				}
			}
			return a.describe(x.X, bind, d+1)
		}
	case *ssa.Index:
		if k, ok := x.Index.(*ssa.Const); ok && k.Value != nil {
			return a.describe(x.X, bind, d+1) + "[" + k.Value.ExactString() + "]"
		}
	case *ssa.Call:
		if bi, ok := x.Common().Value.(*ssa.Builtin); ok && bi.Name() == "len" {
			return "len(" + a.describe(x.Common().Args[0], bind, d+1) + ")"
		}
		if sc := x.Common().StaticCallee(); sc != nil {
			switch sc.String() {
			case "strings.SplitN", "strings.Split":
				sepV := x.Common().Args[1]
				if b, ok := bind[sepV]; ok {
					// the separator is a parameter of a splitting helper: what the caller passes
					sepV = b
				}
				if sep, ok := constStr(sepV); ok {
					switch sep {
					case ":":
						return "pair"
					case " ":
						return "parts"
					}
				}
			case "(net/http.Header).Get":
				if k, ok := constStr(x.Common().Args[1]); ok {
					return "header(" + k + ")"
				}
			}
		}
	case *ssa.Extract:
		if call, ok := x.Tuple.(*ssa.Call); ok {
			if sc := call.Common().StaticCallee(); sc != nil && isModuleFn(sc) {
				// result #i of a helper: describe what it returns when all its returns agree
				nb := map[ssa.Value]ssa.Value{}
				for i, arg := range call.Common().Args {
					if i < len(sc.Params) {
						if b, ok := bind[arg]; ok {
							nb[sc.Params[i]] = b
						} else {
							nb[sc.Params[i]] = arg
						}
					}
				}
				desc := ""
				for _, r := range returnsOf(sc) {
					if x.Index >= len(r.Results) {
						continue
					}
					if k, ok := r.Results[x.Index].(*ssa.Const); ok && (k.Value == nil || k.Value.ExactString() == `""`) {
						continue // the failure returns carry a zero value
					}
					dd := a.describe(r.Results[x.Index], nb, d+1)
					if desc != "" && desc != dd {
						return "?"
					}
					desc = dd
				}
				if desc != "" {
					return desc
				}
			}
		}
	case *ssa.Convert:
		return a.describe(x.X, bind, d+1)
	case *ssa.Slice:
		return a.describe(x.X, bind, d+1)
	case *ssa.Phi:
		// a local that holds the same thing on all edges
		desc := ""
		for _, e := range x.Edges {
			dd := a.describe(e, bind, d+1)
			if desc != "" && dd != desc {
				return "?"
			}
			desc = dd
		}
		return desc
	}
	return "?"
}

// implied: facts that hold when the boolean v has the given truth value.
func (a *authCtx) implied(v ssa.Value, truth bool, bind map[ssa.Value]ssa.Value, d int) map[string]bool {
	out := map[string]bool{}
	if v == nil || d > 6 {
		return out
	}
	switch x := v.(type) {
	case *ssa.UnOp:
		if x.Op == token.NOT {
			return a.implied(x.X, !truth, bind, d+1)
		}
	case *ssa.BinOp:
		if x.Op == token.EQL || x.Op == token.NEQ {
			eq := (x.Op == token.EQL) == truth
			// helper(...) == K: what the helper established where it returns K
			if eq {
				for _, pr := range [][2]ssa.Value{{x.X, x.Y}, {x.Y, x.X}} {
					k, isK := pr[1].(*ssa.Const)
					if !isK || k.Value == nil {
						continue
					}
					switch cv := pr[0].(type) {
					case *ssa.Call:
						if f := a.impliedByCallConst(cv, 0, k.Value.ExactString(), bind, d); len(f) > 0 {
							return f
						}
					case *ssa.Extract:
						if call, ok := cv.Tuple.(*ssa.Call); ok {
							if f := a.impliedByCallConst(call, cv.Index, k.Value.ExactString(), bind, d); len(f) > 0 {
								return f
							}
						}
					}
				}
			}
			l, r := a.describe(x.X, bind, 0), a.describe(x.Y, bind, 0)
			if strings.HasPrefix(l, "const:") || strings.HasPrefix(l, "cred:") {
				l, r = r, l
			}
			op := "!="
			if eq {
				op = "=="
			}
			out[l+op+r] = true
		}
	case *ssa.Phi:
		// short-circuit && / ||: each edge contributes the facts of its value plus those of the branch that leads to it
		var acc map[string]bool
		for i, e := range x.Edges {
			if k, ok := e.(*ssa.Const); ok && k.Value != nil {
				if (k.Value.ExactString() == "true") != truth {
					continue // this edge cannot produce the requested truth value
				}
				f := a.domFacts(x.Block().Preds[i], x.Block(), bind, d+1)
				acc = intersectFacts(acc, f)
				continue
			}
			f := a.implied(e, truth, bind, d+1)
			for k2 := range a.domFacts(x.Block().Preds[i], x.Block(), bind, d+1) {
				f[k2] = true
			}
			acc = intersectFacts(acc, f)
		}
		if acc != nil {
			return acc
		}
	case *ssa.Extract:
		if call, ok := x.Tuple.(*ssa.Call); ok {
			return a.impliedByCall(call, x.Index, truth, bind, d)
		}
	case *ssa.Call:
		return a.impliedByCall(x, 0, truth, bind, d)
	}
	return out
}

// credField: the field of an object built by the constructor from one of its credential parameters (field-based: the handler may
// be a method of that object); returns the parameter's index or -1.
func (a *authCtx) credField(fa *ssa.FieldAddr) int {
	want := fieldKey(fa.X.Type(), fa.Field)
	found := -1
	var scan func(fn *ssa.Function)
	scan = func(fn *ssa.Function) {
		for _, b := range fn.Blocks {
			for _, ins := range b.Instrs {
				st, ok := ins.(*ssa.Store)
				if !ok {
					continue
				}
				dst, ok := st.Addr.(*ssa.FieldAddr)
				if !ok || fieldKey(dst.X.Type(), dst.Field) != want {
					continue
				}
				if _, isAlloc := dst.X.(*ssa.Alloc); !isAlloc {
					continue
				}
				// the credential itself, or the closure's capture of it
				v := st.Val
				if p, ok := v.(*ssa.Parameter); !ok || p.Parent() != a.ctor {
					v = rootCell(st.Val)
				}
				if al, ok := v.(*ssa.Alloc); ok && al.Parent() == a.ctor {
					if p, spilled := isSpilledParam(al); spilled {
						v = p
					}
				}
				if p, ok := v.(*ssa.Parameter); ok && p.Parent() == a.ctor {
					for i, q := range a.ctor.Params {
						if q == p {
							found = i
						}
					}
				}
			}
		}
		// the object may be built by the function the constructor returns (`func(next) http.Handler { return &handler{…} }`)
		for _, af := range fn.AnonFuncs {
			scan(af)
		}
	}
	scan(a.ctor)
	return found
}

// impliedByCallConst: facts that hold when result #resIdx of the helper equals the constant want: the helper returns constants
// (an enum verdict); the facts are those dominating the returns that yield that constant.
func (a *authCtx) impliedByCallConst(call *ssa.Call, resIdx int, want string, bind map[ssa.Value]ssa.Value, d int) map[string]bool {
	out := map[string]bool{}
	sc := call.Common().StaticCallee()
	if sc == nil || !isModuleFn(sc) || d > 6 {
		return out
	}
	nb := map[ssa.Value]ssa.Value{}
	for i, arg := range call.Common().Args {
		if i < len(sc.Params) {
			if b, ok := bind[arg]; ok {
				nb[sc.Params[i]] = b
			} else {
				nb[sc.Params[i]] = arg
			}
		}
	}
	var acc map[string]bool
	for _, r := range returnsOf(sc) {
		if resIdx >= len(r.Results) {
			continue
		}
		k, ok := r.Results[resIdx].(*ssa.Const)
		if !ok || k.Value == nil {
			return out // a computed result: nothing is known
		}
		if k.Value.ExactString() != want {
			continue
		}
		acc = intersectFacts(acc, a.domFactsAt(r.Block(), nb, d+1))
	}
	if acc == nil {
		return out
	}
	return acc
}

func (a *authCtx) impliedByCall(call *ssa.Call, resIdx int, truth bool, bind map[ssa.Value]ssa.Value, d int) map[string]bool {
	out := map[string]bool{}
	sc := call.Common().StaticCallee()
	if sc == nil || !isModuleFn(sc) {
		return out
	}
	nb := map[ssa.Value]ssa.Value{}
	for i, arg := range call.Common().Args {
		if i < len(sc.Params) {
			if b, ok := bind[arg]; ok {
				nb[sc.Params[i]] = b
			} else {
				nb[sc.Params[i]] = arg
			}
		}
	}
	var acc map[string]bool
	for _, r := range returnsOf(sc) {
		if resIdx >= len(r.Results) {
			continue
		}
		res := r.Results[resIdx]
		if k, ok := res.(*ssa.Const); ok && k.Value != nil {
			if (k.Value.ExactString() == "true") != truth {
				continue
			}
			acc = intersectFacts(acc, a.domFactsAt(r.Block(), nb, d+1))
			continue
		}
		f := a.implied(res, truth, nb, d+1)
		for k2 := range a.domFactsAt(r.Block(), nb, d+1) {
			f[k2] = true
		}
		acc = intersectFacts(acc, f)
	}
	if acc == nil {
		return out
	}
	return acc
}

func intersectFacts(acc, f map[string]bool) map[string]bool {
	if acc == nil {
		out := map[string]bool{}
		for k := range f {
			out[k] = true
		}
		return out
	}
	out := map[string]bool{}
	for k := range acc {
		if f[k] {
			out[k] = true
		}
	}
	return out
}

// domFactsAt: facts established by the branch edges that dominate block b.
func (a *authCtx) domFactsAt(b *ssa.BasicBlock, bind map[ssa.Value]ssa.Value, d int) map[string]bool {
	out := map[string]bool{}
	if d > 6 {
		return out
	}
	fn := b.Parent()
	for _, gb := range fn.Blocks {
		if len(gb.Instrs) == 0 {
			continue
		}
		iff, ok := gb.Instrs[len(gb.Instrs)-1].(*ssa.If)
		if !ok {
			continue
		}
		for i, succ := range gb.Succs {
			if len(succ.Preds) == 1 && (succ == b || succ.Dominates(b)) {
				for k := range a.implied(iff.Cond, i == 0, bind, d+1) {
					out[k] = true
				}
			}
		}
	}
	return out
}

// domFacts: facts on the edge pred → blk (those dominating pred, plus pred's own branch when blk is one of its two successors).
func (a *authCtx) domFacts(pred, blk *ssa.BasicBlock, bind map[ssa.Value]ssa.Value, d int) map[string]bool {
	out := a.domFactsAt(pred, bind, d)
	if len(pred.Instrs) > 0 {
		if iff, ok := pred.Instrs[len(pred.Instrs)-1].(*ssa.If); ok {
			for i, s := range pred.Succs {
				if s == blk && pred.Succs[1-i] != blk {
					for k := range a.implied(iff.Cond, i == 0, bind, d+1) {
						out[k] = true
					}
				}
			}
		}
	}
	return out
}

var ruleK3 = &Rule{
	ID:    "K3",
	Floor: 4,
	Doc: "no pass-through without both equalities (SSA, interprocedural): in the handler built by BasicAuthMiddleware(login, pass) there is exactly one call of next.ServeHTTP. The facts known at that call — from the branch edges that dominate it and from the boolean results of helper functions (a helper returning true implies the comparisons that dominate its `return true`, with its parameters replaced by the arguments) — must include: " +
		"element 0 of the decoded pair (the value split at the first colon) equals the constructor's first parameter, element 1 equals the second (string equality, no prefix / fold / length-only comparison), the scheme (element 0 of the header split at the blank) equals \"Basic\", and the header is not empty; every path from the handler's entry to a return passes either that call or an http.Error with status 401 / 400",
	Run: func(c *Ctx) []Obl {
		k3ctx = c
		ctor := c.SSAFunc("reader/utils/middleware", "BasicAuthMiddleware")
		if ctor == nil {
			return []Obl{{Key: "reader/utils/middleware.BasicAuthMiddleware", Pos: "-", Status: Undecided, Msg: "anchor not found"}}
		}
		name := "reader/utils/middleware.BasicAuthMiddleware"
		var obls []Obl
		add := func(k string, ok bool, pos token.Pos, msg string) {
			st := OK
			if !ok {
				st = Violation
			} else {
				msg = ""
			}
			obls = append(obls, Obl{Key: name + " " + k, Pos: c.pos(pos), Status: st, Msg: msg})
		}
		// the handler: the innermost closure with (ResponseWriter, *Request) parameters
		var handler *ssa.Function
		var find func(fn *ssa.Function)
		find = func(fn *ssa.Function) {
			for _, af := range fn.AnonFuncs {
				if len(af.Params) == 2 && strings.Contains(af.Params[0].Type().String(), "ResponseWriter") {
					handler = af
				}
				find(af)
			}
		}
		find(ctor)
		if handler == nil {
			// the constructor may hand out a method of an authenticator object: look in the functions its result denotes
			for _, r := range returnsOf(ctor) {
				for _, res := range r.Results {
					for _, f := range funcValuesOf(res) {
						if handler == nil {
							find(f)
						}
					}
				}
			}
		}
		if handler == nil {
			// the middleware may wrap `next` in a handler object: a struct the constructor (or the function it returns) builds, whose
			// ServeHTTP is the handler
			var scan func(fn *ssa.Function)
			scan = func(fn *ssa.Function) {
				for _, b := range fn.Blocks {
					for _, ins := range b.Instrs {
						al, ok := ins.(*ssa.Alloc)
						if !ok {
							continue
						}
						nt := namedOf(derefType(al.Type()))
						if nt == nil || nt.Obj().Pkg() == nil || !strings.HasPrefix(nt.Obj().Pkg().Path(), modPath) {
							continue
						}
						for _, recv := range []types.Type{types.NewPointer(nt), nt} {
							if sel := c.SSA().MethodSets.MethodSet(recv).Lookup(nt.Obj().Pkg(), "ServeHTTP"); sel != nil && handler == nil {
								if m := c.SSA().MethodValue(sel); m != nil && len(m.Blocks) > 0 {
									handler = m
								}
							}
						}
					}
				}
				for _, af := range fn.AnonFuncs {
					scan(af)
				}
			}
			scan(ctor)
		}
		if handler == nil || len(ctor.Params) != 2 {
			return []Obl{{Key: name + " handler literal", Pos: c.pos(ctor.Pos()), Status: Undecided, Msg: "handler closure or the two credential parameters not recognised"}}
		}
		var serves []*ssa.Call
		var errCalls []ssa.Instruction
		nErr := 0
		for _, b := range handler.Blocks {
			for _, ins := range b.Instrs {
				call, ok := ins.(*ssa.Call)
				if !ok {
					continue
				}
				if call.Common().IsInvoke() && call.Common().Method.Name() == "ServeHTTP" {
					serves = append(serves, call)
				}
				if isAuthErrorCall(call) {
					errCalls = append(errCalls, call)
					nErr++
					// one refusal site fed from a table of refusals stands for as many answers as the table has rows
					if _, isConst := call.Common().Args[2].(*ssa.Const); !isConst {
						n := 0
						for _, k := range c.constsCount(call.Common().Args[2], 0) {
							n += k
						}
						if n > 1 {
							nErr += n - 1
						}
					}
				} else if sc := call.Common().StaticCallee(); sc != nil && isModuleFn(sc) {
					// a helper that answers 401 / 400 on every one of its paths
					n := 0
					for _, hb := range sc.Blocks {
						for _, hi := range hb.Instrs {
							if hc, ok := hi.(*ssa.Call); ok && isAuthErrorCall(hc) {
								n++
							}
						}
					}
					all := n > 0
					for _, r := range returnsOf(sc) {
						if reachAvoiding(sc, nil, r, func(i ssa.Instruction) bool {
							hc, ok := i.(*ssa.Call)
							return ok && isAuthErrorCall(hc)
						}) {
							all = false
						}
					}
					if all {
						errCalls = append(errCalls, call)
						nErr += n
					}
				}
			}
		}
		add("exactly one pass-through", len(serves) == 1, handler.Pos(), fmt.Sprintf("%d next.ServeHTTP calls in the handler", len(serves)))
		if len(serves) != 1 {
			return obls
		}
		a := &authCtx{ctor: ctor}
		facts := a.domFactsAt(serves[0].Block(), nil, 0)
		var fl []string
		for k := range facts {
			fl = append(fl, k)
		}
		sort.Strings(fl)
		known := "facts at the pass-through: " + strings.Join(fl, "; ")
		add("user equality dominates the pass-through", facts["pair[0]==cred:0"], serves[0].Pos(), "the decoded user must be compared for equality with the configured login on the only way to next.ServeHTTP — "+known)
		add("password equality dominates the pass-through", facts["pair[1]==cred:1"], serves[0].Pos(), "the decoded password must be compared for equality with the configured password on the only way to next.ServeHTTP — "+known)
		add("scheme checked", facts["parts[0]==const:Basic"], serves[0].Pos(), "only the Basic scheme may pass — "+known)
		add("empty header rejected", facts["header(Authorization)!=const:"], serves[0].Pos(), "a request without Authorization header must not reach the handler — "+known)
		// every other exit answers 401/400
		bad := 0
		rets := returnsOf(handler)
		for _, r := range rets {
			if reachAvoiding(handler, nil, r, func(i ssa.Instruction) bool {
				if i == ssa.Instruction(serves[0]) {
					return true
				}
				for _, e := range errCalls {
					if e == i {
						return true
					}
				}
				return false
			}) {
				bad++
			}
		}
		add("every rejecting exit answers 401/400", bad == 0 && nErr >= 2, handler.Pos(), fmt.Sprintf("%d of %d exits can be reached without passing the request on or writing 401/400", bad, len(rets)))
		return obls
	},
}

var k3ctx *Ctx // set by K3 for isAuthErrorCall (constant tables are resolved through the loaded program)

func isAuthErrorCall(call *ssa.Call) bool {
	if sc := call.Common().StaticCallee(); sc != nil && sc.String() == "net/http.Error" && len(call.Common().Args) == 3 {
		if k, ok := call.Common().Args[2].(*ssa.Const); ok && k.Value != nil && (k.Value.ExactString() == "401" || k.Value.ExactString() == "400") {
			return true
		}
		// the status read from a row of a constant table of refusals, every row of which answers 401 / 400
		if k3ctx != nil {
			if _, isConst := call.Common().Args[2].(*ssa.Const); !isConst {
				vals := k3ctx.constsOf(call.Common().Args[2], 0)
				okAll := len(vals) > 0
				for _, v := range vals {
					if v != "401" && v != "400" {
						okAll = false
					}
				}
				return okAll
			}
		}
	}
	return false
}

func init() { register(ruleK3) }
