package main

import (
	"fmt"
	"go/token"

	"golang.org/x/tools/go/ssa"
)

// ---------------------------------------------------------------------------------
// D15  the result of a bisection is its bound, not its last probe
//
// A bisection keeps two bounds l, u and probes the middle `(l+u)/2`; each round moves one bound to (or past) the probe. When the loop
// ends because the bounds met, the *bounds* say where the searched position is (l = the first element that is not smaller); the probe
// variable merely remembers where the search looked last — one element too early whenever the last round moved the lower bound.
// Rule: on the path that leaves the loop through its condition, no value used after the loop is the probe (or a merge of probes);
// values that leave through a `break` (an exact hit) are not constrained.

// bisection: the probe instruction of a loop, its two bounds and the loop.
type bisection struct {
	probe  ssa.Value
	lo, hi ssa.Value
	loop   map[*ssa.BasicBlock]bool
	header *ssa.BasicBlock
}

func stripConv(v ssa.Value) ssa.Value {
	for i := 0; i < 4; i++ {
		if c, ok := v.(*ssa.Convert); ok {
			v = c.X
			continue
		}
		break
	}
	return v
}

// bisectionsOf: probes `(a+b)/2`, `(a+b)>>1`, `a+(b-a)/2` inside a cycle whose header tests a against b.
func bisectionsOf(fn *ssa.Function) []bisection {
	var out []bisection
	for _, b := range fn.Blocks {
		for _, ins := range b.Instrs {
			bo, ok := ins.(*ssa.BinOp)
			if !ok {
				continue
			}
			var x, y ssa.Value
			half := func(v ssa.Value) (ssa.Value, bool) {
				h, ok := v.(*ssa.BinOp)
				if !ok {
					return nil, false
				}
				k, isK := h.Y.(*ssa.Const)
				if !isK {
					return nil, false
				}
				n, _ := int64Of(k)
				if (h.Op == token.QUO && n == 2) || (h.Op == token.SHR && n == 1) {
					return h.X, true
				}
				return nil, false
			}
			if inner, ok := half(bo); ok {
				if sum, ok := stripConv(inner).(*ssa.BinOp); ok && sum.Op == token.ADD {
					x, y = sum.X, sum.Y
				}
			} else if bo.Op == token.ADD {
				// a + (b-a)/2
				for _, pair := range [][2]ssa.Value{{bo.X, bo.Y}, {bo.Y, bo.X}} {
					if inner, ok := half(pair[1]); ok {
						if d, ok := stripConv(inner).(*ssa.BinOp); ok && d.Op == token.SUB && d.Y == pair[0] {
							x, y = pair[0], d.X
						}
					}
				}
			}
			if x == nil || y == nil {
				continue
			}
			loop := inCycle(b)
			if loop == nil {
				continue
			}
			// the header: a block of the cycle that branches out of it on a comparison of the two bounds
			for hb := range loop {
				if len(hb.Instrs) == 0 {
					continue
				}
				iff, ok := hb.Instrs[len(hb.Instrs)-1].(*ssa.If)
				if !ok {
					continue
				}
				cmp, ok := iff.Cond.(*ssa.BinOp)
				if !ok {
					continue
				}
				if !((cmp.X == x && cmp.Y == y) || (cmp.X == y && cmp.Y == x)) {
					continue
				}
				if loop[hb.Succs[0]] && loop[hb.Succs[1]] {
					continue
				}
				out = append(out, bisection{probe: bo, lo: x, hi: y, loop: loop, header: hb})
			}
		}
	}
	return out
}

var ruleD15 = &Rule{
	ID:    "D15",
	Floor: 0,
	Doc: "the result of a bisection is a bound, not the last probe (SSA): for every loop of the read side that probes the middle of two bounds (`(l+u)/2`, `(l+u)>>1`, `l+(u-l)/2`) and ends when the bounds meet, no value used after the loop on the path through the loop condition is the probe or a merge of probes — only the bounds say where the search converged; the probe variable is one position early whenever the last round raised the lower bound. " +
		"Values that leave the loop through a `break` (exact hit) are not constrained. No floor: a search delegated to sort.Search has nothing to judge; positive control is the reversal of fix 2ac23ad in the overlay self-test. The Prometheus series cursor seeks by bisection; landing before t hands the engine a sample outside the window it asked for",
	Run: func(c *Ctx) []Obl {
		var obls []Obl
		var kk keyer
		for _, fn := range liveModuleFuncs(c, "reader") {
			for _, bs := range bisectionsOf(fn) {
				key := kk.key(ssaName(fn) + " bisection")
				var exit *ssa.BasicBlock
				for _, s := range bs.header.Succs {
					if !bs.loop[s] {
						exit = s
					}
				}
				if exit == nil {
					continue
				}
				// probe-derived: the probe, or a merge inside the loop that can carry it, other than the bounds
				var derived func(v ssa.Value, seen map[ssa.Value]bool) bool
				derived = func(v ssa.Value, seen map[ssa.Value]bool) bool {
					if v == nil || seen[v] {
						return false
					}
					seen[v] = true
					if v == bs.lo || v == bs.hi {
						return false
					}
					if v == bs.probe {
						return true
					}
					switch x := v.(type) {
					case *ssa.Convert:
						return derived(x.X, seen)
					case *ssa.Phi:
						if !bs.loop[x.Block()] {
							return false
						}
						for _, e := range x.Edges {
							if derived(e, seen) {
								return true
							}
						}
					}
					return false
				}
				// the value as it arrives over the edge header → exit
				viaExit := func(v ssa.Value) ssa.Value {
					if ph, ok := v.(*ssa.Phi); ok && ph.Block() == exit {
						for i, p := range exit.Preds {
							if p == bs.header {
								return ph.Edges[i]
							}
						}
					}
					return v
				}
				bad := ""
				var badPos token.Pos
				for b := range reachableBlocks(exit) {
					if bs.loop[b] {
						continue
					}
					for _, ins := range b.Instrs {
						if _, isPhi := ins.(*ssa.Phi); isPhi {
							continue
						}
						for _, op := range ins.Operands(nil) {
							if op == nil || *op == nil {
								continue
							}
							if derived(viaExit(*op), map[ssa.Value]bool{}) {
								bad = "uses the probe"
								if badPos == token.NoPos {
									badPos = ins.Pos()
								}
							}
						}
					}
				}
				if bad != "" {
					obls = append(obls, Obl{Key: key, Pos: c.pos(badPos), Status: Violation,
						Msg: fmt.Sprintf("after the bisection loop (probe at %s) the value used is the last probe, not a bound: when the loop ends because the bounds met, the probe is where the search looked last — one element before the first element that is not smaller whenever the last round raised the lower bound, and the last element when every element is smaller. A seek to t then lands on a sample before t (or on the last sample instead of reporting the end)", c.pos(bs.probe.Pos()))})
				} else {
					obls = append(obls, Obl{Key: key, Pos: c.pos(bs.probe.Pos()), Status: OK})
				}
			}
		}
		if len(obls) == 0 {
			// no floor: a cursor that seeks with sort.Search or a linear scan has no bisection of its own to judge
			obls = append(obls, Obl{Key: "read side: hand-written bisections", Pos: "-", Status: Info, Msg: "none found; nothing to decide (positive control: selftest/revert-2ac23ad)"})
		}
		return obls
	},
}

func init() { register(ruleD15) }
