package main

// F-rules: crash / hang containment (C05, C12).

import (
	"fmt"
	"go/token"
	"go/types"
	"sort"
	"strings"

	"golang.org/x/tools/go/ssa"
)

type panicSource struct {
	fn   *ssa.Function
	ins  ssa.Instruction
	kind string // K1 library precondition, K3 integer division
	desc string
}

// K1 table: library functions that panic on an argument condition (confirmed by reading the dependency).
var k1Table = map[string]string{
	"(*github.com/ClickHouse/ch-go/proto.ColFixedStr).Append": "panics unless len(value) == column Size",
	"encoding/hex.Decode": "indexes dst without a bounds check: panics when len(dst) < len(src)/2",
}

func isIntType(t types.Type) bool {
	b, ok := t.Underlying().(*types.Basic)
	return ok && b.Info()&types.IsInteger != 0
}

// zeroGuarded: the divisor value v is tested against zero (or a positive constant) on a branch dominating the block.
func zeroGuarded(v ssa.Value, blk *ssa.BasicBlock) bool {
	same := sameValue
	for d := blk.Idom(); d != nil; d = d.Idom() {
		if len(d.Instrs) == 0 {
			continue
		}
		ifi, ok := d.Instrs[len(d.Instrs)-1].(*ssa.If)
		if !ok {
			continue
		}
		cond, ok := ifi.Cond.(*ssa.BinOp)
		if !ok {
			continue
		}
		var other ssa.Value
		switch {
		case same(cond.X, v):
			other = cond.Y
		case same(cond.Y, v):
			other = cond.X
		default:
			continue
		}
		k, ok := other.(*ssa.Const)
		if !ok || k.Value == nil {
			continue
		}
		// which successor leads to blk?
		trueSucc, falseSucc := d.Succs[0], d.Succs[1]
		domBy := func(s *ssa.BasicBlock) bool { return s == blk || s.Dominates(blk) }
		onTrue, onFalse := domBy(trueSucc), domBy(falseSucc)
		zero := k.Value.ExactString() == "0"
		switch cond.Op {
		case token.NEQ:
			if zero && onTrue && !onFalse {
				return true
			}
		case token.EQL:
			if zero && onFalse && !onTrue {
				return true
			}
		case token.GTR, token.GEQ:
			if same(cond.X, v) && onTrue && !onFalse && (cond.Op == token.GTR || !zero) {
				return true
			}
			if same(cond.Y, v) && onFalse && !onTrue {
				return true
			}
		case token.LSS, token.LEQ:
			// v < k / v <= k  ⇒ on the false edge v >= k (>0 if k>0) ; v <= 0 false ⇒ v > 0
			if same(cond.X, v) && onFalse && !onTrue && (cond.Op == token.LEQ || !zero) {
				return true
			}
			if same(cond.Y, v) && onTrue && !onFalse && (cond.Op == token.LSS || !zero) {
				return true
			}
		}
	}
	return false
}

func (c *Ctx) panicSources() []panicSource {
	if v, ok := c.memo["panicSources"]; ok {
		return v.([]panicSource)
	}
	g := c.CG()
	var out []panicSource
	for _, fn := range moduleFuncs(g) {
		if isTestFunc(c, fn) || !g.live[fn] {
			continue
		}
		if fi := c.funcInfoOf(fn); fi != nil && isGeneratedPos(c, fi) {
			continue
		}
		for _, b := range fn.Blocks {
			for _, ins := range b.Instrs {
				switch x := ins.(type) {
				case ssa.CallInstruction:
					if sc := x.Common().StaticCallee(); sc != nil {
						name := sc.String()
						if why, ok := k1Table[name]; ok {
							out = append(out, panicSource{fn, ins, "K1", fmt.Sprintf("%s %s", name, why)})
						}
					}
				case *ssa.BinOp:
					if (x.Op == token.QUO || x.Op == token.REM) && isIntType(x.X.Type()) {
						if _, isConst := x.Y.(*ssa.Const); isConst {
							continue
						}
						if zeroGuarded(x.Y, b) {
							continue
						}
						out = append(out, panicSource{fn, ins, "K3", "integer " + x.Op.String() + " by a value not tested against zero"})
					}
				}
			}
		}
	}
	sort.Slice(out, func(i, j int) bool { return out[i].ins.Pos() < out[j].ins.Pos() })
	c.memo["panicSources"] = out
	return out
}

func isGeneratedPos(c *Ctx, fi *FuncInfo) bool {
	for _, f := range fi.Pkg.Syntax {
		if f.Pos() <= fi.Decl.Pos() && fi.Decl.End() <= f.End() {
			return isGenerated(f) || strings.HasSuffix(c.Fset.Position(f.Pos()).Filename, ".pb.go")
		}
	}
	return false
}

func (c *Ctx) dumpPanicSources() {
	for _, s := range c.panicSources() {
		fmt.Printf("%s %s [%s] %s\n", s.kind, ssaName(s.fn), c.pos(s.ins.Pos()), s.desc)
	}
}

// ---------------------------------------------------------------------------------
// recover coverage

// recoversDirectly: fn's own body (not nested closures) calls the builtin recover.
func recoversDirectly(fn *ssa.Function) bool {
	for _, b := range fn.Blocks {
		for _, ins := range b.Instrs {
			if call, ok := ins.(*ssa.Call); ok {
				if bi, ok := call.Call.Value.(*ssa.Builtin); ok && bi.Name() == "recover" {
					return true
				}
			}
		}
	}
	return false
}

// protects: fn defers a function that itself calls recover() — the only shape in which Go's recover stops a panic
// (recover called by a function that the deferred function merely calls returns nil).
func protects(fn *ssa.Function) (bool, string) {
	nested := ""
	for _, b := range fn.Blocks {
		for _, ins := range b.Instrs {
			d, ok := ins.(*ssa.Defer)
			if !ok {
				continue
			}
			var target *ssa.Function
			if sc := d.Call.StaticCallee(); sc != nil {
				target = sc
			} else if mc, ok := d.Call.Value.(*ssa.MakeClosure); ok {
				target, _ = mc.Fn.(*ssa.Function)
			}
			if target == nil {
				continue
			}
			if recoversDirectly(target) {
				return true, ""
			}
			// deferred closure that only *calls* a recovering helper: ineffective
			for _, tb := range target.Blocks {
				for _, ti := range tb.Instrs {
					if c2, ok := ti.(*ssa.Call); ok {
						if sc := c2.Call.StaticCallee(); sc != nil && recoversDirectly(sc) {
							nested = fmt.Sprintf("defer func(){ %s(…) }() — recover() is not called directly by the deferred function, so it returns nil and the panic continues", ssaName(sc))
						}
					}
				}
			}
		}
	}
	return false, nested
}

type cgIn struct {
	caller *ssa.Function
	edge   CGEdge
}

func (g *CallGraph) reverseVTA() map[*ssa.Function][]cgIn {
	rev := map[*ssa.Function][]cgIn{}
	for caller, edges := range g.vtaOut {
		for _, e := range edges {
			rev[e.Callee] = append(rev[e.Callee], cgIn{caller, e})
		}
	}
	return rev
}

// hex.Decode guards
func hexDecodeSafe(call ssa.CallInstruction) bool {
	args := call.Common().Args
	if len(args) != 2 {
		return false
	}
	dst, src := args[0], args[1]
	var c1 int64 = -1
	switch mk := dst.(type) {
	case *ssa.MakeSlice:
		// R2: make([]byte, n/2) and src = x[:n]
		if q, ok := mk.Len.(*ssa.BinOp); ok && q.Op == token.QUO {
			if k, ok := q.Y.(*ssa.Const); ok && k.Value != nil && k.Value.ExactString() == "2" {
				if sl, ok := src.(*ssa.Slice); ok && sl.High == q.X {
					return true
				}
			}
		}
		if k1, ok := mk.Len.(*ssa.Const); ok && k1.Value != nil {
			c1 = k1.Int64()
		}
		// R3: make([]byte, hex.DecodedLen(len(x))) with src = x (or a conversion of x)
		if dl, ok := mk.Len.(*ssa.Call); ok {
			if sc := dl.Call.StaticCallee(); sc != nil && sc.String() == "encoding/hex.DecodedLen" && len(dl.Call.Args) == 1 {
				if ln, ok := dl.Call.Args[0].(*ssa.Call); ok {
					if bi, ok := ln.Call.Value.(*ssa.Builtin); ok && bi.Name() == "len" && sameValue(ln.Call.Args[0], src) {
						return true
					}
				}
			}
		}
	case *ssa.Slice:
		// make([]byte, CONST) is lowered to new [CONST]byte + slice
		if al, ok := mk.X.(*ssa.Alloc); ok {
			if pt, ok := al.Type().(*types.Pointer); ok {
				if at, ok := pt.Elem().(*types.Array); ok {
					c1 = at.Len()
				}
			}
		}
	}
	// R1: make([]byte, c1) and a dominating `len(src) > c2` (leaving) with c2 <= 2*c1
	if c1 < 0 {
		return false
	}
	blk := call.Block()
	for d := blk.Idom(); d != nil; d = d.Idom() {
		if len(d.Instrs) == 0 {
			continue
		}
		ifi, ok := d.Instrs[len(d.Instrs)-1].(*ssa.If)
		if !ok {
			continue
		}
		cond, ok := ifi.Cond.(*ssa.BinOp)
		if !ok || (cond.Op != token.GTR && cond.Op != token.GEQ) {
			continue
		}
		ln, ok := cond.X.(*ssa.Call)
		if !ok {
			continue
		}
		if bi, ok := ln.Call.Value.(*ssa.Builtin); !ok || bi.Name() != "len" || ln.Call.Args[0] != src {
			continue
		}
		k2, ok := cond.Y.(*ssa.Const)
		if !ok || k2.Value == nil {
			continue
		}
		falseSucc := d.Succs[1]
		if (falseSucc == blk || falseSucc.Dominates(blk)) && k2.Int64() <= 2*c1 {
			return true
		}
	}
	return false
}

type f1Finding struct {
	src  panicSource
	root string
	kind string // goroutine | handler
	path []string
	pos  token.Pos
	note string
}

func (c *Ctx) f1Findings() ([]f1Finding, int, int) {
	g := c.CG()
	rev := g.reverseVTA()
	// HTTP handler roots: functions passed to (*mux.Router).HandleFunc / Handle
	handlers := map[*ssa.Function]bool{}
	for _, s := range c.muxRouterCalls() {
		if s.method != "HandleFunc" && s.method != "Handle" {
			continue
		}
		for _, a := range s.ins.Common().Args[1:] {
			for _, f := range funcValues(a, 0) {
				handlers[f] = true
			}
			// handler produced by a constructor call: controllerv1.PushStreamV2(cfg) → closures returned by Build
			if call, ok := a.(*ssa.Call); ok {
				for _, f := range c.returnedClosures(call.Call.StaticCallee(), 0) {
					handlers[f] = true
				}
			}
			// bound method value ctrl.Trace
			if mc, ok := a.(*ssa.MakeClosure); ok {
				if bf, ok := mc.Fn.(*ssa.Function); ok && strings.HasSuffix(bf.Name(), "$bound") {
					for _, e := range g.vtaOut[bf] {
						handlers[e.Callee] = true
					}
					for _, e := range g.chaOut[bf] {
						handlers[e.Callee] = true
					}
				}
			}
		}
	}
	var out []f1Finding
	nSrc, nContained := 0, 0
	for _, src := range c.panicSources() {
		if src.kind == "K1" && strings.Contains(src.desc, "hex.Decode") {
			if ci, ok := src.ins.(ssa.CallInstruction); ok && hexDecodeSafe(ci) {
				continue
			}
		}
		nSrc++
		type state struct {
			fn   *ssa.Function
			path []string
		}
		seen := map[*ssa.Function]bool{}
		queue := []state{{src.fn, []string{ssaName(src.fn)}}}
		found := false
		for len(queue) > 0 {
			st := queue[0]
			queue = queue[1:]
			if seen[st.fn] || len(st.path) > 14 {
				continue
			}
			seen[st.fn] = true
			if ok, _ := protects(st.fn); ok {
				continue
			}
			_, nested := protects(st.fn)
			if handlers[st.fn] {
				out = append(out, f1Finding{src: src, root: ssaName(st.fn), kind: "handler", path: st.path, pos: st.fn.Pos(), note: nested})
				found = true
				continue
			}
			for _, in := range rev[st.fn] {
				if in.edge.Kind == "go" || in.edge.Kind == "go-hof" {
					pos := token.NoPos
					if in.edge.Site != nil {
						pos = in.edge.Site.Pos()
					}
					out = append(out, f1Finding{src: src, root: fmt.Sprintf("go statement in %s", ssaName(in.caller)), kind: "goroutine",
						path: append(append([]string{}, st.path...), "go ← "+ssaName(in.caller)), pos: pos, note: nested})
					found = true
					continue
				}
				queue = append(queue, state{in.caller, append(append([]string{}, st.path...), ssaName(in.caller))})
			}
		}
		if !found {
			nContained++
		}
	}
	return out, nSrc, nContained
}

// returnedClosures: closures a function may return (following calls to module functions whose result it returns).
func (c *Ctx) returnedClosures(fn *ssa.Function, depth int) []*ssa.Function {
	if fn == nil || depth > 3 {
		return nil
	}
	var out []*ssa.Function
	for _, b := range fn.Blocks {
		for _, ins := range b.Instrs {
			r, ok := ins.(*ssa.Return)
			if !ok {
				continue
			}
			for _, v := range r.Results {
				out = append(out, funcValues(v, 0)...)
				if call, ok := v.(*ssa.Call); ok {
					out = append(out, c.returnedClosures(call.Call.StaticCallee(), depth+1)...)
				}
			}
		}
	}
	return out
}

var ruleF1 = &Rule{
	ID:    "F1",
	Floor: 6,
	Doc: "panic source × recover coverage: panic sources of the enumerated kinds — K1 calls of library functions that panic on an argument condition (ColFixedStr.Append with a value of the wrong size; hex.Decode into a destination not provably large enough), " +
		"K3 integer division/modulo by a value not tested against zero on a dominating branch — must not be reachable (VTA call graph of the module, function values passed to dependencies assumed called) from a goroutine or an HTTP handler without crossing a frame that defers a function which itself calls recover(). " +
		"A deferred closure that merely calls a recovering helper does not count (Go's recover only works when called directly by the deferred function). An unprotected goroutine means process exit; an unprotected handler means a dropped connection instead of a response",
	Run: func(c *Ctx) []Obl {
		fs, nSrc, _ := c.f1Findings()
		var obls []Obl
		bySrc := map[string]bool{}
		// one obligation per source: contained or not
		type agg struct {
			f     f1Finding
			roots []string
		}
		m := map[string]*agg{}
		var order []string
		for _, f := range fs {
			k := fmt.Sprintf("%s %s in %s reachable from unprotected %s %s", f.src.kind, shortDesc(f.src.desc), ssaName(f.src.fn), f.kind, f.root)
			if m[k] == nil {
				m[k] = &agg{f: f}
				order = append(order, k)
			}
			bySrc[srcKey(c, f.src)] = true
		}
		sort.Strings(order)
		for _, k := range order {
			a := m[k]
			msg := a.f.src.desc + "; path (callee ← caller): " + strings.Join(a.f.path, " ← ")
			if a.f.note != "" {
				msg += "; note: " + a.f.note
			}
			obls = append(obls, Obl{Key: k, Pos: c.pos(a.f.src.ins.Pos()), Status: Violation, Msg: msg, Path: a.f.path})
		}
		for _, s := range c.panicSources() {
			if s.kind == "K1" && strings.Contains(s.desc, "hex.Decode") {
				if ci, ok := s.ins.(ssa.CallInstruction); ok && hexDecodeSafe(ci) {
					obls = append(obls, Obl{Key: fmt.Sprintf("%s %s in %s", s.kind, shortDesc(s.desc), ssaName(s.fn)), Pos: c.pos(s.ins.Pos()), Status: OK, Msg: "destination provably large enough"})
					continue
				}
			}
			if !bySrc[srcKey(c, s)] {
				obls = append(obls, Obl{Key: fmt.Sprintf("%s %s in %s #%s", s.kind, shortDesc(s.desc), ssaName(s.fn), ordinalIn(c, s)), Pos: c.pos(s.ins.Pos()), Status: OK, Msg: "every goroutine / handler that reaches it crosses a recovering frame"})
			}
		}
		_ = nSrc
		return obls
	},
}

func shortDesc(d string) string {
	switch {
	case strings.Contains(d, "ColFixedStr"):
		return "ColFixedStr.Append"
	case strings.Contains(d, "hex.Decode"):
		return "hex.Decode"
	case strings.Contains(d, "integer /"):
		return "integer division"
	case strings.Contains(d, "integer %"):
		return "integer modulo"
	}
	return d
}

func srcKey(c *Ctx, s panicSource) string { return fmt.Sprintf("%p", s.ins) }

// ordinalIn numbers the sources of one kind within their function by position order (stable under line shifts).
func ordinalIn(c *Ctx, s panicSource) string {
	n := 0
	for _, o := range c.panicSources() {
		if o.fn == s.fn && o.kind == s.kind {
			n++
			if o.ins == s.ins {
				return fmt.Sprint(n)
			}
		}
	}
	return "?"
}

func init() { register(ruleF1) }

// sameValue: two SSA values denote the same quantity: identical, equal up to conversions, the same pure accessor called on
// the same receiver (d.Nanoseconds()), or loads of the same field of the same object.
func sameValue(a, b ssa.Value) bool { return sameValueD(a, b, 0) }

func sameValueD(a, b ssa.Value, depth int) bool {
	if a == b {
		return true
	}
	if depth > 4 {
		return false
	}
	strip := func(v ssa.Value) ssa.Value {
		for {
			switch c := v.(type) {
			case *ssa.Convert:
				v = c.X
				continue
			case *ssa.ChangeType:
				v = c.X
				continue
			}
			return v
		}
	}
	a, b = strip(a), strip(b)
	if a == b {
		return true
	}
	if ka, ok := a.(*ssa.Const); ok {
		if kb, ok := b.(*ssa.Const); ok && ka.Value != nil && kb.Value != nil {
			return ka.Value.ExactString() == kb.Value.ExactString()
		}
		return false
	}
	ca, ok1 := a.(*ssa.Call)
	cb, ok2 := b.(*ssa.Call)
	if ok1 && ok2 && ca.Call.StaticCallee() != nil && ca.Call.StaticCallee() == cb.Call.StaticCallee() && len(ca.Call.Args) == len(cb.Call.Args) {
		for i := range ca.Call.Args {
			if !sameValueD(ca.Call.Args[i], cb.Call.Args[i], depth+1) {
				return false
			}
		}
		return true
	}
	ua, ok1 := a.(*ssa.UnOp)
	ub, ok2 := b.(*ssa.UnOp)
	if ok1 && ok2 && ua.Op == token.MUL && ub.Op == token.MUL {
		fa, ok1 := ua.X.(*ssa.FieldAddr)
		fb, ok2 := ub.X.(*ssa.FieldAddr)
		if ok1 && ok2 && fa.Field == fb.Field {
			return sameValueD(fa.X, fb.X, depth+1)
		}
		// two loads of one local cell that is written exactly once (a parameter spilled because a closure captures it)
		if al, ok := ua.X.(*ssa.Alloc); ok && ua.X == ub.X && al.Referrers() != nil {
			stores := 0
			for _, r := range *al.Referrers() {
				if st, ok := r.(*ssa.Store); ok && st.Addr == al {
					stores++
				}
			}
			return stores == 1
		}
	}
	fa, ok1 := a.(*ssa.FieldAddr)
	fb, ok2 := b.(*ssa.FieldAddr)
	if ok1 && ok2 && fa.Field == fb.Field {
		return sameValueD(fa.X, fb.X, depth+1)
	}
	return false
}
