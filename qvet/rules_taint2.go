package main

// E3: structure of the literal-escaping routine. E4: what may be done to text that already went through it (C10).

import (
	"fmt"
	"go/ast"
	"go/token"
	"go/types"
	"sort"
	"strconv"
	"strings"

	"golang.org/x/tools/go/ssa"
)

type replPair struct{ old, new string }

// constTable evaluates a composite literal of strings / arrays of strings / structs of strings into rows of constant strings
// (row i = the flattened constant strings of element i, with field names for struct elements).
type constRow struct {
	byIndex []string
	byName  map[string]string
}

func (c *Ctx) constTable(info *types.Info, lit *ast.CompositeLit) ([]constRow, bool) {
	var rows []constRow
	for _, el := range lit.Elts {
		if kv, ok := el.(*ast.KeyValueExpr); ok {
			el = kv.Value
		}
		row := constRow{byName: map[string]string{}}
		if s, ok := constString(info, el); ok {
			row.byIndex = []string{s}
			rows = append(rows, row)
			continue
		}
		cl, ok := ast.Unparen(el).(*ast.CompositeLit)
		if !ok {
			return nil, false
		}
		var st *types.Struct
		if tv, ok := info.Types[cl]; ok {
			st, _ = tv.Type.Underlying().(*types.Struct)
		}
		for i, sub := range cl.Elts {
			name := ""
			if kv, ok := sub.(*ast.KeyValueExpr); ok {
				if id, ok := kv.Key.(*ast.Ident); ok {
					name = id.Name
				}
				sub = kv.Value
			} else if st != nil && i < st.NumFields() {
				name = st.Field(i).Name()
			}
			v, ok := constString(info, sub)
			if !ok {
				return nil, false
			}
			row.byIndex = append(row.byIndex, v)
			if name != "" {
				row.byName[name] = v
			}
		}
		rows = append(rows, row)
	}
	return rows, true
}

// tableOf resolves an identifier to the constant table it is bound to: a local `x := []T{…}` / `var x = …` or a package-level variable.
func (c *Ctx) tableOf(p *packagesPackage, fd *ast.FuncDecl, id *ast.Ident) ([]constRow, bool) {
	info := p.TypesInfo
	obj := info.ObjectOf(id)
	if obj == nil {
		return nil, false
	}
	var lit *ast.CompositeLit
	find := func(root ast.Node) {
		ast.Inspect(root, func(n ast.Node) bool {
			switch x := n.(type) {
			case *ast.AssignStmt:
				for i, lh := range x.Lhs {
					if l, ok := lh.(*ast.Ident); ok && info.ObjectOf(l) == obj && i < len(x.Rhs) {
						if cl, ok := ast.Unparen(x.Rhs[i]).(*ast.CompositeLit); ok {
							lit = cl
						}
					}
				}
			case *ast.ValueSpec:
				for i, n2 := range x.Names {
					if info.ObjectOf(n2) == obj && i < len(x.Values) {
						if cl, ok := ast.Unparen(x.Values[i]).(*ast.CompositeLit); ok {
							lit = cl
						}
					}
				}
			}
			return true
		})
	}
	find(fd)
	if lit == nil {
		for _, f := range p.Syntax {
			for _, d := range f.Decls {
				if gd, ok := d.(*ast.GenDecl); ok {
					find(gd)
				}
			}
		}
	}
	if lit == nil {
		return nil, false
	}
	return c.constTable(info, lit)
}

// escapePairs recognises the replacement pairs of an escaping routine in application order: constant Replace/ReplaceAll calls
// (sequence or nesting), strings.NewReplacer, and Replace calls inside one loop whose pattern / replacement index constant tables
// (parallel slices, a slice of pairs, a slice of structs; range or index loop; local or package-level). Module functions of the
// same package called by the routine are searched too.
func (c *Ctx) escapePairs(p *packagesPackage, fd *ast.FuncDecl) (pairs []replPair, simultaneous bool, why string) {
	return c.escapePairsIn(p, fd, 0)
}

func (c *Ctx) escapePairsIn(p *packagesPackage, fd *ast.FuncDecl, depth int) (pairs []replPair, simultaneous bool, why string) {
	info := p.TypesInfo
	isStrings := func(call *ast.CallExpr, names ...string) bool {
		obj := calleeObj(info, call)
		if obj == nil || objPkgPath(obj) != "strings" {
			return false
		}
		for _, n := range names {
			if obj.Name() == n {
				return true
			}
		}
		return false
	}
	allN := func(call *ast.CallExpr) bool {
		if isStrings(call, "ReplaceAll") {
			return true
		}
		if len(call.Args) == 4 {
			if tv, ok := info.Types[call.Args[3]]; ok && tv.Value != nil {
				return strings.HasPrefix(tv.Value.ExactString(), "-")
			}
		}
		return false
	}
	// loop environment: index variable → table it indexes (if known), value variable → table it ranges over
	type loopEnv struct {
		idx    types.Object
		val    types.Object
		valTbl []constRow
		n      int
	}
	// element evaluates an expression like T[i], T[i][0], T[i].raw, e[1], e.escaped, v to its constant rows (one string per iteration)
	var element func(e ast.Expr, env *loopEnv) ([]string, bool)
	element = func(e ast.Expr, env *loopEnv) ([]string, bool) {
		e = ast.Unparen(e)
		var path []pathStep
		cur := e
		for {
			switch x := cur.(type) {
			case *ast.SelectorExpr:
				if _, isPkg := info.Uses[x.Sel].(*types.Var); isPkg {
					if id, ok := x.X.(*ast.Ident); ok {
						if _, isPkgName := info.Uses[id].(*types.PkgName); isPkgName {
							goto done
						}
					}
				}
				path = append([]pathStep{{-1, x.Sel.Name}}, path...)
				cur = ast.Unparen(x.X)
				continue
			case *ast.IndexExpr:
				if tv, ok := info.Types[x.Index]; ok && tv.Value != nil {
					if k, ok := constantInt64(tv); ok {
						path = append([]pathStep{{int(k), ""}}, path...)
						cur = ast.Unparen(x.X)
						continue
					}
				}
				// indexed by the loop variable
				if id, ok := ast.Unparen(x.Index).(*ast.Ident); ok && env != nil && env.idx != nil && info.ObjectOf(id) == env.idx {
					base, ok := ast.Unparen(x.X).(*ast.Ident)
					if !ok {
						return nil, false
					}
					tbl, ok := c.tableOf(p, fd, base)
					if !ok {
						return nil, false
					}
					return applyPath(tbl, path)
				}
				return nil, false
			}
			break
		}
	done:
		if id, ok := cur.(*ast.Ident); ok && env != nil && env.val != nil && info.ObjectOf(id) == env.val {
			return applyPath(env.valTbl, path)
		}
		return nil, false
	}
	_ = element
	var visit func(n ast.Node, env *loopEnv)
	handleReplace := func(x *ast.CallExpr, env *loopEnv) {
		if len(x.Args) < 3 {
			return
		}
		o, ok1 := constString(info, x.Args[1])
		nw, ok2 := constString(info, x.Args[2])
		if ok1 && ok2 {
			if !allN(x) {
				why = "strings.Replace does not replace every occurrence"
			}
			pairs = append(pairs, replPair{o, nw})
			return
		}
		olds, okA := element(x.Args[1], env)
		news, okB := element(x.Args[2], env)
		if okA && okB && len(olds) == len(news) {
			if !allN(x) {
				why = "strings.Replace does not replace every occurrence"
			}
			for i := range olds {
				pairs = append(pairs, replPair{olds[i], news[i]})
			}
			return
		}
		if okA != okB || (okA && len(olds) != len(news)) {
			why = "pattern and replacement tables do not correspond"
		}
	}
	visit = func(n ast.Node, env *loopEnv) {
		switch x := n.(type) {
		case nil:
			return
		case *ast.RangeStmt:
			ne := &loopEnv{}
			if k, ok := x.Key.(*ast.Ident); ok {
				ne.idx = info.ObjectOf(k)
			}
			if v, ok := x.Value.(*ast.Ident); ok {
				ne.val = info.ObjectOf(v)
				if id, ok := ast.Unparen(x.X).(*ast.Ident); ok {
					if tbl, ok := c.tableOf(p, fd, id); ok {
						ne.valTbl = tbl
					}
				}
			}
			visit(x.Body, ne)
			return
		case *ast.ForStmt:
			ne := &loopEnv{}
			if as, ok := x.Init.(*ast.AssignStmt); ok && len(as.Lhs) == 1 {
				if id, ok := as.Lhs[0].(*ast.Ident); ok {
					ne.idx = info.ObjectOf(id)
				}
			}
			visit(x.Body, ne)
			return
		case *ast.CallExpr:
			for _, a := range x.Args {
				visit(a, env)
			}
			if sel, ok := x.Fun.(*ast.SelectorExpr); ok {
				visit(sel.X, env)
			}
			if isStrings(x, "Replace", "ReplaceAll") {
				handleReplace(x, env)
			}
			if isStrings(x, "NewReplacer") {
				simultaneous = true
				for i := 0; i+1 < len(x.Args); i += 2 {
					o, ok1 := constString(info, x.Args[i])
					nw, ok2 := constString(info, x.Args[i+1])
					if ok1 && ok2 {
						pairs = append(pairs, replPair{o, nw})
					}
				}
			}
			// a helper of the same package
			if depth < 2 {
				if fn, ok := calleeObj(info, x).(*types.Func); ok && fn.Pkg() == p.Types {
					if hd := c.declOf(p, fn); hd != nil && hd != fd && hd.Body != nil {
						hp, hs, hw := c.escapePairsIn(p, hd, depth+1)
						pairs = append(pairs, hp...)
						simultaneous = simultaneous || hs
						if hw != "" {
							why = hw
						}
					}
				}
			}
			return
		}
		ast.Inspect(n, func(m ast.Node) bool {
			if m == n || m == nil {
				return true
			}
			switch m.(type) {
			case *ast.RangeStmt, *ast.ForStmt, *ast.CallExpr:
				visit(m, env)
				return false
			}
			return true
		})
	}
	visit(fd.Body, nil)
	return
}

type pathStep struct {
	idx  int
	name string
}

func applyPath(tbl []constRow, path []pathStep) ([]string, bool) {
	var out []string
	for _, row := range tbl {
		switch {
		case len(path) == 0:
			if len(row.byIndex) != 1 {
				return nil, false
			}
			out = append(out, row.byIndex[0])
		case len(path) == 1 && path[0].name != "":
			v, ok := row.byName[path[0].name]
			if !ok {
				return nil, false
			}
			out = append(out, v)
		case len(path) == 1 && path[0].idx >= 0:
			if path[0].idx >= len(row.byIndex) {
				return nil, false
			}
			out = append(out, row.byIndex[path[0].idx])
		default:
			return nil, false
		}
	}
	return out, len(out) > 0
}

// oddTrailingBackslash: does s end in an odd number of backslashes (an escape left open)?
func oddTrailingBackslash(s string) bool {
	n := 0
	for i := len(s) - 1; i >= 0 && s[i] == '\\'; i-- {
		n++
	}
	return n%2 == 1
}

var ruleE3 = &Rule{
	ID:    "E3",
	Floor: 3,
	Doc: "the literal-escaping routine sql.StringVal.String — the only gate E1 accepts for request text — has the structure that makes it a gate: its replacement pairs (recognised as parallel tables walked by one loop, as a chain of strings.Replace/ReplaceAll calls, or as a strings.NewReplacer) double the backslash before they escape the quote, replace every occurrence, " +
		"no later pair removes or splits a backslash or introduces a quote, and the returned text is the replaced value between two single quotes. Decided on the AST with constant evaluation by the type checker",
	Run: func(c *Ctx) []Obl {
		p, fd := c.FuncDecl("reader/utils/sql_select", "(*StringVal).String")
		if fd == nil {
			return []Obl{{Key: "reader/utils/sql_select.(*StringVal).String", Pos: "-", Status: Undecided, Msg: "escaping routine not found"}}
		}
		pos := c.pos(fd.Pos())
		pairs, simul, why := c.escapePairs(p, fd)
		var obls []Obl
		mk := func(key string, bad string, okMsg string) {
			st, msg := OK, okMsg
			if bad != "" {
				st, msg = Violation, bad
			}
			obls = append(obls, Obl{Key: "reader/utils/sql_select.(*StringVal).String " + key, Pos: pos, Status: st, Msg: msg})
		}
		if len(pairs) == 0 {
			return []Obl{{Key: "reader/utils/sql_select.(*StringVal).String replacement pairs", Pos: pos, Status: Undecided, Msg: "no replacement table / Replace chain / NewReplacer recognised in the escaping routine " + why}}
		}
		ib, iq := -1, -1
		for i, pr := range pairs {
			if pr.old == "\\" && ib < 0 {
				ib = i
			}
			if pr.old == "'" && iq < 0 {
				iq = i
			}
		}
		var desc []string
		for _, pr := range pairs {
			desc = append(desc, strconv.Quote(pr.old)+"→"+strconv.Quote(pr.new))
		}
		bad := ""
		switch {
		case why != "":
			bad = why
		case ib < 0 || pairs[ib].new != "\\\\":
			bad = "the backslash is not doubled: a trailing backslash in a value escapes the closing quote of its literal"
		case iq < 0 || (pairs[iq].new != "\\'" && pairs[iq].new != "''"):
			bad = "the single quote is not escaped: a quote in a value terminates its literal"
		case !simul && ib > iq:
			bad = "the quote is escaped before the backslash is doubled: the protecting backslash of \\' gets doubled and the quote terminates the literal"
		}
		mk("escapes backslash then quote", bad, "pairs in order: "+strings.Join(desc, ", "))
		// no other pair damages what the two did
		bad = ""
		for i, pr := range pairs {
			if i == ib || i == iq {
				continue
			}
			switch {
			case strings.Contains(pr.new, "'"):
				bad = fmt.Sprintf("pair %q→%q introduces a quote", pr.old, pr.new)
			case !simul && i > ib && strings.Contains(pr.old, "\\"):
				bad = fmt.Sprintf("pair %q→%q rewrites backslashes after they were doubled", pr.old, pr.new)
			case !simul && i > iq && strings.Contains(pr.old, "'"):
				bad = fmt.Sprintf("pair %q→%q rewrites quotes after they were escaped", pr.old, pr.new)
			case oddTrailingBackslash(pr.new):
				bad = fmt.Sprintf("pair %q→%q leaves an escape open", pr.old, pr.new)
			case !simul && i < ib && strings.Contains(pr.new, "\\"):
				// harmless for structure (the later doubling keeps it a literal backslash) but changes the decoded value
			}
		}
		mk("other pairs keep escapes balanced", bad, fmt.Sprintf("%d further pairs", len(pairs)-2))
		// return value: ' + x + ' (in the routine itself or in the helper whose result it returns)
		bad = "escaping routine has no SSA body"
		if sf := c.SSAFunc("reader/utils/sql_select", "(*StringVal).String"); sf != nil {
			bad = c.returnsQuoted(sf, 0)
		}
		mk("wraps the value in single quotes", bad, "")
		return obls
	},
}

// ---- E4 ----

type escState int

const (
	escNone   escState = iota
	escQuoted          // '…' as produced by the escaping routine
	escBody            // quotes trimmed: may end in a dangling backslash (value ended in a quote)
)

type e4 struct {
	c        *Ctx
	g        *CallGraph
	wrappers map[*ssa.Function]bool // module functions whose result #0 is always the escaping routine's output
	obls     []Obl
	nth      map[string]int
}

func isEscapeCall(v ssa.Value) bool {
	call, ok := v.(*ssa.Call)
	if !ok {
		return false
	}
	sc := call.Common().StaticCallee()
	return sc != nil && sc.String() == "(*"+pkgSQL+".StringVal).String"
}

// escapedSource: v is result #0 of the escaping routine (directly, through an interface call on a value that is always a
// *StringVal, or through a wrapper).
func (a *e4) escapedSource(v ssa.Value) bool {
	ex, ok := v.(*ssa.Extract)
	if !ok || ex.Index != 0 {
		return false
	}
	call, ok := ex.Tuple.(*ssa.Call)
	if !ok {
		return false
	}
	if isEscapeCall(call) {
		return true
	}
	com := call.Common()
	if sc := com.StaticCallee(); sc != nil {
		return a.wrappers[sc]
	}
	if com.IsInvoke() && com.Method.Name() == "String" {
		// receiver built by sql.NewStringVal(...) in this function
		if rc, ok := com.Value.(*ssa.Call); ok {
			if sc := rc.Common().StaticCallee(); sc != nil && sc.String() == pkgSQL+".NewStringVal" {
				return true
			}
		}
	}
	return false
}

func (a *e4) findWrappers() {
	a.wrappers = map[*ssa.Function]bool{}
	for changed := true; changed; {
		changed = false
		for _, fn := range moduleFuncs(a.g) {
			if a.wrappers[fn] || fn.Signature.Results().Len() < 1 || !stringish(fn.Signature.Results().At(0).Type()) {
				continue
			}
			n, all := 0, true
			for _, b := range fn.Blocks {
				for _, ins := range b.Instrs {
					r, ok := ins.(*ssa.Return)
					if !ok || len(r.Results) == 0 {
						continue
					}
					n++
					if !a.escapedSource(r.Results[0]) {
						all = false
					}
				}
			}
			if n > 0 && all {
				a.wrappers[fn] = true
				changed = true
			}
		}
	}
}

func constStr(v ssa.Value) (string, bool) {
	cst, ok := v.(*ssa.Const)
	if !ok || cst.Value == nil || cst.Value.Kind().String() != "String" {
		return "", false
	}
	s, err := strconv.Unquote(cst.Value.ExactString())
	return s, err == nil
}

// balancedNew: a constant replacement text keeps escapes balanced (every backslash starts a two-character sequence) and has no quote.
func balancedNew(s string) bool {
	for i := 0; i < len(s); i++ {
		if s[i] == '\'' {
			return false
		}
		if s[i] == '\\' {
			if i+1 >= len(s) {
				return false
			}
			i++
		}
	}
	return true
}

func (a *e4) report(fn *ssa.Function, pos token.Pos, what string, st string, msg string) {
	base := ssaName(fn) + " " + what
	a.nth[base]++
	a.obls = append(a.obls, Obl{Key: fmt.Sprintf("%s #%d", base, a.nth[base]), Pos: a.c.pos(pos), Status: st, Msg: msg})
}

// follow walks the uses of an escaped value inside its function.
func (a *e4) follow(fn *ssa.Function, v ssa.Value, st escState, seen map[ssa.Value]bool) {
	if seen[v] {
		return
	}
	seen[v] = true
	refs := v.Referrers()
	if refs == nil {
		return
	}
	for _, r := range *refs {
		switch x := r.(type) {
		case *ssa.Phi:
			a.follow(fn, x, st, seen)
		case *ssa.MakeInterface:
			a.follow(fn, x, st, seen)
		case *ssa.ChangeType:
			a.follow(fn, x, st, seen)
		case *ssa.Convert:
			// string ↔ []byte keeps the text
			a.follow(fn, x, st, seen)
		case *ssa.Slice:
			a.report(fn, x.Pos(), "slices escaped text", Violation, "text produced by the literal-escaping routine is cut by a slice expression: an escape sequence can be split and the closing quote of the literal escaped or exposed")
		case *ssa.Index, *ssa.Lookup:
			// reading a byte: not a transformation
		case *ssa.Store:
			// stored into a variable / varargs slot: follow the cell's loads and the slice built from it
			if x.Val == v {
				a.followCell(fn, x.Addr, st, seen)
			}
		case *ssa.BinOp:
			if x.Op == token.ADD {
				if st == escBody && x.X == v {
					if s, ok := constStr(x.Y); !ok || s == "" || s[0] == '\'' {
						a.report(fn, x.Pos(), "appends to trimmed escaped text", Violation, "escaped text whose closing quote was trimmed may end in a backslash; what is appended directly after it must be a constant that does not start with a quote")
						continue
					}
					a.report(fn, x.Pos(), "appends to trimmed escaped text", OK, "")
				}
				// the concatenation is SQL text, no longer a bare escaped value
			}
		case *ssa.MapUpdate:
			// kept as a value of a map (named template parameters): what is read back out of the map is the escaped text
			if x.Value == v {
				a.followMap(fn, x.Map, st, seen)
			}
		case ssa.CallInstruction:
			a.useInCall(fn, x, v, st, seen)
		}
	}
}

// followMap: the values of map m include escaped text; follow what is read from it — lookups, range loops — here and in the module
// functions the map is handed to.
func (a *e4) followMap(fn *ssa.Function, m ssa.Value, st escState, seen map[ssa.Value]bool) {
	if seen[m] || m.Referrers() == nil {
		return
	}
	seen[m] = true
	for _, r := range *m.Referrers() {
		switch x := r.(type) {
		case *ssa.Lookup:
			if x.X != m {
				continue
			}
			if x.CommaOk {
				if x.Referrers() != nil {
					for _, rr := range *x.Referrers() {
						if ex, ok := rr.(*ssa.Extract); ok && ex.Index == 0 {
							a.follow(fn, ex, st, seen)
						}
					}
				}
			} else {
				a.follow(fn, x, st, seen)
			}
		case *ssa.Range:
			if x.Referrers() == nil {
				continue
			}
			for _, rr := range *x.Referrers() {
				nx, ok := rr.(*ssa.Next)
				if !ok || nx.Referrers() == nil {
					continue
				}
				for _, r3 := range *nx.Referrers() {
					if ex, ok := r3.(*ssa.Extract); ok && ex.Index == 2 {
						a.follow(fn, ex, st, seen)
					}
				}
			}
		case *ssa.Phi:
			a.followMap(fn, x, st, seen)
		case ssa.CallInstruction:
			sc := x.Common().StaticCallee()
			if sc == nil || len(sc.Blocks) == 0 {
				continue
			}
			for i, arg := range x.Common().Args {
				if arg == m && i < len(sc.Params) {
					a.followMap(sc, sc.Params[i], st, seen)
				}
			}
		}
	}
}

func (a *e4) followCell(fn *ssa.Function, addr ssa.Value, st escState, seen map[ssa.Value]bool) {
	switch ad := addr.(type) {
	case *ssa.Alloc:
		if refs := ad.Referrers(); refs != nil {
			for _, r := range *refs {
				switch y := r.(type) {
				case *ssa.UnOp:
					if y.Op == token.MUL {
						a.follow(fn, y, st, seen)
					}
				case *ssa.Slice:
					a.follow(fn, y, st, seen) // reaches the variadic call; Slice of an array allocation is not text slicing
				}
			}
		}
	case *ssa.IndexAddr:
		a.followCell(fn, ad.X, st, seen)
	}
}

func (a *e4) useInCall(fn *ssa.Function, ci ssa.CallInstruction, v ssa.Value, st escState, seen map[ssa.Value]bool) {
	com := ci.Common()
	sc := com.StaticCallee()
	res, _ := ci.(ssa.Value)
	if sc == nil {
		return
	}
	full := sc.String()
	argIdx := -1
	for i, arg := range com.Args {
		if arg == v {
			argIdx = i
		}
	}
	pkg := ""
	if sc.Object() != nil && sc.Object().Pkg() != nil {
		pkg = sc.Object().Pkg().Path()
	}
	switch pkg {
	case "strings", "bytes", "regexp", "unicode/utf8", "strconv":
		if argIdx == 2 && pkg == "strings" && (sc.Name() == "Replace" || sc.Name() == "ReplaceAll") && res != nil {
			// substituted into a template: the result contains the escaped text (a later substitution over that result scans it)
			a.follow(fn, res, st, seen)
			return
		}
		if argIdx != 0 && !(strings.HasPrefix(full, "(*regexp.Regexp).Replace") && argIdx == 1) {
			return // used as separator / pattern argument, not the transformed text
		}
		name := sc.Name()
		what := "applies " + full + " to escaped text"
		switch name {
		case "Trim", "TrimSuffix", "TrimPrefix", "TrimLeft", "TrimRight":
			cut, ok := "", false
			if len(com.Args) > 1 {
				cut, ok = constStr(com.Args[1])
			}
			if ok && cut == "'" && st == escQuoted && (name == "TrimPrefix" || name == "TrimSuffix") {
				a.report(fn, ci.Pos(), what, OK, "strips exactly one enclosing quote")
				if res != nil {
					a.follow(fn, res, st, seen)
				}
				return
			}
			if ok && cut == "'" && st == escQuoted {
				a.report(fn, ci.Pos(), what, Violation, "strings."+name+" removes every leading / trailing quote of the escaped literal, including the value's own escaped trailing quote (\\'): the text is left ending in a backslash that escapes whatever is placed behind it, and the literal no longer decodes to the value")
				if res != nil {
					a.follow(fn, res, escBody, seen)
				}
				return
			}
			a.report(fn, ci.Pos(), what, Violation, "escaped text is trimmed with a cut set other than the enclosing quote (or trimmed twice): escape sequences can be split")
		case "Replace", "ReplaceAll":
			o, ok1 := "", false
			nw, ok2 := "", false
			if len(com.Args) >= 3 {
				o, ok1 = constStr(com.Args[1])
				nw, ok2 = constStr(com.Args[2])
			}
			switch {
			case !ok1 || !ok2:
				a.report(fn, ci.Pos(), what, Violation, "escaped text is rewritten with a non-constant pattern or replacement")
			case strings.ContainsAny(o, "\\'"):
				a.report(fn, ci.Pos(), what, Violation, fmt.Sprintf("the replacement %q→%q rewrites backslashes or quotes of text that is already escaped: the backslash protecting a quote is changed and the quote terminates the literal", o, nw))
			case !balancedNew(nw):
				a.report(fn, ci.Pos(), what, Violation, fmt.Sprintf("the replacement text %q contains a quote or an open escape", nw))
			default:
				a.report(fn, ci.Pos(), what, OK, fmt.Sprintf("%q→%q keeps escapes balanced", o, nw))
			}
			if res != nil {
				a.follow(fn, res, st, seen)
			}
		case "ToLower", "ToUpper", "TrimSpace", "ToValidUTF8", "Clone":
			a.report(fn, ci.Pos(), what, OK, "does not touch backslashes or quotes")
			if res != nil {
				a.follow(fn, res, st, seen)
			}
		case "Contains", "HasPrefix", "HasSuffix", "Index", "EqualFold", "Count", "Compare", "ContainsAny", "ContainsRune", "IndexByte", "LastIndex":
			// predicates: no new text
		default:
			a.report(fn, ci.Pos(), what, Violation, "text produced by the literal-escaping routine is transformed by an operation that is not known to keep escape sequences intact")
		}
	case "fmt":
		if st != escBody || res == nil {
			return
		}
		// find the verb that prints this argument in a constant format; the character after it must not be a quote
		if sc.Name() != "Sprintf" || len(com.Args) < 2 {
			a.report(fn, ci.Pos(), "formats trimmed escaped text", Violation, "trimmed escaped text is formatted by something else than fmt.Sprintf with a constant format")
			return
		}
		format, ok := constStr(com.Args[0])
		n := a.varargIndex(com.Args[1], seen)
		if !ok || n < 0 {
			a.report(fn, ci.Pos(), "formats trimmed escaped text", Violation, "trimmed escaped text is formatted with a non-constant format or an untracked argument position")
			return
		}
		next, found := verbFollower(format, n)
		switch {
		case !found:
			a.report(fn, ci.Pos(), "formats trimmed escaped text", Violation, "format has no verb for the escaped argument")
		case next == 0 || next == '\'':
			a.report(fn, ci.Pos(), "formats trimmed escaped text", Violation, "escaped text whose closing quote was trimmed may end in a backslash; in the format it is directly followed by the closing quote (or by nothing), which that backslash would escape")
		default:
			a.report(fn, ci.Pos(), "formats trimmed escaped text", OK, fmt.Sprintf("followed by %q in %q", string(next), format))
		}
	default:
		if st == escBody && len(sc.Blocks) > 0 {
			a.report(fn, ci.Pos(), "passes trimmed escaped text to "+ssaName(sc), Violation, "trimmed escaped text leaves the function that trimmed it; its use cannot be followed")
		}
	}
}

// varargIndex: position of v among the variadic arguments packed into slice value sl (-1 if unknown).
func (a *e4) varargIndex(sl ssa.Value, seen map[ssa.Value]bool) int {
	s, ok := sl.(*ssa.Slice)
	if !ok {
		return -1
	}
	al, ok := s.X.(*ssa.Alloc)
	if !ok || al.Referrers() == nil {
		return -1
	}
	for _, r := range *al.Referrers() {
		ia, ok := r.(*ssa.IndexAddr)
		if !ok || ia.Referrers() == nil {
			continue
		}
		for _, rr := range *ia.Referrers() {
			st, ok := rr.(*ssa.Store)
			if !ok {
				continue
			}
			if seen[st.Val] {
				if k, ok := ia.Index.(*ssa.Const); ok {
					return int(k.Int64())
				}
			}
		}
	}
	return -1
}

// verbFollower returns the byte that follows the n-th (0-based) argument-consuming verb of a format ("%%" decoded as '%').
func verbFollower(format string, n int) (byte, bool) {
	k := 0
	for i := 0; i < len(format); i++ {
		if format[i] != '%' {
			continue
		}
		if i+1 < len(format) && format[i+1] == '%' {
			i++
			continue
		}
		j := i + 1
		for j < len(format) && strings.IndexByte("+-# 0123456789.[]*", format[j]) >= 0 {
			j++
		}
		if j >= len(format) {
			return 0, false
		}
		if k == n {
			if j+1 >= len(format) {
				return 0, true
			}
			return format[j+1], true
		}
		k++
		i = j
	}
	return 0, false
}

var ruleE4 = &Rule{
	ID:    "E4",
	Floor: 12,
	Doc: "escaped text stays escaped: every value that is the output of the literal-escaping routine (sql.StringVal.String, directly or through wrappers whose every return is such an output) is followed through its function (SSA def-use: phis, conversions, variadic packing). It may be concatenated and formatted; the only rewrites accepted are those that cannot unbalance its escape sequences — removing exactly one enclosing quote with TrimPrefix / TrimSuffix (strings.Trim with a cut set also eats the value's own escaped trailing quote and is a violation), " +
		"strings.Replace(All) with constant arguments whose pattern contains neither backslash nor quote and whose replacement is itself balanced and quote-free, and case / space normalisation. Slicing it, replacing backslashes or quotes in it, regexp rewriting, or any other strings/bytes transformation is a violation",
	Run: func(c *Ctx) []Obl {
		g := c.CG()
		a := &e4{c: c, g: g, nth: map[string]int{}}
		a.findWrappers()
		var ws []string
		for w := range a.wrappers {
			ws = append(ws, ssaName(w))
		}
		sort.Strings(ws)
		for _, w := range ws {
			a.obls = append(a.obls, Obl{Key: "wrapper " + w, Pos: "-", Status: Info, Msg: "returns only output of the escaping routine"})
		}
		for _, fn := range moduleFuncs(g) {
			if isTestFunc(c, fn) {
				continue
			}
			for _, b := range fn.Blocks {
				for _, ins := range b.Instrs {
					v, ok := ins.(ssa.Value)
					if !ok || !a.escapedSource(v) {
						continue
					}
					pos := v.Pos()
					if ex, ok := v.(*ssa.Extract); ok {
						pos = ex.Tuple.Pos()
					}
					a.report(fn, pos, "obtains escaped text", OK, "")
					a.follow(fn, v, escQuoted, map[ssa.Value]bool{})
				}
			}
		}
		return a.obls
	},
}

func init() { register(ruleE3); register(ruleE4) }

// returnsQuoted: every return of fn yields `"'" + value + "'"` as its first result (or the empty string next to an error), directly
// or as the result of a module helper for which the same holds. Returns "" when it does, else what is wrong.
func (c *Ctx) returnsQuoted(fn *ssa.Function, depth int) string {
	if depth > 3 || len(fn.Blocks) == 0 {
		return "cannot follow the helper producing the literal: " + ssaName(fn)
	}
	isQ := func(v ssa.Value) bool {
		s, ok := constStr(v)
		return ok && s == "'"
	}
	n := 0
	var check func(v ssa.Value, d int) string
	check = func(v ssa.Value, d int) string {
		if d > 6 {
			return "return value too deep to follow"
		}
		switch x := v.(type) {
		case *ssa.Const:
			if s, ok := constStr(x); ok && s == "" {
				return ""
			}
		case *ssa.BinOp:
			if x.Op == token.ADD && isQ(x.Y) {
				if in, ok := x.X.(*ssa.BinOp); ok && in.Op == token.ADD && isQ(in.X) {
					if _, isC := in.Y.(*ssa.Const); !isC {
						n++
						return ""
					}
				}
			}
		case *ssa.Phi:
			for _, e := range x.Edges {
				if bad := check(e, d+1); bad != "" {
					return bad
				}
			}
			return ""
		case *ssa.Extract:
			if call, ok := x.Tuple.(*ssa.Call); ok && x.Index == 0 {
				if sc := call.Common().StaticCallee(); sc != nil && isModuleFn(sc) {
					if bad := c.returnsQuoted(sc, depth+1); bad != "" {
						return bad
					}
					n++
					return ""
				}
			}
		case *ssa.Call:
			if sc := x.Common().StaticCallee(); sc != nil && isModuleFn(sc) {
				if bad := c.returnsQuoted(sc, depth+1); bad != "" {
					return bad
				}
				n++
				return ""
			}
		case *ssa.UnOp:
			// a named result / local cell: every store into it
			if a, ok := x.X.(*ssa.Alloc); ok && x.Op == token.MUL && a.Referrers() != nil {
				any := false
				for _, r := range *a.Referrers() {
					if st, ok := r.(*ssa.Store); ok && st.Addr == ssa.Value(a) {
						any = true
						if bad := check(st.Val, d+1); bad != "" {
							return bad
						}
					}
				}
				if any {
					return ""
				}
			}
		}
		return "a return of the escaping routine is not the replaced value between two single quotes: " + c.pos(v.Pos())
	}
	for _, r := range returnsOf(fn) {
		if len(r.Results) == 0 {
			continue
		}
		if bad := check(r.Results[0], 0); bad != "" {
			return bad
		}
	}
	if n == 0 {
		return "no return of the form \"'\" + value + \"'\""
	}
	return ""
}
