package main

// D-rules: dispatch shape of the query translators (C07, C08, C09, C11, C17).

import (
	"fmt"
	"go/ast"
	"go/token"
	"go/types"
	"sort"
	"strings"

	"golang.org/x/tools/go/packages"
)

const (
	pkgLogqlParser = modPath + "/reader/logql/logql_parser"
	pkgSQL         = modPath + "/reader/utils/sql_select"
	pkgShared      = modPath + "/reader/logql/logql_transpiler_v2/shared"
)

var transpilerScopes = []string{"reader/logql", "reader/traceql", "reader/promql", "reader/prof/transpiler", "reader/tempo"}

// ---------------------------------------------------------------------------------
// string switches

type strSwitch struct {
	fi      *FuncInfo
	sw      *ast.SwitchStmt
	tag     string
	group   string // receiver type (or function) + tag expression
	labels  []string
	clause  map[string]*ast.CaseClause
	hasDflt bool
}

func (c *Ctx) stringSwitches(scopes []string) []*strSwitch {
	key := "strswitch:" + strings.Join(scopes, ",")
	if v, ok := c.memo[key]; ok {
		return v.([]*strSwitch)
	}
	var out []*strSwitch
	for _, fi := range c.Funcs(c.PkgsUnder(scopes...)) {
		if strings.HasSuffix(c.Fset.Position(fi.Decl.Pos()).Filename, "_test.go") {
			continue
		}
		ast.Inspect(fi.Decl.Body, func(n ast.Node) bool {
			sw, ok := n.(*ast.SwitchStmt)
			if !ok || sw.Tag == nil {
				return true
			}
			s := &strSwitch{fi: fi, sw: sw, tag: c.normText(sw.Tag), clause: map[string]*ast.CaseClause{}}
			allStr := true
			for _, st := range sw.Body.List {
				cc := st.(*ast.CaseClause)
				if cc.List == nil {
					s.hasDflt = true
					continue
				}
				for _, e := range cc.List {
					v, ok := constString(fi.Pkg.TypesInfo, e)
					if !ok {
						allStr = false
						break
					}
					s.labels = append(s.labels, v)
					s.clause[v] = cc
				}
			}
			if !allStr || len(s.labels) == 0 {
				return true
			}
			owner := recvTypeName(fi.Decl)
			if owner == "" {
				owner = fi.Decl.Name.Name
			}
			// the tag as seen from the receiver: l.Func, a.Op ... → strip the receiver variable name
			t := s.tag
			if fi.Decl.Recv != nil && len(fi.Decl.Recv.List) > 0 && len(fi.Decl.Recv.List[0].Names) > 0 {
				rn := fi.Decl.Recv.List[0].Names[0].Name
				if strings.HasPrefix(t, rn+".") {
					t = "recv." + strings.TrimPrefix(t, rn+".")
				}
			}
			s.group = rel(fi.Pkg.PkgPath) + "." + owner + " switch " + t
			out = append(out, s)
			return true
		})
	}
	c.memo[key] = out
	return out
}

func stripBreak(l []ast.Stmt) []ast.Stmt {
	for len(l) > 0 {
		if b, ok := l[len(l)-1].(*ast.BranchStmt); ok && b.Tok == token.BREAK && b.Label == nil {
			l = l[:len(l)-1]
			continue
		}
		break
	}
	return l
}

// isErrorOnly: the block produces nothing but an error (return …, <non-nil error> / err = …).
func isErrorOnly(info *types.Info, l []ast.Stmt) bool {
	if len(l) == 0 {
		return false
	}
	errT := types.Universe.Lookup("error").Type()
	isErr := func(e ast.Expr) bool {
		tv, ok := info.Types[e]
		if !ok || tv.Type == nil {
			return false
		}
		if tv.IsNil() {
			return false
		}
		return types.AssignableTo(tv.Type, errT) && types.Implements(tv.Type, errT.Underlying().(*types.Interface))
	}
	for _, st := range l {
		switch s := st.(type) {
		case *ast.ReturnStmt:
			if len(s.Results) == 0 || !isErr(s.Results[len(s.Results)-1]) {
				return false
			}
		case *ast.AssignStmt:
			for _, lh := range s.Lhs {
				tv, ok := info.Types[lh]
				if !ok || !types.Identical(tv.Type, errT) {
					return false
				}
			}
		default:
			return false
		}
	}
	return true
}

// complementary operator pairs: the two members must differ on every result-producing leaf.
var complementPairs = [][2]string{
	{"|~", "!~"}, {"=~", "!~"}, {"|=", "!="}, {"=", "!="}, {"==", "!="},
	{">", "<="}, {"<", ">="}, {"like", "notLike"}, {"and", "or"}, {"&&", "||"},
}

func isComplement(a, b string) bool {
	for _, p := range complementPairs {
		if (p[0] == a && p[1] == b) || (p[0] == b && p[1] == a) {
			return true
		}
	}
	return false
}

// identicalLeaves compares two case bodies of the same shape and returns a description of
// each result-producing leaf block that is textually identical in both.
func (c *Ctx) identicalLeaves(info *types.Info, a, b []ast.Stmt, path string) (leaves []string) {
	a, b = stripBreak(a), stripBreak(b)
	if len(a) != len(b) {
		return nil
	}
	type ifPair struct{ x, y *ast.IfStmt }
	var ifs []ifPair
	var own []ast.Stmt
	for i := range a {
		ia, oka := a[i].(*ast.IfStmt)
		ib, okb := b[i].(*ast.IfStmt)
		if oka != okb {
			return nil
		}
		if oka {
			if c.normText(ia.Cond) != c.normText(ib.Cond) || c.normText(ia.Init) != c.normText(ib.Init) {
				return nil
			}
			ifs = append(ifs, ifPair{ia, ib})
			continue
		}
		if c.normText(a[i]) != c.normText(b[i]) {
			return nil // own statements differ: everything below may depend on them
		}
		own = append(own, a[i])
	}
	if len(ifs) == 0 {
		if len(own) > 0 && !isErrorOnly(info, own) {
			leaves = append(leaves, fmt.Sprintf("%s{ %s }", path, c.stmtsText(own)))
		}
		return leaves
	}
	for _, p := range ifs {
		cond := c.normText(p.x.Cond)
		leaves = append(leaves, c.identicalLeaves(info, p.x.Body.List, p.y.Body.List, path+"if "+cond+" ")...)
		switch ea := p.x.Else.(type) {
		case nil:
		case *ast.BlockStmt:
			if eb, ok := p.y.Else.(*ast.BlockStmt); ok {
				leaves = append(leaves, c.identicalLeaves(info, ea.List, eb.List, path+"if !("+cond+") ")...)
			}
		case *ast.IfStmt:
			if eb, ok := p.y.Else.(*ast.IfStmt); ok {
				leaves = append(leaves, c.identicalLeaves(info, []ast.Stmt{ea}, []ast.Stmt{eb}, path+"if !("+cond+") ")...)
			}
		}
	}
	return leaves
}

var ruleD2 = &Rule{
	ID:    "D2",
	Floor: 100,
	Doc: "sibling-case distinctness: in every switch over a string operator / function name in the query translators, two labels in different clauses " +
		"must not have textually identical bodies unless another switch of the same owner over the same selector distinguishes them; " +
		"complementary operators (|~ / !~, = / !=, …) must differ on every result-producing leaf of bodies of equal shape",
	Run: func(c *Ctx) []Obl {
		sws := c.stringSwitches(transpilerScopes)
		byGroup := map[string][]*strSwitch{}
		for _, s := range sws {
			byGroup[s.group] = append(byGroup[s.group], s)
		}
		var obls []Obl
		for _, s := range sws {
			info := s.fi.Pkg.TypesInfo
			labels := append([]string(nil), s.labels...)
			sort.Strings(labels)
			for i := 0; i < len(labels); i++ {
				for j := i + 1; j < len(labels); j++ {
					la, lb := labels[i], labels[j]
					ca, cb := s.clause[la], s.clause[lb]
					key := fmt.Sprintf("%s case %q vs %q", s.fi.Name()+" switch "+s.tag, la, lb)
					if ca == cb {
						obls = append(obls, Obl{Key: key, Pos: c.pos(ca.Pos()), Status: OK, Msg: "same clause (declared synonyms)"})
						continue
					}
					same := c.stmtsText(stripBreak(ca.Body)) == c.stmtsText(stripBreak(cb.Body))
					var leaves []string
					if !same && isComplement(la, lb) {
						leaves = c.identicalLeaves(info, ca.Body, cb.Body, "")
					}
					if !same && len(leaves) == 0 {
						obls = append(obls, Obl{Key: key, Pos: c.pos(ca.Pos()), Status: OK})
						continue
					}
					// distinguished by a sibling switch of the same owner over the same selector?
					dist := ""
					if same {
						for _, o := range byGroup[s.group] {
							if o == s {
								continue
							}
							oa, ob := o.clause[la], o.clause[lb]
							if oa == nil && ob == nil {
								continue
							}
							if oa == nil || ob == nil || (oa != ob && c.stmtsText(stripBreak(oa.Body)) != c.stmtsText(stripBreak(ob.Body))) {
								dist = o.fi.Name()
								break
							}
						}
					}
					if dist != "" {
						obls = append(obls, Obl{Key: key, Pos: c.pos(ca.Pos()), Status: OK, Msg: "identical here, distinguished by the sibling switch in " + dist})
						continue
					}
					msg := fmt.Sprintf("%q and %q are translated identically: the two case bodies are the same text", la, lb)
					if !same {
						msg = fmt.Sprintf("complementary operators %q and %q produce the same result on the leaf %s", la, lb, strings.Join(leaves, " and "))
					}
					obls = append(obls, Obl{Key: key, Pos: c.pos(cb.Pos()), Status: Violation, Msg: msg})
				}
			}
		}
		return obls
	},
}

// ---------------------------------------------------------------------------------
// D3 operator table

var opTable = map[string]string{">": "GT", ">=": "GE", "<": "LT", "<=": "LE", "==": "EQ", "=": "EQ", "!=": "NE"}
var sqlCtor = map[string]string{"Gt": "GT", "Ge": "GE", "Lt": "LT", "Le": "LE", "Eq": "EQ", "Neq": "NE"}
var goTok = map[token.Token]string{token.GTR: "GT", token.GEQ: "GE", token.LSS: "LT", token.LEQ: "LE", token.EQL: "EQ", token.NEQ: "NE"}
var mirror = map[string]string{"GT": "LT", "GE": "LE", "LT": "GT", "LE": "GE", "EQ": "EQ", "NE": "NE"}

// comparison constructs found in a case body
func (c *Ctx) comparisonsIn(fi *FuncInfo, body []ast.Stmt) []string {
	recv := ""
	if fi.Decl.Recv != nil && len(fi.Decl.Recv.List) > 0 && len(fi.Decl.Recv.List[0].Names) > 0 {
		recv = fi.Decl.Recv.List[0].Names[0].Name
	}
	var nodes []ast.Node
	for _, st := range body {
		nodes = append(nodes, st)
	}
	return c.comparisonsInNodes(fi.Pkg, recv, func(pos token.Pos) *ast.FieldList {
		params, _ := innermostFunc(fi.Decl, pos)
		return params
	}, nodes)
}

// comparisonsInNodes: the comparison constructs in a piece of syntax; paramsAt gives the parameters of the innermost function around a position.
func (c *Ctx) comparisonsInNodes(pkg *packagesPackage, recv string, paramsAt func(token.Pos) *ast.FieldList, body []ast.Node) []string {
	info := pkg.TypesInfo
	var found []string
	mentionsParam := func(e ast.Expr, params *ast.FieldList) bool {
		hit := false
		ast.Inspect(e, func(n ast.Node) bool {
			id, ok := n.(*ast.Ident)
			if !ok || params == nil {
				return true
			}
			obj := info.Uses[id]
			if obj == nil {
				return true
			}
			for _, f := range params.List {
				for _, nm := range f.Names {
					if info.Defs[nm] == obj && nm.Name != recv {
						hit = true
					}
				}
			}
			return true
		})
		return hit
	}
	var visitExpr func(e ast.Expr)
	visitExpr = func(e ast.Expr) {
		switch x := ast.Unparen(e).(type) {
		case *ast.BinaryExpr:
			if x.Op == token.LAND || x.Op == token.LOR {
				visitExpr(x.X)
				visitExpr(x.Y)
				return
			}
			op, ok := goTok[x.Op]
			if !ok {
				return
			}
			for _, side := range []ast.Expr{x.X, x.Y} {
				if tv, ok := info.Types[side]; ok && tv.IsNil() {
					return
				}
			}
			params := paramsAt(x.Pos())
			l, r := mentionsParam(x.X, params), mentionsParam(x.Y, params)
			if r && !l {
				op = mirror[op]
			}
			found = append(found, op)
		case *ast.UnaryExpr:
			if x.Op == token.NOT {
				visitExpr(x.X)
			}
		}
	}
	for _, st := range body {
		ast.Inspect(st, func(n ast.Node) bool {
			switch x := n.(type) {
			case *ast.ReturnStmt:
				for _, r := range x.Results {
					visitExpr(r)
				}
			case *ast.SelectorExpr:
				if obj := info.Uses[x.Sel]; obj != nil && objPkgPath(obj) == pkgSQL {
					if k, ok := sqlCtor[obj.Name()]; ok {
						if _, isFn := obj.(*types.Func); isFn {
							found = append(found, k)
						}
					}
				}
			case *ast.Ident:
				if obj := info.Uses[x]; obj != nil && objPkgPath(obj) == pkgSQL && pkg.PkgPath == pkgSQL {
					if k, ok := sqlCtor[obj.Name()]; ok {
						if _, isFn := obj.(*types.Func); isFn {
							found = append(found, k)
						}
					}
				}
			}
			return true
		})
	}
	return uniq(found)
}

var ruleD3 = &Rule{
	ID:    "D3",
	Floor: 30,
	Doc: "operator table: a case clause labelled with a comparison operator (>, >=, <, <=, ==, =, !=) must build exactly that comparison — " +
		"the sql_select constructor (Gt/Ge/Lt/Le/Eq/Neq) or the Go operator with the runtime datum (an expression over the innermost function's parameter) normalised to the left; " +
		"no other member of the ordering family may appear in the clause; an `=` clause builds no inequality and a `!=` clause builds one (an auxiliary equality on the key column may accompany it)",
	Run: func(c *Ctx) []Obl {
		var obls []Obl
		for _, s := range c.stringSwitches(transpilerScopes) {
			seen := map[*ast.CaseClause]bool{}
			labels := append([]string(nil), s.labels...)
			sort.Strings(labels)
			for _, l := range labels {
				exp, ok := opTable[l]
				if !ok {
					continue
				}
				cc := s.clause[l]
				if len(cc.List) != 1 || seen[cc] {
					continue
				}
				seen[cc] = true
				found := c.comparisonsIn(s.fi, cc.Body)
				if len(found) == 0 {
					continue // clause does not build a comparison itself (delegates)
				}
				family := map[string]bool{"GT": true, "GE": true, "LT": true, "LE": true}
				if exp == "EQ" || exp == "NE" {
					family = map[string]bool{"EQ": true, "NE": true}
				}
				var inFam []string
				for _, f := range found {
					if family[f] {
						inFam = append(inFam, f)
					}
				}
				key := fmt.Sprintf("%s switch %s case %q", s.fi.Name(), s.tag, l)
				if len(inFam) == 0 {
					continue
				}
				has := func(k string) bool {
					for _, f := range inFam {
						if f == k {
							return true
						}
					}
					return false
				}
				// equality family: an auxiliary Eq (key = '…') may accompany the operator's own Neq
				okEq := (exp == "NE" && has("NE")) || (exp == "EQ" && has("EQ") && !has("NE"))
				if (len(inFam) == 1 && inFam[0] == exp) || okEq {
					obls = append(obls, Obl{Key: key, Pos: c.pos(cc.Pos()), Status: OK, Msg: "builds " + exp})
				} else {
					obls = append(obls, Obl{Key: key, Pos: c.pos(cc.Pos()), Status: Violation,
						Msg: fmt.Sprintf("clause for operator %q builds %v, expected exactly %s", l, inFam, exp)})
				}
			}
		}
		// the same obligation for dispatch tables: a map literal keyed by operator strings
		for _, t := range c.opTables(transpilerScopes) {
			for _, e := range t.entries {
				exp, ok := opTable[e.key]
				if !ok {
					continue
				}
				found := c.comparisonsInNodes(t.pkg, "", func(pos token.Pos) *ast.FieldList {
					var params *ast.FieldList
					ast.Inspect(e.val, func(n ast.Node) bool {
						if fl, ok := n.(*ast.FuncLit); ok && fl.Pos() <= pos && pos < fl.End() {
							params = fl.Type.Params
						}
						return true
					})
					return params
				}, []ast.Node{e.val})
				family := map[string]bool{"GT": true, "GE": true, "LT": true, "LE": true}
				if exp == "EQ" || exp == "NE" {
					family = map[string]bool{"EQ": true, "NE": true}
				}
				var inFam []string
				for _, f := range found {
					if family[f] {
						inFam = append(inFam, f)
					}
				}
				if len(inFam) == 0 {
					continue
				}
				has := func(k string) bool {
					for _, f := range inFam {
						if f == k {
							return true
						}
					}
					return false
				}
				key := fmt.Sprintf("%s.%s table entry %q", rel(t.pkg.PkgPath), t.name, e.key)
				okEq := (exp == "NE" && has("NE")) || (exp == "EQ" && has("EQ") && !has("NE"))
				if (len(inFam) == 1 && inFam[0] == exp) || okEq {
					obls = append(obls, Obl{Key: key, Pos: c.pos(e.val.Pos()), Status: OK, Msg: "builds " + exp})
				} else {
					obls = append(obls, Obl{Key: key, Pos: c.pos(e.val.Pos()), Status: Violation,
						Msg: fmt.Sprintf("table entry for operator %q builds %v, expected exactly %s", e.key, inFam, exp)})
				}
			}
		}
		return obls
	},
}

type opTableEntry struct {
	key string
	val ast.Expr
}

type opTableLit struct {
	pkg     *packagesPackage
	name    string
	lit     *ast.CompositeLit
	entries []opTableEntry
}

// opTables: map literals with constant string keys (dispatch tables that replace a switch over an operator / function name).
func (c *Ctx) opTables(scopes []string) []*opTableLit {
	key := "optables:" + strings.Join(scopes, ",")
	if v, ok := c.memo[key]; ok {
		return v.([]*opTableLit)
	}
	var out []*opTableLit
	for _, p := range c.PkgsUnder(scopes...) {
		for _, f := range p.Syntax {
			if strings.HasSuffix(c.Fset.Position(f.Pos()).Filename, "_test.go") {
				continue
			}
			scan := func(name string, root ast.Node) {
				n := 0
				ast.Inspect(root, func(nd ast.Node) bool {
					lit, ok := nd.(*ast.CompositeLit)
					if !ok {
						return true
					}
					tv, ok := p.TypesInfo.Types[lit]
					if !ok {
						return true
					}
					mt, ok := tv.Type.Underlying().(*types.Map)
					if !ok {
						return true
					}
					if b, ok := mt.Key().Underlying().(*types.Basic); !ok || b.Info()&types.IsString == 0 {
						return true
					}
					t := &opTableLit{pkg: p, name: name, lit: lit}
					if n > 0 {
						t.name = fmt.Sprintf("%s#%d", name, n)
					}
					n++
					for _, el := range lit.Elts {
						kv, ok := el.(*ast.KeyValueExpr)
						if !ok {
							continue
						}
						if k, ok := constString(p.TypesInfo, kv.Key); ok {
							t.entries = append(t.entries, opTableEntry{k, kv.Value})
						}
					}
					sort.Slice(t.entries, func(i, j int) bool { return t.entries[i].key < t.entries[j].key })
					if len(t.entries) > 0 {
						out = append(out, t)
					}
					return true
				})
			}
			for _, d := range f.Decls {
				switch x := d.(type) {
				case *ast.GenDecl:
					if x.Tok != token.VAR {
						continue
					}
					for _, sp := range x.Specs {
						vs := sp.(*ast.ValueSpec)
						for i, v := range vs.Values {
							nm := "_"
							if i < len(vs.Names) {
								nm = vs.Names[i].Name
							}
							scan(nm, v)
						}
					}
				case *ast.FuncDecl:
					if x.Body != nil {
						nm := x.Name.Name
						if r := recvTypeName(x); r != "" {
							nm = r + "." + nm
						}
						scan(nm+" table", x.Body)
					}
				}
			}
		}
	}
	c.memo[key] = out
	return out
}

// ---------------------------------------------------------------------------------
// D1 / D5 pipeline stage exhaustiveness

func pipelineAlternatives(c *Ctx) (*types.Named, []string) {
	c.Load()
	p := c.ByPath[pkgLogqlParser]
	if p == nil {
		return nil, nil
	}
	obj := p.Types.Scope().Lookup("StrSelectorPipeline")
	if obj == nil {
		return nil, nil
	}
	nt, _ := obj.Type().(*types.Named)
	st, _ := nt.Underlying().(*types.Struct)
	if st == nil {
		return nil, nil
	}
	var alts []string
	for i := 0; i < st.NumFields(); i++ {
		if _, ok := st.Field(i).Type().(*types.Pointer); ok {
			alts = append(alts, st.Field(i).Name())
		}
	}
	return nt, alts
}

// nilTestedFields lists the fields F such that cond contains `x.F != nil` where x has the pipeline type;
// exact reports whether cond is exactly that single test.
func nilTestedFields(info *types.Info, pipeT *types.Named, cond ast.Expr) (fields []string, exact bool) {
	isTest := func(e ast.Expr) (string, bool) {
		be, ok := ast.Unparen(e).(*ast.BinaryExpr)
		if !ok || be.Op != token.NEQ {
			return "", false
		}
		if tv, ok := info.Types[be.Y]; !ok || !tv.IsNil() {
			return "", false
		}
		se, ok := ast.Unparen(be.X).(*ast.SelectorExpr)
		if !ok {
			return "", false
		}
		tv, ok := info.Types[se.X]
		if !ok || namedOf(tv.Type) != pipeT {
			return "", false
		}
		return se.Sel.Name, true
	}
	if f, ok := isTest(cond); ok {
		return []string{f}, true
	}
	ast.Inspect(cond, func(n ast.Node) bool {
		if e, ok := n.(ast.Expr); ok {
			if f, ok := isTest(e); ok {
				fields = append(fields, f)
			}
		}
		return true
	})
	return uniq(fields), false
}

// predicateTruthFields analyses a boolean helper over a pipeline element: `sure` lists the alternatives whose nil test alone makes
// the helper return true (a top-level `return a != nil || b != nil`, or `if a != nil { return true }`), `maybe` those tested
// under further conditions.
func predicateTruthFields(info *types.Info, pipeT *types.Named, hd *ast.FuncDecl) (sure, maybe []string) {
	var orLeaves func(e ast.Expr) []ast.Expr
	orLeaves = func(e ast.Expr) []ast.Expr {
		if be, ok := ast.Unparen(e).(*ast.BinaryExpr); ok && be.Op == token.LOR {
			return append(orLeaves(be.X), orLeaves(be.Y)...)
		}
		return []ast.Expr{e}
	}
	returnsTrue := func(list []ast.Stmt) bool {
		if len(list) != 1 {
			return false
		}
		r, ok := list[0].(*ast.ReturnStmt)
		if !ok || len(r.Results) != 1 {
			return false
		}
		id, ok := ast.Unparen(r.Results[0]).(*ast.Ident)
		return ok && id.Name == "true"
	}
	for _, st := range hd.Body.List {
		switch x := st.(type) {
		case *ast.ReturnStmt:
			if len(x.Results) == 1 {
				for _, leaf := range orLeaves(x.Results[0]) {
					fs, exact := nilTestedFields(info, pipeT, leaf)
					if exact {
						sure = append(sure, fs...)
					} else {
						maybe = append(maybe, fs...)
					}
				}
			}
		case *ast.IfStmt:
			if x.Init == nil && x.Else == nil && returnsTrue(x.Body.List) {
				for _, leaf := range orLeaves(x.Cond) {
					fs, exact := nilTestedFields(info, pipeT, leaf)
					if exact {
						sure = append(sure, fs...)
					} else {
						maybe = append(maybe, fs...)
					}
				}
			} else {
				fs, _ := nilTestedFields(info, pipeT, x.Cond)
				maybe = append(maybe, fs...)
			}
		case *ast.SwitchStmt:
			if x.Tag == nil {
				for _, cc := range x.Body.List {
					cl := cc.(*ast.CaseClause)
					for _, e := range cl.List {
						fs, exact := nilTestedFields(info, pipeT, e)
						if exact && returnsTrue(cl.Body) {
							sure = append(sure, fs...)
						} else {
							maybe = append(maybe, fs...)
						}
					}
				}
			}
		}
	}
	return uniq(sure), uniq(maybe)
}

// buildsStage: the statements contain a composite literal of a type with a Process method,
// directly or one call deep into a function of the same package.
func (c *Ctx) buildsStage(p *packages.Package, stmts []ast.Stmt, depth int) bool {
	info := p.TypesInfo
	found := false
	for _, st := range stmts {
		ast.Inspect(st, func(n ast.Node) bool {
			if found {
				return false
			}
			switch x := n.(type) {
			case *ast.CompositeLit:
				if tv, ok := info.Types[x]; ok && hasMethod(tv.Type, "Process") {
					found = true
				}
			case *ast.CallExpr:
				if depth > 0 {
					if fn, ok := calleeObj(info, x).(*types.Func); ok && fn.Pkg() == p.Types {
						if fd := c.declOf(p, fn); fd != nil && fd.Body != nil && c.buildsStage(p, fd.Body.List, depth-1) {
							found = true
						}
					}
				}
			}
			return true
		})
	}
	return found
}

func (c *Ctx) declOf(p *packages.Package, fn *types.Func) *ast.FuncDecl {
	for _, f := range p.Syntax {
		for _, d := range f.Decls {
			if fd, ok := d.(*ast.FuncDecl); ok && p.TypesInfo.Defs[fd.Name] == fn {
				return fd
			}
		}
	}
	return nil
}

type stageLoop struct {
	fi       *FuncInfo
	rng      ast.Stmt        // the range statement, or the index loop `for i := …; i < len(pipeline); i++`
	handled  map[string]bool // nil-test branch builds a stage
	rejected map[string]bool // nil-test (possibly conjoined) guards `return false`
	breakAt  map[string]bool // exact nil-test guards a return of the loop index
	tested   map[string]bool
}

func (c *Ctx) stageLoops() []*stageLoop {
	if v, ok := c.memo["stageLoops"]; ok {
		return v.([]*stageLoop)
	}
	pipeT, _ := pipelineAlternatives(c)
	var out []*stageLoop
	if pipeT == nil {
		return nil
	}
	for _, fi := range c.Funcs(c.PkgsUnder("reader/logql")) {
		info := fi.Pkg.TypesInfo
		if strings.HasSuffix(c.Fset.Position(fi.Decl.Pos()).Filename, "_test.go") {
			continue
		}
		ast.Inspect(fi.Decl.Body, func(n ast.Node) bool {
			var loopStmt ast.Stmt
			var loopBody *ast.BlockStmt
			var idxObj types.Object
			isPipeline := func(e ast.Expr) bool {
				tv, ok := info.Types[e]
				if !ok {
					return false
				}
				sl, ok := tv.Type.Underlying().(*types.Slice)
				return ok && namedOf(sl.Elem()) == pipeT
			}
			switch rs := n.(type) {
			case *ast.RangeStmt:
				if !isPipeline(rs.X) {
					return true
				}
				loopStmt, loopBody = rs, rs.Body
				if id, ok := rs.Key.(*ast.Ident); ok && id.Name != "_" {
					idxObj = info.Defs[id]
				}
			case *ast.ForStmt:
				// for i := 0; i < len(pipeline); i++ { … pipeline[i] … }
				be, ok := rs.Cond.(*ast.BinaryExpr)
				if !ok || be.Op != token.LSS {
					return true
				}
				lc, ok := ast.Unparen(be.Y).(*ast.CallExpr)
				if !ok || len(lc.Args) != 1 || !isPipeline(lc.Args[0]) {
					return true
				}
				if fid, ok := lc.Fun.(*ast.Ident); !ok || fid.Name != "len" {
					return true
				}
				id, ok := ast.Unparen(be.X).(*ast.Ident)
				if !ok {
					return true
				}
				loopStmt, loopBody = rs, rs.Body
				idxObj = info.Uses[id]
			default:
				return true
			}
			s := &stageLoop{fi: fi, rng: loopStmt, handled: map[string]bool{}, rejected: map[string]bool{}, breakAt: map[string]bool{}, tested: map[string]bool{}}
			rs := struct{ Body *ast.BlockStmt }{loopBody}
			var walk func(pk *packages.Package, info *types.Info, root ast.Node, depth int)
			var examine func(pk *packages.Package, info *types.Info, cond ast.Expr, body []ast.Stmt)
			walk = func(pk *packages.Package, info *types.Info, root ast.Node, depth int) {
				ast.Inspect(root, func(m ast.Node) bool {
					switch x := m.(type) {
					case *ast.IfStmt:
						examine(pk, info, x.Cond, x.Body.List)
					case *ast.SwitchStmt:
						// switch { case ppl.X != nil: … } — each clause is a nil test with its own body
						if x.Tag == nil {
							for _, st := range x.Body.List {
								if cc, ok := st.(*ast.CaseClause); ok && len(cc.List) == 1 {
									examine(pk, info, cc.List[0], cc.Body)
								}
							}
						}
					case *ast.CallExpr:
						// the per-element dispatch lives in a function of the package that receives the pipeline element
						if depth > 0 {
							return true
						}
						hf, ok := calleeObj(info, x).(*types.Func)
						if !ok || hf.Pkg() != pk.Types {
							return true
						}
						takesStage := false
						for _, a := range x.Args {
							if tv, ok := info.Types[a]; ok && namedOf(tv.Type) == pipeT {
								takesStage = true
							}
						}
						if !takesStage {
							return true
						}
						if hd := c.declOf(pk, hf); hd != nil && hd.Body != nil && len(predicateResultBool(hf)) == 0 {
							walk(pk, pk.TypesInfo, hd.Body, depth+1)
						}
					}
					return true
				})
			}
			examine = func(pk *packages.Package, info *types.Info, cond ast.Expr, body []ast.Stmt) {
				is := &ast.IfStmt{Cond: cond, Body: &ast.BlockStmt{List: body}}
				fields, exact := nilTestedFields(info, pipeT, is.Cond)
				exactOf := map[string]bool{}
				for _, f := range fields {
					exactOf[f] = exact
				}
				// the test may be a predicate helper taking the pipeline element: the fields whose nil test alone makes it true
				if call, ok := ast.Unparen(is.Cond).(*ast.CallExpr); ok && len(fields) == 0 {
					if hf, ok := calleeObj(info, call).(*types.Func); ok && strings.HasPrefix(objPkgPath(hf), modPath) {
						takesStage := false
						for _, a := range call.Args {
							if tv, ok := info.Types[a]; ok && namedOf(tv.Type) == pipeT {
								takesStage = true
							}
						}
						if hp := c.ByPath[objPkgPath(hf)]; hp != nil && takesStage {
							if hd := c.declOf(hp, hf); hd != nil && hd.Body != nil {
								sure, maybe := predicateTruthFields(hp.TypesInfo, pipeT, hd)
								for _, f := range maybe {
									fields = append(fields, f)
									exactOf[f] = false
								}
								for _, f := range sure {
									fields = append(fields, f)
									exactOf[f] = true
								}
								fields = uniq(fields)
							}
						}
					}
				}
				for _, f := range fields {
					exact := exactOf[f]
					s.tested[f] = true
					if c.buildsStage(pk, is.Body.List, 1) && exact {
						s.handled[f] = true
					}
					for _, st := range is.Body.List {
						ast.Inspect(st, func(k ast.Node) bool {
							r, ok := k.(*ast.ReturnStmt)
							if !ok || len(r.Results) == 0 {
								return true
							}
							if id, ok := r.Results[0].(*ast.Ident); ok {
								if id.Name == "false" {
									s.rejected[f] = true
								}
								if exact && idxObj != nil && info.Uses[id] == idxObj {
									s.breakAt[f] = true
								}
							}
							return true
						})
					}
				}
			}
			walk(fi.Pkg, info, rs.Body, 0)
			out = append(out, s)
			return true
		})
	}
	// tests on an indexed element outside a range loop (Pipelines[len-1].Unwrap != nil → return false)
	c.memo["stageLoops"] = out
	return out
}

var ruleD1 = &Rule{
	ID:    "D1",
	Floor: 14,
	Doc: "stage exhaustiveness: every function that walks a LogQL pipeline and builds one planner stage per nil-tested alternative of the grammar node " +
		"(logql_parser.StrSelectorPipeline: one pointer field per stage kind) must handle every alternative; the ClickHouse-side dispatcher may instead rely on the " +
		"split-point search returning unconditionally at that alternative (the stage then runs in the in-process engine, whose dispatcher must be total)",
	Run: func(c *Ctx) []Obl {
		_, alts := pipelineAlternatives(c)
		if len(alts) < 5 {
			return []Obl{{Key: "grammar", Status: Undecided, Pos: "-", Msg: "logql_parser.StrSelectorPipeline alternatives not found"}}
		}
		loops := c.stageLoops()
		breaks := map[string]string{}
		for _, l := range loops {
			for f := range l.breakAt {
				breaks[f] = l.fi.Name()
			}
		}
		var obls []Obl
		for _, l := range loops {
			if len(l.handled) < 3 {
				continue
			}
			isCH := strings.Contains(l.fi.Pkg.PkgPath, "clickhouse_planner")
			for _, a := range alts {
				key := fmt.Sprintf("%s stage %s", l.fi.Name(), a)
				switch {
				case l.handled[a]:
					obls = append(obls, Obl{Key: key, Pos: c.pos(l.rng.Pos()), Status: OK, Msg: "planned"})
				case isCH && breaks[a] != "":
					obls = append(obls, Obl{Key: key, Pos: c.pos(l.rng.Pos()), Status: OK, Msg: "not planned in SQL; unconditional split point in " + breaks[a]})
				default:
					obls = append(obls, Obl{Key: key, Pos: c.pos(l.rng.Pos()), Status: Violation,
						Msg: fmt.Sprintf("pipeline stage %s is neither planned by this dispatcher nor an unconditional split point: a query containing it is translated as if the stage were absent", a)})
				}
			}
		}
		return obls
	},
}

var ruleD5 = &Rule{
	ID:    "D5",
	Floor: 7,
	Doc: "the 15-second pre-aggregation shortcut plans no pipeline stage at all, so its admission test (the bool function walking the pipeline and returning false) " +
		"must reject every alternative of the pipeline grammar node (a nil-test of that alternative guarding `return false`)",
	Run: func(c *Ctx) []Obl {
		pipeT, alts := pipelineAlternatives(c)
		var obls []Obl
		for _, l := range c.stageLoops() {
			sig := l.fi.Pkg.TypesInfo.Defs[l.fi.Decl.Name].Type().(*types.Signature)
			if sig.Results().Len() != 1 || !types.Identical(sig.Results().At(0).Type(), types.Typ[types.Bool]) {
				continue
			}
			if len(l.rejected) == 0 {
				continue
			}
			// nil-tests guarding `return false` outside the loop (e.g. last stage is an unwrap)
			rej := map[string]bool{}
			for k := range l.rejected {
				rej[k] = true
			}
			info := l.fi.Pkg.TypesInfo
			ast.Inspect(l.fi.Decl.Body, func(n ast.Node) bool {
				is, ok := n.(*ast.IfStmt)
				if !ok {
					return true
				}
				fields, _ := nilTestedFields(info, pipeT, is.Cond)
				for _, st := range is.Body.List {
					if r, ok := st.(*ast.ReturnStmt); ok && len(r.Results) == 1 {
						if id, ok := r.Results[0].(*ast.Ident); ok && id.Name == "false" {
							for _, f := range fields {
								rej[f] = true
							}
						}
					}
				}
				return true
			})
			for _, a := range alts {
				key := fmt.Sprintf("%s stage %s", l.fi.Name(), a)
				if rej[a] {
					obls = append(obls, Obl{Key: key, Pos: c.pos(l.rng.Pos()), Status: OK, Msg: "rejected"})
				} else {
					obls = append(obls, Obl{Key: key, Pos: c.pos(l.rng.Pos()), Status: Violation,
						Msg: fmt.Sprintf("a metric query whose pipeline contains a %s stage is admitted to the 15 s shortcut, which plans no pipeline stages: the stage is silently dropped when the range is >= 15 s", a)})
				}
			}
		}
		return obls
	},
}

// ---------------------------------------------------------------------------------
// D4 zero-limit agreement

var ruleD4old = &Rule{
	ID:    "D4",
	Floor: 4,
	Doc: "limit == 0 means `no limit` in the LogQL translators: every function of reader/logql/... that reads PlannerContext.Limit to bound its output " +
		"tests it (or the local it was copied to) against zero (==, !=, >, <=); a reader that uses it unconditionally disagrees with its siblings",
	Run: func(c *Ctx) []Obl {
		var obls []Obl
		for _, fi := range c.Funcs(c.PkgsUnder("reader/logql")) {
			info := fi.Pkg.TypesInfo
			if strings.HasSuffix(c.Fset.Position(fi.Decl.Pos()).Filename, "_test.go") {
				continue
			}
			var reads []*ast.SelectorExpr
			derived := map[types.Object]bool{}
			isLimitSel := func(e ast.Expr) bool {
				se, ok := ast.Unparen(e).(*ast.SelectorExpr)
				if !ok || se.Sel.Name != "Limit" {
					return false
				}
				sel, ok := info.Selections[se]
				if !ok || sel.Kind() != types.FieldVal {
					return false
				}
				return typeIs(sel.Recv(), pkgShared, "PlannerContext")
			}
			ast.Inspect(fi.Decl.Body, func(n ast.Node) bool {
				switch x := n.(type) {
				case *ast.SelectorExpr:
					if isLimitSel(x) {
						reads = append(reads, x)
					}
				case *ast.AssignStmt:
					if len(x.Lhs) == 1 && len(x.Rhs) == 1 {
						hit := false
						ast.Inspect(x.Rhs[0], func(m ast.Node) bool {
							if e, ok := m.(ast.Expr); ok && isLimitSel(e) {
								hit = true
							}
							return true
						})
						if id, ok := x.Lhs[0].(*ast.Ident); ok && hit {
							if o := info.Defs[id]; o != nil {
								derived[o] = true
							} else if o := info.Uses[id]; o != nil {
								derived[o] = true
							}
						}
					}
				}
				return true
			})
			if len(reads) == 0 {
				continue
			}
			zeroTest := false
			ast.Inspect(fi.Decl.Body, func(n ast.Node) bool {
				be, ok := n.(*ast.BinaryExpr)
				if !ok {
					return true
				}
				switch be.Op {
				case token.EQL, token.NEQ, token.GTR, token.LEQ:
				default:
					return true
				}
				isZero := func(e ast.Expr) bool {
					tv, ok := info.Types[e]
					return ok && tv.Value != nil && tv.Value.ExactString() == "0"
				}
				isLim := func(e ast.Expr) bool {
					if isLimitSel(e) {
						return true
					}
					if id, ok := ast.Unparen(e).(*ast.Ident); ok && derived[info.Uses[id]] {
						return true
					}
					return false
				}
				if (isLim(be.X) && isZero(be.Y)) || (isLim(be.Y) && isZero(be.X)) {
					zeroTest = true
				}
				return true
			})
			key := fi.Name() + " reads PlannerContext.Limit"
			if zeroTest {
				obls = append(obls, Obl{Key: key, Pos: c.pos(reads[0].Pos()), Status: OK, Msg: "zero-tested"})
			} else {
				obls = append(obls, Obl{Key: key, Pos: c.pos(reads[0].Pos()), Status: Violation,
					Msg: "the limit is used without a zero test; the sibling planners treat 0 as `unlimited`, so a request without a limit gets a different answer on this path"})
			}
		}
		return obls
	},
}

// ---------------------------------------------------------------------------------
// D6 matcher-type totality

var ruleD6 = &Rule{
	ID:    "D6",
	Floor: 4,
	Doc: "the PromQL matcher-type → operator mapping (promql/parser.(*LabelMatcher).GetOp) returns a distinct operator string for every constant of labels.MatchType, " +
		"and the strings are exactly the four the selector translators dispatch on",
	Run: func(c *Ctx) []Obl {
		p, fd := c.FuncDecl("reader/promql/parser", "(*LabelMatcher).GetOp")
		if fd == nil {
			return []Obl{{Key: "reader/promql/parser.(*LabelMatcher).GetOp", Pos: "-", Status: Undecided, Msg: "anchor not found"}}
		}
		info := p.TypesInfo
		// enum constants of the switch tag type
		var sw *ast.SwitchStmt
		ast.Inspect(fd.Body, func(n ast.Node) bool {
			if s, ok := n.(*ast.SwitchStmt); ok && sw == nil {
				sw = s
			}
			return true
		})
		// the mapping may be a table indexed by the matcher type instead of a switch
		var table *ast.CompositeLit
		var tableIdx ast.Expr
		if sw == nil || sw.Tag == nil {
			ast.Inspect(fd.Body, func(n ast.Node) bool {
				ix, ok := n.(*ast.IndexExpr)
				if !ok || table != nil {
					return true
				}
				if id, ok := ast.Unparen(ix.X).(*ast.Ident); ok {
					if lit := c.initLiteralOf(p, info.Uses[id]); lit != nil {
						if tv, ok := info.Types[ix.X]; ok {
							if _, isMap := tv.Type.Underlying().(*types.Map); isMap {
								table, tableIdx = lit, ix.Index
							}
						}
					}
				}
				return true
			})
			if table == nil {
				return []Obl{{Key: "reader/promql/parser.(*LabelMatcher).GetOp", Pos: c.pos(fd.Pos()), Status: Undecided, Msg: "no switch over the matcher type and no table indexed by it"}}
			}
			sw = &ast.SwitchStmt{Switch: table.Pos(), Tag: tableIdx, Body: &ast.BlockStmt{}}
			for _, el := range table.Elts {
				if kv, ok := el.(*ast.KeyValueExpr); ok {
					sw.Body.List = append(sw.Body.List, &ast.CaseClause{List: []ast.Expr{kv.Key}, Body: []ast.Stmt{&ast.ReturnStmt{Results: []ast.Expr{kv.Value}}}})
				}
			}
		}
		tagT := namedOf(info.Types[sw.Tag].Type)
		if tagT == nil {
			return []Obl{{Key: "reader/promql/parser.(*LabelMatcher).GetOp", Pos: c.pos(fd.Pos()), Status: Undecided, Msg: "switch tag is not a named enum"}}
		}
		consts := map[string]bool{}
		sc := tagT.Obj().Pkg().Scope()
		for _, n := range sc.Names() {
			if k, ok := sc.Lookup(n).(*types.Const); ok && types.Identical(k.Type(), tagT) {
				consts[n] = true
			}
		}
		result := map[string]string{}
		retOf := func(body []ast.Stmt) string {
			for _, st := range body {
				if r, ok := st.(*ast.ReturnStmt); ok && len(r.Results) == 1 {
					if s, ok := constString(info, r.Results[0]); ok {
						return s
					}
				}
			}
			return ""
		}
		for _, st := range sw.Body.List {
			cc := st.(*ast.CaseClause)
			for _, e := range cc.List {
				var id *ast.Ident
				switch x := e.(type) {
				case *ast.SelectorExpr:
					id = x.Sel
				case *ast.Ident:
					id = x
				}
				if id != nil {
					if k, ok := info.Uses[id].(*types.Const); ok {
						result[k.Name()] = retOf(cc.Body)
					}
				}
			}
		}
		// fallthrough return after the switch covers the remaining constants
		rest := ""
		for i, st := range fd.Body.List {
			if st == sw && i+1 < len(fd.Body.List) {
				rest = retOf(fd.Body.List[i+1:])
			}
		}
		if table != nil {
			// the return that follows the table lookup
			rest = retOf(fd.Body.List)
		}
		var names []string
		for n := range consts {
			names = append(names, n)
		}
		sort.Strings(names)
		var obls []Obl
		used := map[string]string{}
		nRest := 0
		want := map[string]bool{"=": true, "!=": true, "=~": true, "!~": true}
		for _, n := range names {
			op, ok := result[n]
			if !ok {
				op = rest
				nRest++
			}
			key := "reader/promql/parser.(*LabelMatcher).GetOp " + n
			switch {
			case op == "":
				obls = append(obls, Obl{Key: key, Pos: c.pos(sw.Pos()), Status: Violation, Msg: "matcher type has no operator"})
			case used[op] != "":
				obls = append(obls, Obl{Key: key, Pos: c.pos(sw.Pos()), Status: Violation, Msg: fmt.Sprintf("matcher types %s and %s both map to %q", used[op], n, op)})
			case !want[op]:
				obls = append(obls, Obl{Key: key, Pos: c.pos(sw.Pos()), Status: Violation, Msg: fmt.Sprintf("operator %q is not one the selector translators dispatch on", op)})
			default:
				used[op] = n
				obls = append(obls, Obl{Key: key, Pos: c.pos(sw.Pos()), Status: OK, Msg: "→ " + op})
			}
		}
		// the semantic pairing itself
		pair := map[string]string{"MatchEqual": "=", "MatchNotEqual": "!=", "MatchRegexp": "=~", "MatchNotRegexp": "!~"}
		for i := range obls {
			n := strings.TrimPrefix(obls[i].Key, "reader/promql/parser.(*LabelMatcher).GetOp ")
			if exp, ok := pair[n]; ok && obls[i].Status == OK && obls[i].Msg != "→ "+exp {
				obls[i].Status = Violation
				obls[i].Msg = fmt.Sprintf("%s must map to %q, got %s", n, exp, obls[i].Msg)
			}
		}
		return obls
	},
}
var _ = ruleD4old

// predicateResultBool: non-empty when the function's only result is a bool (a predicate, not a dispatcher).
func predicateResultBool(fn *types.Func) []bool {
	sig := fn.Type().(*types.Signature)
	if sig.Results().Len() == 1 {
		if b, ok := sig.Results().At(0).Type().Underlying().(*types.Basic); ok && b.Kind() == types.Bool {
			return []bool{true}
		}
	}
	return nil
}
