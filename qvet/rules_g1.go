package main

import (
	"fmt"
	"go/ast"
	"go/constant"
	"go/token"
	"go/types"
	"golang.org/x/tools/go/packages"
	"regexp"
	"sort"
	"strings"
)

// g1Bind: what a caller passes for a parameter of the helper being scanned (set while the helper is scanned for one call site).
type g1Bind struct {
	fi *FuncInfo
	e  ast.Expr
}

var g1Binds = map[types.Object]g1Bind{}

// bindParams binds the parameters of hd to the arguments of call (made in fi); returns the undo function.
func bindParams(info *types.Info, hd *ast.FuncDecl, fi *FuncInfo, call *ast.CallExpr) func() {
	var bound []types.Object
	if hd.Type.Params != nil {
		i := 0
		for _, f := range hd.Type.Params.List {
			for _, nm := range f.Names {
				if obj := info.Defs[nm]; obj != nil && i < len(call.Args) {
					if _, dup := g1Binds[obj]; !dup {
						g1Binds[obj] = g1Bind{fi, call.Args[i]}
						bound = append(bound, obj)
					}
				}
				i++
			}
		}
	}
	return func() {
		for _, o := range bound {
			delete(g1Binds, o)
		}
	}
}

// astCallSites: the call expressions of module code that statically call fn.
type astSite struct {
	fi   *FuncInfo
	call *ast.CallExpr
}

func (c *Ctx) astCallSites(fn types.Object) []astSite {
	if _, ok := c.memo["astCallSites"]; !ok {
		m := map[types.Object][]astSite{}
		for _, cfi := range c.Funcs(c.Pkgs) {
			if cfi.Decl.Body == nil || strings.HasSuffix(c.Fset.Position(cfi.Decl.Pos()).Filename, "_test.go") {
				continue
			}
			cinfo := cfi.Pkg.TypesInfo
			ast.Inspect(cfi.Decl.Body, func(n ast.Node) bool {
				if call, ok := n.(*ast.CallExpr); ok {
					if o := calleeObj(cinfo, call); o != nil && strings.HasPrefix(objPkgPath(o), modPath) {
						m[o] = append(m[o], astSite{cfi, call})
					}
				}
				return true
			})
		}
		c.memo["astCallSites"] = m
	}
	return c.memo["astCallSites"].(map[types.Object][]astSite)[fn]
}

// selectGroup: one sql.NewSelect() builder — the chained calls plus later calls on the variable holding it.
type selectGroup struct {
	fi    *FuncInfo
	calls []*ast.CallExpr // builder method calls, source order
	from  *ast.CallExpr
	name  string // variable name or ""
	start token.Pos
	obj   interface{} // the variable holding the builder (types.Object), when there is one
}

// chainRoot returns the innermost receiver of a method-call chain and the calls along it (outermost first).
func chainRoot(info *types.Info, e ast.Expr) (root ast.Expr, calls []*ast.CallExpr) {
	for {
		call, ok := ast.Unparen(e).(*ast.CallExpr)
		if !ok {
			return e, calls
		}
		se, ok := ast.Unparen(call.Fun).(*ast.SelectorExpr)
		if !ok {
			return e, calls
		}
		if _, isMethod := info.Selections[se]; !isMethod {
			return e, calls
		}
		calls = append(calls, call)
		e = se.X
	}
}

func isSQLNewSelect(info *types.Info, e ast.Expr) bool {
	call, ok := ast.Unparen(e).(*ast.CallExpr)
	if !ok {
		return false
	}
	o := calleeObj(info, call)
	return o != nil && objPkgPath(o) == pkgSQL && o.Name() == "NewSelect"
}

func isISelect(t types.Type) bool {
	if t == nil {
		return false
	}
	n := namedOf(t)
	return n != nil && n.Obj().Pkg() != nil && n.Obj().Pkg().Path() == pkgSQL && (n.Obj().Name() == "ISelect" || n.Obj().Name() == "Select")
}

func (c *Ctx) selectGroups(fi *FuncInfo) []*selectGroup {
	info := fi.Pkg.TypesInfo
	byVar := map[interface{}]*selectGroup{}
	var groups []*selectGroup
	seen := map[*ast.CallExpr]bool{}
	addChain := func(g *selectGroup, calls []*ast.CallExpr) {
		for i := len(calls) - 1; i >= 0; i-- {
			if !seen[calls[i]] {
				seen[calls[i]] = true
				g.calls = append(g.calls, calls[i])
			}
		}
	}
	multi := map[interface{}][]*selectGroup{}
	// newGroup: the variable is (re)assigned a fresh NewSelect() chain at pos
	newGroup := func(obj interface{}, name string, pos token.Pos) *selectGroup {
		g := &selectGroup{fi: fi, name: name, start: pos, obj: obj}
		multi[obj] = append(multi[obj], g)
		byVar[obj] = g
		groups = append(groups, g)
		return g
	}
	// groupAt: the builder the variable holds at pos (latest assignment before pos)
	groupAt := func(obj interface{}, pos token.Pos) *selectGroup {
		var best *selectGroup
		for _, g := range multi[obj] {
			if g.start <= pos && (best == nil || g.start > best.start) {
				best = g
			}
		}
		return best
	}
	// pass 1: assignments v := <chain rooted at NewSelect()>
	ast.Inspect(fi.Decl.Body, func(n ast.Node) bool {
		as, ok := n.(*ast.AssignStmt)
		if !ok || len(as.Lhs) != len(as.Rhs) {
			return true
		}
		for i, rhs := range as.Rhs {
			root, calls := chainRoot(info, rhs)
			if len(calls) == 0 || !isSQLNewSelect(info, root) {
				continue
			}
			if id, ok := as.Lhs[i].(*ast.Ident); ok {
				obj := info.Defs[id]
				if obj == nil {
					obj = info.Uses[id]
				}
				if obj != nil {
					addChain(newGroup(obj, id.Name, as.Pos()), calls)
				}
			} else if _, ok := as.Lhs[i].(*ast.IndexExpr); ok {
				// sel[i] = sql.NewSelect()… — later calls on sel[i] belong to the same builder
				t := c.normText(as.Lhs[i])
				addChain(newGroup("text:"+t, t, as.Pos()), calls)
			}
		}
		return true
	})
	// pass 2: every other chain
	ast.Inspect(fi.Decl.Body, func(n ast.Node) bool {
		call, ok := n.(*ast.CallExpr)
		if !ok || seen[call] {
			return true
		}
		root, calls := chainRoot(info, call)
		if len(calls) == 0 {
			return true
		}
		if isSQLNewSelect(info, root) {
			g := &selectGroup{fi: fi}
			groups = append(groups, g)
			addChain(g, calls)
			return true
		}
		if id, ok := ast.Unparen(root).(*ast.Ident); ok {
			if obj := info.Uses[id]; obj != nil {
				if tv, ok := info.Types[root]; ok && isISelect(tv.Type) {
					if g := groupAt(obj, call.Pos()); g != nil {
						addChain(g, calls)
					}
				}
			}
		} else if _, ok := ast.Unparen(root).(*ast.IndexExpr); ok {
			if tv, ok := info.Types[root]; ok && isISelect(tv.Type) {
				t := c.normText(root)
				if g := groupAt("text:"+t, call.Pos()); g != nil {
					addChain(g, calls)
				}
			}
		}
		return true
	})
	for _, g := range groups {
		sort.Slice(g.calls, func(i, j int) bool { return g.calls[i].Pos() < g.calls[j].Pos() })
		for _, cl := range g.calls {
			if se, ok := ast.Unparen(cl.Fun).(*ast.SelectorExpr); ok && se.Sel.Name == "From" && len(cl.Args) == 1 {
				g.from = cl
			}
		}
	}
	return groups
}

var reTableField = regexp.MustCompile(`Table`)
var reTableLit = regexp.MustCompile("(^|[.` ])(samples_v[0-9]+|samples_read\\w*|time_series\\w*|tempo_traces\\w*|profiles\\w*|metrics_15s\\w*)$")

// baseTables resolves the table(s) an expression may denote: PlannerContext *Table* fields,
// tables.GetTableName("x") (possibly wrapped), string literals, locals assigned from those.
func (c *Ctx) baseTables(fi *FuncInfo, e ast.Expr, depth int) []string {
	info := fi.Pkg.TypesInfo
	var out []string
	if depth > 5 {
		return nil
	}
	ast.Inspect(e, func(n ast.Node) bool {
		switch x := n.(type) {
		case *ast.CallExpr:
			o := calleeObj(info, x)
			if o != nil && objPkgPath(o) == pkgSQL && (o.Name() == "NewWithRef") {
				return false
			}
			if o != nil && objPkgPath(o) == pkgSQL && (o.Name() == "NewSimpleCol" || o.Name() == "NewCol") && len(x.Args) == 2 {
				out = append(out, c.baseTables(fi, x.Args[0], depth+1)...) // the second argument is only an alias
				return false
			}
			if fn, ok := o.(*types.Func); ok && strings.HasPrefix(objPkgPath(o), modPath) && o.Name() != "GetTableName" && depth < 4 {
				// a module helper that returns the table name
				if sig := fn.Type().(*types.Signature); sig.Results().Len() == 1 && types.Identical(sig.Results().At(0).Type(), types.Typ[types.String]) {
					if hp := c.ByPath[objPkgPath(o)]; hp != nil {
						if hd := c.declOf(hp, fn); hd != nil && hd.Body != nil {
							hfi := &FuncInfo{Pkg: hp, Decl: hd}
							var got []string
							ast.Inspect(hd.Body, func(m ast.Node) bool {
								if _, isLit := m.(*ast.FuncLit); isLit {
									return false
								}
								if r, ok := m.(*ast.ReturnStmt); ok && len(r.Results) == 1 {
									got = append(got, c.baseTables(hfi, r.Results[0], depth+1)...)
								}
								return true
							})
							if len(got) > 0 {
								out = append(out, got...)
								return false
							}
						}
					}
				}
			}
			if o != nil && o.Name() == "GetTableName" && len(x.Args) == 1 {
				if s, ok := constString(info, x.Args[0]); ok {
					out = append(out, "table:"+s)
				} else {
					out = append(out, "table:?")
				}
				return false
			}
		case *ast.SelectorExpr:
			if sel, ok := info.Selections[x]; ok && sel.Kind() == types.FieldVal && reTableField.MatchString(x.Sel.Name) {
				if tv, ok := info.Types[x]; ok && types.Identical(tv.Type, types.Typ[types.String]) {
					out = append(out, "field:"+x.Sel.Name)
					return false
				}
			}
		case *ast.Ident:
			obj, _ := info.Uses[x].(*types.Var)
			if obj == nil || obj.IsField() {
				return true
			}
			if !types.Identical(obj.Type(), types.Typ[types.String]) {
				return true
			}
			// local string variable or parameter: follow assignments
			ast.Inspect(fi.Decl, func(m ast.Node) bool {
				switch s := m.(type) {
				case *ast.AssignStmt:
					for i, lh := range s.Lhs {
						if id, ok := lh.(*ast.Ident); ok && (info.Defs[id] == obj || info.Uses[id] == obj) && len(s.Rhs) == len(s.Lhs) {
							out = append(out, c.baseTables(fi, s.Rhs[i], depth+1)...)
						}
					}
				case *ast.ValueSpec:
					for i, id := range s.Names {
						if info.Defs[id] == obj && i < len(s.Values) {
							out = append(out, c.baseTables(fi, s.Values[i], depth+1)...)
						}
					}
				}
				return true
			})
			// parameter named like a table
			if fi.Decl.Type.Params != nil {
				idx := 0
				for _, f := range fi.Decl.Type.Params.List {
					for _, nm := range f.Names {
						if info.Defs[nm] == obj {
							// the table the callers pass, when every call site names one; else the parameter itself
							fnObj := info.Defs[fi.Decl.Name]
							var fromCallers []string
							resolved, callers := true, 0
							for _, cfi := range c.Funcs(c.Pkgs) {
								cinfo := cfi.Pkg.TypesInfo
								ast.Inspect(cfi.Decl.Body, func(n ast.Node) bool {
									call, ok := n.(*ast.CallExpr)
									if !ok || fnObj == nil || calleeObj(cinfo, call) != fnObj || idx >= len(call.Args) {
										return true
									}
									callers++
									bt := c.baseTables(cfi, call.Args[idx], depth+1)
									if len(bt) == 0 {
										resolved = false
									}
									fromCallers = append(fromCallers, bt...)
									return true
								})
							}
							if callers > 0 && resolved {
								out = append(out, fromCallers...)
							} else {
								out = append(out, "param:"+nm.Name)
							}
						}
						idx++
					}
				}
			}
		case *ast.BasicLit:
			if s, ok := strLit(x); ok && reTableLit.MatchString(s) {
				out = append(out, "lit:"+s)
			}
		}
		return true
	})
	return uniq(out)
}

func (c *Ctx) dumpSelects() {
	for _, fi := range c.Funcs(c.PkgsUnder("reader")) {
		if strings.HasSuffix(c.Fset.Position(fi.Decl.Pos()).Filename, "_test.go") {
			continue
		}
		for _, g := range c.selectGroups(fi) {
			if g.from == nil {
				continue
			}
			bt := c.baseTables(fi, g.from.Args[0], 0)
			fmt.Printf("%s [%s] var=%s FROM %s => %v\n", fi.Name(), c.pos(g.from.Pos()), g.name, c.normText(g.from.Args[0]), bt)
			for _, cl := range g.calls {
				se := cl.Fun.(*ast.SelectorExpr)
				if strings.Contains(se.Sel.Name, "Where") {
					for _, a := range cl.Args {
						fmt.Printf("      %s: %s\n", se.Sel.Name, c.normText(a))
					}
				}
			}
		}
	}
}

// ---------------------------------------------------------------------------------

type tableClass struct {
	index    bool // bounded by `date`
	hasTypes bool // has the log/metric `type` column
}

func classify(desc string) tableClass {
	d := strings.ToLower(desc[strings.Index(desc, ":")+1:])
	var tc tableClass
	if hasAny(d, "gin", "series", "attrs", "kv") {
		tc.index = true
	}
	if hasAny(d, "samples", "timeseries", "time_series", "metrics15", "metrics_15") || strings.HasPrefix(desc, "param:") {
		tc.hasTypes = true
	}
	return tc
}

var reFromLike = regexp.MustCompile(`(?i)^(from|start|begin|since|min)|(From|Start)(NS|Ns|Ms|MS|S)?$`)
var reToLike = regexp.MustCompile(`(?i)^(to|end|until|stop|max)([A-Z_0-9]|ns|ms|$)|(To|End)(NS|Ns|Ms|MS|S)?$`)

// boundSide reports whether an expression mentions window-start-like / window-end-like names
// (locals are followed to their definitions).
func (c *Ctx) boundSide(fi *FuncInfo, e ast.Expr, depth int) (fromLike, toLike bool) {
	info := fi.Pkg.TypesInfo
	ast.Inspect(e, func(n ast.Node) bool {
		var name string
		switch x := n.(type) {
		case *ast.SelectorExpr:
			name = x.Sel.Name
			if _, isPkg := info.Uses[x.Sel].(*types.Func); isPkg {
				name = ""
			}
		case *ast.Ident:
			name = x.Name
			if bnd, ok := g1Binds[info.Uses[x]]; ok && info.Uses[x] != nil && depth < 6 {
				// a parameter of the helper being scanned: what the caller passes decides, not the parameter's name
				saved := g1Binds[info.Uses[x]]
				delete(g1Binds, info.Uses[x])
				f, t := c.boundSide(bnd.fi, bnd.e, depth+1)
				g1Binds[info.Uses[x]] = saved
				fromLike = fromLike || f
				toLike = toLike || t
				return true
			}
			if obj, ok := info.Uses[x].(*types.Var); ok && !obj.IsField() && depth < 4 {
				ast.Inspect(fi.Decl, func(m ast.Node) bool {
					switch s := m.(type) {
					case *ast.AssignStmt:
						for i, lh := range s.Lhs {
							if id, ok := lh.(*ast.Ident); ok && (info.Defs[id] == obj || info.Uses[id] == obj) && len(s.Rhs) == len(s.Lhs) {
								f, t := c.boundSide(fi, s.Rhs[i], depth+1)
								fromLike = fromLike || f
								toLike = toLike || t
							}
						}
					case *ast.ValueSpec:
						for i, id := range s.Names {
							if info.Defs[id] == obj && i < len(s.Values) {
								f, t := c.boundSide(fi, s.Values[i], depth+1)
								fromLike = fromLike || f
								toLike = toLike || t
							}
						}
					}
					return true
				})
			}
			if _, isVar := info.Uses[x].(*types.Var); !isVar {
				name = ""
			}
		default:
			return true
		}
		if name == "" {
			return true
		}
		if reFromLike.MatchString(name) {
			fromLike = true
		}
		if reToLike.MatchString(name) {
			toLike = true
		}
		return true
	})
	return
}

// frozen, reasoned exceptions: reads whose API has no time window (one named function each)
var g1NoWindowAPI = map[string]string{
	"reader/service.(*TempoService).GetTagsRequest":                       "Tempo v1 /api/search/tags has no time parameters; the statement lists every tag key",
	"reader/service.(*TempoService).GetValuesRequest":                     "Tempo v1 /api/search/tag/{tag}/values has no time parameters",
	"reader/service.(*QueryLabelsService).GetEstimateKVComplexityRequest": "cardinality estimate (COUNT of at most 10001 fingerprints) used only to pick a strategy; no row of it reaches a response, and its only caller estimateKVComplexity is itself uncalled",
	"reader/service.(*ProfService).ProfileStats":                          "Pyroscope /stats API reports over all stored data by definition (min/max over everything)",
}

type predInfo struct {
	lowerTS, upperTS, lowerDate, upperDate, types, idIn bool
	bad                                                 []string
}

func (c *Ctx) scanPreds(fi *FuncInfo, args []ast.Expr, pi *predInfo) {
	c.scanPredsD(fi, args, pi, 0)
}

// scanPredsD also looks through what a refactoring may put between the builder call and the conditions: a local variable holding
// a condition or a condition list, and a module function that returns one (its return expressions are scanned in its own context).
func (c *Ctx) scanPredsD(fi *FuncInfo, args []ast.Expr, pi *predInfo, depth int) {
	info := fi.Pkg.TypesInfo
	for _, a := range args {
		a = ast.Unparen(a)
		if cl, ok := a.(*ast.CompositeLit); ok {
			var elts []ast.Expr
			for _, el := range cl.Elts {
				if kv, ok := el.(*ast.KeyValueExpr); ok {
					el = kv.Value
				}
				elts = append(elts, el)
			}
			c.scanPredsD(fi, elts, pi, depth)
			continue
		}
		if sel, ok := a.(*ast.SelectorExpr); ok && depth < 4 {
			// a condition kept in a field of a window / request object: what the object's literals put into that field
			if s, ok := info.Selections[sel]; ok && s.Kind() == types.FieldVal {
				fv := s.Obj()
				for _, hf := range c.Funcs([]*packages.Package{fi.Pkg}) {
					if hf.Decl.Body == nil {
						continue
					}
					ast.Inspect(hf.Decl.Body, func(n ast.Node) bool {
						cl, ok := n.(*ast.CompositeLit)
						if !ok {
							return true
						}
						for _, el := range cl.Elts {
							if kv, ok := el.(*ast.KeyValueExpr); ok {
								if kid, ok := kv.Key.(*ast.Ident); ok && hf.Pkg.TypesInfo.Uses[kid] == fv {
									c.scanPredsD(hf, []ast.Expr{kv.Value}, pi, depth+1)
								}
							}
						}
						return true
					})
				}
				continue
			}
		}
		if id, ok := a.(*ast.Ident); ok && depth < 4 {
			// local variable: every value assigned to it
			obj := info.ObjectOf(id)
			if bnd, ok := g1Binds[obj]; ok && obj != nil {
				delete(g1Binds, obj)
				c.scanPredsD(bnd.fi, []ast.Expr{bnd.e}, pi, depth+1)
				g1Binds[obj] = bnd
				continue
			}
			if v, isVar := obj.(*types.Var); isVar && !v.IsField() && fi.Decl.Body != nil {
				ast.Inspect(fi.Decl.Body, func(n ast.Node) bool {
					as, ok := n.(*ast.AssignStmt)
					if !ok {
						return true
					}
					for i, lh := range as.Lhs {
						// lower, upper := helper(…): the i-th result of the helper
						if l, ok := lh.(*ast.Ident); ok && info.ObjectOf(l) == obj && len(as.Rhs) == 1 && len(as.Lhs) > 1 {
							if call, ok := ast.Unparen(as.Rhs[0]).(*ast.CallExpr); ok {
								c.scanHelperResult(fi, call, i, pi, depth+1)
							}
							continue
						}
						if l, ok := lh.(*ast.Ident); ok && info.ObjectOf(l) == obj && i < len(as.Rhs) && len(as.Lhs) == len(as.Rhs) {
							rhs := ast.Unparen(as.Rhs[i])
							// x = append(x, conds…)
							if call, ok := rhs.(*ast.CallExpr); ok {
								if fid, ok := call.Fun.(*ast.Ident); ok && fid.Name == "append" && len(call.Args) > 1 {
									c.scanPredsD(fi, call.Args[1:], pi, depth+1)
									continue
								}
							}
							c.scanPredsD(fi, []ast.Expr{rhs}, pi, depth+1)
						}
					}
					return true
				})
			}
			continue
		}
		call, ok := a.(*ast.CallExpr)
		if !ok {
			continue
		}
		o := calleeObj(info, call)
		if o == nil {
			continue
		}
		if o.Name() == "GetTypes" {
			pi.types = true
			continue
		}
		if objPkgPath(o) != pkgSQL {
			// a module helper returning a condition / a list of conditions
			c.scanHelperResult(fi, call, 0, pi, depth)
			continue
		}
		switch o.Name() {
		case "And":
			c.scanPredsD(fi, call.Args, pi, depth)
		case "Ge", "Gt", "Le", "Lt":
			if len(call.Args) != 2 {
				continue
			}
			col := c.colText(fi, call.Args[0], 0)
			fl, tl := c.boundSide(fi, call.Args[1], 0)
			lower := o.Name() == "Ge" || o.Name() == "Gt"
			isTS := hasAny(col, "timestamp_ns", "start_time_unix_nano")
			isDate := strings.Contains(col, "date")
			if !isTS && !isDate {
				continue
			}
			okSide := (lower && fl && !tl) || (!lower && tl && !fl)
			if !okSide {
				side := "start"
				if !lower {
					side = "end"
				}
				pi.bad = append(pi.bad, fmt.Sprintf("%s(%s, %s) does not derive from the window %s", o.Name(), col, c.normText(call.Args[1]), side))
				continue
			}
			switch {
			case isTS && lower:
				pi.lowerTS = true
			case isTS && !lower:
				pi.upperTS = true
			case isDate && lower:
				pi.lowerDate = true
			case isDate && !lower:
				pi.upperDate = true
			}
		case "Eq":
			if len(call.Args) == 2 && hasAny(c.colText(fi, call.Args[0], 0), "trace_id", "fingerprint") {
				pi.idIn = true
			}
		case "NewIn":
			if len(call.Args) >= 2 {
				col := c.colText(fi, call.Args[0], 0)
				if strings.Contains(col, "type") {
					pi.types = true
				} else if hasAny(col, "fingerprint", "trace_id", "span_id") {
					pi.idIn = true
				}
			}
		}
	}
}

// scanHelperResult: the conditions a module function / method returns as its idx-th result, scanned in its own context with its
// parameters bound to the call's arguments (named results are followed through their assignments).
func (c *Ctx) scanHelperResult(fi *FuncInfo, call *ast.CallExpr, idx int, pi *predInfo, depth int) {
	info := fi.Pkg.TypesInfo
	o := calleeObj(info, call)
	fn, ok := o.(*types.Func)
	if !ok || !strings.HasPrefix(objPkgPath(o), modPath) || depth >= 4 {
		return
	}
	hp := c.ByPath[objPkgPath(o)]
	if hp == nil {
		return
	}
	hd := c.declOf(hp, fn)
	if hd == nil || hd.Body == nil {
		return
	}
	hfi := &FuncInfo{Pkg: hp, Decl: hd}
	undo := bindParams(hp.TypesInfo, hd, fi, call)
	defer undo()
	ast.Inspect(hd.Body, func(n ast.Node) bool {
		if _, isLit := n.(*ast.FuncLit); isLit {
			return false
		}
		r, ok := n.(*ast.ReturnStmt)
		if !ok {
			return true
		}
		switch {
		case len(r.Results) > idx:
			c.scanPredsD(hfi, r.Results[idx:idx+1], pi, depth+1)
		case len(r.Results) == 0 && hd.Type.Results != nil:
			// naked return: the named result
			k := 0
			for _, f := range hd.Type.Results.List {
				for _, nm := range f.Names {
					if k == idx {
						c.scanPredsD(hfi, []ast.Expr{nm}, pi, depth+1)
					}
					k++
				}
			}
		}
		return true
	})
}

// colText: the text of a column expression with the parameters of the helper being scanned replaced by what the caller passes
// (`sql.NewRawObject(col)` in `dateLower(col string)` called as `dateLower("time_series.date")`).
func (c *Ctx) colText(fi *FuncInfo, e ast.Expr, depth int) string {
	out := c.normText(e)
	if depth > 4 {
		return out
	}
	info := fi.Pkg.TypesInfo
	ast.Inspect(e, func(n ast.Node) bool {
		if ex, ok := n.(ast.Expr); ok {
			// a named constant: its value
			if tv, ok := info.Types[ex]; ok && tv.Value != nil && tv.Value.Kind() == constant.String {
				out += " " + constant.StringVal(tv.Value)
			}
		}
		id, ok := n.(*ast.Ident)
		if !ok {
			return true
		}
		obj := info.Uses[id]
		if bnd, ok := g1Binds[obj]; ok && obj != nil {
			delete(g1Binds, obj)
			out += " " + c.colText(bnd.fi, bnd.e, depth+1)
			g1Binds[obj] = bnd
		}
		return true
	})
	return out
}

var ruleG1 = &Rule{
	ID:    "G1",
	Floor: 30,
	Doc: "every base-table read is bounded: for each sql.NewSelect() builder in reader/ whose From() names a base table (a *Table* field of PlannerContext, tables.GetTableName(…), a table-name literal, followed through locals), " +
		"the union of its AndWhere/AndPreWhere predicates (sql.And flattened) must contain — data tables (samples, metrics_15s, tempo_traces, profiles): a lower timestamp bound deriving from the window start and an upper one deriving from the window end, " +
		"or an id-set restriction `<fingerprint|trace_id|span_id> IN (…)`; index tables (time_series*, *_gin, *_kv, *_series): a lower `date` bound deriving from the window start, or such an id-set restriction; " +
		"tables with the log/metric `type` column: the GetTypes(ctx) predicate or an explicit `type IN`, unless restricted by an id set that was itself typed. A bound whose operand mentions the wrong end of the window is a violation. " +
		"Reads of APIs that have no window are a frozen list (one named function each, with reason).",
	Run: func(c *Ctx) []Obl {
		var obls []Obl
		for _, fi := range c.Funcs(c.PkgsUnder("reader")) {
			if strings.HasSuffix(c.Fset.Position(fi.Decl.Pos()).Filename, "_test.go") {
				continue
			}
			n := 0
			for _, g := range c.selectGroups(fi) {
				if g.from == nil {
					continue
				}
				bt := c.baseTables(fi, g.from.Args[0], 0)
				if len(bt) == 0 {
					continue
				}
				n++
				key := fmt.Sprintf("%s read#%d of %s", fi.Name(), n, strings.Join(bt, "|"))
				pos := c.pos(g.from.Pos())
				if why, ok := g1NoWindowAPI[fi.Name()]; ok {
					obls = append(obls, Obl{Key: key, Pos: pos, Status: Exception, Msg: why})
					continue
				}
				tc := tableClass{}
				for _, b := range bt {
					k := classify(b)
					tc.index = tc.index || k.index
					tc.hasTypes = tc.hasTypes || k.hasTypes
				}
				// the function may be a helper whose conditions come from its parameters: judge it once per call site
				evalOnce := func() (*predInfo, []string) {
					pi := &predInfo{}
					for _, cl := range g.calls {
						se := cl.Fun.(*ast.SelectorExpr)
						if se.Sel.Name == "AndWhere" || se.Sel.Name == "AndPreWhere" {
							c.scanPreds(fi, cl.Args, pi)
						}
					}
					c.helperPreds(fi, g, pi, 0)
					var miss []string
					miss = append(miss, pi.bad...)
					if tc.index {
						if !pi.lowerDate && !pi.idIn {
							miss = append(miss, "no lower `date` bound deriving from the window start (and no id-set restriction)")
						}
					} else {
						if !(pi.lowerTS && pi.upperTS) && !pi.idIn {
							if !pi.lowerTS {
								miss = append(miss, "no lower timestamp bound deriving from the window start")
							}
							if !pi.upperTS {
								miss = append(miss, "no upper timestamp bound deriving from the window end")
							}
						}
					}
					if tc.hasTypes && !pi.types && !pi.idIn {
						miss = append(miss, "no signal-type predicate (GetTypes(ctx) / type IN …)")
					}
					return pi, miss
				}
				pi, miss := evalOnce()
				if sites := c.astCallSites(fi.Pkg.TypesInfo.Defs[fi.Decl.Name]); len(miss) > 0 && len(sites) > 0 && fi.Decl.Type.Params != nil && fi.Decl.Type.Params.NumFields() > 0 {
					miss = nil
					for _, site := range sites {
						undo := bindParams(fi.Pkg.TypesInfo, fi.Decl, site.fi, site.call)
						spi, smiss := evalOnce()
						undo()
						pi = spi
						for _, m := range smiss {
							miss = append(miss, m+" (as called at "+c.pos(site.call.Pos())+")")
						}
					}
					miss = uniq(miss)
				}
				if len(miss) == 0 {
					what := []string{}
					for k, v := range map[string]bool{"ts>=": pi.lowerTS, "ts<": pi.upperTS, "date>=": pi.lowerDate, "date<=": pi.upperDate, "type": pi.types, "id-set": pi.idIn} {
						if v {
							what = append(what, k)
						}
					}
					sort.Strings(what)
					obls = append(obls, Obl{Key: key, Pos: pos, Status: OK, Msg: strings.Join(what, " ")})
				} else {
					obls = append(obls, Obl{Key: key, Pos: pos, Status: Violation, Msg: "base-table read is not confined to the request: " + strings.Join(miss, "; ")})
				}
			}
		}
		return obls
	},
}

// helperPreds: the builder held in a variable is handed to a module function (as an argument) that adds conditions to it; those
// conditions are scanned in the helper's own context with its other parameters bound to the call's arguments.
func (c *Ctx) helperPreds(fi *FuncInfo, g *selectGroup, pi *predInfo, depth int) {
	obj, ok := g.obj.(types.Object)
	if !ok || obj == nil || fi.Decl.Body == nil {
		return
	}
	c.helperPredsOf(fi, obj, g.start, pi, depth)
}

func (c *Ctx) helperPredsOf(fi *FuncInfo, obj types.Object, after token.Pos, pi *predInfo, depth int) {
	if depth > 2 {
		return
	}
	info := fi.Pkg.TypesInfo
	ast.Inspect(fi.Decl.Body, func(n ast.Node) bool {
		call, ok := n.(*ast.CallExpr)
		if !ok || call.Pos() < after {
			return true
		}
		o := calleeObj(info, call)
		fn, isFn := o.(*types.Func)
		if !isFn || !strings.HasPrefix(objPkgPath(o), modPath) || objPkgPath(o) == pkgSQL {
			return true
		}
		idx := -1
		for i, a := range call.Args {
			if id, ok := ast.Unparen(a).(*ast.Ident); ok && info.Uses[id] == obj {
				idx = i
			}
		}
		if idx < 0 {
			return true
		}
		hp := c.ByPath[objPkgPath(o)]
		if hp == nil {
			return true
		}
		hd := c.declOf(hp, fn)
		if hd == nil || hd.Body == nil || hd.Type.Params == nil {
			return true
		}
		// the helper's parameter that receives the builder
		var pobj types.Object
		i := 0
		for _, f := range hd.Type.Params.List {
			for _, nm := range f.Names {
				if i == idx {
					pobj = hp.TypesInfo.Defs[nm]
				}
				i++
			}
		}
		if pobj == nil {
			return true
		}
		hfi := &FuncInfo{Pkg: hp, Decl: hd}
		undo := bindParams(hp.TypesInfo, hd, fi, call)
		delete(g1Binds, pobj)
		ast.Inspect(hd.Body, func(m ast.Node) bool {
			hc, ok := m.(*ast.CallExpr)
			if !ok {
				return true
			}
			root, calls := chainRoot(hp.TypesInfo, hc)
			if id, ok := ast.Unparen(root).(*ast.Ident); ok && hp.TypesInfo.Uses[id] == pobj {
				for _, cl := range calls {
					if se, ok := cl.Fun.(*ast.SelectorExpr); ok && (se.Sel.Name == "AndWhere" || se.Sel.Name == "AndPreWhere") {
						c.scanPredsD(hfi, cl.Args, pi, 1)
					}
				}
			}
			return true
		})
		c.helperPredsOf(hfi, pobj, token.NoPos, pi, depth+1)
		undo()
		return true
	})
}

func init() { register(ruleG1) }
