package main

type Property struct {
	Rules       []string
	Explanation string
	NotCovered  string
	Assumptions []string
	Filter      func(rule string, obls []Obl) []Obl
	Technique   string
}

var allRules = []*Rule{}

func register(rs ...*Rule) { allRules = append(allRules, rs...) }

func ruleByID(id string) *Rule {
	for _, r := range allRules {
		if r.ID == id {
			return r
		}
	}
	return nil
}

func init() {
	register(ruleD1, ruleD2, ruleD3, ruleD4, ruleD5, ruleD6)
}

var properties = map[string]*Property{}
