package main

// Control-flow helpers over golang.org/x/tools/go/cfg: dominators, node→block lookup,
// "which edge is taken when this comparison is false", "is the error of this call checked".

import (
	"go/ast"
	"go/token"
	"go/types"

	"golang.org/x/tools/go/cfg"
)

type FuncCFG struct {
	c    *Ctx
	fi   *FuncInfo
	body *ast.BlockStmt
	g    *cfg.CFG
	idom map[*cfg.Block]*cfg.Block
	pred map[*cfg.Block][]*cfg.Block
}

func (c *Ctx) cfgOf(fi *FuncInfo, body *ast.BlockStmt) *FuncCFG {
	info := fi.Pkg.TypesInfo
	mayReturn := func(call *ast.CallExpr) bool {
		if id, ok := ast.Unparen(call.Fun).(*ast.Ident); ok && id.Name == "panic" {
			if _, isBuiltin := info.Uses[id].(*types.Builtin); isBuiltin {
				return false
			}
		}
		if o := calleeObj(info, call); o != nil && objPkgPath(o) == "os" && o.Name() == "Exit" {
			return false
		}
		return true
	}
	f := &FuncCFG{c: c, fi: fi, body: body, g: cfg.New(body, mayReturn)}
	f.pred = map[*cfg.Block][]*cfg.Block{}
	for _, b := range f.g.Blocks {
		for _, s := range b.Succs {
			f.pred[s] = append(f.pred[s], b)
		}
	}
	f.computeDom()
	return f
}

func (f *FuncCFG) computeDom() {
	blocks := f.g.Blocks
	if len(blocks) == 0 {
		return
	}
	entry := blocks[0]
	// reverse postorder
	var order []*cfg.Block
	seen := map[*cfg.Block]bool{}
	var dfs func(b *cfg.Block)
	dfs = func(b *cfg.Block) {
		seen[b] = true
		for _, s := range b.Succs {
			if !seen[s] {
				dfs(s)
			}
		}
		order = append(order, b)
	}
	dfs(entry)
	for i, j := 0, len(order)-1; i < j; i, j = i+1, j-1 {
		order[i], order[j] = order[j], order[i]
	}
	num := map[*cfg.Block]int{}
	for i, b := range order {
		num[b] = i
	}
	idom := map[*cfg.Block]*cfg.Block{entry: entry}
	intersect := func(a, b *cfg.Block) *cfg.Block {
		for a != b {
			for num[a] > num[b] {
				a = idom[a]
			}
			for num[b] > num[a] {
				b = idom[b]
			}
		}
		return a
	}
	for changed := true; changed; {
		changed = false
		for _, b := range order[1:] {
			var nd *cfg.Block
			for _, p := range f.pred[b] {
				if _, ok := idom[p]; !ok {
					continue
				}
				if nd == nil {
					nd = p
				} else {
					nd = intersect(p, nd)
				}
			}
			if nd != nil && idom[b] != nd {
				idom[b] = nd
				changed = true
			}
		}
	}
	f.idom = idom
}

// Reachable reports whether the block is reachable from the entry.
func (f *FuncCFG) Reachable(b *cfg.Block) bool { _, ok := f.idom[b]; return ok }

// Dominates: a dominates b (reflexive).
func (f *FuncCFG) Dominates(a, b *cfg.Block) bool {
	if !f.Reachable(b) {
		return false
	}
	for {
		if a == b {
			return true
		}
		n := f.idom[b]
		if n == nil || n == b {
			return false
		}
		b = n
	}
}

// BlockOf returns the block whose node list contains (an ancestor of) the node at pos.
func (f *FuncCFG) BlockOf(n ast.Node) (*cfg.Block, int) {
	for _, b := range f.g.Blocks {
		for i, bn := range b.Nodes {
			if bn.Pos() <= n.Pos() && n.End() <= bn.End() {
				// skip enclosing function literals' bodies: cfg does not descend into them, so a match here is right
				return b, i
			}
		}
	}
	return nil, -1
}

// NodeBefore: within the function, node a is executed before node b on every path reaching b
// (a's block dominates b's block, or same block and earlier).
func (f *FuncCFG) NodeDominates(a, b ast.Node) bool {
	ba, ia := f.BlockOf(a)
	bb, ib := f.BlockOf(b)
	if ba == nil || bb == nil {
		return false
	}
	if ba == bb {
		return ia <= ib && a.Pos() <= b.Pos()
	}
	return f.Dominates(ba, bb)
}

// CondEdges: for a block that ends in a condition expression, the successor taken when it is
// true and when it is false.
func condEdges(b *cfg.Block) (cond ast.Expr, t, e *cfg.Block) {
	if len(b.Succs) != 2 || len(b.Nodes) == 0 {
		return nil, nil, nil
	}
	c, ok := b.Nodes[len(b.Nodes)-1].(ast.Expr)
	if !ok {
		return nil, nil, nil
	}
	return c, b.Succs[0], b.Succs[1]
}

// allPathsReturn: every path from b ends in a return (or panic) without leaving through `stop`.
func (f *FuncCFG) leadsOnlyToExit(b *cfg.Block, avoid *cfg.Block) bool {
	seen := map[*cfg.Block]bool{}
	var walk func(x *cfg.Block) bool
	walk = func(x *cfg.Block) bool {
		if x == avoid {
			return false
		}
		if seen[x] {
			return true
		}
		seen[x] = true
		for _, s := range x.Succs {
			if !walk(s) {
				return false
			}
		}
		return true
	}
	return walk(b)
}

// errVarOfCall: the call's error result is assigned to a variable in an assignment / define
// statement; returns that variable and the statement.
func (f *FuncCFG) errVarOfCall(call *ast.CallExpr) (types.Object, ast.Stmt) {
	info := f.fi.Pkg.TypesInfo
	var obj types.Object
	var stmt ast.Stmt
	ast.Inspect(f.body, func(n ast.Node) bool {
		as, ok := n.(*ast.AssignStmt)
		if !ok || len(as.Rhs) != 1 || ast.Unparen(as.Rhs[0]) != ast.Expr(call) {
			return true
		}
		last, ok := as.Lhs[len(as.Lhs)-1].(*ast.Ident)
		if !ok || last.Name == "_" {
			return true
		}
		o := info.Defs[last]
		if o == nil {
			o = info.Uses[last]
		}
		if o != nil && types.Identical(o.Type(), types.Universe.Lookup("error").Type()) {
			obj, stmt = o, as
		}
		return true
	})
	return obj, stmt
}

// SuccessBlock returns the block entered only when the error returned by call is nil:
// the call's error is assigned to v, the next condition on every path tests v (v != nil / v == nil),
// and the failure edge leaves the function. nil when the error is not checked that way.
// `return f(...)` (the call's results returned directly) is reported by returnsDirectly.
func (f *FuncCFG) SuccessBlock(call *ast.CallExpr) *cfg.Block {
	info := f.fi.Pkg.TypesInfo
	v, stmt := f.errVarOfCall(call)
	if v == nil {
		return nil
	}
	b, idx := f.BlockOf(stmt)
	if b == nil {
		return nil
	}
	// no reassignment of v and no other condition between stmt and the test: look at the end of this block
	for _, n := range b.Nodes[idx+1:] {
		if as, ok := n.(*ast.AssignStmt); ok {
			for _, lh := range as.Lhs {
				if id, ok := lh.(*ast.Ident); ok && (info.Uses[id] == v || info.Defs[id] == v) {
					return nil
				}
			}
		}
	}
	cond, t, e := condEdges(b)
	if cond == nil {
		return nil
	}
	isV := func(x ast.Expr) bool {
		id, ok := ast.Unparen(x).(*ast.Ident)
		return ok && info.Uses[id] == v
	}
	isNil := func(x ast.Expr) bool { tv, ok := info.Types[x]; return ok && tv.IsNil() }
	isNilTest := func(a ast.Expr, op token.Token) bool {
		be, ok := ast.Unparen(a).(*ast.BinaryExpr)
		return ok && be.Op == op && ((isV(be.X) && isNil(be.Y)) || (isV(be.Y) && isNil(be.X)))
	}
	var fail, succ *cfg.Block
	// on the false edge every disjunct is false; on the true edge every conjunct is true
	for _, a := range atomsFalseOn(cond) {
		if isNilTest(a, token.NEQ) {
			fail, succ = t, e
		}
	}
	for _, a := range atomsTrueOn(cond) {
		if isNilTest(a, token.EQL) {
			fail, succ = e, t
		}
	}
	if succ == nil {
		return nil
	}
	// the failure edge must not fall through into the success continuation
	if !f.failureLeaves(fail, succ) {
		return nil
	}
	return succ
}

// atomsFalseOn: the atomic conditions known to be false when e evaluates to false.
func atomsFalseOn(e ast.Expr) []ast.Expr {
	e = ast.Unparen(e)
	switch x := e.(type) {
	case *ast.BinaryExpr:
		if x.Op == token.LOR {
			return append(atomsFalseOn(x.X), atomsFalseOn(x.Y)...)
		}
		if x.Op == token.LAND {
			return nil
		}
	case *ast.UnaryExpr:
		if x.Op == token.NOT {
			return negAtoms(atomsTrueOn(x.X))
		}
	}
	return []ast.Expr{e}
}

// atomsTrueOn: the atomic conditions known to be true when e evaluates to true.
func atomsTrueOn(e ast.Expr) []ast.Expr {
	e = ast.Unparen(e)
	switch x := e.(type) {
	case *ast.BinaryExpr:
		if x.Op == token.LAND {
			return append(atomsTrueOn(x.X), atomsTrueOn(x.Y)...)
		}
		if x.Op == token.LOR {
			return nil
		}
	case *ast.UnaryExpr:
		if x.Op == token.NOT {
			return negAtoms(atomsFalseOn(x.X))
		}
	}
	return []ast.Expr{e}
}

// negAtoms is only used to carry atoms through a negation: `!(a)` true  ⇒ a false. The callers
// ask for "false atoms" / "true atoms" separately, so a negated group contributes nothing to the other polarity.
func negAtoms(a []ast.Expr) []ast.Expr { return nil }

// failureLeaves: from the failure successor every path returns / exits, or (with `||` chains)
// reaches only blocks from which the success continuation is unreachable.
func (f *FuncCFG) failureLeaves(fail, succ *cfg.Block) bool {
	seen := map[*cfg.Block]bool{}
	var walk func(x *cfg.Block) bool
	walk = func(x *cfg.Block) bool {
		if x == succ {
			return false
		}
		if seen[x] {
			return true
		}
		seen[x] = true
		for _, s := range x.Succs {
			if !walk(s) {
				return false
			}
		}
		return true
	}
	return walk(fail)
}

// returnedDirectly: the call expression is (one of) the results of a return statement.
func returnedDirectly(body *ast.BlockStmt, call *ast.CallExpr) bool {
	hit := false
	ast.Inspect(body, func(n ast.Node) bool {
		if r, ok := n.(*ast.ReturnStmt); ok {
			for _, e := range r.Results {
				if ast.Unparen(e) == ast.Expr(call) {
					hit = true
				}
			}
		}
		return true
	})
	return hit
}

// enclosingLoop returns the innermost for/range statement of body that contains n.
func enclosingLoop(body *ast.BlockStmt, n ast.Node) ast.Stmt {
	var best ast.Stmt
	ast.Inspect(body, func(m ast.Node) bool {
		switch l := m.(type) {
		case *ast.ForStmt:
			if l.Body.Pos() <= n.Pos() && n.End() <= l.Body.End() {
				best = l
			}
		case *ast.RangeStmt:
			if l.Body.Pos() <= n.Pos() && n.End() <= l.Body.End() {
				best = l
			}
		}
		return true
	})
	return best
}

func blockOfIface(v interface{}) *cfg.Block {
	b, _ := v.(*cfg.Block)
	return b
}
