package main

// Engine: loading of /repo's current working tree, obligation bookkeeping,
// evidence / replay / known-findings plumbing.  Nothing here executes qryn code.

import (
	"encoding/json"
	"fmt"
	"go/ast"
	"go/token"
	"go/types"
	"os"
	"path/filepath"
	"sort"
	"strings"
	"time"

	"golang.org/x/tools/go/packages"
	"golang.org/x/tools/go/ssa"
	"golang.org/x/tools/go/ssa/ssautil"
)

const modPath = "github.com/metrico/qryn"

// Packages of the pinned tree that do not type-check and that nothing imports.
var brokenAllow = map[string]string{
	modPath + "/writer/http":                   "dead package: controller argument order predates the net/http port; imported by nothing",
	modPath + "/reader/utils/unmarshal/legacy": "dead package: refers to a model package that no longer exists; imported by nothing",
}

// Status of one rule instance.
const (
	OK        = "ok"
	Violation = "violation"
	Undecided = "undecided"
	Exception = "exception" // frozen, reasoned exception (counts as discharged, printed in evidence)
	Info      = "info"      // informational, not an obligation
)

// Obl is one rule instance ("obligation") enumerated on the current tree.
type Obl struct {
	Rule   string   `json:"rule"`
	Key    string   `json:"construct"` // rule-specific, position independent identity
	Pos    string   `json:"pos"`       // file:line (diagnostic only, never identity)
	Status string   `json:"status"`
	Msg    string   `json:"msg,omitempty"`
	Path   []string `json:"path,omitempty"`
}

type Rule struct {
	ID    string
	Doc   string // the rule text, printed in evidence and replay files
	Floor int    // minimum number of instances confirmed by hand on the pinned tree
	Run   func(c *Ctx) []Obl
}

type Ctx struct {
	RepoDir  string
	Overlay  map[string][]byte
	Tags     string
	loaded   bool
	Fset     *token.FileSet
	Pkgs     []*packages.Package // repo packages (syntax + types)
	ByPath   map[string]*packages.Package
	LoadErr  []string
	prog     *ssa.Program
	ssaPkgs  map[string]*ssa.Package
	cg       *CallGraph
	loadSecs float64
	memo     map[string]interface{}
}

// readFile reads a repository file, honouring the in-memory overlay of a self-test variant.
func (c *Ctx) readFile(path string) ([]byte, error) {
	if b, ok := c.Overlay[path]; ok {
		return b, nil
	}
	return os.ReadFile(path)
}

// lastCtx: the context of the load in progress, for helpers that compare SSA values and need the program (pure-getter summaries)
var lastCtx *Ctx

func NewCtx(repo string) *Ctx {
	lastCtx = &Ctx{RepoDir: repo, memo: map[string]interface{}{}}
	return lastCtx
}

func goEnv() []string {
	env := []string{}
	for _, e := range os.Environ() {
		if strings.HasPrefix(e, "GOWORK=") || strings.HasPrefix(e, "GOFLAGS=") || strings.HasPrefix(e, "GOPROXY=") {
			continue
		}
		env = append(env, e)
	}
	return append(env, "GOFLAGS=-mod=mod", "GOPROXY=off", "GOWORK=off")
}

// Load type-checks every package of the module from source (dependencies from export data).
func (c *Ctx) Load() {
	if c.loaded {
		return
	}
	c.loaded = true
	t0 := time.Now()
	cfg := &packages.Config{
		Mode:    packages.LoadSyntax | packages.NeedModule,
		Dir:     c.RepoDir,
		Env:     goEnv(),
		Overlay: c.Overlay,
		Tests:   false,
	}
	if c.Tags != "" {
		cfg.BuildFlags = []string{"-tags=" + c.Tags}
	}
	pkgs, err := packages.Load(cfg, "./...")
	if err != nil {
		c.LoadErr = append(c.LoadErr, "packages.Load: "+err.Error())
		return
	}
	c.ByPath = map[string]*packages.Package{}
	for _, p := range pkgs {
		if len(p.Errors) > 0 {
			if _, ok := brokenAllow[p.PkgPath]; ok {
				continue
			}
			for _, e := range p.Errors {
				c.LoadErr = append(c.LoadErr, fmt.Sprintf("%s: %s", p.PkgPath, e.Error()))
			}
			continue
		}
		if p.Types == nil || p.TypesInfo == nil {
			c.LoadErr = append(c.LoadErr, p.PkgPath+": no type information")
			continue
		}
		c.Pkgs = append(c.Pkgs, p)
		c.ByPath[p.PkgPath] = p
		c.Fset = p.Fset
	}
	sort.Slice(c.Pkgs, func(i, j int) bool { return c.Pkgs[i].PkgPath < c.Pkgs[j].PkgPath })
	if len(c.Pkgs) < 40 {
		c.LoadErr = append(c.LoadErr, fmt.Sprintf("only %d packages loaded from %s (expected the whole module)", len(c.Pkgs), c.RepoDir))
	}
	c.loadSecs = time.Since(t0).Seconds()
}

// Pkg returns the repo package with the module-relative path rel ("" = root).
func (c *Ctx) Pkg(rel string) *packages.Package {
	c.Load()
	p := modPath
	if rel != "" {
		p += "/" + rel
	}
	return c.ByPath[p]
}

// SSA builds SSA for the repo packages (bodies for the module only; dependencies are type-only).
func (c *Ctx) SSA() *ssa.Program {
	c.Load()
	if c.prog != nil {
		return c.prog
	}
	prog, spkgs := ssautil.Packages(c.Pkgs, ssa.InstantiateGenerics)
	c.ssaPkgs = map[string]*ssa.Package{}
	for i, sp := range spkgs {
		if sp != nil {
			c.ssaPkgs[c.Pkgs[i].PkgPath] = sp
		}
	}
	prog.Build()
	c.prog = prog
	return prog
}

func (c *Ctx) SSAPkg(rel string) *ssa.Package {
	c.SSA()
	p := modPath
	if rel != "" {
		p += "/" + rel
	}
	return c.ssaPkgs[p]
}

// pos renders a position relative to the repo root.
func (c *Ctx) pos(p token.Pos) string {
	if !p.IsValid() || c.Fset == nil {
		return "-"
	}
	ps := c.Fset.Position(p)
	f := ps.Filename
	if r, err := filepath.Rel(c.RepoDir, f); err == nil && !strings.HasPrefix(r, "..") {
		f = r
	}
	return fmt.Sprintf("%s:%d", f, ps.Line)
}

func rel(pkgPath string) string {
	return strings.TrimPrefix(strings.TrimPrefix(pkgPath, modPath), "/")
}

// FuncDecl finds a top-level function or method: name "F" or "(*T).M" / "T.M".
func (c *Ctx) FuncDecl(pkgRel, name string) (*packages.Package, *ast.FuncDecl) {
	p := c.Pkg(pkgRel)
	if p == nil {
		return nil, nil
	}
	for _, f := range p.Syntax {
		for _, d := range f.Decls {
			fd, ok := d.(*ast.FuncDecl)
			if !ok {
				continue
			}
			if declName(fd) == name {
				return p, fd
			}
		}
	}
	return p, nil
}

func declName(fd *ast.FuncDecl) string {
	if fd.Recv == nil || len(fd.Recv.List) == 0 {
		return fd.Name.Name
	}
	t := fd.Recv.List[0].Type
	star := false
	if s, ok := t.(*ast.StarExpr); ok {
		star = true
		t = s.X
	}
	// strip type parameters
	switch x := t.(type) {
	case *ast.IndexExpr:
		t = x.X
	case *ast.IndexListExpr:
		t = x.X
	}
	id, _ := t.(*ast.Ident)
	n := "?"
	if id != nil {
		n = id.Name
	}
	if star {
		return "(*" + n + ")." + fd.Name.Name
	}
	return n + "." + fd.Name.Name
}

// SSAFunc finds the ssa.Function for a package-level function or method.
func (c *Ctx) SSAFunc(pkgRel, name string) *ssa.Function {
	sp := c.SSAPkg(pkgRel)
	if sp == nil {
		return nil
	}
	if !strings.Contains(name, ".") {
		return sp.Func(name)
	}
	// method
	star := strings.HasPrefix(name, "(*")
	n := strings.TrimPrefix(name, "(*")
	parts := strings.SplitN(n, ".", 2)
	tn := strings.TrimSuffix(parts[0], ")")
	tobj := sp.Pkg.Scope().Lookup(tn)
	if tobj == nil {
		return nil
	}
	var T types.Type = tobj.Type()
	if star {
		T = types.NewPointer(T)
	}
	ms := c.prog.MethodSets.MethodSet(T)
	for i := 0; i < ms.Len(); i++ {
		if ms.At(i).Obj().Name() == parts[1] {
			return c.prog.MethodValue(ms.At(i))
		}
	}
	return nil
}

// ---------------------------------------------------------------------------------
// known findings

type KnownFinding struct {
	Property string `json:"property"`
	Rule     string `json:"rule"`
	Key      string `json:"construct"`
	What     string `json:"what"`
	Status   string `json:"status"` // "known" | "fixed"
	Commit   string `json:"commit,omitempty"`
}

func loadKnown(verifDir string) ([]KnownFinding, error) {
	b, err := os.ReadFile(filepath.Join(verifDir, "known_findings.json"))
	if err != nil {
		if os.IsNotExist(err) {
			return nil, nil
		}
		return nil, err
	}
	var doc struct {
		Findings []KnownFinding `json:"findings"`
	}
	if err := json.Unmarshal(b, &doc); err != nil {
		return nil, err
	}
	return doc.Findings, nil
}

// ---------------------------------------------------------------------------------
// evidence

type Evidence struct {
	PropertyID  string                 `json:"property_id"`
	Tier        string                 `json:"tier"`
	Seed        int                    `json:"seed"`
	Level       string                 `json:"level"`
	Coverage    map[string]interface{} `json:"coverage"`
	Assumptions []string               `json:"assumptions"`
	WallS       float64                `json:"wall_s"`
	Violations  int                    `json:"violations"`
}

func writeJSON(path string, v interface{}) error {
	b, err := json.MarshalIndent(v, "", " ")
	if err != nil {
		return err
	}
	if err := os.MkdirAll(filepath.Dir(path), 0o755); err != nil {
		return err
	}
	return os.WriteFile(path, append(b, '\n'), 0o644)
}

func sortObls(o []Obl) {
	sort.SliceStable(o, func(i, j int) bool {
		if o[i].Rule != o[j].Rule {
			return o[i].Rule < o[j].Rule
		}
		if o[i].Key != o[j].Key {
			return o[i].Key < o[j].Key
		}
		return o[i].Pos < o[j].Pos
	})
}
