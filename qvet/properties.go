package main

import "strings"

// keep obligations whose construct key matches pred; engine-level records are always kept.
func keepIf(pred func(rule, key string) bool) func(string, []Obl) []Obl {
	return func(rule string, obls []Obl) []Obl {
		var out []Obl
		for _, o := range obls {
			if o.Key == "instance-floor" || o.Key == "analysis-panic" || o.Key == "missing-rule" || o.Status == Undecided || pred(rule, o.Key) {
				out = append(out, o)
			}
		}
		return out
	}
}

func hasAny(s string, subs ...string) bool {
	for _, x := range subs {
		if strings.Contains(s, x) {
			return true
		}
	}
	return false
}

// receivers of the ClickHouse-side LogQL planners that implement metric (C08) rather than log selection (C07) semantics
var metricPlanners = []string{"(*LRAPlanner)", "(*UnwrapFunctionPlanner)", "(*AggOpPlanner)", "(*ComparisonPlanner)", "(*TopKPlanner)",
	"(*QuantilePlanner)", "(*Metrics15ShortcutPlanner)", "AnalyzeMetrics15sShortcut", "(*ByWithoutPlanner)", "(*StepFixPlanner)"}

const commonAssume = "the OSS build registers no planner plugins (rule P0 verifies that nothing reachable from main calls a plugins.Register* function)"

func init() {
	properties["C07"] = &Property{
		Rules: []string{"P0", "D1", "D2", "D3"},
		Explanation: "Decides only the dispatch-shaped necessary conditions of C07 on the ClickHouse-side LogQL log-selection planners: (D1) every pipeline-stage kind of the grammar is planned or forces the split to the in-process engine; " +
			"(D2) no two operators of one switch are translated identically and complementary operators differ on every result leaf (a lost negation is exactly such an equality); (D3) each comparison-operator clause builds that comparison. " +
			"Obligations are the enumerated (switch, label pair) / (switch, operator clause) / (dispatcher, stage) instances; all are enumerated from the type-checked syntax of /repo on every run.",
		NotCovered:  "That the generated SQL returns exactly the matching lines on all data (needs an execution oracle: different technique family); LIKE/regex translation of values; limit/direction; label attribution.",
		Assumptions: []string{commonAssume, "case labels are the literal operator spellings captured by the participle grammar tags"},
		Filter: keepIf(func(rule, key string) bool {
			if rule == "P0" {
				return true
			}
			if !strings.HasPrefix(key, "reader/logql/logql_transpiler_v2/clickhouse_planner.") && !strings.HasPrefix(key, "reader/logql/logql_transpiler_v2.") {
				return false
			}
			return !hasAny(key, metricPlanners...)
		}),
	}
	properties["C08"] = &Property{
		Rules: []string{"P0", "D1", "D2", "D3", "D5"},
		Explanation: "Decides only dispatch-shaped necessary conditions of C08 on the ClickHouse-side metric planners: (D2) range functions / vector operators / comparison operators of one switch are pairwise distinguishable (a copy-pasted divisor or min/max body makes two of them equal); " +
			"(D3) comparison clauses build their own operator; (D1) every pipeline stage is planned or forces the split; (D5) the 15-second shortcut — which plans no pipeline stage — rejects every stage kind, so that `every pipeline stage written in the query takes effect whatever the range duration`.",
		NotCovered:  "Numerical equality of the SQL result with the bucketing definition; by/without grouping identity; topk; window widening — all need execution over data.",
		Assumptions: []string{commonAssume},
		Filter: keepIf(func(rule, key string) bool {
			if rule == "P0" || rule == "D5" || rule == "D1" {
				return rule != "D1" || strings.Contains(key, "clickhouse_planner")
			}
			if rule == "D7" {
				return strings.Contains(key, "clickhouse_planner") && hasAny(key, "&LRAPlanner", "&UnwrapFunctionPlanner", "&AggOpPlanner", "&ComparisonPlanner", "&TopKPlanner", "&QuantilePlanner", "&ByWithoutPlanner", "&StepFixPlanner")
			}
			return strings.HasPrefix(key, "reader/logql/logql_transpiler_v2/clickhouse_planner.") && hasAny(key, metricPlanners...)
		}),
	}
	properties["C09"] = &Property{
		Rules: []string{"P0", "D1", "D2", "D3", "D4"},
		Explanation: "Decides only dispatch-shaped necessary conditions of C09 on the in-process engine (reader/logql/logql_transpiler_v2/internal_planner): (D1) its stage dispatcher is total over the pipeline grammar (every stage after the split point lands here); " +
			"(D2) operator / function cases are pairwise distinguishable, across the addValue/finalize sibling switches; (D3) comparison clauses build their operator with the runtime datum normalised to the left; (D4) every LogQL planner that bounds output by PlannerContext.Limit tests it against zero, i.e. both engines read `limit absent` the same way.",
		NotCovered:  "Equality of entries/values between the two engines on all data and batchings; series identity; schedules of the channel pipeline.",
		Assumptions: []string{commonAssume},
		Filter: keepIf(func(rule, key string) bool {
			if rule == "P0" || rule == "D4" {
				return true
			}
			return strings.HasPrefix(key, "reader/logql/logql_transpiler_v2/internal_planner.")
		}),
	}
	properties["C10"] = &Property{
		Rules: []string{"P0", "E1", "E3", "E4"},
		Explanation: "Decides C10 as a static information-flow property: request text reaches SQL text only through the literal-escaping routine. (E1) Every raw-SQL sink under reader/ — sql.NewRawObject / NewSimpleCol / FmtRawObject arguments, NewCol / NewWith aliases, join types, and the text returned by every String(*sql.Ctx, …) renderer and custom-column closure — is traced backwards over SSA (phis, concatenation, fmt/strings transforms, struct fields, parameters to all call sites, closures, dynamic calls through the call graph); " +
			"each leaf must be a constant, a number, a table name, a grammar field whose participle tag captures only token classes that cannot contain quote / backslash / blank (decided from the lexer regexps), a rendered sub-object, or a database value. Request text at a leaf (quoted-string grammar fields, HTTP / mux accessors, decoded request messages) is a violation. " +
			"(E3) The escaping routine itself doubles the backslash before it escapes the quote, replaces every occurrence, and wraps the value in quotes. (E4) Text that left the escaping routine is only concatenated / formatted, or rewritten by operations that keep escape sequences balanced; replacing backslashes or quotes in it, slicing it or trimming more than its enclosing quotes is a violation. (P0) no plugin can replace the planners.",
		NotCovered:  "That the statement as a whole is valid SQL; identifier positions filled from lexer-restricted tokens are accepted on the strength of the lexer regexps (not re-validated at the sink); values that reach SQL as numbers are accepted by type; the analysis is field-based (one abstract cell per struct field), so it over-approximates flows — it cannot miss a flow through the modelled constructs but reflection, unsafe and cgo are not modelled (none occur under reader/).",
		Assumptions: []string{commonAssume, "ClickHouse string literals end at the first unescaped single quote and use backslash as the escape character"},
	}
	properties["C11"] = &Property{
		Rules: []string{"P0", "D2", "D3"},
		Explanation: "Decides only dispatch-shaped necessary conditions of C11 in the TraceQL translators (reader/traceql/...): operator, aggregator and &&/|| cases are pairwise distinguishable (D2) and each comparison clause builds its own operator (D3). " +
			"The window clauses of C11 are decided under C13 (rule G1 covers the TraceQL base-table reads).",
		NotCovered:  "That the SQL selects exactly the described traces; validity of the statement; limit/most-recent ordering.",
		Assumptions: []string{commonAssume},
		Filter: keepIf(func(rule, key string) bool {
			return rule == "P0" || strings.HasPrefix(key, "reader/traceql/")
		}),
	}
	properties["C17"] = &Property{
		Rules: []string{"P0", "D2", "D3", "D6"},
		Explanation: "Decides only the matcher-dispatch necessary conditions of C17: (D6) the Prometheus matcher-type → operator mapping is total and injective over labels.MatchType and yields exactly =, !=, =~, !~ in that pairing; " +
			"(D2/D3) the selector translators shared by PromQL and Pyroscope (stream-select bitmask planner, prof/transpiler getMatcherClause, promql transpiler) dispatch those four operators to pairwise different predicates, complementary ones differing on every leaf.",
		NotCovered:  "Series grouping, sample ordering, the seek/next cursor contract beyond the one structural clause of D15 (the bisection result is a bound) — e.g. that the bounds are moved correctly, or that Seek never moves backwards — and PromQL evaluation: these are behaviours over data and call sequences.",
		Assumptions: []string{commonAssume},
		Filter: keepIf(func(rule, key string) bool {
			return rule == "P0" || rule == "D6" || hasAny(key, "reader/promql/", "reader/prof/transpiler", "(*StreamSelectPlanner)", "(*SimpleLabelFilterPlanner)")
		}),
	}
	properties["C13"] = &Property{
		Rules: []string{"P0", "G1", "G2", "G3", "G4"},
		Explanation: "Decides the structural confinement clauses of C13 for every statement built with the sql_select builder under reader/ (all request-time reads are; raw SELECT text exists only for the settings table): " +
			"(G1) every base-table read carries a lower and an upper timestamp bound derived from the window start / end (data tables), a lower `date` bound derived from the window start (index tables), or an id-set restriction, and the signal-type predicate on tables that have the `type` column; " +
			"(G2) the start-minus-30-minutes safety-margin formatter is only ever a lower bound; (G3) every date text used as a bound and every value stored into a `date` column is UTC-normalised, so the reader's day bounds and the writer's stored days agree in every process time zone; " +
			"(G4) the shared type predicate is `type IN (f(ctx.Type), both)` and the PromQL path selects the metrics signal, the LogQL path does not.",
		NotCovered:  "That the bounds are tight (the `widened at most to bucket / 15 s` clause: the 15 s shortcut rounds the upper bound down, which needs execution to judge); rows restricted through an id set are confined only as far as the select producing the id set is (that select is itself an obligation of G1 when it reads a base table); ClickHouse's evaluation of the predicates; plugin-provided planners.",
		Assumptions: []string{commonAssume, "window operands are recognised by the repository's naming convention (From/To, from/to, start/end, …NS/…Ms, DateFrom/DateTo; table printed in the rule text)", "ch-go ColDate.Append adds the time's zone offset (read from ch-go v0.65.1 proto/date.go)"},
	}
	properties["C11"].Rules = append(properties["C11"].Rules, "G1")
	properties["C11"].Filter = keepIf(func(rule, key string) bool {
		return rule == "P0" || strings.HasPrefix(key, "reader/traceql/")
	})
	properties["C18"] = &Property{
		Rules: []string{"A5", "C5", "J1", "J2"},
		Explanation: "Decides the order-on-all-paths and re-runnability clauses of C18: (A5) in the migration runner the version row is written only on the success edge of the statement of the same iteration, records (stream id, i+1), and the loop runs every statement from the version recorded for that stream without skipping; " +
			"(C5) stream ids and scripts are in bijection, every embedded script is run, distributed scripts only in distributed mode; (J1) no database error in ctrl/ is dropped; (J2) every statement of every embedded script is harmless when executed again. " +
			"Crash points are covered because the rules are dominance facts: a crash after statement s leaves exactly the effects that dominate s — by A5 never the version row of an unfinished statement — and by J2 re-running the unrecorded statement is harmless.",
		NotCovered:  "ClickHouse's own DDL atomicity and ON CLUSTER propagation; the re-run behaviour of MODIFY ORDER BY (server semantics, classified idempotent); that the final schema equals an uninterrupted run's beyond statement re-runnability.",
		Assumptions: []string{"ClickHouse semantics of IF [NOT] EXISTS guards", "each ;-blank-line separated statement is one version (getSQLFile; the rule splits scripts the same way)"},
		Filter: keepIf(func(rule, key string) bool {
			return rule != "C5" || !strings.HasPrefix(key, "settings key")
		}),
	}
	properties["C19"] = &Property{
		Rules: []string{"A6", "C5", "C6", "J1"},
		Explanation: "Decides the order/guard clauses of C19: (A6) in each live function that records an applied retention setting, every ALTER sits in the loop over the table list, its failure leaves the function, it applies the very value that is recorded, the record is written after the loop, and ALTERs and record are dominated by the `recorded != desired` edge of a comparison against the value read under the same (type, name) key — so unchanged configuration issues no ALTER and an interrupted run records nothing; " +
			"(C5) getSetting and putSetting derive the key identically; (C6) tier durations are clamped to a per-table minimum that is one day for `date`-based index tables and one minute for sample tables; (J1) no database error in ctrl/ is dropped.",
		NotCovered:  "That the TTL expression text is what ClickHouse ends up with; equality of TTL after server-side normalisation; clustered propagation.",
		Assumptions: []string{"the settings table returns the last recorded value (argMax by inserted_at)"},
		Filter: keepIf(func(rule, key string) bool {
			return rule != "C5" || strings.HasPrefix(key, "settings key")
		}),
	}
	properties["C20"] = &Property{
		Rules: []string{"K1", "K2", "K3"},
		Explanation: "Decides C20 structurally for every route and every header at once: (K2) all route registrations in live code (the route table is listed in the evidence) are made on values that flow from a mux.NewRouter() and every listener serves such a router, nothing else is served; " +
			"(K1) on each such router the first router-wide middleware in execution order is BasicAuthMiddleware(user, pass) installed under exactly `user != \"\" && pass != \"\"`, so compression/CORS/logging are inner to it; " +
			"(K3) the only pass-through of the auth handler is dominated by the exact inequality tests of the decoded user and password against the configured ones, by the empty-header and scheme rejections, and every rejecting exit answers 401/400 before any handler runs.",
		NotCovered:  "gorilla/mux semantics are trusted (router-wide middlewares run for every matched route in Use order; unmatched requests get 404/405 without middleware — no handler runs for them either); base64 decoding details; timing side channels of string comparison.",
		Assumptions: []string{"gorilla/mux v1.8 middleware semantics (read from the dependency)", "the configured credentials reach main/applyMiddlewares unchanged (they are the same expressions in guard and call, checked)"},
	}
	properties["C01"] = &Property{
		Rules: []string{"A1", "A2", "A3", "A4", "A9", "B1"},
		Explanation: "Decides that the chain handler → doParse → doPush → Request → swapBuffers → flush → Done carries the INSERT's error to the status line on every control-flow path and cannot skip the wait: " +
			"(A3) the success status is written only by PostRequest stages, which run only on the success edge of the parse step; (A2) the parse step returns success only after waiting for the promise of every pushed chunk, and every request field a parser produces is pushed; " +
			"(A4) each waiting promise is resolved with the very error returned by the INSERT of the block built from the columns swapped out together with it, and doPush resolves with the retried request's error unchanged; " +
			"(A1) every promise handed to a waiter is completed, queued with the batch under the lock, or owned by a goroutine that completes it on all paths, and completes at most once; (B1) the shared batch (columns, size, promises, flush context) is only touched under the service lock; " +
			"(A9) parsed rows are never replaced by fresh buffers without having been sent to the insert path.",
		NotCovered:  "Liveness under all schedules beyond the typestate (e.g. a request whose GetSize() is 0 waits for the next non-empty flush); ch-go's Do; retry timing and Attempts(0) semantics of retry-go; that ClickHouse durably stored the block.",
		Assumptions: []string{"function values passed to retry.Do / mux are called by them", "ch_wrapper.IChClient.Do returns nil only if the server accepted the block"},
	}
	properties["C02"] = &Property{
		Rules: []string{"C1", "C2", "C3", "B1"},
		Explanation: "Decides the structural rectangularity conditions of C02: (C1) per insert service, acquired columns = INSERT columns = schema columns, serialize/deserialize agree by position and type, FixedString widths match the schema, and each column is fed from exactly one distinct field of the request model; " +
			"(C2) the parser callbacks grow all per-row arrays of a chunk in lock-step; (C3) every decoder hands the row builder four arrays of one length class; (B1) a request's appends and the buffer swap happen under the one service lock, so rows of different requests cannot interleave across columns and the promises swapped are those of the rows swapped.",
		NotCovered:  "Interleavings themselves (the lock rule is the structural part); ch-go's block encoding; equal lengths *inside* a request model are decided only as far as C2/C3 reach (arrays built by the callbacks from the decoders' arrays).",
		Assumptions: []string{"ClickHouse matches native-block columns by name"},
	}
	properties["C03"] = &Property{
		Rules: []string{"C2", "C3", "A9"},
		Explanation: "Decides only the array-skew and unsent-buffer clauses of C03: (C3) each decoder's callback arguments (timestamps, lines, values, types) are of one length class at every call site, so no entry can be dropped, duplicated or given another entry's type *by array skew*; " +
			"(C2) the row builder appends one element to every per-row array per entry; (A9) a chunk is sent before its buffers are replaced, however the body is split into internal chunks.",
		NotCovered:  "Timestamp parsing and units, label attribution to streams, numeric value parsing, chunk-boundary arithmetic — these need inputs; not claimed.",
		Assumptions: []string{},
	}
	properties["C06"] = &Property{
		Rules: []string{"C4", "C1", "C2"},
		Explanation: "Decides the writer/reader agreement clauses of C06: (C4) the payload-type tags written by the span decoders are exactly those dispatched by the trace read path, each to the parser of the same family, and the read side slices ids with the schema widths 16/8; " +
			"(C1) the trace and tag insert services acquire / insert / declare the same columns with FixedString(16)/FixedString(8) ids; (C2) one trace row and one tag row per attribute grow all their arrays together with the same ids and times.",
		NotCovered:  "Equality of the decoded span with the pushed span (attribute flattening, timestamps, parent ids) — a round-trip over data.",
		Assumptions: []string{},
		Filter: keepIf(func(rule, key string) bool {
			if rule == "C4" {
				return true
			}
			return hasAny(key, "Tempo", "tempo", "onSpan")
		}),
	}
	properties["C05"] = &Property{
		Rules: []string{"F1", "F2", "F3", "A8"},
		Explanation: "Decides crash/hang containment on the ingest side for the enumerated hazard kinds, for every request at once: (F1) no library call that panics on an argument condition (FixedString append of a wrong-size value, hex decode into a too-small buffer) and no integer division by an untested value is reachable from a goroutine or handler of the writer without crossing a frame that effectively recovers; " +
			"(F3) each parser goroutine defers the recovering method first and closes its response channel exactly once on every path; (F2) no loop on the ingest path can have a neutral arithmetic step; (A8) snappy bodies are size-checked before decompression.",
		NotCovered:  "Nil dereferences, index/slice bounds and other run-time panics in handler goroutines (net/http contains those per connection; in the parser goroutines F3's recover contains them); memory exhaustion; slow inputs; goroutine leaks on client disconnect; batch corruption by partially appended rows after a recovered panic.",
		Assumptions: []string{"Go semantics of recover (effective only when called directly by the deferred function)", "ch-go ColFixedStr.Append and encoding/hex.Decode behaviour as read from their sources", "function values passed to dependencies are called by them in the caller's goroutine"},
		Filter: keepIf(func(rule, key string) bool {
			return rule != "F1" && rule != "F2" || strings.Contains(key, "writer/")
		}),
	}
	properties["C12"] = &Property{
		Rules: []string{"F1", "F2"},
		Explanation: "Decides crash/hang containment on the read side for the enumerated hazard kinds: (F1) every integer division by an untested value and every hex decode into a buffer not provably large enough that is reachable from a read handler or from a goroutine started for a query crosses an effectively recovering frame (handlers: deferred tamePanic; pipeline goroutines: deferred shared.TamePanic called directly); " +
			"(F2) no loop on the query path advances by a step that can be neutral (zero step / zero start value).",
		NotCovered:  "Goroutine termination when the database fails midway or the client goes away (needs a channel-protocol analysis); other panic kinds in goroutines without recover; blocking sends; resource exhaustion.",
		Assumptions: []string{"Go semantics of recover", "net/http recovers handler panics per connection (so an unprotected handler means a dropped connection, not a process exit)"},
		Filter: keepIf(func(rule, key string) bool {
			return strings.Contains(key, "reader/")
		}),
	}
	properties["C04"] = &Property{
		Rules: []string{"L1", "E2", "G3", "A10", "C2"},
		Explanation: "Decides the structural clauses of C04: (L1) the series fingerprint is order-independent by construction — every accumulator is combined with +, ^ or * with a value computed from the current label only; (E2) the stored label document is produced by a JSON encoder, never by Go quoting; " +
			"(G3) the day under which the series (and trace tag) index row is stored is computed in UTC, the same day the read side searches, in every process time zone; (C2) the series row arrays grow in lock-step; (A10) the (day, fingerprint) announce mark must be revocable when the series insert fails.",
		NotCovered:  "Collision freedom of the 64-bit fingerprint; that all ingest protocols sanitise labels alike (the Datadog / OTLP decoders do not call sanitizeLabels — the statement speaks of sanitized pairs, so no rule is armed); cache expiry timing.",
		Assumptions: []string{"ch-go ColDate.Append adds the value's zone offset", "uint64 +, ^, * are commutative and associative (wrap-around arithmetic)"},
		Filter: keepIf(func(rule, key string) bool {
			switch rule {
			case "E2", "G3":
				return strings.Contains(key, "writer/")
			case "C2":
				return strings.Contains(key, "TimeSeriesData")
			}
			return true
		}),
	}
	properties["C14"] = &Property{
		Rules: []string{"P0", "H1", "H2", "H3"},
		Explanation: "Decides the purity clauses behind C14: (H1) no Process method of a query planner (nor a same-receiver helper it calls) stores into a planner field a value that depends on that field's previous value, except the memo idiom — so executing a prepared plan again starts from the same plan state (live tail re-executes every second, complex TraceQL once per portion); " +
			"(H2) no translator function writes package-level state, so a translation cannot depend on earlier translations; (H3) no SQL fragment is accumulated in Go's randomised map order without sorting.",
		NotCovered:  "`Same meaning apart from the time bounds` is approximated by `no planner state carries over`; state kept in sql_select objects shared between executions (With caches) is covered only through the memo idiom; plugin planners.",
		Assumptions: []string{commonAssume},
	}
	properties["C15"] = &Property{
		Rules: []string{"I1", "E2"},
		Explanation: "Decides the bracket/comma/key discipline and the documented nesting of the streaming encoders for every distribution of rows at once: (I1) each function of reader/service and reader/controller that emits a response through jsoniter.Stream (and the literal fragments / helper writers it combines) is abstractly interpreted over its CFG — " +
			"bracket stack × {0,>0} valuation of the counters it branches on, data comparisons non-deterministic — and on every normal path emits exactly one JSON document whose `result`/`streams` elements are objects and whose `values` elements are pairs; this covers empty batches, batch boundaries inside a series and a first series with fingerprint 0; " +
			"(E2) no string of a response body is rendered with Go quoting.",
		NotCovered:  "Numeric rendering without loss; escaping done inside jsoniter/encoding/json (trusted); error-termination paths after onErr (the body is cut by design); the literal-concatenating encoders of the label/series/tempo endpoints are covered by E2 only (their fragments are relayed, not re-tokenised); that every returned row appears exactly once.",
		Assumptions: []string{"jsoniter.Stream writes exactly the token its method name says", "fragments relayed from a channel were produced by an encoder verified by the same rule"},
		Filter: keepIf(func(rule, key string) bool {
			return rule != "E2" || strings.Contains(key, "reader/")
		}),
	}
	// rules added after the first round of seeded changes
	add := func(id string, rules ...string) {
		properties[id].Rules = append(properties[id].Rules, rules...)
	}
	add("C01", "B2", "O1")
	add("C02", "B2", "O1")
	add("C05", "F5")
	add("C05", "B4")
	add("C02", "B4")
	b4 := " (B4) a request processor hands the shared column list back on every return a request of the right type can reach: the service stores the returned list into the shared batch before it looks at the error, so a data-dependent rejection returning nil columns drops the rows other clients have waiting and breaks the next flush."
	properties["C05"].Explanation += b4
	properties["C02"].Explanation += b4
	add("C06", "F5")
	add("C07", "D7")
	add("C08", "D7")
	add("C09", "O1", "D7")
	add("C04", "A11")
	add("C19", "C7")
	add("C13", "H4")
	add("C14", "H4")
	// addScoped: add a rule whose obligations are kept for the property when pred(key) holds; other rules keep the property's filter
	addScoped := func(id, ruleID string, pred func(key string) bool, expl string) {
		p := properties[id]
		p.Rules = append(p.Rules, ruleID)
		old := p.Filter
		own := keepIf(func(_, key string) bool { return pred(key) })
		p.Filter = func(rule string, obls []Obl) []Obl {
			if rule == ruleID {
				return own(rule, obls)
			}
			if old != nil {
				return old(rule, obls)
			}
			return obls
		}
		p.Explanation += " " + expl
	}
	in := func(subs ...string) func(string) bool { return func(k string) bool { return hasAny(k, subs...) } }
	// rules added after the second round of seeded changes
	addScoped("C12", "F6", in("reader/"), "(F6) a deferred panic report never runs after the deferred close of the channel it reports on.")
	addScoped("C05", "F6", in("writer/"), "(F6) a deferred panic report never runs after the deferred close of the channel it reports on.")
	d9 := "(D9) a clause appended to a clause list inside a loop is computed in that iteration, never the value a variable kept from an earlier element."
	addScoped("C17", "D9", in("reader/prof/", "reader/promql/", "StreamSelectPlanner", "SimpleLabelFilterPlanner"), d9)
	addScoped("C07", "D9", in("reader/logql/"), d9)
	addScoped("C08", "D9", in("reader/logql/"), d9)
	addScoped("C11", "D9", in("reader/traceql/", "reader/tempo", "reader/service"), d9)
	addScoped("C04", "O3", in("writer/utils/unmarshal"), "(O3) the row handler never writes into the label slice a decoder lent it: decoders hand the same buffer to several calls, and a list edited in place gives the later calls another label set and so another fingerprint for the same series.")
	addScoped("C03", "O3", in("writer/"), "(O3) a handler never writes into the backing array of a slice a decoder lent it (decoders reuse their label and value slices for the following rows).")
	s2 := "(S2) every decoder field an emitted row depends on is reset for every record on every entry (array and newline-delimited framing alike), so a record never inherits ids, tags, labels or payload of the one before it."
	addScoped("C06", "S2", in("zipkin", "Span", "span"), s2)
	s5 := "(S5) the arrays a decoder hands to the row handler are created or cut for the current record; a local buffer that is only grown across records is never passed whole."
	addScoped("C06", "S5", in("zipkin", "Span", "span", "OTLP", "otlp"), s5)
	addScoped("C03", "S5", func(k string) bool { return !hasAny(k, "zipkin", "Span", "span", "OTLP", "otlp") }, s5)
	addScoped("C03", "S2", func(k string) bool { return !hasAny(k, "zipkin") }, s2)
	o2 := "(O2) byte slices that alias a tokenizer's buffer (jx Raw / StrBytes, Scanner.Bytes) never reach the row model without a copy."
	addScoped("C06", "O2", in("zipkin", "Span", "span", "otlp"), o2)
	addScoped("C03", "O2", func(k string) bool { return hasAny(k, "writer/") && !hasAny(k, "zipkin") }, o2)
	addScoped("C09", "O2", in("reader/"), o2)
	addScoped("C11", "D8", in("reader/traceql/"), "(D8) terms share a slot of the condition bit set only under a faithful rendering of the term (no decoding function in the key).")
	addScoped("C19", "O3", in("ctrl/"), "(O3) the retention routines never write into the policy slice they were handed: it is the same slice for every table group, so a clamp written back for one group would change the TTL of the next.")
	b3 := "(B3) no function calls, while it holds a mutex of an object, a function of that object that takes the same mutex (sync mutexes are not re-entrant: the request would never be answered and the service would wedge)."
	addScoped("C05", "B3", in("writer/"), b3)
	addScoped("C01", "B3", in("writer/service", "writer/controller"), b3)
	addScoped("C12", "B3", in("reader/"), b3)
	addScoped("C01", "A12", in("writer/"), "(A12) the error a request promise is resolved with is the outcome of the push / INSERT carried unchanged, never an element picked out of an error list or a field read back.")
	d10 := "(D10) and/or chains are translated by structural recursion: the operator of a chain node joins its head with the translation of its whole tail."
	addScoped("C07", "D10", in("clickhouse_planner"), d10)
	addScoped("C09", "D10", in("internal_planner"), d10)
	addScoped("C08", "O1", func(k string) bool {
		return strings.HasPrefix(k, "reader/logql/") && !strings.Contains(k, "internal_planner")
	}, "(O1) a batch handed to the next post-processing stage is replaced by a fresh slice, never re-sliced: the stage downstream (step re-bucketing) still reads it.")
	addScoped("C09", "S4", in("internal_planner"), "(S4) an in-process stage stores into an entry's label map only after excluding marker / error entries, whose map is nil.")
	addScoped("C09", "S3", in("internal_planner"), "(S3) an in-process stage that changes the labels of an entry stores the fingerprint of the new label set on every path, so distinct label sets stay distinct series and equal ones are one.")
	addScoped("C11", "D10", in("reader/traceql/"), d10)
	addScoped("C17", "G2", in("reader/service"), "(G2) the date bounds of the label fetch that gives every selected series its label set: the start-minus-30-minutes formatter only as a lower bound (as an upper bound a window ending just after midnight UTC misses the day's series rows and the series reach the engine without labels).")
	addScoped("C11", "D12", in("reader/traceql"), "(D12) positions read from the term interning table and positions derived from the term list length are stored into plan nodes with one base.")
	addScoped("C11", "D11", in("reader/traceql/"), "(D11) an attribute aggregate's operand rows are kept by an unconditional `key == attr` alternative of the scan filter, for the same attribute.")
	addScoped("C11", "D13", in("reader/traceql/"), "(D13) a comparison over a defaulting cast (`toFloat64OrZero(val)`, 0 for values that do not parse) is only ever a conjunct next to the parse test `isNotNull(toFloat64OrNull(val))` of the same expression, so attributes that are not numbers never satisfy a numeric term.")
	addScoped("C07", "D14", in("reader/logql/"), "(D14) the recursive collector of regexp group names visits every kind of group in the same order (own name before the groups nested in it), the order in which the regexp engine numbers the groups the names are zipped with.")
	addScoped("C17", "D15", in("reader/"), "(D15) the series cursor's bisection leaves its result in a bound, never in the last probe: seeking to t lands on the first sample at or after t, or reports the end.")
	addScoped("C11", "D16", in(""), "(D16) the chain planner continues its recursion in the node it just added (the last operand), never in operand 0 of a list it appended to, so every selector of `{A} && {B} && {C} …` reaches the statement.")
	addScoped("C15", "I2", in(""), "(I2) bytes rendered by a JSON encoder are written whole, never cut (an encoded batch unwrapped by slicing off its brackets is `ul` for a nil batch and a dangling comma for an empty one).")
	o4 := "(O4) the arrays of a chunk that was handed to the insert path by a channel send are never re-sliced into the next chunk."
	addScoped("C03", "O4", in(""), o4)
	addScoped("C02", "O4", in(""), o4)
	f8 := "(F8) every index into a fixed-length batch buffer is proved inside the buffer by an interval analysis (the scanners run in goroutines without a recover)."
	addScoped("C12", "F8", in("reader/"), f8)
	addScoped("C05", "F8", in("writer/"), f8)
	addScoped("C05", "C3", in(""), "(C3) the per-entry arrays a decoder hands to the row builder belong to one length class for every body, so no request can leave the columns of the shared batch with different lengths (the block would be refused for every client whose rows are in it).")
	addScoped("C12", "F7", in(""), "(F7) a pipeline stage that leaves its receive loop before the upstream channel is closed starts a goroutine draining it, so the stages above it (down to the database scan) can end.")
	addScoped("C14", "H7", in(""), "(H7) names numbered from the per-execution counter inside a memoised statement use formats that nothing outside the memo uses, so a later execution cannot render a second alias of the same name.")
	addScoped("C14", "H6", in(""), "(H6) per-execution flags kept in a plan object (isAliased) are reset on every return of Process or initialised before any read, so each execution starts from the same state.")
	addScoped("C10", "E5", in(""), "(E5) rendered / escaped SQL text is never part of a fmt format string (its % sequences would be interpreted).")
	r1 := "(R1) where a line reader returns data together with io.EOF, the EOF branch does not drop that data (the last record of a body without trailing newline)."
	addScoped("C06", "R1", in("zipkin", "Span", "span", "line readers"), r1)
	addScoped("C03", "R1", func(k string) bool { return !hasAny(k, "zipkin") }, r1)
	addScoped("C14", "H5", in(""), "(H5) no package-level variable holds SQL builder objects, so a planner that rewrites columns in place cannot change later translations.")
	properties["C01"].Filter = keepIf(func(rule, key string) bool { return rule != "O1" || strings.HasPrefix(key, "writer/") })
	properties["C02"].Filter = keepIf(func(rule, key string) bool { return rule != "O1" || strings.HasPrefix(key, "writer/") })
	properties["C01"].Explanation += " (B2) the buffer swap is one critical section; (O1) a promise list / buffer that was handed over is replaced by a fresh value, never re-sliced."
	properties["C02"].Explanation += " (B2) columns, promises and size are swapped in one critical section; (O1) swapped-out buffers are detached (fresh values), so later appends cannot write into a block that is being sent."
	properties["C04"].Explanation += " (A11) the announce-cache key is built from disjoint, complete byte ranges fed by both the day and the fingerprint."
	properties["C19"].Explanation += " (C7) every settings key has a single recording routine, so two routines cannot invalidate each other's record."
	properties["C05"].Explanation += " (F5) ids that feed FixedString columns are length-checked where they enter the row model, before any column of the shared batch is extended."
	properties["C06"].Explanation += " (F5) trace/span ids enter the row model only with the exact widths 16/8."
	properties["C07"].Explanation += " (D7) every planned stage wraps the chain built so far (no stage silently replaces its predecessors)."
	properties["C08"].Explanation += " (D7) every planned stage wraps the chain built so far."
	properties["C09"].Explanation += " (O1) a batch of entries sent to the next pipeline stage is never re-sliced and appended to by the sender (entries lost/duplicated depending on scheduling); (D7) the in-process stage chain wraps its predecessor."
	properties["C13"].Explanation += " (H4) statements memoised across executions of a plan (the fp_sel WITH) do not depend on the window end, so a live tail's index bounds do not freeze."
	properties["C14"].Explanation += " (H4) memoised sub-plans do not read the window end."
}
