package main

import (
	"bytes"
	"go/ast"
	"go/printer"
	"go/token"
	"go/types"
	"golang.org/x/tools/go/ssa"
	"strconv"
	"strings"

	"golang.org/x/tools/go/packages"
)

func (c *Ctx) text(n ast.Node) string {
	if n == nil {
		return ""
	}
	var b bytes.Buffer
	printer.Fprint(&b, c.Fset, n)
	return b.String()
}

// normText renders a node on one line with collapsed white space (position independent).
func (c *Ctx) normText(n ast.Node) string {
	return strings.Join(strings.Fields(c.text(n)), " ")
}

func (c *Ctx) stmtsText(l []ast.Stmt) string {
	var s []string
	for _, st := range l {
		s = append(s, c.normText(st))
	}
	return strings.Join(s, "; ")
}

// PkgsUnder returns the loaded packages whose module-relative path starts with one of the prefixes.
func (c *Ctx) PkgsUnder(prefixes ...string) []*packages.Package {
	c.Load()
	var out []*packages.Package
	for _, p := range c.Pkgs {
		r := rel(p.PkgPath)
		for _, pre := range prefixes {
			if r == pre || strings.HasPrefix(r, pre+"/") || (pre == "" && true) {
				out = append(out, p)
				break
			}
		}
	}
	return out
}

type FuncInfo struct {
	Pkg  *packages.Package
	File *ast.File
	Decl *ast.FuncDecl
}

func (f *FuncInfo) Name() string { return rel(f.Pkg.PkgPath) + "." + declName(f.Decl) }

func isGenerated(f *ast.File) bool {
	for _, cg := range f.Comments {
		for _, cm := range cg.List {
			if strings.Contains(cm.Text, "Code generated") && strings.Contains(cm.Text, "DO NOT EDIT") {
				return true
			}
		}
		if cg.Pos() > f.Package {
			break
		}
	}
	return false
}

// Funcs enumerates function declarations with bodies in the given packages (generated files skipped).
func (c *Ctx) Funcs(pkgs []*packages.Package) []*FuncInfo {
	var out []*FuncInfo
	for _, p := range pkgs {
		for _, f := range p.Syntax {
			if isGenerated(f) {
				continue
			}
			for _, d := range f.Decls {
				if fd, ok := d.(*ast.FuncDecl); ok && fd.Body != nil {
					out = append(out, &FuncInfo{p, f, fd})
				}
			}
		}
	}
	return out
}

func recvTypeName(fd *ast.FuncDecl) string {
	n := declName(fd)
	if i := strings.LastIndex(n, "."); i >= 0 {
		return strings.Trim(n[:i], "(*)")
	}
	return ""
}

func strLit(e ast.Expr) (string, bool) {
	bl, ok := e.(*ast.BasicLit)
	if !ok || bl.Kind != token.STRING {
		return "", false
	}
	s, err := strconv.Unquote(bl.Value)
	if err != nil {
		return "", false
	}
	return s, true
}

// constString returns the constant string value of an expression if the type checker knows one.
func constString(info *types.Info, e ast.Expr) (string, bool) {
	if tv, ok := info.Types[e]; ok && tv.Value != nil && tv.Value.Kind().String() == "String" {
		s, err := strconv.Unquote(tv.Value.ExactString())
		if err == nil {
			return s, true
		}
	}
	return "", false
}

// calleeObj resolves the called function/method object of a call expression (nil for
// conversions, builtins and dynamic calls of function values).
func calleeObj(info *types.Info, call *ast.CallExpr) types.Object {
	fun := ast.Unparen(call.Fun)
	switch f := fun.(type) {
	case *ast.IndexExpr:
		fun = f.X
	case *ast.IndexListExpr:
		fun = f.X
	}
	switch f := fun.(type) {
	case *ast.Ident:
		return info.Uses[f]
	case *ast.SelectorExpr:
		if sel, ok := info.Selections[f]; ok {
			return sel.Obj()
		}
		return info.Uses[f.Sel]
	}
	return nil
}

// objIs reports whether obj is the function/method pkgPath.name (name may be "T.M" for methods).
func objIs(obj types.Object, pkgPath, name string) bool {
	if obj == nil || obj.Pkg() == nil || obj.Pkg().Path() != pkgPath {
		return false
	}
	if fn, ok := obj.(*types.Func); ok {
		if sig, ok := fn.Type().(*types.Signature); ok && sig.Recv() != nil {
			t := sig.Recv().Type()
			if p, ok := t.(*types.Pointer); ok {
				t = p.Elem()
			}
			if nt, ok := t.(*types.Named); ok {
				return nt.Obj().Name()+"."+fn.Name() == name
			}
			// interface method
			return strings.HasSuffix(name, "."+fn.Name())
		}
	}
	return obj.Name() == name
}

func objPkgPath(obj types.Object) string {
	if obj == nil || obj.Pkg() == nil {
		return ""
	}
	return obj.Pkg().Path()
}

// funcFullName: pkgrel.Func or pkgrel.(T).M for a types.Func.
func funcFullName(fn *types.Func) string {
	if fn == nil {
		return "?"
	}
	p := ""
	if fn.Pkg() != nil {
		p = rel(fn.Pkg().Path())
		if !strings.HasPrefix(fn.Pkg().Path(), modPath) {
			p = fn.Pkg().Path()
		}
	}
	if sig, ok := fn.Type().(*types.Signature); ok && sig.Recv() != nil {
		t := sig.Recv().Type()
		star := ""
		if pt, ok := t.(*types.Pointer); ok {
			t = pt.Elem()
			star = "*"
		}
		if nt, ok := t.(*types.Named); ok {
			return p + ".(" + star + nt.Obj().Name() + ")." + fn.Name()
		}
	}
	return p + "." + fn.Name()
}

func namedOf(t types.Type) *types.Named {
	for {
		switch x := t.(type) {
		case *types.Pointer:
			t = x.Elem()
		case *types.Named:
			return x
		case *types.Alias:
			t = types.Unalias(x)
		default:
			return nil
		}
	}
}

func typeIs(t types.Type, pkgPath, name string) bool {
	n := namedOf(t)
	return n != nil && n.Obj().Pkg() != nil && n.Obj().Pkg().Path() == pkgPath && n.Obj().Name() == name
}

// hasMethod reports whether *T or T has a method with that name.
func hasMethod(t types.Type, name string) bool {
	n := namedOf(t)
	if n == nil {
		return false
	}
	for _, tt := range []types.Type{n, types.NewPointer(n)} {
		ms := types.NewMethodSet(tt)
		for i := 0; i < ms.Len(); i++ {
			if ms.At(i).Obj().Name() == name {
				return true
			}
		}
	}
	return false
}

// enclosingFuncLit returns the innermost function literal or declaration enclosing pos within fd.
func innermostFunc(fd *ast.FuncDecl, pos token.Pos) (params *ast.FieldList, isLit bool) {
	params = fd.Type.Params
	ast.Inspect(fd.Body, func(n ast.Node) bool {
		if n == nil {
			return false
		}
		if fl, ok := n.(*ast.FuncLit); ok {
			if fl.Pos() <= pos && pos < fl.End() {
				params = fl.Type.Params
				isLit = true
			}
		}
		return true
	})
	return
}

func uniq(s []string) []string {
	m := map[string]bool{}
	var out []string
	for _, x := range s {
		if !m[x] {
			m[x] = true
			out = append(out, x)
		}
	}
	return out
}

type packagesPackage = packages.Package

// ssa aliases used by rules that only need a few instruction types
type (
	ssaValue     = ssa.Value
	ssaStore     = ssa.Store
	ssaMapUpdate = ssa.MapUpdate
)

// rootGlobal: the package-level variable an address is rooted at (through field / index addressing and loads of pointers held in globals).
func rootGlobal(v ssa.Value, depth int) *ssa.Global {
	if depth > 6 {
		return nil
	}
	switch x := v.(type) {
	case *ssa.Global:
		return x
	case *ssa.FieldAddr:
		return rootGlobal(x.X, depth+1)
	case *ssa.IndexAddr:
		return rootGlobal(x.X, depth+1)
	case *ssa.UnOp:
		return rootGlobal(x.X, depth+1)
	case *ssa.Field:
		return rootGlobal(x.X, depth+1)
	}
	return nil
}
