package main

// D11 (C11): the attribute an aggregate is computed over survives the row filter of the index scan.

import (
	"go/constant"
	"go/token"
	"strings"

	"golang.org/x/tools/go/ssa"
)

// aggValueTypes: the SQL objects of the TraceQL transpiler that render `anyIf(<value>, key == <attr>)` — the per-span value an
// aggregate is computed over; found by the text their String method formats, with the field that holds the attribute.
func aggValueTypes(c *Ctx) map[string]int {
	out := map[string]int{}
	for _, fn := range moduleFuncs(c.CG()) {
		if fn.Name() != "String" || fn.Signature.Recv() == nil || !strings.HasPrefix(fnPkgRel(fn), "reader/traceql") || len(fn.Params) == 0 {
			continue
		}
		renders := false
		field := -1
		for _, b := range fn.Blocks {
			for _, ins := range b.Instrs {
				if call, ok := ins.(*ssa.Call); ok {
					for _, a := range call.Common().Args {
						if k, ok := a.(*ssa.Const); ok && k.Value != nil && k.Value.Kind() == constant.String {
							s := strings.ReplaceAll(constant.StringVal(k.Value), " ", "")
							if strings.Contains(s, "anyIf(") && strings.Contains(s, "key==") {
								renders = true
							}
						}
					}
				}
				if fa, ok := ins.(*ssa.FieldAddr); ok && fa.X == ssa.Value(fn.Params[0]) {
					field = fa.Field
				}
			}
		}
		if nt := namedOf(fn.Signature.Recv().Type()); renders && field >= 0 && nt != nil {
			out[nt.Obj().Pkg().Path()+"."+nt.Obj().Name()] = field
		}
	}
	return out
}

var ruleD11 = &Rule{
	ID:    "D11",
	Floor: 1,
	Doc: "aggregate operand rows survive the scan (SSA): where the TraceQL transpiler adds the per-span aggregate operand `anyIf(toFloat64OrNull(val), key == A)` to the index scan (an object of the type whose String method renders that text, built with attribute A), every return reachable from that point yields, as the extra row-filter alternative, a condition built from sql.Eq over the `key` column and a string literal of the same A. " +
		"The scan's WHERE is a disjunction of the selector's terms, each of which keeps the `key == A` row only when its own value predicate holds; without the unconditional alternative, spans selected through another branch lose their A row, their operand becomes NULL and the aggregate (and so the set of traces returned) is computed over a subset of the selected spans",
	Run: func(c *Ctx) []Obl {
		var obls []Obl
		types_ := aggValueTypes(c)
		if len(types_) == 0 {
			return []Obl{{Key: "aggregate operand type", Pos: "-", Status: Undecided, Msg: "no SQL object rendering anyIf(…, key == …) found in reader/traceql"}}
		}
		for _, fn := range liveModuleFuncs(c, "reader/traceql") {
			for _, b := range fn.Blocks {
				for _, ins := range b.Instrs {
					al, ok := ins.(*ssa.Alloc)
					if !ok {
						continue
					}
					nt := namedOf(al.Type())
					if nt == nil || nt.Obj().Pkg() == nil {
						continue
					}
					fidx, ok := types_[nt.Obj().Pkg().Path()+"."+nt.Obj().Name()]
					if !ok || al.Referrers() == nil {
						continue
					}
					var attr ssa.Value
					for _, r := range *al.Referrers() {
						if fa, ok := r.(*ssa.FieldAddr); ok && fa.Field == fidx && fa.Referrers() != nil {
							for _, rr := range *fa.Referrers() {
								if st, ok := rr.(*ssa.Store); ok && st.Addr == ssa.Value(fa) {
									attr = st.Val
								}
							}
						}
					}
					key := ssaName(fn) + " keeps the rows of the aggregated attribute"
					if attr == nil {
						obls = append(obls, Obl{Key: key, Pos: c.pos(al.Pos()), Status: Undecided, Msg: "attribute of the aggregate operand not recognised"})
						continue
					}
					// the operand may be added by a function that does not hand a condition back (the two halves were split):
					// then each caller must or in `key == X` for an X read from the same field as the operand's attribute
					hasCondResult := false
					for i := 0; i < fn.Signature.Results().Len(); i++ {
						if nt := namedOf(fn.Signature.Results().At(i).Type()); nt != nil && nt.Obj().Pkg() != nil && nt.Obj().Pkg().Path() == pkgSQL {
							hasCondResult = true
						}
					}
					if !hasCondResult {
						src := srcFieldsOf(attr)
						sites := callSitesOf(c, fn)
						for _, site := range sites {
							caller := site.Parent()
							k2 := ssaName(caller) + " ors the aggregated attribute's alternative into the scan filter"
							if orHasKeyAlt(caller, func(x ssa.Value) bool {
								for f := range srcFieldsOf(x) {
									if src[f] {
										return true
									}
								}
								return false
							}) {
								obls = append(obls, Obl{Key: k2, Pos: c.pos(site.Pos()), Status: OK})
							} else {
								obls = append(obls, Obl{Key: k2, Pos: c.pos(site.Pos()), Status: Violation, Msg: "the aggregate operand is added to the scan but no `key == <attribute>` alternative for the same attribute reaches the sql.Or that filters it"})
							}
						}
						if len(sites) == 0 {
							obls = append(obls, Obl{Key: key, Pos: c.pos(al.Pos()), Status: Undecided, Msg: "the function adding the aggregate operand returns no condition and has no static caller"})
						}
						continue
					}
					bad := ""
					for _, r := range returnsOf(fn) {
						if !reachAvoiding(fn, al, r, func(ssa.Instruction) bool { return false }) || len(r.Results) == 0 {
							continue
						}
						// an error return is not a plan
						if len(r.Results) > 1 {
							if k, ok := r.Results[len(r.Results)-1].(*ssa.Const); !ok || k.Value != nil {
								continue
							}
						}
						if !keyEqCond(r.Results[0], attr) {
							bad = "a return reachable after the aggregate operand was added does not yield `key == <attribute>` for the same attribute (" + c.pos(r.Pos()) + "): the attribute rows of spans selected through another term are filtered out and the aggregate is computed over a subset of the spans"
						}
					}
					if bad == "" {
						obls = append(obls, Obl{Key: key, Pos: c.pos(al.Pos()), Status: OK})
					} else {
						obls = append(obls, Obl{Key: key, Pos: c.pos(al.Pos()), Status: Violation, Msg: bad})
					}
					// the callers put that alternative into the disjunction that filters the scan
					for _, site := range callSitesOf(c, fn) {
						cv, ok := site.(ssa.Value)
						if !ok {
							continue
						}
						caller := site.Parent()
						inOr := false
						for _, cb := range caller.Blocks {
							for _, ci := range cb.Instrs {
								call, ok := ci.(*ssa.Call)
								if !ok {
									continue
								}
								sc := call.Common().StaticCallee()
								if sc == nil || sc.Pkg == nil || sc.Pkg.Pkg.Path() != pkgSQL || sc.Name() != "Or" {
									continue
								}
								for _, a := range call.Common().Args {
									if dependsOnValue(a, func(x ssa.Value) bool {
										if x == cv {
											return true
										}
										ex, ok := x.(*ssa.Extract)
										return ok && ex.Tuple == cv && ex.Index == 0
									}, map[ssa.Value]bool{}, 0) {
										inOr = true
									}
								}
							}
						}
						k2 := ssaName(caller) + " ors the aggregated attribute's alternative into the scan filter"
						if inOr {
							obls = append(obls, Obl{Key: k2, Pos: c.pos(site.Pos()), Status: OK})
						} else {
							obls = append(obls, Obl{Key: k2, Pos: c.pos(site.Pos()), Status: Violation, Msg: "the `key == <attribute>` alternative returned for an attribute aggregate does not reach the sql.Or that filters the index scan"})
						}
					}
				}
			}
		}
		return obls
	},
}

// keyEqCond: v is built from sql.Eq(<raw "key">, NewStringVal(attr)).
func keyEqCond(v ssa.Value, attr ssa.Value) bool {
	hasEq, hasKey, hasAttr := false, false, false
	if k, ok := v.(*ssa.Const); ok && k.Value == nil {
		return false
	}
	dependsOnValue(v, func(x ssa.Value) bool {
		call, ok := x.(*ssa.Call)
		if !ok {
			return false
		}
		sc := call.Common().StaticCallee()
		if sc == nil || sc.Pkg == nil || sc.Pkg.Pkg.Path() != pkgSQL {
			return false
		}
		switch sc.Name() {
		case "Eq":
			hasEq = true
		case "NewRawObject":
			if len(call.Common().Args) == 1 {
				if s, ok := constStr(call.Common().Args[0]); ok && strings.TrimSpace(s) == "key" {
					hasKey = true
				}
			}
		case "NewStringVal":
			if len(call.Common().Args) == 1 && (call.Common().Args[0] == attr || sameExpr(call.Common().Args[0], attr, 0)) {
				hasAttr = true
			}
		}
		return false
	}, map[ssa.Value]bool{}, 0)
	_ = token.NoPos
	return hasEq && hasKey && hasAttr
}

// srcFieldsOf: the struct fields a value is computed from.
func srcFieldsOf(v ssa.Value) map[string]bool {
	out := map[string]bool{}
	dependsOnValue(v, func(x ssa.Value) bool {
		if u, ok := x.(*ssa.UnOp); ok && u.Op == token.MUL {
			if fa, ok := u.X.(*ssa.FieldAddr); ok {
				out[fieldKey(fa.X.Type(), fa.Field)] = true
			}
		}
		if f, ok := x.(*ssa.Field); ok {
			out[fieldKey(f.X.Type(), f.Field)] = true
		}
		return false
	}, map[ssa.Value]bool{}, 0)
	return out
}

// orHasKeyAlt: some sql.Or of fn receives an argument built from sql.Eq(<raw "key">, NewStringVal(X)) with matchAttr(X).
func orHasKeyAlt(fn *ssa.Function, matchAttr func(ssa.Value) bool) bool {
	for _, b := range fn.Blocks {
		for _, ins := range b.Instrs {
			call, ok := ins.(*ssa.Call)
			if !ok {
				continue
			}
			sc := call.Common().StaticCallee()
			if sc == nil || sc.Pkg == nil || sc.Pkg.Pkg.Path() != pkgSQL || sc.Name() != "Or" {
				continue
			}
			for _, a := range call.Common().Args {
				hasEq, hasKey, hasAttr := false, false, false
				dependsOnValue(a, func(x ssa.Value) bool {
					c2, ok := x.(*ssa.Call)
					if !ok {
						return false
					}
					s2 := c2.Common().StaticCallee()
					if s2 == nil || s2.Pkg == nil || s2.Pkg.Pkg.Path() != pkgSQL {
						return false
					}
					switch s2.Name() {
					case "Eq":
						hasEq = true
					case "NewRawObject":
						if len(c2.Common().Args) == 1 {
							if str, ok := constStr(c2.Common().Args[0]); ok && strings.TrimSpace(str) == "key" {
								hasKey = true
							}
						}
					case "NewStringVal":
						if len(c2.Common().Args) == 1 && matchAttr(c2.Common().Args[0]) {
							hasAttr = true
						}
					}
					return false
				}, map[ssa.Value]bool{}, 0)
				if hasEq && hasKey && hasAttr {
					return true
				}
			}
		}
	}
	return false
}

func init() { register(ruleD11) }
