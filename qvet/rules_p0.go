package main

import (
	"go/ast"
	"go/types"
	"sort"
	"strings"
)

// P0: standing assumption — no plugin is registered in this build, so the in-tree planners
// and services are the ones that run.
var ruleP0 = &Rule{
	ID:    "P0",
	Floor: 15,
	Doc: "standing assumption checked on every run: no non-test code of the module calls a Register* function of reader/plugins or writer/plugins, " +
		"so every plugins.Get…Plugin() returns nil and the in-tree planners/services analysed by the other rules are the code that runs",
	Run: func(c *Ctx) []Obl {
		c.Load()
		regs := map[*types.Func][]string{}
		var order []*types.Func
		for _, rp := range []string{"reader/plugins", "writer/plugins"} {
			p := c.Pkg(rp)
			if p == nil {
				continue
			}
			sc := p.Types.Scope()
			for _, n := range sc.Names() {
				if fn, ok := sc.Lookup(n).(*types.Func); ok && strings.HasPrefix(n, "Register") {
					regs[fn] = nil
					order = append(order, fn)
				}
			}
		}
		for _, fi := range c.Funcs(c.Pkgs) {
			if strings.HasSuffix(c.Fset.Position(fi.Decl.Pos()).Filename, "_test.go") {
				continue
			}
			ast.Inspect(fi.Decl.Body, func(n ast.Node) bool {
				switch x := n.(type) {
				case *ast.Ident:
					if fn, ok := fi.Pkg.TypesInfo.Uses[x].(*types.Func); ok {
						if _, isReg := regs[fn]; isReg {
							regs[fn] = append(regs[fn], fi.Name()+" ["+c.pos(x.Pos())+"]")
						}
					}
				}
				return true
			})
		}
		sort.Slice(order, func(i, j int) bool { return funcFullName(order[i]) < funcFullName(order[j]) })
		var obls []Obl
		for _, fn := range order {
			key := funcFullName(fn) + " has no caller"
			if len(regs[fn]) == 0 {
				obls = append(obls, Obl{Key: key, Pos: c.pos(fn.Pos()), Status: OK})
			} else {
				obls = append(obls, Obl{Key: key, Pos: c.pos(fn.Pos()), Status: Undecided, Path: regs[fn],
					Msg: "a plugin is registered in this build: the planner/service the other rules analyse may be replaced at run time, so they cannot vouch for the property"})
			}
		}
		return obls
	},
}

func init() { register(ruleP0) }
