package main

import (
	"fmt"

	"golang.org/x/tools/go/ssa"
)

// ---------------------------------------------------------------------------------
// D16  after adding a child to a node, "the child" is the last operand, not the first
//
// The TraceQL planner turns the right-nested chain `{A} && {B} || {C} …` into a tree by recursion: each step adds a node to the
// operands of `current` (through the node's adder method, which appends) and continues the recursion *inside the node it just added*.
// Fetching that node back as element 0 of the operand list is right only while the list was empty; one level deeper it names the
// oldest operand, and everything after the second `&&` is attached to a leaf that ignores it (the chain is silently truncated).
// Rule (SSA, summaries by field): where a function calls, on one receiver, a method some implementation of which appends its argument
// to a slice field F, and afterwards a method some implementation of which returns F, and takes element 0 of the result, the element
// taken is not (in general) the one added. Fetching by `len-1`, or after the list was *replaced* by a literal, is not matched.

// adderField: fn appends one of its parameters to a slice field of its receiver; returns the field key.
func adderField(fn *ssa.Function) string {
	if fn == nil || len(fn.Params) < 2 {
		return ""
	}
	for _, b := range fn.Blocks {
		for _, ins := range b.Instrs {
			st, ok := ins.(*ssa.Store)
			if !ok {
				continue
			}
			fa, ok := st.Addr.(*ssa.FieldAddr)
			if !ok || fa.X != ssa.Value(fn.Params[0]) {
				continue
			}
			app, ok := st.Val.(*ssa.Call)
			if !ok {
				continue
			}
			bi, ok := app.Common().Value.(*ssa.Builtin)
			if !ok || bi.Name() != "append" || len(app.Common().Args) != 2 {
				continue
			}
			// append(recv.F, param)
			base, ok := app.Common().Args[0].(*ssa.UnOp)
			if !ok {
				continue
			}
			bfa, ok := base.X.(*ssa.FieldAddr)
			if !ok || bfa.X != fa.X || bfa.Field != fa.Field {
				continue
			}
			fromParam := false
			for _, e := range variadicElems(app.Common().Args[1]) {
				for _, p := range fn.Params[1:] {
					if e == ssa.Value(p) {
						fromParam = true
					}
				}
			}
			if fromParam {
				return fieldKey(fa.X.Type(), fa.Field)
			}
		}
	}
	return ""
}

// getterField: fn returns a slice field of its receiver as it is.
func getterField(fn *ssa.Function) string {
	if fn == nil || len(fn.Params) != 1 {
		return ""
	}
	for _, r := range returnsOf(fn) {
		if len(r.Results) != 1 {
			continue
		}
		if ld, ok := r.Results[0].(*ssa.UnOp); ok {
			if fa, ok := ld.X.(*ssa.FieldAddr); ok && fa.X == ssa.Value(fn.Params[0]) {
				return fieldKey(fa.X.Type(), fa.Field)
			}
		}
	}
	return ""
}

var ruleD16 = &Rule{
	ID:    "D16",
	Floor: 0,
	Doc: "the node just added is the last operand (SSA, summaries by field): in the query planners, where a function calls on one receiver a method some implementation of which appends its argument to a slice field F (the adder) and later — the adder's call dominating — a method some implementation of which returns F (the getter), the element it takes from the getter's result is not the constant-index first one: that is the added node only while the list was empty. " +
		"The TraceQL chain planner continues its recursion inside the node it added; taking operand 0 attaches the rest of a chain `{A} && {B} && {C}` to the leaf A, which ignores it, and the query silently loses every selector after the second. Bug-pattern rule, expected count zero; positive control: the reversal of the fix in the overlay self-test",
	Run: func(c *Ctx) []Obl {
		var obls []Obl
		var kk keyer
		g := c.CG()
		implsAt := func(fn *ssa.Function, site ssa.CallInstruction) []*ssa.Function {
			if sc := site.Common().StaticCallee(); sc != nil {
				return []*ssa.Function{sc}
			}
			var out []*ssa.Function
			for _, e := range g.chaOut[fn] {
				if e.Site == site && e.Callee != nil {
					out = append(out, e.Callee)
				}
			}
			return out
		}
		nSites := 0
		for _, fn := range liveModuleFuncs(c, "reader") {
			type call struct {
				ins   *ssa.Call
				field string
			}
			var adders, getters []call
			for _, b := range fn.Blocks {
				for _, ins := range b.Instrs {
					cl, ok := ins.(*ssa.Call)
					if !ok {
						continue
					}
					for _, impl := range implsAt(fn, cl) {
						if !isModuleFn(impl) {
							continue
						}
						if f := adderField(impl); f != "" {
							adders = append(adders, call{cl, f})
						}
						if f := getterField(impl); f != "" {
							getters = append(getters, call{cl, f})
						}
					}
				}
			}
			if len(adders) == 0 || len(getters) == 0 {
				continue
			}
			recvOf := func(cl *ssa.Call) ssa.Value {
				if cl.Common().IsInvoke() {
					return cl.Common().Value
				}
				if len(cl.Common().Args) > 0 {
					return cl.Common().Args[0]
				}
				return nil
			}
			seenG := map[*ssa.Call]bool{}
			for _, gt := range getters {
				if seenG[gt.ins] || gt.ins.Referrers() == nil {
					continue
				}
				seenG[gt.ins] = true
				// element 0 of the getter's result
				var first ssa.Instruction
				for _, r := range *gt.ins.Referrers() {
					switch x := r.(type) {
					case *ssa.IndexAddr:
						if k, ok := x.Index.(*ssa.Const); ok {
							if n, ok := int64Of(k); ok && n == 0 {
								first = x
							}
						}
					case *ssa.Index:
						if k, ok := x.Index.(*ssa.Const); ok {
							if n, ok := int64Of(k); ok && n == 0 {
								first = x
							}
						}
					}
				}
				if first == nil {
					continue
				}
				for _, ad := range adders {
					if ad.field != gt.field || recvOf(ad.ins) == nil || canon(recvOf(ad.ins)) != canon(recvOf(gt.ins)) {
						continue
					}
					// the adder's call comes first on every path to the getter
					dom := ad.ins.Block() == gt.ins.Block() && instrIndex(ad.ins) < instrIndex(gt.ins) ||
						ad.ins.Block() != gt.ins.Block() && ad.ins.Block().Dominates(gt.ins.Block())
					if !dom {
						continue
					}
					nSites++
					obls = append(obls, Obl{Key: kk.key(ssaName(fn) + " takes operand 0 after adding an operand"), Pos: c.pos(first.Pos()), Status: Violation,
						Msg: fmt.Sprintf("element 0 of the operand list is taken right after an operand was appended to the same list (adder at %s): it is the appended node only while the list was empty; at the next level of the chain it is the oldest operand, and what the recursion attaches there is lost (a leaf ignores added operands) — `{A} && {B} && {C}` is planned as `{A} && {B}`", c.pos(ad.ins.Pos()))})
				}
			}
		}
		obls = append(obls, Obl{Key: "planners: operand 0 taken after an append to the same operand list", Pos: "-", Status: OK, Msg: fmt.Sprintf("%d such site(s)", nSites)})
		return obls
	},
}

func init() { register(ruleD16) }
