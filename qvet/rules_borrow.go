package main

// O2: byte slices owned by a tokenizer are not retained in the row model (C06 / C03 / C02).

import (
	"fmt"
	"go/token"
	"go/types"
	"sort"
	"strings"

	"golang.org/x/tools/go/ssa"
)

// APIs whose result aliases a buffer the tokenizer overwrites when it advances ("do not retain")
var borrowSources = map[string]string{
	"(*github.com/go-faster/jx.Decoder).Raw":      "jx.Decoder.Raw (aliases the read buffer)",
	"(*github.com/go-faster/jx.Decoder).StrBytes": "jx.Decoder.StrBytes (aliases the read buffer)",
	"(*bufio.Scanner).Bytes":                      "bufio.Scanner.Bytes (overwritten by the next Scan)",
	"(*bufio.Reader).ReadSlice":                   "bufio.Reader.ReadSlice (overwritten by the next read)",
	"(*bufio.Reader).Peek":                        "bufio.Reader.Peek (overwritten by the next read)",
}

// standard-library functions whose result is a part of their first argument (no copy is made)
var subsliceFuncs = map[string]string{
	"bytes.TrimSpace": "alias", "bytes.Trim": "alias", "bytes.TrimLeft": "alias", "bytes.TrimRight": "alias",
	"bytes.TrimPrefix": "alias", "bytes.TrimSuffix": "alias", "bytes.TrimFunc": "alias", "bytes.TrimLeftFunc": "alias", "bytes.TrimRightFunc": "alias",
	"bytes.Fields": "container", "bytes.FieldsFunc": "container", "bytes.Split": "container", "bytes.SplitN": "container",
	"bytes.SplitAfter": "container", "bytes.SplitAfterN": "container",
	"bytes.Cut": "tuple", "bytes.CutPrefix": "tuple", "bytes.CutSuffix": "tuple",
}

type borrowFlow struct {
	c      *Ctx
	g      *CallGraph
	rev    map[*ssa.Function][]cgIn
	loads  map[string][]ssa.Value // field key → loads (UnOp of FieldAddr) in module code
	seen   map[ssa.Value]bool
	fields map[string]bool
	sinks  []string
	sinkAt []token.Pos
	trail  map[ssa.Value]string
}

func (c *Ctx) newBorrowFlow() *borrowFlow {
	g := c.CG()
	bf := &borrowFlow{c: c, g: g, rev: g.reverseVTA(), loads: map[string][]ssa.Value{}}
	for _, fn := range moduleFuncs(g) {
		for _, b := range fn.Blocks {
			for _, ins := range b.Instrs {
				if u, ok := ins.(*ssa.UnOp); ok && u.Op == token.MUL {
					if fa, ok := u.X.(*ssa.FieldAddr); ok {
						k := fieldKey(fa.X.Type(), fa.Field)
						bf.loads[k] = append(bf.loads[k], u)
					}
				}
				if f, ok := ins.(*ssa.Field); ok {
					k := fieldKey(f.X.Type(), f.Field)
					bf.loads[k] = append(bf.loads[k], f)
				}
			}
		}
	}
	return bf
}

func carriesBytes(t types.Type, d int) bool {
	if d > 3 {
		return false
	}
	switch u := t.Underlying().(type) {
	case *types.Slice:
		return isByte(u.Elem()) || carriesBytes(u.Elem(), d+1)
	case *types.Array:
		return carriesBytes(u.Elem(), d+1)
	case *types.Interface:
		return u.NumMethods() == 0
	case *types.Pointer:
		return carriesBytes(u.Elem(), d+1)
	}
	return false
}

func longLivedStruct(t types.Type) (string, bool) {
	if p, ok := t.Underlying().(*types.Pointer); ok {
		t = p.Elem()
	}
	n := namedOf(t)
	if n == nil || n.Obj().Pkg() == nil {
		return "", false
	}
	pp := n.Obj().Pkg().Path()
	if strings.HasSuffix(pp, "/writer/model") || strings.HasSuffix(pp, "/writer/utils/helpers") || strings.Contains(pp, "/writer/service") {
		return rel(pp) + "." + n.Obj().Name(), true
	}
	return "", false
}

func (bf *borrowFlow) add(v ssa.Value, from ssa.Value, how string) {
	if v == nil || bf.seen[v] || !carriesBytes(v.Type(), 0) {
		return
	}
	bf.seen[v] = true
	bf.trail[v] = how
	bf.follow(v)
}

func (bf *borrowFlow) sink(pos token.Pos, what string) {
	bf.sinks = append(bf.sinks, what)
	bf.sinkAt = append(bf.sinkAt, pos)
}

func (bf *borrowFlow) follow(v ssa.Value) {
	refs := v.Referrers()
	if refs == nil {
		return
	}
	for _, r := range *refs {
		switch x := r.(type) {
		case *ssa.Phi:
			bf.add(x, v, "phi")
		case *ssa.Slice:
			if x.X == v {
				bf.add(x, v, "re-slice")
			}
		case *ssa.ChangeType:
			bf.add(x, v, "type change")
		case *ssa.Convert:
			// []byte → string copies; []byte ↔ named []byte aliases
			if b, ok := x.Type().Underlying().(*types.Basic); ok && b.Info()&types.IsString != 0 {
				continue
			}
			bf.add(x, v, "conversion")
		case *ssa.MakeInterface:
			bf.add(x, v, "interface")
		case *ssa.TypeAssert:
			bf.add(x, v, "type assertion")
		case *ssa.Extract:
			bf.add(x, v, "extract")
		case *ssa.Send:
			if x.X == v {
				bf.sink(x.Pos(), "sent on a channel in "+ssaName(x.Parent()))
			}
		case *ssa.Store:
			if x.Val != v {
				continue
			}
			switch a := x.Addr.(type) {
			case *ssa.FieldAddr:
				k := fieldKey(a.X.Type(), a.Field)
				if name, ok := longLivedStruct(a.X.Type()); ok {
					bf.sink(x.Pos(), "stored in "+name+" (field "+k[strings.LastIndex(k, ".")+1:]+") in "+ssaName(x.Parent()))
					continue
				}
				if !bf.fields[k] {
					bf.fields[k] = true
					for _, l := range bf.loads[k] {
						bf.add(l, v, "field "+k)
					}
				}
			case *ssa.Global:
				bf.sink(x.Pos(), "stored in package-level variable "+a.Name())
			case *ssa.Alloc:
				if lr := a.Referrers(); lr != nil {
					for _, rr := range *lr {
						switch y := rr.(type) {
						case *ssa.UnOp:
							if y.Op == token.MUL {
								bf.add(y, v, "local")
							}
						case *ssa.MakeClosure:
							// captured cell: loads inside the closure
							if cf, ok := y.Fn.(*ssa.Function); ok {
								for i, bnd := range y.Bindings {
									if bnd == ssa.Value(a) && i < len(cf.FreeVars) {
										if fr := cf.FreeVars[i].Referrers(); fr != nil {
											for _, z := range *fr {
												if u, ok := z.(*ssa.UnOp); ok && u.Op == token.MUL {
													bf.add(u, v, "captured local")
												}
											}
										}
									}
								}
							}
						}
					}
				}
			case *ssa.IndexAddr:
				// element of a container: the container now holds borrowed bytes
				base := a.X
				if al, ok := base.(*ssa.Alloc); ok {
					// variadic / literal array: follow slices of it
					if ar := al.Referrers(); ar != nil {
						for _, z := range *ar {
							if sl, ok := z.(*ssa.Slice); ok {
								bf.addContainer(sl, "packed elements")
							}
						}
					}
				} else {
					bf.addContainer(base, "element store")
				}
			}
		case ssa.CallInstruction:
			bf.call(x, v)
		case *ssa.Return:
			fn := x.Parent()
			idx := -1
			for i, res := range x.Results {
				if res == v {
					idx = i
				}
			}
			for _, in := range bf.rev[fn] {
				if in.edge.Site == nil || in.edge.Fallback {
					continue
				}
				cv, ok := in.edge.Site.(ssa.Value)
				if !ok {
					continue
				}
				if fn.Signature.Results().Len() == 1 {
					bf.add(cv, v, "returned from "+ssaName(fn))
				} else if cr := cv.Referrers(); cr != nil {
					for _, z := range *cr {
						if ex, ok := z.(*ssa.Extract); ok && ex.Index == idx {
							bf.add(ex, v, "returned from "+ssaName(fn))
						}
					}
				}
			}
		}
	}
}

// addContainer: a [][]byte-like value that holds borrowed bytes.
func (bf *borrowFlow) addContainer(v ssa.Value, how string) {
	if v == nil || bf.seen[v] {
		return
	}
	bf.seen[v] = true
	bf.trail[v] = how
	// where does the container itself come from? if it is loaded from a long-lived field, that is retention
	if u, ok := v.(*ssa.UnOp); ok && u.Op == token.MUL {
		if fa, ok := u.X.(*ssa.FieldAddr); ok {
			if name, ok := longLivedStruct(fa.X.Type()); ok {
				bf.sink(u.Pos(), "stored as an element of a slice kept in "+name)
			}
		}
	}
	bf.follow(v)
}

func (bf *borrowFlow) call(ci ssa.CallInstruction, v ssa.Value) {
	com := ci.Common()
	if bi, ok := com.Value.(*ssa.Builtin); ok {
		switch bi.Name() {
		case "append":
			if len(com.Args) == 2 {
				if com.Args[0] == v {
					if cv, ok := ci.(ssa.Value); ok {
						bf.add(cv, v, "append (dst)")
					}
				} else if com.Args[1] == v {
					// spread: bytes are copied; containers of byte slices keep the alias
					if sl, ok := v.Type().Underlying().(*types.Slice); ok && isByte(sl.Elem()) {
						return
					}
					if cv, ok := ci.(ssa.Value); ok {
						bf.addContainer(cv, "append (elements)")
					}
				}
			}
		}
		return
	}
	bind := func(callee *ssa.Function, argIdx int, recv bool) {
		if callee == nil || len(callee.Blocks) == 0 {
			return
		}
		pi := argIdx
		if recv {
			pi = argIdx + 1
		}
		if pi >= 0 && pi < len(callee.Params) {
			bf.add(callee.Params[pi], v, "argument of "+ssaName(callee))
		}
	}
	if sc := com.StaticCallee(); sc != nil {
		// library functions that hand back part of their argument instead of a copy
		if kind, ok := subsliceFuncs[sc.String()]; ok && len(com.Args) > 0 && com.Args[0] == v {
			if cv, ok := ci.(ssa.Value); ok {
				switch kind {
				case "alias":
					bf.add(cv, v, "sub-slice returned by "+sc.String())
				case "container":
					bf.addContainer(cv, "sub-slices returned by "+sc.String())
				case "tuple":
					if cr := cv.Referrers(); cr != nil {
						for _, z := range *cr {
							if ex, ok := z.(*ssa.Extract); ok {
								bf.add(ex, v, "sub-slice returned by "+sc.String())
							}
						}
					}
				}
			}
			return
		}
		for i, a := range com.Args {
			if a == v {
				bind(sc, i, false)
			}
		}
		if mc, ok := com.Value.(*ssa.MakeClosure); ok {
			_ = mc
		}
		return
	}
	for _, e := range bf.g.vtaOut[ci.Parent()] {
		if e.Site != ci || e.Fallback {
			continue
		}
		for i, a := range com.Args {
			if a == v {
				bind(e.Callee, i, com.IsInvoke())
			}
		}
	}
}

var ruleO2 = &Rule{
	ID:    "O2",
	Floor: 8,
	Doc: "tokenizer-owned bytes are not retained: the byte slices returned by jx.Decoder.Raw / StrBytes and bufio.Scanner.Bytes alias a buffer the tokenizer overwrites as it advances. Each such result is followed forward over SSA — re-slices, the bytes.Trim* / Split / Fields / Cut family (which return parts of their argument), conversions between byte-slice types, locals, decoder struct fields (field-based), containers it is put in, arguments to module functions and to dynamically dispatched handlers (call graph), returned values. " +
		"Copies end the flow (string(b), append(dst, b...), copy, external decoding functions). Reaching the row model — a store into a field of a writer/model, writer/service or helpers struct, an element of a slice kept there, a package-level variable or a channel send — is a violation: the stored payload / value is silently replaced by later bytes of the request body as soon as the tokenizer refills its buffer",
	Run: func(c *Ctx) []Obl {
		bf := c.newBorrowFlow()
		var obls []Obl
		var kk keyer
		for _, fn := range liveModuleFuncs(c, "writer", "reader") {
			for _, b := range fn.Blocks {
				for _, ins := range b.Instrs {
					call, ok := ins.(*ssa.Call)
					if !ok {
						continue
					}
					sc := call.Common().StaticCallee()
					if sc == nil {
						continue
					}
					what, ok := borrowSources[sc.String()]
					if !ok {
						continue
					}
					bf.seen = map[ssa.Value]bool{}
					bf.fields = map[string]bool{}
					bf.trail = map[ssa.Value]string{}
					bf.sinks, bf.sinkAt = nil, nil
					var start ssa.Value = call
					if _, isTuple := call.Type().(*types.Tuple); isTuple {
						start = nil
						if cr := call.Referrers(); cr != nil {
							for _, z := range *cr {
								if ex, ok := z.(*ssa.Extract); ok && ex.Index == 0 {
									start = ex
								}
							}
						}
					}
					key := kk.key(ssaName(fn) + " " + sc.Name() + "()")
					if start != nil {
						bf.seen[start] = true
						bf.follow(start)
					}
					if len(bf.sinks) == 0 {
						obls = append(obls, Obl{Key: key, Pos: c.pos(call.Pos()), Status: OK, Msg: fmt.Sprintf("%s: followed through %d values, %d decoder fields; not retained", what, len(bf.seen), len(bf.fields))})
						continue
					}
					var path []string
					for i, s := range bf.sinks {
						path = append(path, s+" at "+c.pos(bf.sinkAt[i]))
					}
					sort.Strings(path)
					obls = append(obls, Obl{Key: key, Pos: c.pos(call.Pos()), Status: Violation, Path: path,
						Msg: what + " result is retained without a copy: " + path[0]})
				}
			}
		}
		return obls
	},
}

func init() { register(ruleO2) }
