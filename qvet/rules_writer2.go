package main

// A1 promise typestate, A9 flush-before-reset, A8 snappy guard.

import (
	"fmt"
	"go/ast"
	"go/token"
	"go/types"
	"sort"
	"strings"

	"golang.org/x/tools/go/cfg"
)

// completesPromise: in body (its own CFG), does every path from entry to a normal exit pass a node that completes
// or hands over the promise variable (Done call, append to a `results` field, nested guarantee)?
func (c *Ctx) alwaysCompletes(fi *FuncInfo, body *ast.BlockStmt, pObj types.Object, depth int) bool {
	g := c.cfgOf(fi, body)
	gblocks := c.guaranteeBlocks(fi, g, body, pObj, nil, depth)
	if len(g.g.Blocks) == 0 {
		return false
	}
	entry := g.g.Blocks[0]
	if gblocks[entry] {
		return true
	}
	for _, ex := range g.exitBlocks() {
		if gblocks[ex] {
			continue
		}
		if g.reachableAvoiding(entry, ex, gblocks) {
			return false
		}
	}
	return true
}

// guaranteeBlocks returns the blocks of g that contain a guarantee node for pObj; when `before` is non-nil only
// nodes positioned before it count for the block containing it.
func (c *Ctx) guaranteeBlocks(fi *FuncInfo, g *FuncCFG, body *ast.BlockStmt, pObj types.Object, after ast.Node, depth int) map[*cfg.Block]bool {
	info := fi.Pkg.TypesInfo
	out := map[*cfg.Block]bool{}
	isP := func(e ast.Expr) bool {
		id, ok := ast.Unparen(e).(*ast.Ident)
		return ok && info.Uses[id] == pObj
	}
	captures := func(fl *ast.FuncLit) bool {
		hit := false
		ast.Inspect(fl.Body, func(n ast.Node) bool {
			if id, ok := n.(*ast.Ident); ok && info.Uses[id] == pObj {
				hit = true
			}
			return true
		})
		return hit
	}
	mark := func(n ast.Node) {
		if after != nil && n.Pos() < after.End() {
			return
		}
		if b, _ := g.BlockOf(n); b != nil {
			out[b] = true
		}
	}
	var visit func(n ast.Node)
	visit = func(n ast.Node) {
		ast.Inspect(n, func(m ast.Node) bool {
			switch x := m.(type) {
			case *ast.FuncLit:
				return false
			case *ast.GoStmt:
				if fl, ok := x.Call.Fun.(*ast.FuncLit); ok && captures(fl) && depth < 3 && c.alwaysCompletes(fi, fl.Body, pObj, depth+1) {
					mark(x)
				}
				return false
			case *ast.CallExpr:
				if se, ok := ast.Unparen(x.Fun).(*ast.SelectorExpr); ok && se.Sel.Name == "Done" && isP(se.X) {
					mark(x)
				}
				if id, ok := x.Fun.(*ast.Ident); ok && id.Name == "append" && len(x.Args) == 2 && isP(x.Args[1]) {
					if se, ok := ast.Unparen(x.Args[0]).(*ast.SelectorExpr); ok && se.Sel.Name == "results" {
						mark(x)
					}
				}
				if fl, ok := x.Fun.(*ast.FuncLit); ok && captures(fl) && depth < 3 && c.alwaysCompletes(fi, fl.Body, pObj, depth+1) {
					mark(x)
					return false
				}
			}
			return true
		})
	}
	visit(body)
	return out
}

var ruleA1old = &Rule{
	ID:    "A1old",
	Floor: 4,
	Doc: "promise typestate: for every promise created with promise.New in writer/…, every path from the creation to a `return p` passes a point that completes it (p.Done), hands it to the batch (append(svc.results, p), performed under the batch lock — B1), " +
		"or starts a goroutine / immediately-invoked closure that does one of these on all of its own paths; Done itself completes at most once: its writes to the result fields and the close of the wait channel are dominated by the successful compare-and-swap of the pending flag",
	Run: func(c *Ctx) []Obl {
		var obls []Obl
		for _, fi := range c.Funcs(c.PkgsUnder("writer")) {
			if isTestFile(c, fi.Decl) {
				continue
			}
			info := fi.Pkg.TypesInfo
			type creation struct {
				obj  types.Object
				stmt ast.Stmt
			}
			var creations []creation
			ast.Inspect(fi.Decl.Body, func(n ast.Node) bool {
				if _, ok := n.(*ast.FuncLit); ok {
					return false
				}
				as, ok := n.(*ast.AssignStmt)
				if !ok || len(as.Lhs) != 1 || len(as.Rhs) != 1 {
					return true
				}
				call, ok := as.Rhs[0].(*ast.CallExpr)
				if !ok {
					return true
				}
				if o := calleeObj(info, call); o != nil && objPkgPath(o) == pkgPromise && o.Name() == "New" {
					if id, ok := as.Lhs[0].(*ast.Ident); ok && info.Defs[id] != nil {
						creations = append(creations, creation{info.Defs[id], as})
					}
				}
				return true
			})
			for _, cr := range creations {
				g := c.cfgOf(fi, fi.Decl.Body)
				cb, _ := g.BlockOf(cr.stmt)
				gb := c.guaranteeBlocks(fi, g, fi.Decl.Body, cr.obj, cr.stmt, 0)
				nret := 0
				ast.Inspect(fi.Decl.Body, func(n ast.Node) bool {
					if _, ok := n.(*ast.FuncLit); ok {
						return false
					}
					r, ok := n.(*ast.ReturnStmt)
					if !ok || len(r.Results) != 1 {
						return true
					}
					id, ok := ast.Unparen(r.Results[0]).(*ast.Ident)
					if !ok || info.Uses[id] != cr.obj {
						return true
					}
					nret++
					rb, _ := g.BlockOf(r)
					key := fmt.Sprintf("%s promise %s return #%d", fi.Name(), cr.obj.Name(), nret)
					ok2 := cb != nil && rb != nil
					if ok2 && !gb[cb] && !gb[rb] {
						ok2 = !g.reachableAvoiding(cb, rb, gb)
					} else if ok2 && gb[rb] && !gb[cb] && rb != cb {
						// a guarantee in the return block must precede the return
						ok2 = false
						for _, nd := range rb.Nodes {
							if nd.Pos() < r.Pos() {
								sub := c.guaranteeBlocks(fi, g, fi.Decl.Body, cr.obj, cr.stmt, 0)
								if sub[rb] {
									ok2 = true
								}
							}
						}
					}
					if ok2 {
						obls = append(obls, Obl{Key: key, Pos: c.pos(r.Pos()), Status: OK})
					} else {
						obls = append(obls, Obl{Key: key, Pos: c.pos(r.Pos()), Status: Violation,
							Msg: "a path returns the promise to a waiter without completing it, queuing it with the batch, or starting a completer: the request blocks forever (or its promise is in no batch while its rows are)"})
					}
					return true
				})
			}
		}
		// Done is guarded by the CAS
		if p, fd := c.FuncDecl("writer/utils/promise", "(*Promise).Done"); fd != nil {
			info := p.TypesInfo
			fi := &FuncInfo{Pkg: p, Decl: fd}
			g := c.cfgOf(fi, fd.Body)
			var casFail *cfg.Block
			var casOK *cfg.Block
			for _, b := range g.g.Blocks {
				cond, t, e := condEdges(b)
				if cond == nil {
					continue
				}
				neg := false
				x := ast.Unparen(cond)
				if u, ok := x.(*ast.UnaryExpr); ok && u.Op == token.NOT {
					neg = true
					x = ast.Unparen(u.X)
				}
				if call, ok := x.(*ast.CallExpr); ok {
					if o := calleeObj(info, call); o != nil && objPkgPath(o) == "sync/atomic" && strings.HasPrefix(o.Name(), "CompareAndSwap") {
						if neg {
							casFail, casOK = t, e
						} else {
							casFail, casOK = e, t
						}
					}
				}
			}
			okAll := casOK != nil && g.failureLeaves(casFail, casOK)
			n := 0
			ast.Inspect(fd.Body, func(m ast.Node) bool {
				var eff ast.Node
				switch x := m.(type) {
				case *ast.AssignStmt:
					for _, lh := range x.Lhs {
						if se, ok := lh.(*ast.SelectorExpr); ok && (se.Sel.Name == "res" || se.Sel.Name == "err") {
							eff = x
						}
					}
				case *ast.CallExpr:
					if id, ok := x.Fun.(*ast.Ident); ok && id.Name == "close" {
						eff = x
					}
				}
				if eff != nil {
					n++
					if b, _ := g.BlockOf(eff); b == nil || casOK == nil || !g.Dominates(casOK, b) {
						okAll = false
					}
				}
				return true
			})
			st, msg := OK, ""
			if !okAll || n < 3 {
				st, msg = Violation, "the promise's result writes / channel close are not confined to the successful compare-and-swap: a second completion overwrites the outcome or panics on a closed channel"
			}
			obls = append(obls, Obl{Key: fi.Name() + " completes at most once (CAS-guarded)", Pos: c.pos(fd.Pos()), Status: st, Msg: msg})
		} else {
			obls = append(obls, Obl{Key: "writer/utils/promise.(*Promise).Done", Pos: "-", Status: Undecided, Msg: "anchor not found"})
		}
		return obls
	},
}

// ---------------------------------------------------------------------------------
// A9 flush-before-reset

type resetMethod struct {
	obj    *types.Func
	fields []string
}

// resetMethods: methods of package p whose body only assigns fresh values (composite literals, make, zero constants) to receiver fields.
func (c *Ctx) resetMethods(pkgRel string) map[*types.Func]*resetMethod {
	out := map[*types.Func]*resetMethod{}
	for _, fi := range c.Funcs(c.PkgsUnder(pkgRel)) {
		if fi.Decl.Recv == nil || len(fi.Decl.Recv.List) == 0 || len(fi.Decl.Recv.List[0].Names) == 0 || len(fi.Decl.Body.List) == 0 {
			continue
		}
		info := fi.Pkg.TypesInfo
		recv := info.Defs[fi.Decl.Recv.List[0].Names[0]]
		var fields []string
		pure := true
		modelObjs := 0
		for _, st := range fi.Decl.Body.List {
			as, ok := st.(*ast.AssignStmt)
			if !ok || len(as.Lhs) != 1 || len(as.Rhs) != 1 {
				continue // other statements do not make it less of a reset: what matters is which buffers it replaces
			}
			se, ok := as.Lhs[0].(*ast.SelectorExpr)
			if !ok {
				continue
			}
			id, ok := se.X.(*ast.Ident)
			if !ok || info.Uses[id] != recv {
				continue
			}
			fresh := false
			switch r := ast.Unparen(as.Rhs[0]).(type) {
			case *ast.UnaryExpr:
				if cl, isCL := r.X.(*ast.CompositeLit); isCL {
					fresh = true
					if tv, ok := info.Types[cl]; ok {
						if n := namedOf(tv.Type); n != nil && n.Obj().Pkg() != nil && strings.HasSuffix(n.Obj().Pkg().Path(), "/writer/model") {
							modelObjs++
						}
					}
				}
			case *ast.CompositeLit:
				fresh = true
			case *ast.CallExpr:
				if fid, ok := r.Fun.(*ast.Ident); ok && fid.Name == "make" {
					fresh = true
				}
			}
			if !fresh {
				continue
			}
			fields = append(fields, se.Sel.Name)
		}
		// a reset method replaces at least one row-model object of its receiver by a fresh one
		if modelObjs == 0 {
			pure = false
		}
		if pure && len(fields) > 0 {
			if fn, ok := info.Defs[fi.Decl.Name].(*types.Func); ok {
				out[fn] = &resetMethod{fn, fields}
			}
		}
	}
	return out
}

// sentFields: field names mentioned in the composite literal of a channel send `ch <- &T{…}` / `ch <- T{…}`.
func sentFields(s *ast.SendStmt) []string {
	var out []string
	ast.Inspect(s.Value, func(n ast.Node) bool {
		if kv, ok := n.(*ast.KeyValueExpr); ok {
			ast.Inspect(kv.Value, func(m ast.Node) bool {
				if se, ok := m.(*ast.SelectorExpr); ok {
					out = append(out, se.Sel.Name)
				}
				return true
			})
		}
		return true
	})
	return out
}

var ruleA9old = &Rule{
	ID:    "A9",
	Floor: 5,
	Doc: "flush before reset: in writer/utils/unmarshal every call of a reset method (a method that replaces a row-model object held in a receiver field by a fresh one; other statements of the method do not matter) made while parsing (i.e. not the initial reset before the parser goroutine is started) is preceded in the same block by a send on the response channel " +
		"whose payload references every buffer the reset replaces (directly, or through a flush method of the same receiver whose body is such a send); and the success path of each parser goroutine ends with such a send for the buffers initialised before it",
	Run: func(c *Ctx) []Obl {
		var obls []Obl
		resets := c.resetMethods("writer/utils/unmarshal")
		if len(resets) < 3 {
			return []Obl{{Key: "reset methods", Pos: "-", Status: Undecided, Msg: fmt.Sprintf("only %d reset methods recognised", len(resets))}}
		}
		// flush methods: method whose body is a single send; fields it sends
		flushes := map[*types.Func][]string{}
		for _, fi := range c.Funcs(c.PkgsUnder("writer/utils/unmarshal")) {
			if len(fi.Decl.Body.List) == 1 {
				if s, ok := fi.Decl.Body.List[0].(*ast.SendStmt); ok {
					if fn, ok := fi.Pkg.TypesInfo.Defs[fi.Decl.Name].(*types.Func); ok {
						flushes[fn] = sentFields(s)
					}
				}
			}
		}
		covers := func(sent, need []string) bool {
			m := map[string]bool{}
			for _, s := range sent {
				m[s] = true
			}
			for _, n := range need {
				if !m[n] {
					return false
				}
			}
			return true
		}
		for _, fi := range c.Funcs(c.PkgsUnder("writer/utils/unmarshal")) {
			if isTestFile(c, fi.Decl) {
				continue
			}
			info := fi.Pkg.TypesInfo
			// locate go statements: resets before the first go stmt at top level are initialisers
			var firstGo token.Pos = token.Pos(1 << 40)
			var goLits []*ast.FuncLit
			for _, st := range fi.Decl.Body.List {
				if gs, ok := st.(*ast.GoStmt); ok {
					if gs.Pos() < firstGo {
						firstGo = gs.Pos()
					}
					if fl, ok := gs.Call.Fun.(*ast.FuncLit); ok {
						goLits = append(goLits, fl)
					}
				}
			}
			// every block-level statement list
			var initial []*resetMethod
			nth := 0
			var scan func(list []ast.Stmt, inGo bool)
			scan = func(list []ast.Stmt, inGo bool) {
				for i, st := range list {
					// recurse into nested lists
					ast.Inspect(st, func(n ast.Node) bool {
						switch x := n.(type) {
						case *ast.BlockStmt:
							scan(x.List, inGo)
							return false
						case *ast.FuncLit:
							scan(x.Body.List, true)
							return false
						case *ast.CaseClause:
							scan(x.Body, inGo)
							return false
						}
						return true
					})
					es, ok := st.(*ast.ExprStmt)
					if !ok {
						continue
					}
					call, ok := es.X.(*ast.CallExpr)
					if !ok {
						continue
					}
					fn, _ := calleeObj(info, call).(*types.Func)
					rm := resets[fn]
					if rm == nil {
						continue
					}
					recvText := ""
					if se, ok := ast.Unparen(call.Fun).(*ast.SelectorExpr); ok {
						recvText = c.normText(se.X)
					}
					if !inGo && len(goLits) > 0 && st.Pos() < firstGo {
						initial = append(initial, rm)
						continue
					}
					if c.isFreshLocal(fi, call) {
						continue // constructor: the receiver was created in this function, nothing can have been accumulated
					}
					nth++
					key := fmt.Sprintf("%s %s.%s() #%d is preceded by a send of %v", fi.Name(), recvText, fn.Name(), nth, rm.fields)
					good := false
					for j := i - 1; j >= 0 && !good; j-- {
						switch p := list[j].(type) {
						case *ast.SendStmt:
							good = covers(sentFields(p), rm.fields)
						case *ast.ExprStmt:
							if pc, ok := p.X.(*ast.CallExpr); ok {
								if pf, ok := calleeObj(info, pc).(*types.Func); ok {
									if sf, isFlush := flushes[pf]; isFlush {
										if se, ok := ast.Unparen(pc.Fun).(*ast.SelectorExpr); ok && c.normText(se.X) == recvText {
											good = covers(sf, rm.fields)
										}
									}
								}
							}
						}
					}
					if good {
						obls = append(obls, Obl{Key: key, Pos: c.pos(st.Pos()), Status: OK})
					} else {
						obls = append(obls, Obl{Key: key, Pos: c.pos(st.Pos()), Status: Violation,
							Msg: fmt.Sprintf("the buffers %v are replaced without having been sent to the insert path: the rows parsed so far are discarded and the request is still acknowledged", rm.fields)})
					}
				}
			}
			scan(fi.Decl.Body.List, false)
			// final send of each goroutine covers the initial buffers
			for gi, fl := range goLits {
				for _, rm := range initial {
					var all []string
					ast.Inspect(fl.Body, func(n ast.Node) bool {
						switch x := n.(type) {
						case *ast.SendStmt:
							all = append(all, sentFields(x)...)
						case *ast.CallExpr:
							if pf, ok := calleeObj(info, x).(*types.Func); ok {
								all = append(all, flushes[pf]...)
							}
						}
						return true
					})
					key := fmt.Sprintf("%s goroutine #%d sends %v at the end of parsing", fi.Name(), gi+1, rm.fields)
					if covers(all, rm.fields) {
						obls = append(obls, Obl{Key: key, Pos: c.pos(fl.Pos()), Status: OK})
					} else {
						obls = append(obls, Obl{Key: key, Pos: c.pos(fl.Pos()), Status: Violation, Msg: "the parser goroutine never sends the buffers it accumulates"})
					}
				}
			}
		}
		sort.SliceStable(obls, func(i, j int) bool { return obls[i].Key < obls[j].Key })
		return obls
	},
}

// ---------------------------------------------------------------------------------
// A8 snappy size guard

var ruleA8 = &Rule{
	ID:    "A8",
	Floor: 1,
	Doc:   "snappy size guard: every snappy.Decode of a request body in writer/… is dominated by a comparison of snappy.DecodedLen of the same source against a limit, on the edge where the limit is not exceeded",
	Run: func(c *Ctx) []Obl {
		var obls []Obl
		for _, pk := range c.PkgsUnder("writer") {
			info := pk.TypesInfo
			for _, file := range pk.Syntax {
				if isTestFile(c, file) || isGenerated(file) {
					continue
				}
				// analyse every function body (declarations and literals) separately
				ast.Inspect(file, func(n ast.Node) bool {
					var body *ast.BlockStmt
					switch x := n.(type) {
					case *ast.FuncDecl:
						body = x.Body
					case *ast.FuncLit:
						body = x.Body
					}
					if body == nil {
						return true
					}
					var decodes []*ast.CallExpr
					for _, st := range body.List {
						ast.Inspect(st, func(m ast.Node) bool {
							if _, ok := m.(*ast.FuncLit); ok {
								return false
							}
							if call, ok := m.(*ast.CallExpr); ok {
								if o := calleeObj(info, call); o != nil && strings.HasSuffix(objPkgPath(o), "golang/snappy") && o.Name() == "Decode" {
									decodes = append(decodes, call)
								}
							}
							return true
						})
					}
					if len(decodes) == 0 {
						return true
					}
					fi := &FuncInfo{Pkg: pk, Decl: &ast.FuncDecl{Name: ast.NewIdent("lit"), Type: &ast.FuncType{Params: &ast.FieldList{}}, Body: body}}
					g := c.cfgOf(fi, body)
					for _, d := range decodes {
						src := ""
						if len(d.Args) == 2 {
							src = c.normText(d.Args[1])
						}
						// lenVar := DecodedLen(src)
						var lenObj types.Object
						ast.Inspect(body, func(m ast.Node) bool {
							if as, ok := m.(*ast.AssignStmt); ok && len(as.Rhs) == 1 {
								if call, ok := as.Rhs[0].(*ast.CallExpr); ok {
									if o := calleeObj(info, call); o != nil && o.Name() == "DecodedLen" && len(call.Args) == 1 && c.normText(call.Args[0]) == src {
										if id, ok := as.Lhs[0].(*ast.Ident); ok {
											lenObj = info.Defs[id]
										}
									}
								}
							}
							return true
						})
						guarded := false
						db, _ := g.BlockOf(d)
						for _, b := range g.g.Blocks {
							cond, t, e := condEdges(b)
							if cond == nil || db == nil || lenObj == nil {
								continue
							}
							for _, a := range atomsFalseOn(cond) {
								if be, ok := ast.Unparen(a).(*ast.BinaryExpr); ok && (be.Op == token.GTR || be.Op == token.GEQ) {
									if id, ok := ast.Unparen(be.X).(*ast.Ident); ok && info.Uses[id] == lenObj {
										if g.failureLeaves(t, e) && g.Dominates(e, db) {
											guarded = true
										}
									}
								}
							}
						}
						key := fmt.Sprintf("%s snappy.Decode(%s) size-guarded", rel(pk.PkgPath), src)
						if guarded {
							obls = append(obls, Obl{Key: key, Pos: c.pos(d.Pos()), Status: OK})
						} else {
							obls = append(obls, Obl{Key: key, Pos: c.pos(d.Pos()), Status: Violation, Msg: "a snappy body is decompressed without bounding its declared decoded length: a few bytes can demand gigabytes"})
						}
					}
					return true
				})
			}
		}
		return obls
	},
}

var _ = ruleA9old

func init() { register(ruleA9, ruleA8) }

var _ = ruleA1old

// isFreshLocal: the receiver of the method call is a local variable defined in this function from a composite literal.
func (c *Ctx) isFreshLocal(fi *FuncInfo, call *ast.CallExpr) bool {
	info := fi.Pkg.TypesInfo
	se, ok := ast.Unparen(call.Fun).(*ast.SelectorExpr)
	if !ok {
		return false
	}
	id, ok := ast.Unparen(se.X).(*ast.Ident)
	if !ok {
		return false
	}
	obj := info.Uses[id]
	fresh := false
	ast.Inspect(fi.Decl.Body, func(n ast.Node) bool {
		if as, ok := n.(*ast.AssignStmt); ok && as.Tok == token.DEFINE && len(as.Lhs) == 1 && len(as.Rhs) == 1 {
			if l, ok := as.Lhs[0].(*ast.Ident); ok && info.Defs[l] == obj {
				r := ast.Unparen(as.Rhs[0])
				if u, ok := r.(*ast.UnaryExpr); ok {
					r = u.X
				}
				if _, ok := r.(*ast.CompositeLit); ok {
					fresh = true
				}
			}
		}
		return true
	})
	return fresh
}
