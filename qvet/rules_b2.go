package main

// B2 on SSA: the shared batch fields are swapped within one critical section (helpers that expect the lock included).

import (
	"fmt"
	"go/token"
	"go/types"
	"sort"
	"strings"

	"golang.org/x/tools/go/ssa"
)

// svcLocks: the insert service mutex, the regions in which a function holds it and the functions entered with it held.
type svcLocks struct {
	c         *Ctx
	mkey      string
	rev       map[*ssa.Function][]cgIn
	heldMemo  map[*ssa.Function]map[ssa.Instruction]bool
	entryMemo map[*ssa.Function]int
}

func newSvcLocks(c *Ctx) *svcLocks {
	l := &svcLocks{c: c, rev: c.CG().reverseVTA(), heldMemo: map[*ssa.Function]map[ssa.Instruction]bool{}, entryMemo: map[*ssa.Function]int{}}
	for _, fn := range liveModuleFuncs(c, "writer/service") {
		for _, b := range fn.Blocks {
			for _, ins := range b.Instrs {
				if call, ok := ins.(*ssa.Call); ok {
					if _, m, ok := lockOp(call); ok && strings.HasSuffix(m.key, "service.InsertServiceV2.mtx") {
						l.mkey = m.key
					}
				}
			}
		}
	}
	return l
}

func (l *svcLocks) held(fn *ssa.Function) map[ssa.Instruction]bool {
	if h, ok := l.heldMemo[fn]; ok {
		return h
	}
	h := heldInstrs(fn, l.mkey)
	l.heldMemo[fn] = h
	return h
}

// lockedAtEntry: every call site of fn lies in a held region (or in a function itself entered with the lock held).
func (l *svcLocks) lockedAtEntry(fn *ssa.Function, depth int) bool {
	if v := l.entryMemo[fn]; v != 0 {
		return v == 1
	}
	l.entryMemo[fn] = 2
	if depth > 4 {
		return false
	}
	n := 0
	ok := true
	for _, in := range l.rev[fn] {
		site := in.edge.Site
		if site == nil || in.edge.Fallback {
			continue
		}
		if _, isGo := site.(*ssa.Go); isGo {
			ok = false
			continue
		}
		if _, isDefer := site.(*ssa.Defer); isDefer {
			ok = false
			continue
		}
		if in.edge.Kind == "hof" || in.edge.Kind == "go-hof" {
			ok = false
			continue
		}
		n++
		if !l.held(in.caller)[site.(ssa.Instruction)] && !l.lockedAtEntry(in.caller, depth+1) {
			ok = false
		}
	}
	if n == 0 {
		ok = false
	}
	if ok {
		l.entryMemo[fn] = 1
	}
	return ok
}

// lockRegions: for each Lock of the service mutex in fn, the instructions executed while that hold lasts.
func (l *svcLocks) lockRegions(fn *ssa.Function) []map[ssa.Instruction]bool {
	var out []map[ssa.Instruction]bool
	for _, b := range fn.Blocks {
		for i, ins := range b.Instrs {
			call, ok := ins.(*ssa.Call)
			if !ok {
				continue
			}
			op, m, ok := lockOp(call)
			if !ok || op != "Lock" || m.key != l.mkey {
				continue
			}
			region := map[ssa.Instruction]bool{}
			seen := map[*ssa.BasicBlock]bool{}
			var walk func(blk *ssa.BasicBlock, from int)
			walk = func(blk *ssa.BasicBlock, from int) {
				for j := from; j < len(blk.Instrs); j++ {
					x := blk.Instrs[j]
					if ci, ok := x.(*ssa.Call); ok {
						if o2, m2, ok := lockOp(ci); ok && m2.key == l.mkey && m2.base == m.base && o2 == "Unlock" {
							return
						}
					}
					region[x] = true
				}
				for _, s := range blk.Succs {
					if !seen[s] {
						seen[s] = true
						walk(s, 0)
					}
				}
			}
			walk(b, i+1)
			out = append(out, region)
		}
	}
	return out
}

func (l *svcLocks) lockOps(fn *ssa.Function) int {
	n := 0
	for _, b := range fn.Blocks {
		for _, ins := range b.Instrs {
			if ci, ok := ins.(ssa.CallInstruction); ok {
				if _, m, ok := lockOp(ci); ok && m.key == l.mkey {
					n++
				}
			}
		}
	}
	return n
}

var b2Trio = map[string]bool{"columns": true, "results": true, "size": true}

// batchCarriers: struct types of writer/service that the insert service keeps in one of its fields and that hold batch state
// themselves (at least two fields named like the service's batch fields): the batch may have been gathered into one object.
func batchCarriers(c *Ctx) map[string]bool {
	if v, ok := c.memo["batchCarriers"]; ok {
		return v.(map[string]bool)
	}
	out := map[string]bool{}
	c.memo["batchCarriers"] = out
	p := c.ByPathLoaded(pkgWService)
	if p == nil {
		return out
	}
	svc, _ := p.Types.Scope().Lookup("InsertServiceV2").(*types.TypeName)
	if svc == nil {
		return out
	}
	st, ok := svc.Type().Underlying().(*types.Struct)
	if !ok {
		return out
	}
	for i := 0; i < st.NumFields(); i++ {
		nt := namedOf(st.Field(i).Type())
		if nt == nil || nt.Obj().Pkg() != p.Types {
			continue
		}
		inner, ok := nt.Underlying().(*types.Struct)
		if !ok {
			continue
		}
		n := 0
		for j := 0; j < inner.NumFields(); j++ {
			if b1Fields[inner.Field(j).Name()] || batchRoleOfType(inner.Field(j).Type()) != "" {
				n++
			}
		}
		if n >= 2 {
			out[nt.Obj().Pkg().Path()+"."+nt.Obj().Name()] = true
		}
	}
	return out
}

// batchRoleOfType: the batch role a field has by its type, whatever it is called: the column list and the promise list.
func batchRoleOfType(t types.Type) string {
	sl, ok := t.Underlying().(*types.Slice)
	if !ok {
		return ""
	}
	if nt := namedOf(sl.Elem()); nt != nil && nt.Obj().Name() == "IColPoolRes" {
		return "columns"
	}
	if pt, ok := sl.Elem().Underlying().(*types.Pointer); ok {
		if nt := namedOf(pt.Elem()); nt != nil && nt.Obj().Name() == "Promise" {
			return "results"
		}
	}
	return ""
}

// sharedCarrierBase: the carrier object the field is taken from is the one the service holds (a field of the service, embedded or
// through a pointer) or the receiver of one of the carrier's own methods — not a detached copy that left the service (the swapped-out
// portion the flush loop works on).
func sharedCarrierBase(fa *ssa.FieldAddr) bool {
	isSvc := func(t types.Type) bool {
		if p, ok := t.Underlying().(*types.Pointer); ok {
			t = p.Elem()
		}
		nt := namedOf(t)
		return nt != nil && nt.Obj().Name() == "InsertServiceV2"
	}
	switch x := fa.X.(type) {
	case *ssa.FieldAddr:
		return isSvc(x.X.Type()) || sharedCarrierBase(x)
	case *ssa.UnOp:
		if in, ok := x.X.(*ssa.FieldAddr); ok {
			return isSvc(in.X.Type()) || sharedCarrierBase(in)
		}
	case *ssa.Parameter:
		// the receiver of one of the carrier's own methods: shared when some call site hands it the service's object (or when the
		// call sites cannot be seen)
		fn := x.Parent()
		if fn == nil || fn.Signature.Recv() == nil || len(fn.Params) == 0 || fn.Params[0] != x {
			return false
		}
		if sharedBaseCtx == nil || sharedBaseDepth > 4 {
			return true
		}
		sharedBaseDepth++
		defer func() { sharedBaseDepth-- }()
		sites := callSitesOf(sharedBaseCtx, fn)
		if len(sites) == 0 {
			return true
		}
		for _, site := range sites {
			if len(site.Common().Args) == 0 {
				return true
			}
			switch a := site.Common().Args[0].(type) {
			case *ssa.FieldAddr:
				if isSvc(a.X.Type()) || sharedCarrierBase(a) {
					return true
				}
			case *ssa.UnOp:
				if in, ok := a.X.(*ssa.FieldAddr); ok && (isSvc(in.X.Type()) || sharedCarrierBase(in)) {
					return true
				}
			case *ssa.Parameter:
				// handed on from another method of the carrier
				if pf := a.Parent(); pf != nil && pf != fn && pf.Signature.Recv() != nil && len(pf.Params) > 0 && pf.Params[0] == a {
					if sharedCarrierBase(&ssa.FieldAddr{X: a}) {
						return true
					}
				}
			}
		}
		return false
	}
	return false
}

// sharedBaseCtx: the analysis context sharedCarrierBase resolves call sites with (set by batchFieldOf).
var sharedBaseCtx *Ctx
var sharedBaseDepth int

// batchFieldOf: the access is to a batch field of the service or of a batch carrier object the service holds; returns the field's
// canonical name (carrier fields are recognised by type — column list, promise list — or by the service's field names).
func batchFieldOf(c *Ctx, fa *ssa.FieldAddr) (string, bool) {
	k := fieldKey(fa.X.Type(), fa.Field)
	f := k[strings.LastIndex(k, ".")+1:]
	owner := k[:strings.LastIndex(k, ".")]
	if strings.HasSuffix(owner, "service.InsertServiceV2") {
		return f, b1Fields[f]
	}
	if !batchCarriers(c)[owner] {
		return "", false
	}
	t := fa.X.Type()
	if p, ok := t.Underlying().(*types.Pointer); ok {
		t = p.Elem()
	}
	if st, ok := t.Underlying().(*types.Struct); ok && fa.Field < st.NumFields() {
		if r := batchRoleOfType(st.Field(fa.Field).Type()); r != "" {
			f = r
		}
	}
	sharedBaseCtx = c
	if !b1Fields[f] || !sharedCarrierBase(fa) {
		return "", false
	}
	return f, true
}

// carrierFieldsOf: the canonical batch fields of a carrier struct type.
func carrierFieldsOf(nt *types.Named) []string {
	inner, ok := nt.Underlying().(*types.Struct)
	if !ok {
		return nil
	}
	var out []string
	for j := 0; j < inner.NumFields(); j++ {
		f := inner.Field(j).Name()
		if r := batchRoleOfType(inner.Field(j).Type()); r != "" {
			f = r
		}
		if b1Fields[f] {
			out = append(out, f)
		}
	}
	return out
}

// carrierLoad: the instruction reads a whole carrier object out of the service (`taken := svc.pending`): every batch field is read.
func carrierLoad(c *Ctx, u *ssa.UnOp) []string {
	fa, ok := u.X.(*ssa.FieldAddr)
	if !ok || u.Op != token.MUL {
		return nil
	}
	nt := namedOf(u.Type())
	if nt == nil || nt.Obj().Pkg() == nil || !batchCarriers(c)[nt.Obj().Pkg().Path()+"."+nt.Obj().Name()] {
		return nil
	}
	if st := namedOf(derefType(fa.X.Type())); st == nil || st.Obj().Name() != "InsertServiceV2" {
		return nil
	}
	return carrierFieldsOf(nt)
}

func derefType(t types.Type) types.Type {
	if p, ok := t.Underlying().(*types.Pointer); ok {
		return p.Elem()
	}
	return t
}

// carrierStore: the store replaces a whole batch carrier object (`*b = batchBuffer{…}`): every batch field of it is written.
func carrierStore(c *Ctx, st *ssa.Store) []string {
	pt, ok := st.Addr.Type().Underlying().(*types.Pointer)
	if !ok {
		return nil
	}
	nt := namedOf(pt.Elem())
	if nt == nil || nt.Obj().Pkg() == nil || !batchCarriers(c)[nt.Obj().Pkg().Path()+"."+nt.Obj().Name()] {
		return nil
	}
	// a detached copy being filled (`taken := svc.pending` stores into a local) is not the shared object
	switch a := st.Addr.(type) {
	case *ssa.FieldAddr:
		if sn := namedOf(derefType(a.X.Type())); sn == nil || sn.Obj().Name() != "InsertServiceV2" {
			return nil
		}
	case *ssa.Alloc:
		return nil
	}
	return carrierFieldsOf(nt)
}

// trioWrites: the instructions of fn that write a shared batch field — a store, or a call of a function that (without taking the
// lock itself) does so — with the fields written.
func (l *svcLocks) trioWrites(fn *ssa.Function, depth int, memo map[*ssa.Function]map[ssa.Instruction][]string) map[ssa.Instruction][]string {
	if m, ok := memo[fn]; ok {
		return m
	}
	out := map[ssa.Instruction][]string{}
	memo[fn] = out
	for _, b := range fn.Blocks {
		for _, ins := range b.Instrs {
			switch x := ins.(type) {
			case *ssa.Store:
				if fa, ok := x.Addr.(*ssa.FieldAddr); ok {
					if f, ok := batchFieldOf(l.c, fa); ok && b2Trio[f] {
						out[ins] = append(out[ins], f)
					}
				}
				for _, f := range carrierStore(l.c, x) {
					if b2Trio[f] {
						out[ins] = append(out[ins], f)
					}
				}
			case *ssa.UnOp:
				// a read of a batch field belongs to the swap as well (marked "r:" — it does not count as a written field)
				if fa, ok := x.X.(*ssa.FieldAddr); ok && x.Op == token.MUL {
					if f, ok := batchFieldOf(l.c, fa); ok && b2Trio[f] {
						out[ins] = append(out[ins], "r:"+f)
					}
				}
				for _, f := range carrierLoad(l.c, x) {
					if b2Trio[f] {
						out[ins] = append(out[ins], "r:"+f)
					}
				}
			case *ssa.Call:
				sc := x.Common().StaticCallee()
				if sc == nil || depth >= 3 || !strings.HasPrefix(fnPkgRel(sc), "writer/service") || len(sc.Blocks) == 0 || l.lockOps(sc) > 0 {
					continue
				}
				set := map[string]bool{}
				for _, fs := range l.trioWrites(sc, depth+1, memo) {
					for _, f := range fs {
						set[f] = true
					}
				}
				for f := range set {
					out[ins] = append(out[ins], f)
				}
				sort.Strings(out[ins])
			}
		}
	}
	return out
}

var ruleB2 = &Rule{
	ID:    "B2",
	Floor: 2,
	Doc: "atomic buffer swap (SSA, interprocedural): in every live function of writer/service that writes two or more of the shared batch fields (columns, results, size) — by its own stores or through helpers that do not take the lock themselves — all those writes, and every read of those fields the function makes, happen within one single hold of the service mutex: the region of one Lock call (to the matching Unlock on every path, to the end when the Unlock is deferred), " +
		"or, for a helper that never touches the lock, a function all of whose call sites are in such a region. Splitting the swap into two lock holds lets a request append rows to columns that are already swapped out while its promise stays with the next batch",
	Run: func(c *Ctx) []Obl {
		var obls []Obl
		l := newSvcLocks(c)
		if l.mkey == "" {
			return []Obl{{Key: "writer/service.InsertServiceV2.mtx", Pos: "-", Status: Undecided, Msg: "no Lock of the service mutex found"}}
		}
		memo := map[*ssa.Function]map[ssa.Instruction][]string{}
		for _, fn := range liveModuleFuncs(c, "writer/service") {
			writes := l.trioWrites(fn, 0, memo)
			fields := map[string]bool{}
			for _, fs := range writes {
				for _, f := range fs {
					if !strings.HasPrefix(f, "r:") {
						fields[f] = true
					}
				}
			}
			if len(fields) < 2 {
				continue
			}
			declName := ssaName(fn)
			if fi := c.funcInfoOf(fn); fi != nil && fn.Parent() == nil {
				declName = fi.Name()
			}
			key := fmt.Sprintf("%s swaps %v in one critical section", declName, keysOf(fields))
			okOne := false
			why := ""
			regions := l.lockRegions(fn)
			for _, r := range regions {
				all := true
				for ins := range writes {
					if !r[ins] {
						all = false
					}
				}
				if all {
					okOne = true
					why = "one lock hold"
				}
			}
			if !okOne && l.lockOps(fn) == 0 && l.lockedAtEntry(fn, 0) {
				okOne = true
				why = "helper entered with the lock held at every call site"
			}
			if okOne {
				obls = append(obls, Obl{Key: key, Pos: c.pos(fn.Pos()), Status: OK, Msg: why})
			} else {
				obls = append(obls, Obl{Key: key, Pos: c.pos(fn.Pos()), Status: Violation,
					Msg: fmt.Sprintf("the shared batch fields are not all written within one hold of the service lock (%d Lock calls in the function): a request arriving between the holds appends its rows to the outgoing columns while its promise is queued with the next batch (it is told the outcome of an INSERT that did not carry its rows)", len(regions))})
			}
		}
		sort.SliceStable(obls, func(i, j int) bool { return obls[i].Key < obls[j].Key })
		return obls
	},
}
