package main

// A6, C6 (SSA, interprocedural): retention settings.

import (
	"fmt"
	"go/constant"
	"go/token"
	"go/types"
	"os"
	"sort"
	"strconv"
	"strings"

	"golang.org/x/tools/go/ssa"
)

// queryTextsOf: the constant texts a query argument can be built from (constants, Sprintf formats), through locals, phis, array
// elements and range variables.
func queryTextsOf(v ssa.Value) []string {
	var out []string
	dependsOnValue(v, func(x ssa.Value) bool {
		if s := constQuery(x); s != "" {
			out = append(out, s)
		}
		return false
	}, map[ssa.Value]bool{}, 0)
	return out
}

func isAlterText(s string) bool {
	return strings.HasPrefix(strings.ToUpper(strings.TrimSpace(s)), "ALTER")
}

// alterExecs: the driver Exec calls of fn whose statement text is an ALTER.
func alterExecs(fn *ssa.Function) []*ssa.Call {
	var out []*ssa.Call
	for _, b := range fn.Blocks {
		for _, ins := range b.Instrs {
			call, ok := ins.(*ssa.Call)
			if !ok || !call.Common().IsInvoke() || call.Common().Method.Name() != "Exec" || !isDriverConn(call.Common().Value.Type()) || len(call.Common().Args) < 2 {
				continue
			}
			for _, t := range queryTextsOf(call.Common().Args[1]) {
				if isAlterText(t) {
					out = append(out, call)
					break
				}
			}
		}
	}
	return out
}

// performsAlters: fn (a helper) issues ALTER statements, and every one of them lets its error leave the helper.
func performsAlters(fn *ssa.Function, depth int) (n int, allChecked bool) {
	allChecked = true
	if fn == nil || depth > 2 {
		return 0, true
	}
	for _, a := range alterExecs(fn) {
		n++
		if !errLeaves(a) {
			allChecked = false
		}
	}
	for _, b := range fn.Blocks {
		for _, ins := range b.Instrs {
			if call, ok := ins.(*ssa.Call); ok {
				if sc := call.Common().StaticCallee(); sc != nil && isModuleFn(sc) && sc != fn {
					m, ok2 := performsAlters(sc, depth+1)
					n += m
					if m > 0 && (!ok2 || !errLeaves(call)) {
						allChecked = false
					}
					// a statement runner: the helper Execs the text it is given, and this call gives it an ALTER
					for _, hb := range sc.Blocks {
						for _, hi := range hb.Instrs {
							ex, ok := hi.(*ssa.Call)
							if !ok || !ex.Common().IsInvoke() || ex.Common().Method.Name() != "Exec" || !isDriverConn(ex.Common().Value.Type()) || len(ex.Common().Args) < 2 {
								continue
							}
							for i, p := range sc.Params {
								if i >= len(call.Common().Args) {
									break
								}
								if !dependsOnValue(ex.Common().Args[1], func(x ssa.Value) bool { return x == ssa.Value(p) }, map[ssa.Value]bool{}, 0) {
									continue
								}
								for _, t := range queryTextsOf(call.Common().Args[i]) {
									if isAlterText(t) {
										n++
										if !errLeaves(ex) || !errLeaves(call) {
											allChecked = false
										}
										break
									}
								}
							}
						}
					}
				}
			}
		}
	}
	return
}

var ruleA6 = &Rule{
	ID:    "A6",
	Floor: 6, // one generic runner for every kind of alteration yields 7 obligations; two written-out routines 14
	Doc: "retention (SSA, interprocedural): in every live function of ctrl/ that records an applied setting (calls the routine that runs `INSERT INTO settings`, whatever it is called): it reads the recorded value with the routine that queries the settings table, under the same (type, name); a comparison of the recorded value with the value putSetting records exists and from its `equal` edge neither an ALTER nor putSetting can be reached; " +
		"every ALTER — a driver Exec whose statement text is an ALTER, in the function itself or in a helper it calls — sits in a loop, lets its error leave (in the helper and at the helper's call site), and from its failure edge putSetting cannot be reached; putSetting is not in that loop; the value recorded is also interpolated into / bound to the ALTER (possibly through the helper's parameters)",
	Run: func(c *Ctx) []Obl {
		var obls []Obl
		found := 0
		api := c.settingsAPIOf()
		if api.basePut == nil || api.baseGet == nil {
			return []Obl{{Key: "settings read / write routines", Pos: "-", Status: Undecided, Msg: "no function of ctrl/ runs `INSERT INTO settings` / reads the settings table"}}
		}
		for _, fn := range moduleFuncs(c.CG()) {
			// thin forwarding wrappers of the settings routines are judged at their callers
			if isTestFunc(c, fn) || !strings.HasPrefix(fnPkgRel(fn), "ctrl") || api.inner[fn] != nil || fn.Synthetic != "" {
				continue
			}
			var put, get *ssa.Call
			for _, b := range fn.Blocks {
				for _, ins := range b.Instrs {
					if call, ok := ins.(*ssa.Call); ok {
						if sc := call.Common().StaticCallee(); sc != nil {
							if api.putLike[sc] {
								put = call
							} else if api.getLike[sc] {
								get = call
							}
						}
					}
				}
			}
			if put == nil {
				continue
			}
			name := ssaName(fn)
			if !c.CG().live[fn] {
				obls = append(obls, Obl{Key: name + " (unreachable from main)", Pos: c.pos(fn.Pos()), Status: Info, Msg: "records a setting but is dead code on this tree; not analysed"})
				continue
			}
			found++
			add := func(k string, ok bool, pos token.Pos, msg string) {
				st := OK
				if !ok {
					st = Violation
				} else {
					msg = ""
				}
				obls = append(obls, Obl{Key: name + " " + k, Pos: c.pos(pos), Status: st, Msg: msg})
			}
			if get == nil {
				add("guard", false, put.Pos(), "no getSetting call to compare the recorded value with")
				continue
			}
			// (type, name): the string arguments of the write routine are (type, name, value), those of the read routine (type, name)
			pr, okP := api.rolesAt(put, 0)
			gr, okG := api.rolesAt(get, 0)
			sameKey := okP && okG && sameSym(pr.tp, gr.tp) && sameSym(pr.name, gr.name)
			add("get/put use the same (type, name)", sameKey, get.Pos(), "the value compared must be the one recorded under the same key, else re-applying is never a no-op (or a change is never applied)")
			var desired ssa.Value
			if len(pr.value.path) == 0 {
				desired = pr.value.v
			}
			var recorded ssa.Value
			if get.Referrers() != nil {
				for _, r := range *get.Referrers() {
					if ex, ok := r.(*ssa.Extract); ok && ex.Index == 0 {
						recorded = ex
					}
				}
			}
			// the changed? comparison
			var eqSucc *ssa.BasicBlock
			var cmpPos token.Pos
			for _, b := range fn.Blocks {
				if len(b.Instrs) == 0 {
					continue
				}
				iff, ok := b.Instrs[len(b.Instrs)-1].(*ssa.If)
				if !ok {
					continue
				}
				cmp, ok := iff.Cond.(*ssa.BinOp)
				if !ok || (cmp.Op != token.EQL && cmp.Op != token.NEQ) {
					continue
				}
				if (cmp.X == recorded && sameExpr(cmp.Y, desired, 0)) || (cmp.Y == recorded && sameExpr(cmp.X, desired, 0)) {
					eqSucc = b.Succs[0]
					if cmp.Op == token.NEQ {
						eqSucc = b.Succs[1]
					}
					cmpPos = cmp.Pos()
				}
			}
			if eqSucc == nil || recorded == nil {
				add("changed? comparison", false, put.Pos(), "no comparison `recorded == desired` whose equal-branch leaves the function: ALTERs are issued on every run")
				continue
			}
			add("changed? comparison", true, cmpPos, "")
			fromEq := reachableBlocks(eqSucc)
			add("putSetting only if changed", !fromEq[put.Block()], put.Pos(), "the setting is recorded again although nothing changed")
			// ALTER sites
			type site struct {
				ins    *ssa.Call
				text   string
				helper *ssa.Function
				impls  []*ssa.Function // the alteration is a method of an object: its implementations (all of them ALTER)
			}
			var sites []site
			for _, a := range alterExecs(fn) {
				t := ""
				for _, q := range queryTextsOf(a.Common().Args[1]) {
					if isAlterText(q) {
						t = q
					}
				}
				sites = append(sites, site{a, t, nil, nil})
			}
			for _, b := range fn.Blocks {
				for _, ins := range b.Instrs {
					if call, ok := ins.(*ssa.Call); ok {
						if sc := call.Common().StaticCallee(); sc != nil && isModuleFn(sc) && !api.putLike[sc] && !api.getLike[sc] {
							if n, _ := performsAlters(sc, 0); n > 0 {
								sites = append(sites, site{call, "ALTERs in " + sc.Name(), sc, nil})
							}
						} else if call.Common().IsInvoke() {
							// the kind of alteration is an object: every implementation the call can reach must ALTER
							var impls []*ssa.Function
							all := true
							for _, e := range c.CG().vtaOut[fn] {
								if e.Site != ssa.CallInstruction(call) || !isModuleFn(e.Callee) {
									continue
								}
								impls = append(impls, e.Callee)
								if n, _ := performsAlters(e.Callee, 0); n == 0 {
									all = false
								}
							}
							if os.Getenv("QVET_DEBUG_A6") != "" {
								fmt.Fprintln(os.Stderr, "A6 invoke", call, "impls", impls, "all", all, "edges", len(c.CG().vtaOut[fn]))
							}
							if all && len(impls) > 0 {
								sites = append(sites, site{call, "ALTERs in the implementations of " + call.Common().Method.Name(), nil, impls})
							}
						}
					}
				}
			}
			if len(sites) == 0 {
				add("ALTER statements", false, put.Pos(), "a setting is recorded but no ALTER is issued in this function or in a helper it calls")
				continue
			}
			sort.Slice(sites, func(i, j int) bool { return sites[i].ins.Pos() < sites[j].ins.Pos() })
			anyUses := false
			for i, s := range sites {
				short := strings.Join(strings.Fields(s.text), " ")
				if len(short) > 50 {
					short = short[:50]
				}
				k := fmt.Sprintf("ALTER #%d (%s)", i+1, short)
				cyc := inCycle(s.ins.Block())
				add(k+" inside the table loop, only if changed", cyc != nil && !fromEq[s.ins.Block()], s.ins.Pos(), "every ALTER must sit in the loop over the table list and must not be reachable when the recorded value equals the desired one")
				checked := errLeaves(s.ins)
				if s.helper != nil {
					if _, ok := performsAlters(s.helper, 0); !ok {
						checked = false
					}
				}
				for _, im := range s.impls {
					if _, ok := performsAlters(im, 0); !ok {
						checked = false
					}
				}
				add(k+" error leaves the function", checked, s.ins.Pos(), "a failed ALTER must abort before the setting is recorded")
				// from the failure edge putSetting is unreachable; putSetting is outside the loop
				failReaches := false
				if s.ins.Referrers() != nil {
					for _, r := range *s.ins.Referrers() {
						cmp, ok := r.(*ssa.BinOp)
						if !ok || cmp.Referrers() == nil {
							continue
						}
						for _, rr := range *cmp.Referrers() {
							if iff, ok := rr.(*ssa.If); ok {
								bad := iff.Block().Succs[0]
								if cmp.Op == token.EQL {
									bad = iff.Block().Succs[1]
								}
								if reachableBlocks(bad)[put.Block()] {
									failReaches = true
								}
							}
						}
					}
				}
				add(k+" setting recorded after the loop", !failReaches && (cyc == nil || !cyc[put.Block()]), put.Pos(),
					"putSetting can be reached after a failed ALTER, or lies inside the loop: the setting is recorded although not every table was altered, and later runs skip the repair")
				for _, a := range s.ins.Common().Args {
					if dependsOnValue(a, func(x ssa.Value) bool { return x == desired }, map[ssa.Value]bool{}, 0) {
						anyUses = true
					}
				}
				// the alteration object that is applied is the one whose accessor supplied the recorded value, and each of its
				// implementations feeds its statement from the receiver
				if dc, ok := desired.(*ssa.Call); ok && len(s.impls) > 0 && dc.Common().IsInvoke() && sameExpr(dc.Common().Value, s.ins.Common().Value, 0) && pureGetterMethod(dc.Common().Method) {
					fed := true
					for _, im := range s.impls {
						if len(im.Params) == 0 {
							fed = false
							continue
						}
						recv := im.Params[0]
						uses := false
						var scan func(f *ssa.Function, d int)
						scan = func(f *ssa.Function, d int) {
							for _, a := range alterExecs(f) {
								for _, arg := range a.Common().Args {
									if dependsOnValue(arg, func(x ssa.Value) bool { return x == ssa.Value(recv) }, map[ssa.Value]bool{}, 0) {
										uses = true
									}
								}
							}
						}
						scan(im, 0)
						for _, ib := range im.Blocks {
							for _, ii := range ib.Instrs {
								if sc2, ok := ii.(*ssa.Call); ok && sc2.Common().StaticCallee() != nil && isModuleFn(sc2.Common().StaticCallee()) {
									for _, arg := range sc2.Common().Args {
										isAlter := false
										for _, t := range queryTextsOf(arg) {
											if isAlterText(t) {
												isAlter = true
											}
										}
										if isAlter && dependsOnValue(arg, func(x ssa.Value) bool { return x == ssa.Value(recv) }, map[ssa.Value]bool{}, 0) {
											uses = true
										}
									}
								}
							}
						}
						if !uses {
							fed = false
						}
					}
					if fed {
						anyUses = true
					}
				}
			}
			add("the recorded value is applied by an ALTER", anyUses, put.Pos(), "the value recorded by putSetting must be the one interpolated into / bound to an ALTER of the group")
		}
		if found == 0 {
			obls = append(obls, Obl{Key: "ctrl: putSetting callers", Pos: "-", Status: Undecided, Msg: "no live function records a setting"})
		}
		return obls
	},
}

// ---------------------------------------------------------------------------------
// C6

var ruleC6 = &Rule{
	ID:    "C6",
	Floor: 6,
	Doc: "tier-move clamp (SSA, interprocedural): (a) in the function that interpolates the tier duration into `toIntervalSecond(%d)`, the interpolated value is the merge of the policy's duration and the minimum (a phi of the two, selected by a `<` comparison of exactly those two values), the minimum deriving from a time.Duration parameter; " +
		"(b) following that parameter and the insert-time expression parameter up through the call sites to where both are constants: the minimum is 24h iff the expression is the `date` column (index tables), and one minute otherwise (sample tables)",
	Run: func(c *Ctx) []Obl {
		var obls []Obl
		var clampFn *ssa.Function
		var pMin, pExpr *ssa.Parameter
		okClamp := false
		for _, fn := range liveModuleFuncs(c, "ctrl") {
			for _, b := range fn.Blocks {
				for _, ins := range b.Instrs {
					call, ok := ins.(*ssa.Call)
					if !ok {
						continue
					}
					sc := call.Common().StaticCallee()
					if sc == nil || sc.String() != "fmt.Sprintf" || len(call.Common().Args) != 2 {
						continue
					}
					f, ok := constStr(call.Common().Args[0])
					if !ok || !strings.Contains(f, "toIntervalSecond") {
						continue
					}
					clampFn = fn
					for _, e := range variadicElems(call.Common().Args[1]) {
						v := e
						for {
							switch x := v.(type) {
							case *ssa.MakeInterface:
								v = x.X
								continue
							case *ssa.Convert:
								v = x.X
								continue
							}
							break
						}
						if p, ok := v.(*ssa.Parameter); ok {
							if b, ok := p.Type().Underlying().(*types.Basic); ok && b.Info()&types.IsString != 0 {
								pExpr = p
							}
						}
						sides, isMax := maxOfTwo(v)
						if !isMax {
							continue
						}
						okClamp = true
						// which of the two derives from a numeric parameter (the minimum)
						for _, side := range sides {
							dependsOnValue(side, func(x ssa.Value) bool {
								if p, ok := x.(*ssa.Parameter); ok && p.Parent() == fn {
									// the minimum is a plain number (a time.Duration or a count of seconds); the policy is a struct / slice element
									if bt, ok := p.Type().Underlying().(*types.Basic); ok && bt.Info()&types.IsNumeric != 0 {
										pMin = p
										return true
									}
								}
								return false
							}, map[ssa.Value]bool{}, 0)
						}
					}
				}
			}
		}
		if clampFn == nil {
			return []Obl{{Key: "tier-move clamp", Pos: "-", Status: Undecided, Msg: "no function interpolating toIntervalSecond(%d) found in ctrl/"}}
		}
		st, msg := OK, ""
		if !okClamp || pMin == nil {
			st, msg = Violation, "tier durations are no longer clamped to the per-table minimum: a tier move earlier than one minute / one day can be configured"
		}
		obls = append(obls, Obl{Key: ssaName(clampFn) + " clamps tier duration to the minimum", Pos: c.pos(clampFn.Pos()), Status: st, Msg: msg})
		if pMin == nil || pExpr == nil {
			return obls
		}
		// (b) walk up to constant call sites
		type frame struct {
			fn         *ssa.Function
			min, expr  ssa.Value
			settingArg string
		}
		work := []frame{{clampFn, pMin, pExpr, ""}}
		seen := map[string]bool{}
		for len(work) > 0 {
			fr := work[0]
			work = work[1:]
			pm, okm := fr.min.(*ssa.Parameter)
			pe, oke := fr.expr.(*ssa.Parameter)
			if !okm && !oke {
				continue
			}
			for _, site := range callSitesOf(c, fr.fn) {
				args := site.Common().Args
				nm, ne := fr.min, fr.expr
				for i, p := range fr.fn.Params {
					if i >= len(args) {
						continue
					}
					if okm && p == pm {
						nm = args[i]
					}
					if oke && p == pe {
						ne = args[i]
					}
				}
				label := ""
				for _, a := range args {
					if s, ok := constStr(a); ok && s != "" && !strings.Contains(s, " ") && !strings.Contains(s, "(") && s != "date" {
						label = s
					}
				}
				nm = secondsRoot(nm)
				judge := func(label string, sexpr string, secs int64) {
					want := int64(60)
					if strings.TrimSpace(sexpr) == "date" {
						want = 86400
					}
					key := fmt.Sprintf("%s %s(%s) minimum", ssaName(site.Parent()), fr.fn.Name(), label)
					if seen[key] {
						return
					}
					seen[key] = true
					if secs == want {
						obls = append(obls, Obl{Key: key, Pos: c.pos(site.Pos()), Status: OK, Msg: fmt.Sprintf("expr=%q min=%ds", sexpr, secs)})
					} else {
						obls = append(obls, Obl{Key: key, Pos: c.pos(site.Pos()), Status: Violation,
							Msg: fmt.Sprintf("insert-time expression %q is clamped with a minimum of %ds, expected %ds: a TTL on the date column cannot move data earlier than one day, one on the timestamp not earlier than one minute", sexpr, secs, want)})
					}
				}
				// both are fields of one row of a constant table: one instance per row
				if bm, fm, ok1 := fieldOfRow(nm); ok1 {
					if be, fe, ok2 := fieldOfRow(ne); ok2 && (bm == be || sameAddr(bm, be, 0)) {
						if rows := c.rowSource(bm, 0); rows != nil {
							for _, row := range rows {
								lbl := ""
								var fns []string
								for k := range row {
									fns = append(fns, k)
								}
								sort.Strings(fns)
								for _, k := range fns {
									v := row[k]
									if k != fe && k != fm && v != "" && !strings.ContainsAny(v, " (") {
										if _, err := strconv.ParseInt(v, 10, 64); err != nil {
											lbl = v
										}
									}
								}
								n, err := strconv.ParseInt(row[fm], 10, 64)
								if _, has := row[fe]; !has || err != nil {
									obls = append(obls, Obl{Key: fmt.Sprintf("%s %s(%s) minimum", ssaName(site.Parent()), fr.fn.Name(), lbl), Pos: c.pos(site.Pos()), Status: Undecided, Msg: "table row without a constant minimum / expression"})
									continue
								}
								if isDurationType(nm.Type()) {
									n /= 1000000000
								}
								judge(lbl, row[fe], n)
							}
							continue
						}
					}
				}
				// both are computed from one enumeration field of a row of a constant table by methods that map each constant
				// to a constant
				if cm, ok1 := nm.(*ssa.Call); ok1 {
					if ce, ok2 := ne.(*ssa.Call); ok2 && len(cm.Common().Args) == 1 && len(ce.Common().Args) == 1 &&
						cm.Common().StaticCallee() != nil && ce.Common().StaticCallee() != nil {
						rm, re := symOf(cm.Common().Args[0]), symOf(ce.Common().Args[0])
						if sameSym(rm, re) && len(rm.path) > 0 {
							if rows := c.rowSource(rm.v, 0); rows != nil {
								kf := fieldPathName(rm.v.Type(), rm.path)
								for _, row := range rows {
									lbl := ""
									var fns []string
									for k := range row {
										fns = append(fns, k)
									}
									sort.Strings(fns)
									for _, k := range fns {
										v := row[k]
										if k != kf && v != "" && !strings.ContainsAny(v, " (") {
											if _, err := strconv.ParseInt(v, 10, 64); err != nil {
												lbl = v
											}
										}
									}
									key := fmt.Sprintf("%s %s(%s) minimum", ssaName(site.Parent()), fr.fn.Name(), lbl)
									kv, has := row[kf]
									mv, okM := enumEval(cm.Common().StaticCallee(), kv)
									ev, okE := enumEval(ce.Common().StaticCallee(), kv)
									n, err := strconv.ParseInt(mv, 10, 64)
									if !has || !okM || !okE || err != nil {
										obls = append(obls, Obl{Key: key, Pos: c.pos(site.Pos()), Status: Undecided, Msg: "table row whose kind does not evaluate to a constant minimum / expression"})
										continue
									}
									if isDurationType(cm.Type()) {
										n /= 1000000000
									}
									judge(lbl, ev, n)
								}
								continue
							}
						}
					}
				}
				kmin, okMinConst := nm.(*ssa.Const)
				sexpr, okExprConst := constStr(ne)
				if okMinConst && okExprConst {
					secs := int64(0)
					if kmin.Value != nil {
						if n, ok := int64Of(kmin); ok {
							secs = n
							if isDurationType(kmin.Type()) {
								secs = n / 1000000000
							}
						}
					}
					want := int64(60)
					if strings.TrimSpace(sexpr) == "date" {
						want = 86400
					}
					key := fmt.Sprintf("%s %s(%s) minimum", ssaName(site.Parent()), fr.fn.Name(), label)
					if seen[key] {
						continue
					}
					seen[key] = true
					if secs == want {
						obls = append(obls, Obl{Key: key, Pos: c.pos(site.Pos()), Status: OK, Msg: fmt.Sprintf("expr=%q min=%ds", sexpr, secs)})
					} else {
						obls = append(obls, Obl{Key: key, Pos: c.pos(site.Pos()), Status: Violation,
							Msg: fmt.Sprintf("insert-time expression %q is clamped with a minimum of %ds, expected %ds: a TTL on the date column cannot move data earlier than one day, one on the timestamp not earlier than one minute", sexpr, secs, want)})
					}
					continue
				}
				work = append(work, frame{site.Parent(), nm, ne, label})
			}
		}
		return obls
	},
}

func init() { register(ruleA6, ruleC6) }

// selectsMax: some `<`-family comparison of fn between exactly a and b sends its true edge to where carried(trueSucc) is the larger one.
func selectsMax(fn *ssa.Function, a, b ssa.Value, carried func(from *ssa.BasicBlock, trueSucc *ssa.BasicBlock) ssa.Value) bool {
	for _, bb := range fn.Blocks {
		if len(bb.Instrs) == 0 {
			continue
		}
		iff, ok := bb.Instrs[len(bb.Instrs)-1].(*ssa.If)
		if !ok {
			continue
		}
		cmp, ok := iff.Cond.(*ssa.BinOp)
		if !ok || (cmp.Op != token.LSS && cmp.Op != token.GTR && cmp.Op != token.LEQ && cmp.Op != token.GEQ) {
			continue
		}
		if !((sameExpr(cmp.X, a, 0) && sameExpr(cmp.Y, b, 0)) || (sameExpr(cmp.X, b, 0) && sameExpr(cmp.Y, a, 0))) {
			continue
		}
		// on the true edge lo < hi (or lo <= hi): the smaller side must be the one replaced
		hi := cmp.Y
		if cmp.Op == token.GTR || cmp.Op == token.GEQ {
			hi = cmp.X
		}
		if got := carried(bb, bb.Succs[0]); got != nil && sameExpr(got, hi, 0) {
			return true
		}
	}
	return false
}

// maxOfTwo: v is the larger of two values — a merge of the two selected by a comparison of exactly those two, in place or in a helper
// that returns one or the other; the sides are given in the frame of v.
func maxOfTwo(v ssa.Value) ([]ssa.Value, bool) {
	switch x := v.(type) {
	case *ssa.Phi:
		if len(x.Edges) != 2 {
			return nil, false
		}
		ok := selectsMax(x.Parent(), x.Edges[0], x.Edges[1], func(from, succ *ssa.BasicBlock) ssa.Value {
			for i, pred := range x.Block().Preds {
				if pred == succ || (succ == x.Block() && pred == from) {
					return x.Edges[i]
				}
			}
			return nil
		})
		return []ssa.Value{x.Edges[0], x.Edges[1]}, ok
	case *ssa.Call:
		sc := x.Common().StaticCallee()
		if sc == nil || !isModuleFn(sc) || len(sc.Blocks) == 0 {
			return nil, false
		}
		rets := returnsOf(sc)
		if len(rets) == 1 && len(rets[0].Results) == 1 {
			// the helper merges before returning
			if _, ok := maxOfTwo(rets[0].Results[0]); ok {
				return x.Common().Args, true
			}
			return nil, false
		}
		if len(rets) != 2 || len(rets[0].Results) != 1 || len(rets[1].Results) != 1 {
			return nil, false
		}
		ok := selectsMax(sc, rets[0].Results[0], rets[1].Results[0], func(from, succ *ssa.BasicBlock) ssa.Value {
			for _, r := range rets {
				if r.Block() == succ || (len(succ.Preds) == 1 && succ.Dominates(r.Block())) {
					return r.Results[0]
				}
			}
			return nil
		})
		return x.Common().Args, ok
	}
	return nil, false
}

// sameExpr: two SSA values are the same pure expression over the same leaves (Go's SSA form does no common-subexpression elimination).
func sameExpr(a, b ssa.Value, d int) bool {
	if a == b {
		return true
	}
	if d > 6 || a == nil || b == nil {
		return false
	}
	switch x := a.(type) {
	case *ssa.Const:
		y, ok := b.(*ssa.Const)
		return ok && x.Value != nil && y.Value != nil && x.Value.ExactString() == y.Value.ExactString() && types.Identical(x.Type(), y.Type())
	case *ssa.Convert:
		y, ok := b.(*ssa.Convert)
		return ok && types.Identical(x.Type(), y.Type()) && sameExpr(x.X, y.X, d+1)
	case *ssa.ChangeType:
		y, ok := b.(*ssa.ChangeType)
		return ok && sameExpr(x.X, y.X, d+1)
	case *ssa.BinOp:
		y, ok := b.(*ssa.BinOp)
		return ok && x.Op == y.Op && sameExpr(x.X, y.X, d+1) && sameExpr(x.Y, y.Y, d+1)
	case *ssa.Field:
		y, ok := b.(*ssa.Field)
		return ok && x.Field == y.Field && sameExpr(x.X, y.X, d+1)
	case *ssa.UnOp:
		y, ok := b.(*ssa.UnOp)
		return ok && x.Op == y.Op && x.Op == token.MUL && sameAddr(x.X, y.X, 0)
	case *ssa.Call:
		y, ok := b.(*ssa.Call)
		if ok && x.Common().IsInvoke() && y.Common().IsInvoke() && x.Common().Method == y.Common().Method &&
			len(x.Common().Args) == 0 && len(y.Common().Args) == 0 && sameExpr(x.Common().Value, y.Common().Value, d+1) {
			// the same accessor of the same object, every implementation of which only reads a field of its receiver
			return pureGetterMethod(x.Common().Method)
		}
		if !ok || x.Common().StaticCallee() == nil || x.Common().StaticCallee() != y.Common().StaticCallee() {
			return false
		}
		// only side-effect free library accessors
		n := x.Common().StaticCallee().String()
		if !strings.HasPrefix(n, "(time.Duration).") && !strings.HasPrefix(n, "(time.Time).") && !strings.HasPrefix(n, "math.") {
			return false
		}
		if len(x.Common().Args) != len(y.Common().Args) {
			return false
		}
		for i := range x.Common().Args {
			if !sameExpr(x.Common().Args[i], y.Common().Args[i], d+1) {
				return false
			}
		}
		return true
	}
	return false
}

// secondsRoot strips conversions and `(time.Duration).Seconds()` from a value: what remains is either a duration or a number of seconds.
func secondsRoot(v ssa.Value) ssa.Value {
	for i := 0; i < 8; i++ {
		switch x := v.(type) {
		case *ssa.Convert:
			if isDurationType(x.Type()) && !isDurationType(x.X.Type()) {
				return v
			}
			v = x.X
			continue
		case *ssa.ChangeType:
			v = x.X
			continue
		case *ssa.Call:
			if sc := x.Common().StaticCallee(); sc != nil && sc.String() == "(time.Duration).Seconds" && len(x.Common().Args) == 1 {
				v = x.Common().Args[0]
				continue
			}
		}
		break
	}
	return v
}

func isDurationType(t types.Type) bool {
	nt := namedOf(t)
	return nt != nil && nt.Obj().Name() == "Duration" && nt.Obj().Pkg() != nil && nt.Obj().Pkg().Path() == "time"
}

// fieldOfRow: the value reads a field of a struct value; returns the struct (value or address) and the field's name.
func fieldOfRow(v ssa.Value) (ssa.Value, string, bool) {
	switch x := v.(type) {
	case *ssa.Field:
		return x.X, fieldNameOf(x.X.Type(), x.Field), true
	case *ssa.UnOp:
		if x.Op == token.MUL {
			if fa, ok := x.X.(*ssa.FieldAddr); ok {
				return fa.X, fieldNameOf(fa.X.Type(), fa.Field), true
			}
		}
	}
	return nil, "", false
}

// enumEval: the constant a function of one integer-like parameter returns for the argument k (Go syntax), by following its
// `param == const` tests; fails on anything else.
func enumEval(fn *ssa.Function, k string) (string, bool) {
	if fn == nil || len(fn.Blocks) == 0 || len(fn.Params) != 1 {
		return "", false
	}
	p := fn.Params[0]
	b := fn.Blocks[0]
	for steps := 0; steps < 64; steps++ {
		if len(b.Instrs) == 0 {
			return "", false
		}
		switch t := b.Instrs[len(b.Instrs)-1].(type) {
		case *ssa.Return:
			if len(t.Results) != 1 {
				return "", false
			}
			v := t.Results[0]
			if ph, ok := v.(*ssa.Phi); ok {
				_ = ph
				return "", false
			}
			kc, ok := v.(*ssa.Const)
			if !ok || kc.Value == nil {
				return "", false
			}
			if kc.Value.Kind() == constant.String {
				return constant.StringVal(kc.Value), true
			}
			return kc.Value.ExactString(), true
		case *ssa.Jump:
			b = b.Succs[0]
		case *ssa.If:
			cmp, ok := t.Cond.(*ssa.BinOp)
			if !ok || (cmp.Op != token.EQL && cmp.Op != token.NEQ) {
				return "", false
			}
			var kc *ssa.Const
			if cmp.X == ssa.Value(p) {
				kc, _ = cmp.Y.(*ssa.Const)
			} else if cmp.Y == ssa.Value(p) {
				kc, _ = cmp.X.(*ssa.Const)
			}
			if kc == nil || kc.Value == nil {
				return "", false
			}
			eq := kc.Value.ExactString() == k
			if cmp.Op == token.NEQ {
				eq = !eq
			}
			if eq {
				b = b.Succs[0]
			} else {
				b = b.Succs[1]
			}
		default:
			return "", false
		}
	}
	return "", false
}

// pureGetterMethod: every implementation of the interface method in the module returns a field of its receiver (or a constant)
// and does nothing else — two calls on one object yield the same value.
func pureGetterMethod(m *types.Func) bool {
	c := lastCtx
	if c == nil || c.prog == nil || m == nil {
		return false
	}
	key := "pureGetter:" + m.FullName()
	if v, ok := c.memo[key]; ok {
		return v.(bool)
	}
	res, n := true, 0
	sig := m.Type().(*types.Signature)
	it, _ := sig.Recv().Type().Underlying().(*types.Interface)
	if it == nil {
		res = false
	}
	for fn := range c.CG().funcs {
		if !res {
			break
		}
		if fn.Signature.Recv() == nil || fn.Name() != m.Name() || !isModuleFn(fn) || fn.Synthetic != "" {
			continue
		}
		if !types.Implements(fn.Signature.Recv().Type(), it) {
			continue
		}
		n++
		if len(fn.Blocks) != 1 {
			res = false
			break
		}
		for _, ins := range fn.Blocks[0].Instrs {
			switch ins.(type) {
			case *ssa.FieldAddr, *ssa.Field, *ssa.UnOp, *ssa.Return, *ssa.DebugRef, *ssa.Alloc, *ssa.Store:
				// value receivers are spilled to a local cell (Alloc + Store of the parameter)
				if st, ok := ins.(*ssa.Store); ok {
					if _, isParam := st.Val.(*ssa.Parameter); !isParam {
						res = false
					}
				}
			default:
				res = false
			}
		}
	}
	if n == 0 {
		res = false
	}
	c.memo[key] = res
	return res
}
