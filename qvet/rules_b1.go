package main

// B1 (SSA, interprocedural): the batch fields are touched only while the batch lock is held.

import (
	"fmt"
	"sort"
	"strings"

	"golang.org/x/tools/go/ssa"
)

// heldInstrs: the instructions of fn executed while the mutex field `mkey` of an object is held by fn itself:
// from each Lock/RLock to the matching Unlock on every path (to the function's end when the Unlock is deferred).
func heldInstrs(fn *ssa.Function, mkey string) map[ssa.Instruction]bool {
	held := map[ssa.Instruction]bool{}
	for _, b := range fn.Blocks {
		for i, ins := range b.Instrs {
			call, ok := ins.(*ssa.Call)
			if !ok {
				continue
			}
			op, m, ok := lockOp(call)
			if !ok || (op != "Lock" && op != "RLock") || m.key != mkey {
				continue
			}
			seen := map[*ssa.BasicBlock]bool{}
			var walk func(blk *ssa.BasicBlock, from int)
			walk = func(blk *ssa.BasicBlock, from int) {
				for j := from; j < len(blk.Instrs); j++ {
					x := blk.Instrs[j]
					if ci, ok := x.(*ssa.Call); ok {
						if o2, m2, ok := lockOp(ci); ok && m2.key == mkey && m2.base == m.base && (o2 == "Unlock" || o2 == "RUnlock") {
							return
						}
					}
					held[x] = true
				}
				for _, s := range blk.Succs {
					if !seen[s] {
						seen[s] = true
						walk(s, 0)
					}
				}
			}
			walk(b, i+1)
		}
	}
	return held
}

var ruleB1 = &Rule{
	ID:    "B1",
	Floor: 12,
	Doc: "batch fields under the batch lock (SSA, interprocedural): every read or write of InsertServiceV2.columns / size / results / insertCtx / insertCancel / lastSend in the live code of writer/service is executed while the service mutex is held: inside a Lock … Unlock region of the accessing function (to the end of the function when the Unlock is deferred), " +
		"or in a function all of whose call sites lie in such a region (a helper that expects its caller to hold the lock; checked recursively). A closure that is not called on the spot may run later and must take the lock itself. Reviewed exceptions are frozen per (function, field)",
	Run: func(c *Ctx) []Obl {
		var obls []Obl
		g := c.CG()
		rev := g.reverseVTA()
		mkeySuffix := "service.InsertServiceV2.mtx"
		var mkey string
		heldMemo := map[*ssa.Function]map[ssa.Instruction]bool{}
		held := func(fn *ssa.Function) map[ssa.Instruction]bool {
			if h, ok := heldMemo[fn]; ok {
				return h
			}
			h := heldInstrs(fn, mkey)
			heldMemo[fn] = h
			return h
		}
		// discover the mutex key
		for _, fn := range liveModuleFuncs(c, "writer/service") {
			for _, b := range fn.Blocks {
				for _, ins := range b.Instrs {
					if call, ok := ins.(*ssa.Call); ok {
						if _, m, ok := lockOp(call); ok && strings.HasSuffix(m.key, mkeySuffix) {
							mkey = m.key
						}
					}
				}
			}
		}
		if mkey == "" {
			return []Obl{{Key: "writer/service.InsertServiceV2.mtx", Pos: "-", Status: Undecided, Msg: "no Lock of the service mutex found"}}
		}
		entryMemo := map[*ssa.Function]int{} // 0 unknown, 1 yes, 2 no
		var lockedAtEntry func(fn *ssa.Function, depth int) bool
		lockedAtEntry = func(fn *ssa.Function, depth int) bool {
			if v := entryMemo[fn]; v != 0 {
				return v == 1
			}
			entryMemo[fn] = 2
			if depth > 4 {
				return false
			}
			n := 0
			ok := true
			// an immediately invoked / directly called closure is called from its parent
			for _, in := range rev[fn] {
				site := in.edge.Site
				if site == nil || in.edge.Fallback {
					continue
				}
				if _, isGo := site.(*ssa.Go); isGo {
					ok = false
					continue
				}
				if _, isDefer := site.(*ssa.Defer); isDefer {
					ok = false
					continue
				}
				if in.edge.Kind == "hof" || in.edge.Kind == "go-hof" {
					ok = false
					continue
				}
				n++
				if !held(in.caller)[site.(ssa.Instruction)] && !lockedAtEntry(in.caller, depth+1) {
					ok = false
				}
			}
			if n == 0 {
				ok = false
			}
			if ok {
				entryMemo[fn] = 1
			}
			return ok
		}
		type acc struct {
			field  string
			ins    ssa.Instruction
			locked bool
		}
		for _, fn := range liveModuleFuncs(c, "writer/service") {
			var accs []acc
			for _, b := range fn.Blocks {
				for _, ins := range b.Instrs {
					fa, ok := ins.(*ssa.FieldAddr)
					if !ok {
						continue
					}
					f, isBatch := batchFieldOf(c, fa)
					if !isBatch {
						continue
					}
					// the access happens where the address is used (load / store); the FieldAddr itself is pure
					used := false
					if fa.Referrers() != nil {
						for _, r := range *fa.Referrers() {
							used = true
							lk := held(fn)[r] || lockedAtEntry(fn, 0)
							accs = append(accs, acc{f, r, lk})
						}
					}
					if !used {
						accs = append(accs, acc{f, fa, held(fn)[fa] || lockedAtEntry(fn, 0)})
					}
				}
			}
			if len(accs) == 0 {
				continue
			}
			byField := map[string][]acc{}
			for _, a := range accs {
				byField[a.field] = append(byField[a.field], a)
			}
			var fields []string
			for f := range byField {
				fields = append(fields, f)
			}
			sort.Strings(fields)
			// keys keep the declaration-style function name used by the frozen exceptions
			fname := ssaName(fn)
			declName := fname
			if fi := c.funcInfoOf(fn); fi != nil && fn.Parent() == nil {
				declName = fi.Name()
			} else if fi != nil {
				declName = fi.Name() + fname[strings.Index(fname, "$"):]
			}
			for _, f := range fields {
				unl := 0
				first := byField[f][0].ins
				for _, a := range byField[f] {
					if !a.locked {
						if unl == 0 {
							first = a.ins
						}
						unl++
					}
				}
				key := fmt.Sprintf("%s field %s", declName, f)
				top := declName
				if i := strings.Index(top, "$"); i >= 0 {
					top = top[:i]
				}
				if unl == 0 {
					obls = append(obls, Obl{Key: key, Pos: c.pos(first.Pos()), Status: OK, Msg: fmt.Sprintf("%d accesses, all under mtx", len(byField[f]))})
				} else if why, ok := b1Exceptions[top][f]; ok {
					obls = append(obls, Obl{Key: key, Pos: c.pos(first.Pos()), Status: Exception, Msg: why})
				} else {
					obls = append(obls, Obl{Key: key, Pos: c.pos(first.Pos()), Status: Violation,
						Msg: fmt.Sprintf("%d of %d accesses to the shared batch field are outside the service lock: a concurrent request or flush can interleave (rows of different requests across columns, a promise in a batch that does not carry its rows)", unl, len(byField[f]))})
				}
			}
		}
		return obls
	},
}

func init() { register(ruleB1) }
