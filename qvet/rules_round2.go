package main

// Rules added after the second round of seeded changes:
// F6 deferred senders run before the deferred close; D9 clause lists get clauses of the current iteration only;
// O3 handlers do not write through slices they were lent; H5 statements never embed package-level mutable SQL objects.

import (
	"fmt"
	"go/token"
	"go/types"
	"sort"
	"strings"

	"golang.org/x/tools/go/ssa"
)

func fnTop(fn *ssa.Function) *ssa.Function {
	for fn.Parent() != nil {
		fn = fn.Parent()
	}
	return fn
}

func fnPkgRel(fn *ssa.Function) string {
	t := fnTop(fn)
	if t.Pkg == nil {
		if t.Object() != nil && t.Object().Pkg() != nil {
			return rel(t.Object().Pkg().Path())
		}
		return ""
	}
	return rel(t.Pkg.Pkg.Path())
}

func under(r string, prefixes ...string) bool {
	for _, p := range prefixes {
		if r == p || strings.HasPrefix(r, p+"/") {
			return true
		}
	}
	return false
}

// liveModuleFuncs: non-test module functions that are live, in deterministic order.
func liveModuleFuncs(c *Ctx, prefixes ...string) []*ssa.Function {
	g := c.CG()
	var out []*ssa.Function
	for _, fn := range moduleFuncs(g) {
		if isTestFunc(c, fn) || !g.live[fn] || !under(fnPkgRel(fn), prefixes...) {
			continue
		}
		out = append(out, fn)
	}
	return out
}

type keyer struct{ n map[string]int }

func (k *keyer) key(base string) string {
	if k.n == nil {
		k.n = map[string]int{}
	}
	k.n[base]++
	return fmt.Sprintf("%s #%d", base, k.n[base])
}

// ---------------------------------------------------------------------------------
// F6

// sendsOnParam: does fn (transitively, depth-bounded, through static calls) send on its idx-th parameter / free variable?
func sendsOn(fn *ssa.Function, v ssa.Value, depth int) bool {
	if depth > 3 || fn == nil || v == nil {
		return false
	}
	refs := v.Referrers()
	if refs == nil {
		return false
	}
	for _, r := range *refs {
		switch x := r.(type) {
		case *ssa.Send:
			if x.Chan == v {
				return true
			}
		case *ssa.Select:
			for _, st := range x.States {
				if st.Chan == v && st.Dir == types.SendOnly {
					return true
				}
			}
		case *ssa.Phi:
			if sendsOn(fn, x, depth+1) {
				return true
			}
		case *ssa.ChangeType:
			if sendsOn(fn, x, depth+1) {
				return true
			}
		case *ssa.MakeClosure:
			cf, _ := x.Fn.(*ssa.Function)
			for i, b := range x.Bindings {
				if b == v && cf != nil && i < len(cf.FreeVars) && sendsOn(cf, cf.FreeVars[i], depth+1) {
					return true
				}
			}
		case ssa.CallInstruction:
			sc := x.Common().StaticCallee()
			if sc == nil || len(sc.Blocks) == 0 {
				continue
			}
			for i, a := range x.Common().Args {
				if a == v && i < len(sc.Params) && sendsOn(sc, sc.Params[i], depth+1) {
					return true
				}
			}
		}
	}
	return false
}

// chanRoot: the channel value (through the local cell it is kept in, if the function captured it).
func chanRoot(v ssa.Value) ssa.Value {
	for {
		switch x := v.(type) {
		case *ssa.UnOp:
			if x.Op == token.MUL {
				v = x.X
				continue
			}
		case *ssa.ChangeType:
			v = x.X
			continue
		}
		return v
	}
}

var ruleF6 = &Rule{
	ID:    "F6",
	Floor: 10,
	Doc: "no send after close through deferred calls: deferred calls run in reverse registration order. In every function that registers `defer close(ch)`, each deferred call registered earlier on the same path (hence running later) that can send on ch — a call passing ch to a function that sends on that parameter (the panic tamer shared.TamePanic reports the panic as a last entry), or a closure that sends on it — " +
		"is a violation: the report of a recovered panic would itself panic on the closed channel, outside any recover, and end the process",
	Run: func(c *Ctx) []Obl {
		var obls []Obl
		var kk keyer
		for _, fn := range liveModuleFuncs(c, "reader", "writer") {
			type dref struct {
				d   *ssa.Defer
				blk *ssa.BasicBlock
				idx int
			}
			var defers []dref
			for _, b := range fn.Blocks {
				for i, ins := range b.Instrs {
					if d, ok := ins.(*ssa.Defer); ok {
						defers = append(defers, dref{d, b, i})
					}
				}
			}
			for _, dc := range defers {
				bi, ok := dc.d.Call.Value.(*ssa.Builtin)
				if !ok || bi.Name() != "close" || len(dc.d.Call.Args) != 1 {
					continue
				}
				ch := chanRoot(dc.d.Call.Args[0])
				bad := ""
				for _, other := range defers {
					if other.d == dc.d {
						continue
					}
					earlier := (other.blk == dc.blk && other.idx < dc.idx) || (other.blk != dc.blk && other.blk.Dominates(dc.blk))
					if !earlier {
						continue
					}
					// does the earlier-registered (later-running) deferred call send on ch?
					com := other.d.Call
					sends := false
					if sc := com.StaticCallee(); sc != nil && len(sc.Blocks) > 0 {
						for i, a := range com.Args {
							if chanRoot(a) == ch && i < len(sc.Params) && sendsOn(sc, sc.Params[i], 0) {
								sends = true
							}
						}
					}
					if mc, ok := com.Value.(*ssa.MakeClosure); ok {
						cf, _ := mc.Fn.(*ssa.Function)
						for i, b := range mc.Bindings {
							if chanRoot(b) == ch && cf != nil && i < len(cf.FreeVars) {
								// captured by reference: the free variable is a pointer to the cell; look at loads
								fv := cf.FreeVars[i]
								if sendsOn(cf, fv, 0) {
									sends = true
								}
								if refs := fv.Referrers(); refs != nil {
									for _, r := range *refs {
										if u, ok := r.(*ssa.UnOp); ok && u.Op == token.MUL && sendsOn(cf, u, 0) {
											sends = true
										}
									}
								}
							}
						}
					}
					if sends {
						bad = fmt.Sprintf("the deferred call at %s is registered before `defer close` and therefore runs after it, and it can send on the closed channel", c.pos(other.d.Pos()))
					}
				}
				key := kk.key(ssaName(fn) + " defer close(" + ch.Name() + ")")
				if nm := chanName(ch); nm != "" {
					key = kk.key(ssaName(fn) + " defer close(" + nm + ")")
				}
				if bad != "" {
					obls = append(obls, Obl{Key: key, Pos: c.pos(dc.d.Pos()), Status: Violation, Msg: bad})
				} else {
					obls = append(obls, Obl{Key: key, Pos: c.pos(dc.d.Pos()), Status: OK})
				}
			}
		}
		return obls
	},
}

func chanName(v ssa.Value) string {
	switch x := v.(type) {
	case *ssa.Alloc:
		return x.Comment
	case *ssa.Parameter:
		return x.Name()
	case *ssa.FreeVar:
		return x.Name()
	case *ssa.MakeChan:
		return "chan@make"
	}
	return ""
}

// ---------------------------------------------------------------------------------
// D9

func isSQLObjType(t types.Type) bool {
	n := namedOf(t)
	if n == nil || n.Obj().Pkg() == nil {
		return false
	}
	return n.Obj().Pkg().Path() == pkgSQL
}

// loopCarried: v is a phi in a loop header fed by a back edge, or a pass-through (phi / interface change) of such a phi.
// Returns the header phi.
func loopCarried(v ssa.Value, seen map[ssa.Value]bool) *ssa.Phi {
	if seen[v] {
		return nil
	}
	seen[v] = true
	switch x := v.(type) {
	case *ssa.Phi:
		b := x.Block()
		for i, p := range b.Preds {
			if b.Dominates(p) && x.Edges[i] != ssa.Value(x) {
				// back edge carrying a value computed in an earlier iteration
				return x
			}
		}
		for _, e := range x.Edges {
			if h := loopCarried(e, seen); h != nil {
				return h
			}
		}
	case *ssa.ChangeInterface:
		return loopCarried(x.X, seen)
	case *ssa.MakeInterface:
		return loopCarried(x.X, seen)
	case *ssa.UnOp:
		// load of a loop-invariant cell is not a phi; cells (address-taken variables) are handled by cellCarried
	}
	return nil
}

var ruleD9 = &Rule{
	ID:    "D9",
	Floor: 20,
	Doc: "clause lists receive clauses of the current iteration only: wherever translator code appends an SQL condition / object (a value of a sql_select type) to a slice inside a loop, the appended element must be computed in that iteration. An element that is a loop-carried value — an SSA phi of the loop header fed by the back edge, possibly passed through further phis — is what remains in a variable " +
		"that was declared outside the loop and not assigned on this iteration's path: the previous matcher's clause is appended again and this iteration's own matcher is silently dropped",
	Run: func(c *Ctx) []Obl {
		var obls []Obl
		var kk keyer
		for _, fn := range liveModuleFuncs(c, "reader") {
			for _, b := range fn.Blocks {
				for _, ins := range b.Instrs {
					call, ok := ins.(*ssa.Call)
					if !ok {
						continue
					}
					bi, ok := call.Common().Value.(*ssa.Builtin)
					if !ok {
						// any other call taking an SQL object argument: a loop-carried argument is accepted only for accumulators
						// (cond = sql.Or(cond, x): the call's result is what the back edge carries)
						for _, a := range call.Common().Args {
							if !isSQLObjType(a.Type()) {
								continue
							}
							h := loopCarried(a, map[ssa.Value]bool{})
							if h == nil {
								continue
							}
							key := kk.key(ssaName(fn) + " passes loop-carried " + h.Comment)
							if feedsBack(call, h) {
								obls = append(obls, Obl{Key: key, Pos: c.pos(call.Pos()), Status: OK, Msg: "accumulator: the result is carried to the next iteration"})
							} else {
								obls = append(obls, Obl{Key: key, Pos: c.pos(call.Pos()), Status: Violation,
									Msg: fmt.Sprintf("an SQL object argument can be the value variable %q held at the end of an earlier iteration (loop header at %s) and the call does not accumulate into it: a clause of a previous element is used for this one", h.Comment, c.pos(h.Pos()))})
							}
						}
						continue
					}
					if bi.Name() != "append" || len(call.Common().Args) != 2 {
						continue
					}
					sl, ok := call.Type().Underlying().(*types.Slice)
					if !ok || !isSQLObjType(sl.Elem()) {
						continue
					}
					// elements: the variadic slice is built from an array allocation; find the element stores
					elems := variadicElems(call.Common().Args[1])
					if elems == nil {
						continue // append(a, b...) — spreads another list
					}
					key := kk.key(ssaName(fn) + " appends " + types.TypeString(sl.Elem(), func(p *types.Package) string { return p.Name() }))
					bad := ""
					for _, e := range elems {
						if h := loopCarried(e, map[ssa.Value]bool{}); h != nil {
							bad = fmt.Sprintf("the appended element can be the value variable %q held at the end of an earlier iteration (loop header at %s): it is declared outside the loop and not assigned on every path of the iteration", h.Comment, c.pos(h.Pos()))
						}
					}
					if bad != "" {
						obls = append(obls, Obl{Key: key, Pos: c.pos(call.Pos()), Status: Violation, Msg: bad})
					} else {
						obls = append(obls, Obl{Key: key, Pos: c.pos(call.Pos()), Status: OK})
					}
				}
			}
		}
		return obls
	},
}

// feedsBack: the value v reaches header phi h over a back edge (through phis, interface changes and calls taking it as argument).
func feedsBack(v ssa.Value, h *ssa.Phi) bool {
	seen := map[ssa.Value]bool{}
	var walk func(x ssa.Value) bool
	walk = func(x ssa.Value) bool {
		if seen[x] || x.Referrers() == nil {
			return false
		}
		seen[x] = true
		for _, r := range *x.Referrers() {
			switch y := r.(type) {
			case *ssa.Phi:
				if y == h {
					return true
				}
				if walk(y) {
					return true
				}
			case *ssa.ChangeInterface:
				if walk(y) {
					return true
				}
			case *ssa.MakeInterface:
				if walk(y) {
					return true
				}
			case *ssa.Extract:
				if walk(y) {
					return true
				}
			case *ssa.Call:
				if walk(y) {
					return true
				}
			}
		}
		return false
	}
	return walk(v)
}

// variadicElems returns the values stored into the array behind a variadic slice argument (nil when the argument is not
// a freshly packed variadic slice).
func variadicElems(v ssa.Value) []ssa.Value {
	s, ok := v.(*ssa.Slice)
	if !ok {
		return nil
	}
	al, ok := s.X.(*ssa.Alloc)
	if !ok || al.Referrers() == nil {
		return nil
	}
	var out []ssa.Value
	for _, r := range *al.Referrers() {
		ia, ok := r.(*ssa.IndexAddr)
		if !ok || ia.Referrers() == nil {
			continue
		}
		for _, rr := range *ia.Referrers() {
			if st, ok := rr.(*ssa.Store); ok && st.Addr == ia {
				out = append(out, st.Val)
			}
		}
	}
	return out
}

// ---------------------------------------------------------------------------------
// O3

var o3Exceptions = map[string]string{}

var ruleO3 = &Rule{
	ID:    "O3",
	Floor: 40,
	Doc: "borrowed slices are not written: a function of the ingestion path that receives a slice parameter must not write into its backing array — no append to a re-slice of the parameter (p[:0], p[:k] followed by append writes over the caller's elements) and no element store p[i] = … — unless the parameter is the function's own output buffer (it returns the slice it extended, the append-style API). " +
		"Decoders reuse their label / value slices for the next call (one labels slice serves every field of an Influx line, every stream entry), so an in-place filter in the handler changes what later rows are stamped with. Scope: live code of writer/ and ctrl/ (the retention policies are one slice handed to every table group in turn) whose parameter element type is not a byte",
	Run: func(c *Ctx) []Obl {
		var obls []Obl
		var kk keyer
		for _, fn := range liveModuleFuncs(c, "writer", "ctrl") {
			for _, p := range fn.Params {
				sl, ok := p.Type().Underlying().(*types.Slice)
				if !ok || isByte(sl.Elem()) {
					continue
				}
				refs := p.Referrers()
				if refs == nil {
					continue
				}
				key := ssaName(fn) + " param " + p.Name()
				bad := ""
				var pos token.Pos
				var walk func(v ssa.Value, resliced bool, seen map[ssa.Value]bool)
				walk = func(v ssa.Value, resliced bool, seen map[ssa.Value]bool) {
					if seen[v] || v.Referrers() == nil {
						return
					}
					seen[v] = true
					for _, r := range *v.Referrers() {
						switch x := r.(type) {
						case *ssa.Slice:
							if x.X == v {
								// p[:k]: shorter view on the same array (p[k:] keeps the tail: appends go past the caller's len only if cap allows; also in place)
								walk(x, true, seen)
							}
						case *ssa.Phi:
							walk(x, resliced, seen)
						case *ssa.IndexAddr:
							if x.X != v || x.Referrers() == nil {
								continue
							}
							for _, rr := range *x.Referrers() {
								if st, ok := rr.(*ssa.Store); ok && st.Addr == x {
									bad = "stores into an element of the borrowed slice"
									pos = st.Pos()
								}
								// p[i].f = … (also through rp := &p[i])
								if fa, ok := rr.(*ssa.FieldAddr); ok && fa.X == ssa.Value(x) && fa.Referrers() != nil {
									for _, r3 := range *fa.Referrers() {
										if st, ok := r3.(*ssa.Store); ok && st.Addr == ssa.Value(fa) {
											bad = "stores into a field of an element of the borrowed slice"
											pos = st.Pos()
										}
									}
								}
							}
						case *ssa.Call:
							if bi, ok := x.Common().Value.(*ssa.Builtin); ok && bi.Name() == "append" && len(x.Common().Args) > 0 && x.Common().Args[0] == v {
								if resliced {
									bad = "appends to a re-slice of the borrowed slice: the new elements overwrite the caller's"
									pos = x.Pos()
								}
								walk(x, resliced, seen)
							}
							if bi, ok := x.Common().Value.(*ssa.Builtin); ok && bi.Name() == "copy" && len(x.Common().Args) > 0 && x.Common().Args[0] == v {
								bad = "copies into the borrowed slice"
								pos = x.Pos()
							}
						}
					}
				}
				walk(p, false, map[ssa.Value]bool{})
				if bad == "" {
					obls = append(obls, Obl{Key: key, Pos: c.pos(p.Pos()), Status: OK})
					continue
				}
				// output-buffer API: the function returns a slice derived from the parameter
				if returnsDerived(fn, p) {
					obls = append(obls, Obl{Key: key, Pos: c.pos(pos), Status: OK, Msg: "output buffer: the extended slice is returned to the caller"})
					continue
				}
				if why := o3Exceptions[key]; why != "" {
					obls = append(obls, Obl{Key: key, Pos: c.pos(pos), Status: Exception, Msg: why})
					continue
				}
				_ = kk
				obls = append(obls, Obl{Key: key, Pos: c.pos(pos), Status: Violation, Msg: bad + "; the caller keeps using this slice (decoders reuse label and value slices across calls)"})
			}
		}
		return obls
	},
}

var returnsDerivedDepth int

func returnsDerived(fn *ssa.Function, p *ssa.Parameter) bool {
	derived := map[ssa.Value]bool{p: true}
	for changed := true; changed; {
		changed = false
		for _, b := range fn.Blocks {
			for _, ins := range b.Instrs {
				v, ok := ins.(ssa.Value)
				if !ok || derived[v] {
					continue
				}
				switch x := ins.(type) {
				case *ssa.Slice:
					if derived[x.X] {
						derived[v] = true
						changed = true
					}
				case *ssa.Phi:
					for _, e := range x.Edges {
						if derived[e] {
							derived[v] = true
							changed = true
						}
					}
				case *ssa.Call:
					if bi, ok := x.Common().Value.(*ssa.Builtin); ok && bi.Name() == "append" && derived[x.Common().Args[0]] {
						derived[v] = true
						changed = true
					}
					// handed through a module function that gives the same slice back (`return sanitizeLabels(buf)`)
					if sc := x.Common().StaticCallee(); sc != nil && sc != fn && isModuleFn(sc) && len(sc.Blocks) > 0 && returnsDerivedDepth < 3 {
						for i, a := range x.Common().Args {
							if derived[a] && i < len(sc.Params) {
								returnsDerivedDepth++
								ok := returnsDerived(sc, sc.Params[i])
								returnsDerivedDepth--
								if ok {
									derived[v] = true
									changed = true
								}
							}
						}
					}
				}
			}
		}
	}
	for _, b := range fn.Blocks {
		for _, ins := range b.Instrs {
			if r, ok := ins.(*ssa.Return); ok {
				for _, res := range r.Results {
					if derived[res] {
						return true
					}
				}
			}
		}
	}
	return false
}

// ---------------------------------------------------------------------------------
// H5

func typeMentionsSQL(t types.Type, depth int) bool {
	if depth > 4 {
		return false
	}
	switch u := t.(type) {
	case *types.Named:
		if u.Obj().Pkg() != nil && u.Obj().Pkg().Path() == pkgSQL {
			// a builder object: one of the package's interfaces, or a type that renders itself (String(ctx, options...));
			// plain data types that merely live in the package (tables of constants) are not
			if _, isIface := u.Underlying().(*types.Interface); isIface {
				return true
			}
			for _, t := range []types.Type{u, types.NewPointer(u)} {
				ms := types.NewMethodSet(t)
				for i := 0; i < ms.Len(); i++ {
					if f, ok := ms.At(i).Obj().(*types.Func); ok && f.Name() == "String" {
						if sig := f.Type().(*types.Signature); sig.Params().Len() >= 1 {
							return true
						}
					}
				}
			}
		}
		return typeMentionsSQL(u.Underlying(), depth+1)
	case *types.Pointer:
		return typeMentionsSQL(u.Elem(), depth+1)
	case *types.Slice:
		return typeMentionsSQL(u.Elem(), depth+1)
	case *types.Array:
		return typeMentionsSQL(u.Elem(), depth+1)
	case *types.Map:
		return typeMentionsSQL(u.Elem(), depth+1) || typeMentionsSQL(u.Key(), depth+1)
	case *types.Struct:
		for i := 0; i < u.NumFields(); i++ {
			if typeMentionsSQL(u.Field(i).Type(), depth+1) {
				return true
			}
		}
	}
	return false
}

// sqlHolderMutable: can what the package-level variable holds be changed after initialisation by code that merely received it?
// Slices, maps and arrays always can (element replacement); a pointer / interface can when the dynamic type it is initialised with
// (or, if unknown, any sql_select type) has a method that stores into its receiver.
func (c *Ctx) sqlHolderMutable(p *packagesPackage, v *types.Var) bool {
	var containsAggregate func(t types.Type, d int) bool
	containsAggregate = func(t types.Type, d int) bool {
		if d > 4 {
			return true
		}
		switch u := t.Underlying().(type) {
		case *types.Slice, *types.Map, *types.Array:
			return true
		case *types.Struct:
			if n := namedOf(t); n != nil && n.Obj().Pkg() != nil && n.Obj().Pkg().Path() == pkgSQL {
				return false // judged by its methods below
			}
			for i := 0; i < u.NumFields(); i++ {
				if typeMentionsSQL(u.Field(i).Type(), 0) && containsAggregate(u.Field(i).Type(), d+1) {
					return true
				}
			}
		}
		return false
	}
	if containsAggregate(v.Type(), 0) {
		return true
	}
	c.SSA()
	mutable := func(t types.Type) bool {
		n := namedOf(t)
		if n == nil {
			return true
		}
		for _, recv := range []types.Type{n, types.NewPointer(n)} {
			ms := c.prog.MethodSets.MethodSet(recv)
			for i := 0; i < ms.Len(); i++ {
				fn := c.prog.MethodValue(ms.At(i))
				if fn == nil || len(fn.Params) == 0 {
					continue
				}
				for _, b := range fn.Blocks {
					for _, ins := range b.Instrs {
						if st, ok := ins.(*ssa.Store); ok {
							if fa, ok := st.Addr.(*ssa.FieldAddr); ok && fa.X == ssa.Value(fn.Params[0]) {
								return true
							}
						}
					}
				}
			}
		}
		return false
	}
	// dynamic types stored into the variable by package initialisation
	var dyn []types.Type
	if sp := c.prog.Package(p.Types); sp != nil {
		if g, ok := sp.Members[v.Name()].(*ssa.Global); ok {
			for _, m := range sp.Members {
				fn, ok := m.(*ssa.Function)
				if !ok {
					continue
				}
				for _, b := range fn.Blocks {
					for _, ins := range b.Instrs {
						if st, ok := ins.(*ssa.Store); ok && st.Addr == ssa.Value(g) {
							val := st.Val
							if mi, ok := val.(*ssa.MakeInterface); ok {
								val = mi.X
							}
							dyn = append(dyn, val.Type())
						}
					}
				}
			}
		}
	}
	if len(dyn) == 0 {
		return true
	}
	for _, t := range dyn {
		if _, isIface := t.Underlying().(*types.Interface); isIface || mutable(t) {
			return true
		}
	}
	return false
}

var ruleH5 = &Rule{
	ID:    "H5",
	Floor: 1,
	Doc: "statements are built from fresh objects: no package-level variable of the translators holds SQL builder objects (a value, pointer, slice, map or struct mentioning a reader/utils/sql_select type). Builder objects are mutable and later planners rewrite the columns of the select they wrap in place (renaming, replacing by index); an object shared through a package-level variable carries such a rewrite into every later translation in the process, " +
		"so the SQL for one request would depend on which requests were translated before it. Scope: every package under reader/ (function-typed variables such as constructors are not objects and are accepted; so is a pointer / interface whose initial dynamic type has no method that stores into its receiver)",
	Run: func(c *Ctx) []Obl {
		c.Load()
		var obls []Obl
		n := 0
		for _, p := range c.PkgsUnder("reader") {
			sc := p.Types.Scope()
			names := sc.Names()
			sort.Strings(names)
			for _, nm := range names {
				v, ok := sc.Lookup(nm).(*types.Var)
				if !ok {
					continue
				}
				if strings.HasSuffix(c.Fset.Position(v.Pos()).Filename, "_test.go") {
					continue
				}
				n++
				if _, isFn := v.Type().Underlying().(*types.Signature); isFn {
					continue
				}
				if typeMentionsSQL(v.Type(), 0) && c.sqlHolderMutable(p, v) {
					obls = append(obls, Obl{Key: rel(p.PkgPath) + "." + nm, Pos: c.pos(v.Pos()), Status: Violation,
						Msg: "package-level variable of type " + types.TypeString(v.Type(), func(p *types.Package) string { return p.Name() }) + " holds SQL builder objects shared by every translation in the process; planners that rewrite the columns of the select they wrap change it for all later requests"})
				}
			}
		}
		obls = append(obls, Obl{Key: "package-level variables under reader/ scanned", Pos: "-", Status: OK, Msg: fmt.Sprintf("%d variables, none holds SQL builder objects", n)})
		if len(obls) > 1 {
			obls[len(obls)-1].Msg = fmt.Sprintf("%d variables scanned", n)
		}
		return obls
	},
}

func init() { register(ruleF6); register(ruleD9); register(ruleO3); register(ruleH5) }

// ---------------------------------------------------------------------------------
// D8

var lossyFuncs = []string{"Unquote", "strconv.Atoi", "strconv.Parse", "strings.ToLower", "strings.ToUpper", "strings.Trim", "strings.Title", "strings.Fields", "strings.Split",
	"strings.Replace", "strings.Map", "time.ParseDuration", "time.Parse", "regexp.", "path.Clean", "filepath.Clean", "strings.EqualFold", "strings.ToValidUTF8"}

// calledInSlice collects the functions called in the backward slice of v (through static module callees' returns).
func calledInSlice(v ssa.Value, out map[string]bool, seen map[ssa.Value]bool, depth int) {
	if v == nil || seen[v] || depth > 40 {
		return
	}
	seen[v] = true
	if call, ok := v.(*ssa.Call); ok {
		com := call.Common()
		if sc := com.StaticCallee(); sc != nil {
			out[sc.String()] = true
			for _, b := range sc.Blocks {
				for _, ins := range b.Instrs {
					if r, ok := ins.(*ssa.Return); ok {
						for _, rv := range r.Results {
							calledInSlice(rv, out, seen, depth+1)
						}
					}
				}
			}
		} else if com.IsInvoke() {
			out[com.Method.FullName()] = true
		}
	}
	switch x := v.(type) {
	case *ssa.Alloc:
		if refs := x.Referrers(); refs != nil {
			for _, r := range *refs {
				if st, ok := r.(*ssa.Store); ok && st.Addr == ssa.Value(x) {
					calledInSlice(st.Val, out, seen, depth+1)
				}
			}
		}
	}
	if ins, ok := v.(ssa.Instruction); ok {
		for _, op := range ins.Operands(nil) {
			if *op != nil {
				calledInSlice(*op, out, seen, depth+1)
			}
		}
	}
}

var ruleD8 = &Rule{
	ID:    "D8",
	Floor: 1,
	Doc: "terms are shared only when they are the same term: where a translator de-duplicates query terms through a string-keyed table kept in planner state (a lookup and an insert on the same map field in one function — the TraceQL planner shares one bit of its condition bit set between repeated terms), the key must be a faithful rendering of the term. " +
		"The backward slice of the key expression (through helper functions) must not pass through a decoding / normalising function (Unquote, strconv parsing, case folding, trimming, splitting, regexp): such functions are many-to-one, two different terms (the string \"5\" and the number 5) then share one slot, the second one loses its own comparison and is evaluated as the first",
	Run: func(c *Ctx) []Obl {
		var obls []Obl
		var kk keyer
		for _, fn := range liveModuleFuncs(c, "reader") {
			// map fields updated and looked up in this function
			type site struct {
				key ssa.Value
				pos token.Pos
			}
			upd := map[string][]site{}
			look := map[string][]site{}
			mapField := func(m ssa.Value) string {
				u, ok := m.(*ssa.UnOp)
				if !ok || u.Op != token.MUL {
					return ""
				}
				fa, ok := u.X.(*ssa.FieldAddr)
				if !ok {
					return ""
				}
				mt, ok := u.Type().Underlying().(*types.Map)
				if !ok {
					return ""
				}
				if b, ok := mt.Key().Underlying().(*types.Basic); !ok || b.Info()&types.IsString == 0 {
					return ""
				}
				return fieldKey(fa.X.Type(), fa.Field)
			}
			for _, b := range fn.Blocks {
				for _, ins := range b.Instrs {
					switch x := ins.(type) {
					case *ssa.MapUpdate:
						if k := mapField(x.Map); k != "" {
							upd[k] = append(upd[k], site{x.Key, x.Pos()})
						}
					case *ssa.Lookup:
						if k := mapField(x.X); k != "" {
							look[k] = append(look[k], site{x.Index, x.Pos()})
						}
					}
				}
			}
			var keys []string
			for k := range upd {
				if len(look[k]) > 0 {
					keys = append(keys, k)
				}
			}
			sort.Strings(keys)
			for _, k := range keys {
				called := map[string]bool{}
				seen := map[ssa.Value]bool{}
				for _, s := range append(append([]site{}, upd[k]...), look[k]...) {
					calledInSlice(s.key, called, seen, 0)
				}
				var names []string
				for n := range called {
					names = append(names, n)
				}
				sort.Strings(names)
				bad := ""
				for _, n := range names {
					for _, l := range lossyFuncs {
						if strings.Contains(n, l) {
							bad = n
						}
					}
				}
				key := kk.key(ssaName(fn) + " de-duplicates through " + k[strings.LastIndex(k, "/")+1:])
				if bad != "" {
					obls = append(obls, Obl{Key: key, Pos: c.pos(upd[k][0].pos), Status: Violation,
						Msg: "the de-duplication key is computed through " + bad + ", a many-to-one function: two different terms can share one slot and the second is evaluated as the first"})
				} else {
					obls = append(obls, Obl{Key: key, Pos: c.pos(upd[k][0].pos), Status: OK, Msg: "key built from: " + strings.Join(names, ", ")})
				}
			}
		}
		return obls
	},
}

func init() { register(ruleD8) }

// ---------------------------------------------------------------------------------
// B3

type mutexRef struct {
	key  string    // struct type . field
	base ssa.Value // the object owning the mutex
}

// lockOp classifies a call on a sync.Mutex / sync.RWMutex field: "Lock", "RLock", "Unlock", "RUnlock" or "".
func lockOp(ci ssa.CallInstruction) (string, mutexRef, bool) {
	com := ci.Common()
	sc := com.StaticCallee()
	if sc == nil || len(com.Args) == 0 {
		return "", mutexRef{}, false
	}
	full := sc.String()
	if !strings.HasPrefix(full, "(*sync.Mutex).") && !strings.HasPrefix(full, "(*sync.RWMutex).") {
		return "", mutexRef{}, false
	}
	op := sc.Name()
	switch op {
	case "Lock", "RLock", "Unlock", "RUnlock":
	default:
		return "", mutexRef{}, false
	}
	fa, ok := com.Args[0].(*ssa.FieldAddr)
	if !ok {
		return "", mutexRef{}, false
	}
	return op, mutexRef{fieldKey(fa.X.Type(), fa.Field), canonBase(fa.X)}, true
}

// canonBase: loads of one variable cell (captured variable, address-taken local) denote the same object.
func canonBase(v ssa.Value) ssa.Value {
	for {
		switch x := v.(type) {
		case *ssa.UnOp:
			if x.Op == token.MUL {
				switch x.X.(type) {
				case *ssa.FreeVar, *ssa.Alloc, *ssa.Global:
					return x.X
				}
			}
		case *ssa.ChangeType:
			v = x.X
			continue
		}
		return v
	}
}

// acquires: does fn lock the mutex field `key` of its parameter number pi (directly or through calls passing that parameter on)?
func acquires(fn *ssa.Function, pi int, key string, depth int, seen map[*ssa.Function]bool) (bool, string) {
	if fn == nil || depth > 4 || seen[fn] || len(fn.Blocks) == 0 || pi >= len(fn.Params) {
		return false, ""
	}
	seen[fn] = true
	p := fn.Params[pi]
	for _, b := range fn.Blocks {
		for _, ins := range b.Instrs {
			ci, ok := ins.(ssa.CallInstruction)
			if !ok {
				continue
			}
			if _, isGo := ins.(*ssa.Go); isGo {
				continue // another goroutine may wait for the lock; it does not deadlock the caller by itself
			}
			if op, m, ok := lockOp(ci); ok && (op == "Lock" || op == "RLock") && m.key == key && m.base == ssa.Value(p) {
				return true, ssaName(fn)
			}
			sc := ci.Common().StaticCallee()
			if sc == nil || len(sc.Blocks) == 0 {
				continue
			}
			for i, a := range ci.Common().Args {
				if a == ssa.Value(p) {
					if ok, via := acquires(sc, i, key, depth+1, seen); ok {
						return true, ssaName(fn) + " → " + via
					}
				}
			}
		}
	}
	return false, ""
}

var ruleB3 = &Rule{
	ID:    "B3",
	Floor: 15,
	Doc: "no re-entrant locking: sync.Mutex and sync.RWMutex are not re-entrant. For every Lock / RLock on a mutex field of an object, the held region (to the matching Unlock on each path, or to the end of the function when the Unlock is deferred) must not contain a call — on the same object — to a function that acquires the same mutex field itself, directly or through further calls on that object (goroutines started in the region are not counted). " +
		"Such a call blocks forever without panicking, the lock is never released, every later request on that service blocks behind it and no response is ever written",
	Run: func(c *Ctx) []Obl {
		var obls []Obl
		var kk keyer
		for _, fn := range liveModuleFuncs(c, "writer", "reader", "ctrl") {
			// deferred unlocks
			for _, b := range fn.Blocks {
				for i, ins := range b.Instrs {
					ci, ok := ins.(*ssa.Call)
					if !ok {
						continue
					}
					op, m, ok := lockOp(ci)
					if !ok || (op != "Lock" && op != "RLock") {
						continue
					}
					// walk the held region
					bad := ""
					var badPos token.Pos
					seenB := map[*ssa.BasicBlock]bool{}
					var walk func(blk *ssa.BasicBlock, from int)
					walk = func(blk *ssa.BasicBlock, from int) {
						for j := from; j < len(blk.Instrs); j++ {
							x, ok := blk.Instrs[j].(ssa.CallInstruction)
							if !ok {
								continue
							}
							if _, isGo := blk.Instrs[j].(*ssa.Go); isGo {
								continue
							}
							if _, isDefer := blk.Instrs[j].(*ssa.Defer); isDefer {
								continue
							}
							if o2, m2, ok := lockOp(x); ok && m2.key == m.key && m2.base == m.base {
								if o2 == "Unlock" || o2 == "RUnlock" {
									return // released on this path (a deferred Unlock is a Defer instruction, not seen here: the region then runs to the end)
								}
								if o2 == "Lock" || (o2 == "RLock" && op == "Lock") {
									bad = "locks the same mutex again in " + ssaName(fn)
									badPos = x.Pos()
								}
								continue
							}
							sc := x.Common().StaticCallee()
							if sc == nil || len(sc.Blocks) == 0 {
								continue
							}
							for ai, a := range x.Common().Args {
								if canonBase(a) == m.base {
									if ok, via := acquires(sc, ai, m.key, 0, map[*ssa.Function]bool{}); ok {
										bad = "calls " + via + ", which acquires the same mutex"
										badPos = x.Pos()
									}
								}
							}
						}
						for _, s := range blk.Succs {
							if !seenB[s] {
								seenB[s] = true
								walk(s, 0)
							}
						}
					}
					walk(b, i+1)
					short := m.key[strings.LastIndex(m.key, "/")+1:]
					key := kk.key(ssaName(fn) + " holds " + short)
					if bad != "" {
						obls = append(obls, Obl{Key: key, Pos: c.pos(badPos), Status: Violation,
							Msg: "while " + short + " is held (" + op + " at " + c.pos(ci.Pos()) + ") the function " + bad + ": sync mutexes are not re-entrant, the call never returns and the lock is never released"})
					} else {
						obls = append(obls, Obl{Key: key, Pos: c.pos(ci.Pos()), Status: OK})
					}
				}
			}
		}
		return obls
	},
}

func init() { register(ruleB3) }

// ---------------------------------------------------------------------------------
// A12

// errOrigin classifies where an error value comes from; returns "" when every origin is an outcome carried unchanged, otherwise
// the description of the first origin that can lose the outcome.
func errOrigin(v ssa.Value, seen map[ssa.Value]bool, depth int) string {
	if v == nil || seen[v] || depth > 30 {
		return ""
	}
	seen[v] = true
	switch x := v.(type) {
	case *ssa.Const:
		return "" // an explicit nil / constant: judged by the control-flow rules (A1–A3)
	case *ssa.Phi:
		for _, e := range x.Edges {
			if w := errOrigin(e, seen, depth+1); w != "" {
				return w
			}
		}
		return ""
	case *ssa.ChangeInterface:
		return errOrigin(x.X, seen, depth+1)
	case *ssa.MakeInterface:
		return ""
	case *ssa.Parameter, *ssa.FreeVar:
		return ""
	case *ssa.Call:
		return "" // the outcome of a call (retry.Do, an insert, an error constructor)
	case *ssa.Extract:
		if _, ok := x.Tuple.(*ssa.Call); ok {
			return ""
		}
		if ta, ok := x.Tuple.(*ssa.TypeAssert); ok {
			return errOrigin(ta.X, seen, depth+1)
		}
		return "a value of unknown origin"
	case *ssa.TypeAssert:
		return errOrigin(x.X, seen, depth+1)
	case *ssa.UnOp:
		if x.Op != token.MUL {
			return ""
		}
		switch a := x.X.(type) {
		case *ssa.Alloc:
			// local variable cell: every value stored into it
			if refs := a.Referrers(); refs != nil {
				for _, r := range *refs {
					if st, ok := r.(*ssa.Store); ok && st.Addr == ssa.Value(a) {
						if w := errOrigin(st.Val, seen, depth+1); w != "" {
							return w
						}
					}
				}
			}
			return ""
		case *ssa.FreeVar:
			return ""
		case *ssa.IndexAddr:
			return "an element picked out of a slice of errors (it can be nil although the operation failed)"
		case *ssa.FieldAddr:
			return "a struct field read back later (not the outcome of this operation)"
		}
		return "a value loaded from memory"
	case *ssa.Lookup:
		return "a map element"
	case *ssa.Index:
		return "an element picked out of an array of errors"
	}
	return ""
}

var ruleA12 = &Rule{
	ID:    "A12",
	Floor: 4,
	Doc: "the outcome is carried unchanged: wherever the ingest path resolves a request promise (a call of (*promise.Promise).Done in writer/service and writer/controller), the error argument is — on every path, through phis, interface changes and local variables — the result of a call (the retried push, the INSERT, an error constructor), a parameter, or a constant. " +
		"An error that is picked out of a collection or read back from a field is a violation: unwrapping the retry library's error list to `its last element` yields nil when retrying stopped early, and the request is acknowledged although its only INSERT failed",
	Run: func(c *Ctx) []Obl {
		var obls []Obl
		var kk keyer
		for _, fn := range liveModuleFuncs(c, "writer/service", "writer/controller") {
			for _, b := range fn.Blocks {
				for _, ins := range b.Instrs {
					ci, ok := ins.(ssa.CallInstruction)
					if !ok {
						continue
					}
					sc := ci.Common().StaticCallee()
					if sc == nil || !strings.HasPrefix(sc.Name(), "Done") || !strings.Contains(sc.String(), "/writer/utils/promise.Promise") {
						continue
					}
					args := ci.Common().Args
					errArg := args[len(args)-1]
					key := kk.key(ssaName(fn) + " resolves a promise")
					if w := errOrigin(errArg, map[ssa.Value]bool{}, 0); w != "" {
						obls = append(obls, Obl{Key: key, Pos: c.pos(ci.Pos()), Status: Violation,
							Msg: "the error the promise is resolved with can be " + w + ": a failed push can be reported as success"})
					} else {
						obls = append(obls, Obl{Key: key, Pos: c.pos(ci.Pos()), Status: OK})
					}
				}
			}
		}
		return obls
	},
}

func init() { register(ruleA12) }

// ---------------------------------------------------------------------------------
// D10

func chainNode(t types.Type) (st *types.Struct, opIdx, tailIdx int, ok bool) {
	if p, isP := t.Underlying().(*types.Pointer); isP {
		t = p.Elem()
	}
	n := namedOf(t)
	if n == nil {
		return nil, 0, 0, false
	}
	s, isS := n.Underlying().(*types.Struct)
	if !isS {
		return nil, 0, 0, false
	}
	opIdx, tailIdx = -1, -1
	for i := 0; i < s.NumFields(); i++ {
		f := s.Field(i)
		switch f.Name() {
		case "Op", "AndOr":
			if b, isB := f.Type().Underlying().(*types.Basic); isB && b.Info()&types.IsString != 0 {
				opIdx = i
			}
		case "Tail":
			if pt, isP := f.Type().(*types.Pointer); isP && namedOf(pt.Elem()) == n {
				tailIdx = i
			}
		}
	}
	return s, opIdx, tailIdx, opIdx >= 0 && tailIdx >= 0
}

// leftFoldIn: does fn have a loop-carried value acc whose next value is the result of a call that receives acc itself as an
// operand (acc = combine(acc, x), directly or packed into a variadic list)?
func leftFoldIn(fn *ssa.Function) bool {
	strip := func(v ssa.Value) ssa.Value {
		for {
			switch x := v.(type) {
			case *ssa.MakeInterface:
				v = x.X
			case *ssa.ChangeInterface:
				v = x.X
			case *ssa.ChangeType:
				v = x.X
			default:
				return v
			}
		}
	}
	for _, b := range fn.Blocks {
		for _, ins := range b.Instrs {
			phi, ok := ins.(*ssa.Phi)
			if !ok {
				break
			}
			for i, pred := range b.Preds {
				if !b.Dominates(pred) {
					continue // not a back edge
				}
				// values merged into the back-edge input
				seen := map[ssa.Value]bool{}
				var fold func(v ssa.Value) bool
				fold = func(v ssa.Value) bool {
					v = strip(v)
					if seen[v] {
						return false
					}
					seen[v] = true
					switch x := v.(type) {
					case *ssa.Phi:
						if x == phi {
							return false
						}
						for _, e := range x.Edges {
							if fold(e) {
								return true
							}
						}
					case *ssa.Call:
						for _, a := range x.Call.Args {
							a = strip(a)
							if a == ssa.Value(phi) {
								return true
							}
							// variadic packing: slice of a fresh array one of whose elements is acc
							if sl, ok := a.(*ssa.Slice); ok {
								if al, ok := sl.X.(*ssa.Alloc); ok && al.Referrers() != nil {
									for _, r := range *al.Referrers() {
										if ia, ok := r.(*ssa.IndexAddr); ok && ia.Referrers() != nil {
											for _, rr := range *ia.Referrers() {
												if st, ok := rr.(*ssa.Store); ok && strip(st.Val) == ssa.Value(phi) {
													return true
												}
											}
										}
									}
								}
							}
						}
					}
					return false
				}
				if fold(phi.Edges[i]) {
					return true
				}
			}
		}
	}
	return false
}

var ruleD10 = &Rule{
	ID:    "D10",
	Floor: 3,
	Doc: "operator chains are translated by structural recursion: the query grammars parse `a or b and c` into a right-nested chain node {Head, Op|AndOr, Tail *Node}; the operator of a node joins its head with its *whole* tail. Every translator function (live code under reader/, grammar packages excluded) that reads the operator field of such a node must hand that node's Tail to a translation call (itself or a sibling taking the node type) — " +
		"the tail is translated as a unit — or walk the chain iteratively without folding the translated heads left to right (a cursor into the structure being built is the tail recursion written as a loop). A function that reads node.Op, never passes node.Tail to a call and carries `acc = combine(acc, head)` around its loop has flattened the chain: `a or b and c` becomes `(a or b) and c`, mixed and/or filters select different lines",
	Run: func(c *Ctx) []Obl {
		var obls []Obl
		for _, fn := range liveModuleFuncs(c, "reader") {
			if strings.Contains(fnPkgRel(fn), "parser") {
				continue
			}
			type nodeUse struct {
				opRead   token.Pos
				tailArg  bool
				tailRead bool
				tname    string
			}
			uses := map[ssa.Value]*nodeUse{}
			var order []ssa.Value
			for _, b := range fn.Blocks {
				for _, ins := range b.Instrs {
					fa, ok := ins.(*ssa.FieldAddr)
					if !ok {
						continue
					}
					_, opIdx, tailIdx, ok := chainNode(fa.X.Type())
					if !ok {
						continue
					}
					base := canonBase(fa.X)
					u := uses[base]
					if u == nil {
						u = &nodeUse{tname: types.TypeString(fa.X.Type(), func(p *types.Package) string { return p.Name() })}
						uses[base] = u
						order = append(order, base)
					}
					loaded := func() []ssa.Value {
						var out []ssa.Value
						if fa.Referrers() != nil {
							for _, r := range *fa.Referrers() {
								if ld, ok := r.(*ssa.UnOp); ok && ld.Op == token.MUL {
									out = append(out, ld)
								}
							}
						}
						return out
					}
					switch fa.Field {
					case opIdx:
						if len(loaded()) > 0 && u.opRead == token.NoPos {
							u.opRead = fa.Pos()
						}
					case tailIdx:
						for _, ld := range loaded() {
							u.tailRead = true
							// does the loaded tail reach a call argument (directly or through phis)?
							seen := map[ssa.Value]bool{}
							var reach func(v ssa.Value) bool
							reach = func(v ssa.Value) bool {
								if seen[v] || v.Referrers() == nil {
									return false
								}
								seen[v] = true
								for _, r := range *v.Referrers() {
									switch y := r.(type) {
									case ssa.CallInstruction:
										sc := y.Common().StaticCallee()
										for _, a := range y.Common().Args {
											if a == v && (sc == nil || len(sc.Blocks) > 0) {
												return true
											}
										}
									case *ssa.Phi:
										// a phi at a loop header that becomes the next `cur` is traversal, not translation
										isHeader := false
										for i, p := range y.Block().Preds {
											if y.Block().Dominates(p) && y.Edges[i] == v {
												isHeader = true
											}
										}
										if !isHeader && reach(y) {
											return true
										}
									case *ssa.MakeInterface:
										if reach(y) {
											return true
										}
									}
								}
								return false
							}
							if reach(ld) {
								u.tailArg = true
							}
						}
					}
				}
			}
			for _, base := range order {
				u := uses[base]
				if u.opRead == token.NoPos {
					continue
				}
				key := ssaName(fn) + " translates the operator of " + u.tname
				if u.tailArg {
					obls = append(obls, Obl{Key: key, Pos: c.pos(u.opRead), Status: OK, Msg: "the node's tail is handed to a translation call as a unit"})
				} else if !leftFoldIn(fn) {
					// an iterative walk that keeps a cursor into the structure it builds (the next head is inserted below the
					// node made for the previous operator) is the tail recursion written as a loop; what regroups the chain is
					// folding the translated heads left to right
					obls = append(obls, Obl{Key: key, Pos: c.pos(u.opRead), Status: OK, Msg: "the chain is walked iteratively without folding the translated heads left to right"})
				} else {
					obls = append(obls, Obl{Key: key, Pos: c.pos(u.opRead), Status: Violation,
						Msg: "the function reads the operator of a right-nested chain node but never passes that node's Tail to a translation call: the chain is flattened and the operator no longer joins the head with the whole tail (`a or b and c` is grouped as `(a or b) and c`)"})
				}
			}
		}
		// one obligation per (function, node type)
		seen := map[string]bool{}
		var out []Obl
		sortObls(obls)
		for _, o := range obls {
			if o.Status == OK && seen[o.Key] {
				continue
			}
			seen[o.Key] = true
			out = append(out, o)
		}
		return out
	},
}

func init() { register(ruleD10) }
