package main

// H7 (C14): names generated from the per-execution counter inside a memoised statement never collide with names generated later.

import (
	"fmt"
	"sort"
	"strings"

	"golang.org/x/tools/go/ssa"
)

// idFormats: the fmt.Sprintf format strings of fn that receive a value of PlannerContext.Id().
func idFormats(fn *ssa.Function) map[string]ssa.Instruction {
	out := map[string]ssa.Instruction{}
	for _, b := range fn.Blocks {
		for _, ins := range b.Instrs {
			call, ok := ins.(*ssa.Call)
			if !ok {
				continue
			}
			sc := call.Common().StaticCallee()
			if sc == nil || sc.String() != "fmt.Sprintf" || len(call.Common().Args) != 2 {
				continue
			}
			f, ok := constStr(call.Common().Args[0])
			if !ok {
				continue
			}
			for _, e := range variadicElems(call.Common().Args[1]) {
				if dependsOnValue(e, func(x ssa.Value) bool {
					c2, ok := x.(*ssa.Call)
					if !ok {
						return false
					}
					s2 := c2.Common().StaticCallee()
					return s2 != nil && s2.Name() == "Id" && strings.Contains(s2.String(), "shared.PlannerContext")
				}, map[ssa.Value]bool{}, 0) {
					out[f] = ins
				}
			}
		}
	}
	return out
}

var ruleH7 = &Rule{
	ID:    "H7",
	Floor: 1,
	Doc: "a memoised statement keeps its generated names to itself: sub-select aliases are numbered from PlannerContext.Id(), a counter that restarts with every execution. A statement that is memoised in a plan object (rule H4's memo sites) is reused unchanged by later executions, whose own parts are numbered from 1 again — " +
		"so every name format (fmt.Sprintf format fed from Id()) used by the functions that build the memoised statement must be used by no function outside it; otherwise the second execution renders two WITH entries of one name and the statement changes its meaning",
	Run: func(c *Ctx) []Obl {
		var obls []Obl
		sites := c.memoSites()
		if len(sites) == 0 {
			return []Obl{{Key: "memo sites", Pos: "-", Status: Undecided, Msg: "no memoised sub-plan recognised"}}
		}
		live := liveModuleFuncs(c, transpilerScopes...)
		for _, ms := range sites {
			inside := map[string][]string{}
			for fn := range ms.reach {
				for f := range idFormats(fn) {
					inside[f] = append(inside[f], ssaName(fn))
				}
			}
			var clashes []string
			for _, fn := range live {
				if ms.reach[fn] {
					continue
				}
				for f, ins := range idFormats(fn) {
					if len(inside[f]) > 0 {
						sort.Strings(inside[f])
						clashes = append(clashes, fmt.Sprintf("%q: %s (memoised) and %s at %s (every execution)", f, inside[f][0], ssaName(fn), c.pos(ins.Pos())))
					}
				}
			}
			sort.Strings(clashes)
			key := fmt.Sprintf("%s memoised statement of %s keeps its generated names apart", ssaName(ms.fn), c.fieldOfCall(ms.call))
			if len(clashes) == 0 {
				var fs []string
				for f := range inside {
					fs = append(fs, f)
				}
				sort.Strings(fs)
				obls = append(obls, Obl{Key: key, Pos: c.pos(ms.call.Pos()), Status: OK, Msg: fmt.Sprintf("name formats inside: %v", fs)})
			} else {
				obls = append(obls, Obl{Key: key, Pos: c.pos(ms.call.Pos()), Status: Violation, Path: clashes,
					Msg: "names numbered from the per-execution counter are generated with the same format inside the memoised statement and outside it: " + strings.Join(clashes, "; ") + " — on the second execution of the plan the counter restarts and both render the same alias"})
			}
		}
		// dedupe by key
		seen := map[string]bool{}
		var out []Obl
		for _, o := range obls {
			if !seen[o.Key] {
				seen[o.Key] = true
				out = append(out, o)
			}
		}
		return out
	},
}

func init() { register(ruleH7) }
