package main

// C04 / C15 rules: L1 commutative fingerprint, E2 JSON strings from a JSON encoder, A10 announce rollback.

import (
	"fmt"
	"go/ast"
	"go/token"
	"go/types"
	"strings"
)

var ruleL1old = &Rule{
	ID:    "L1",
	Floor: 3,
	Doc: "order-independent fingerprint by construction: in the writer's label fingerprint routine the loop over the labels updates each accumulator only as acc = acc ⊕ g(h) with ⊕ ∈ {+, ^, *} (commutative and associative on uint64), " +
		"h is computed from the current label's name and value only (no loop index, no accumulator, no previous label), g does not read any accumulator, and the final hash reads the accumulators only after the loop",
	Run: func(c *Ctx) []Obl {
		p, fd := c.FuncDecl("writer/utils/unmarshal", "fingerprintLabels")
		if fd == nil {
			return []Obl{{Key: "writer/utils/unmarshal.fingerprintLabels", Pos: "-", Status: Undecided, Msg: "anchor not found"}}
		}
		info := p.TypesInfo
		name := "writer/utils/unmarshal.fingerprintLabels"
		var loop *ast.RangeStmt
		for _, st := range fd.Body.List {
			if rs, ok := st.(*ast.RangeStmt); ok && loop == nil {
				loop = rs
			}
		}
		if loop == nil {
			return []Obl{{Key: name + " loop over labels", Pos: c.pos(fd.Pos()), Status: Undecided, Msg: "no top-level range loop"}}
		}
		var idxObj, valObj types.Object
		if id, ok := loop.Key.(*ast.Ident); ok && id.Name != "_" {
			idxObj = info.Defs[id]
		}
		if id, ok := loop.Value.(*ast.Ident); ok {
			valObj = info.Defs[id]
		}
		// accumulators: index expressions / identifiers assigned in the loop whose base is declared outside the loop
		mentions := func(e ast.Node, pred func(id *ast.Ident) bool) bool {
			hit := false
			ast.Inspect(e, func(n ast.Node) bool {
				if id, ok := n.(*ast.Ident); ok && pred(id) {
					hit = true
				}
				return true
			})
			return hit
		}
		declaredInLoop := func(obj types.Object) bool {
			return obj != nil && loop.Body.Pos() <= obj.Pos() && obj.Pos() < loop.Body.End()
		}
		accBases := map[types.Object]bool{}
		var obls []Obl
		okShape := true
		nAcc := 0
		for _, st := range loop.Body.List {
			as, ok := st.(*ast.AssignStmt)
			if !ok {
				if _, isExpr := st.(*ast.ExprStmt); isExpr {
					continue
				}
				okShape = false
				obls = append(obls, Obl{Key: name + " loop body statement " + c.normText(st), Pos: c.pos(st.Pos()), Status: Violation, Msg: "a statement other than an assignment in the fingerprint loop (branching on the label position or content breaks order independence by construction)"})
				continue
			}
			for i, lh := range as.Lhs {
				var base *ast.Ident
				switch x := lh.(type) {
				case *ast.Ident:
					base = x
				case *ast.IndexExpr:
					base, _ = x.X.(*ast.Ident)
				}
				if base == nil {
					continue
				}
				obj := info.Uses[base]
				if obj == nil {
					obj = info.Defs[base]
				}
				if declaredInLoop(obj) {
					// a per-label temporary (hash): must depend on the current label only
					if i < len(as.Rhs) {
						bad := mentions(as.Rhs[i], func(id *ast.Ident) bool {
							o := info.Uses[id]
							return (idxObj != nil && o == idxObj) || accBases[o]
						})
						st, msg := OK, ""
						if bad {
							st, msg = Violation, "the per-label hash depends on the loop index or on an accumulator: the fingerprint depends on label order"
						}
						obls = append(obls, Obl{Key: name + " per-label value " + base.Name + " depends on the current label only", Pos: c.pos(as.Pos()), Status: st, Msg: msg})
					}
					continue
				}
				// accumulator update
				accBases[obj] = true
				nAcc++
				accText := c.normText(lh)
				key := name + " accumulator " + accText + " updated commutatively"
				if as.Tok != token.ASSIGN || i >= len(as.Rhs) {
					// acc op= expr
					opOK := as.Tok == token.ADD_ASSIGN || as.Tok == token.XOR_ASSIGN || as.Tok == token.MUL_ASSIGN
					rhsBad := len(as.Rhs) == 1 && mentions(as.Rhs[0], func(id *ast.Ident) bool { return accBases[info.Uses[id]] || (idxObj != nil && info.Uses[id] == idxObj) })
					if opOK && !rhsBad {
						obls = append(obls, Obl{Key: key, Pos: c.pos(as.Pos()), Status: OK})
					} else {
						okShape = false
						obls = append(obls, Obl{Key: key, Pos: c.pos(as.Pos()), Status: Violation, Msg: "accumulator update is not of the form acc ⊕= g(h) with ⊕ ∈ {+,^,*}"})
					}
					continue
				}
				be, ok := ast.Unparen(as.Rhs[i]).(*ast.BinaryExpr)
				good := false
				if ok && (be.Op == token.ADD || be.Op == token.XOR || be.Op == token.MUL) {
					var other ast.Expr
					switch {
					case c.normText(be.X) == accText:
						other = be.Y
					case c.normText(be.Y) == accText:
						other = be.X
					}
					if other != nil && !mentions(other, func(id *ast.Ident) bool {
						o := info.Uses[id]
						return accBases[o] || (idxObj != nil && o == idxObj)
					}) {
						good = true
					}
				}
				if good {
					obls = append(obls, Obl{Key: key, Pos: c.pos(as.Pos()), Status: OK, Msg: be.Op.String()})
				} else {
					okShape = false
					obls = append(obls, Obl{Key: key, Pos: c.pos(as.Pos()), Status: Violation,
						Msg: "accumulator update is not acc = acc ⊕ g(h) with a commutative, associative ⊕ and g independent of accumulators and position: two orders of the same label set can give different fingerprints"})
				}
			}
		}
		_ = valObj
		st, msg := OK, fmt.Sprintf("%d accumulators", nAcc)
		if nAcc == 0 || !okShape {
			st, msg = Violation, "the fingerprint loop does not have the accumulate-commutatively shape"
		}
		obls = append(obls, Obl{Key: name + " loop shape", Pos: c.pos(loop.Pos()), Status: st, Msg: msg})
		return obls
	},
}

// ---------------------------------------------------------------------------------
// E2

func (c *Ctx) goQuoteIn(fi *FuncInfo, e ast.Node, depth int) (bool, string) {
	info := fi.Pkg.TypesInfo
	hit, what := false, ""
	ast.Inspect(e, func(n ast.Node) bool {
		switch x := n.(type) {
		case *ast.CallExpr:
			o := calleeObj(info, x)
			if o != nil && objPkgPath(o) == "strconv" && strings.HasPrefix(o.Name(), "Quote") {
				hit, what = true, "strconv."+o.Name()
			}
			if o != nil && objPkgPath(o) == "fmt" && strings.Contains(o.Name(), "printf") || (o != nil && objPkgPath(o) == "fmt" && o.Name() == "Sprintf") {
				if len(x.Args) > 0 {
					if f, ok := constString(info, x.Args[0]); ok && strings.Contains(f, "%q") {
						hit, what = true, "%q"
					}
				}
			}
		case *ast.Ident:
			if depth < 3 {
				if v, ok := info.Uses[x].(*types.Var); ok && !v.IsField() {
					ast.Inspect(fi.Decl, func(m ast.Node) bool {
						if as, ok := m.(*ast.AssignStmt); ok && len(as.Lhs) == len(as.Rhs) {
							for i, lh := range as.Lhs {
								if lid, ok := lh.(*ast.Ident); ok && (info.Defs[lid] == v || info.Uses[lid] == v) {
									if as.Rhs[i].Pos() <= x.Pos() && x.End() <= as.Rhs[i].End() {
										continue
									}
									if h, w := c.goQuoteIn(fi, as.Rhs[i], depth+1); h {
										hit, what = true, w
									}
								}
							}
						}
						return true
					})
				}
			}
		}
		return true
	})
	return hit, what
}

var ruleE2 = &Rule{
	ID:    "E2",
	Floor: 8,
	Doc: "JSON strings come from a JSON encoder: Go's strconv.Quote / %q produce Go string syntax (\\x01, \\a, \\U…), which is not JSON. Their result must not reach (a) the stored label document (a function whose result is appended to a model field MLabels, or that append itself), " +
		"(b) a response body written by reader/controller or reader/service (ResponseWriter.Write arguments and values sent on the string channels that feed the response)",
	Run: func(c *Ctx) []Obl {
		var obls []Obl
		// (a)
		for _, fi := range c.Funcs(c.PkgsUnder("writer/utils/unmarshal")) {
			if isTestFile(c, fi.Decl) {
				continue
			}
			info := fi.Pkg.TypesInfo
			ast.Inspect(fi.Decl.Body, func(n ast.Node) bool {
				call, ok := n.(*ast.CallExpr)
				if !ok {
					return true
				}
				id, ok := call.Fun.(*ast.Ident)
				if !ok || id.Name != "append" || len(call.Args) != 2 {
					return true
				}
				se, ok := ast.Unparen(call.Args[0]).(*ast.SelectorExpr)
				if !ok || se.Sel.Name != "MLabels" {
					return true
				}
				// the appended value: local defined by a call of a module function
				bad, what, builder := false, "", ""
				if h, w := c.goQuoteIn(fi, call.Args[1], 0); h {
					bad, what = true, w
				}
				var defs []ast.Expr
				if vid, ok := ast.Unparen(call.Args[1]).(*ast.Ident); ok {
					obj := info.Uses[vid]
					ast.Inspect(fi.Decl, func(m ast.Node) bool {
						if as, ok := m.(*ast.AssignStmt); ok && len(as.Lhs) == len(as.Rhs) {
							for i, lh := range as.Lhs {
								if lid, ok := lh.(*ast.Ident); ok && info.Defs[lid] == obj {
									defs = append(defs, as.Rhs[i])
								}
							}
						}
						return true
					})
				} else {
					defs = append(defs, call.Args[1])
				}
				for _, d := range defs {
					if dc, ok := ast.Unparen(d).(*ast.CallExpr); ok {
						if fn, ok := calleeObj(info, dc).(*types.Func); ok && fn.Pkg() == fi.Pkg.Types {
							if fd := c.declOf(fi.Pkg, fn); fd != nil {
								builder = fn.Name()
								if h, w := c.goQuoteIn(&FuncInfo{Pkg: fi.Pkg, Decl: fd}, fd.Body, 0); h {
									bad, what = true, w
								}
							}
						}
					}
				}
				key := fmt.Sprintf("%s label document appended to MLabels (built by %s)", fi.Name(), orStr(builder, "inline expression"))
				if bad {
					obls = append(obls, Obl{Key: key, Pos: c.pos(call.Pos()), Status: Violation,
						Msg: "the stored label document is assembled with " + what + ": a label value containing a control byte (e.g. \\x01) is written in Go syntax, the document is not JSON and JSONExtractKeysAndValues yields nothing for the series"})
				} else {
					obls = append(obls, Obl{Key: key, Pos: c.pos(call.Pos()), Status: OK})
				}
				return true
			})
		}
		// (b)
		for _, fi := range c.Funcs(c.PkgsUnder("reader/controller", "reader/service")) {
			if isTestFile(c, fi.Decl) {
				continue
			}
			info := fi.Pkg.TypesInfo
			nW, nBad := 0, 0
			var firstBad token.Pos
			what := ""
			ast.Inspect(fi.Decl.Body, func(n ast.Node) bool {
				switch x := n.(type) {
				case *ast.CallExpr:
					se, ok := ast.Unparen(x.Fun).(*ast.SelectorExpr)
					if !ok || se.Sel.Name != "Write" || len(x.Args) != 1 {
						return true
					}
					if tv, ok := info.Types[se.X]; !ok || !isHTTPResponseWriter(tv.Type) {
						return true
					}
					nW++
					if h, w := c.goQuoteIn(fi, x.Args[0], 0); h {
						nBad++
						what = w
						if firstBad == 0 {
							firstBad = x.Pos()
						}
					}
				case *ast.SendStmt:
					if tv, ok := info.Types[x.Value]; ok && types.Identical(tv.Type, types.Typ[types.String]) {
						nW++
						if h, w := c.goQuoteIn(fi, x.Value, 0); h {
							nBad++
							what = w
							if firstBad == 0 {
								firstBad = x.Pos()
							}
						}
					}
				}
				return true
			})
			if nW == 0 {
				continue
			}
			key := fi.Name() + " response strings are not Go-quoted"
			if nBad == 0 {
				obls = append(obls, Obl{Key: key, Pos: c.pos(fi.Decl.Pos()), Status: OK, Msg: fmt.Sprintf("%d writes", nW)})
			} else {
				obls = append(obls, Obl{Key: key, Pos: c.pos(firstBad), Status: Violation,
					Msg: fmt.Sprintf("%d of %d response writes emit a string rendered with %s: a value containing a control byte is written in Go escape syntax and the body is not valid JSON", nBad, nW, what)})
			}
		}
		return obls
	},
}

// ---------------------------------------------------------------------------------
// A10

var ruleA10 = &Rule{
	ID:    "A10",
	Floor: 1,
	Doc: "announce needs rollback: the (day, fingerprint) announce cache is marked while parsing, before any INSERT of the series row. For the mark not to survive a failed series insert, the cache interface (numbercache.ICache) must offer an invalidation besides CheckAndSet/DB, " +
		"and it must be called from the writer's push path. Without one, a failed series insert followed by the client's retry acknowledges samples whose series row was never inserted",
	Run: func(c *Ctx) []Obl {
		p := c.Pkg("writer/utils/numbercache")
		if p == nil {
			return []Obl{{Key: "writer/utils/numbercache", Pos: "-", Status: Undecided, Msg: "package not loaded"}}
		}
		o := p.Types.Scope().Lookup("ICache")
		if o == nil {
			return []Obl{{Key: "numbercache.ICache", Pos: "-", Status: Undecided, Msg: "anchor not found"}}
		}
		it, _ := o.Type().Underlying().(*types.Interface)
		var extra []string
		if it != nil {
			for i := 0; i < it.NumMethods(); i++ {
				n := it.Method(i).Name()
				if n != "CheckAndSet" && n != "DB" {
					extra = append(extra, n)
				}
			}
		}
		// the marking site
		pos := "-"
		var markKey = "writer/utils/unmarshal.maybeAddFp CheckAndSet mark can be rolled back on a failed series insert"
		if pk, fd := c.FuncDecl("writer/utils/unmarshal", "maybeAddFp"); fd != nil {
			_ = pk
			pos = c.pos(fd.Pos())
		} else {
			return []Obl{{Key: markKey, Pos: "-", Status: Undecided, Msg: "marking site not found"}}
		}
		called := false
		if len(extra) > 0 {
			for _, fi := range c.Funcs(c.PkgsUnder("writer/controller", "writer/utils/unmarshal", "writer/service")) {
				ast.Inspect(fi.Decl.Body, func(n ast.Node) bool {
					if se, ok := n.(*ast.SelectorExpr); ok {
						for _, e := range extra {
							if se.Sel.Name == e {
								if tv, ok := fi.Pkg.TypesInfo.Types[se.X]; ok && tv.Type != nil && strings.Contains(tv.Type.String(), "numbercache") {
									called = true
								}
							}
						}
					}
					return true
				})
			}
		}
		if called {
			return []Obl{{Key: markKey, Pos: pos, Status: OK, Msg: fmt.Sprintf("invalidation %v is called on the push path", extra)}}
		}
		return []Obl{{Key: markKey, Pos: pos, Status: Violation,
			Msg: "the announce cache has no invalidation that the push path calls: request 1 marks (day, fingerprint) and its series INSERT fails after retries (500); the client's retry finds the mark, emits no series row, its samples are inserted and acknowledged — the series is not discoverable by its labels"}}
	},
}

func init() { register(ruleL1, ruleE2, ruleA10) }

// ---------------------------------------------------------------------------------
// A11 announce key covers (day, fingerprint)

var ruleA11 = &Rule{
	ID:    "A11",
	Floor: 3,
	Doc: "announce key covers day and fingerprint: in the function that marks the announce cache (calls ICache.CheckAndSet), the key is hashed from a local byte array; the constant sub-ranges written into that array (copy / binary.PutUintNN) are pairwise disjoint, together cover the array, " +
		"and every value parameter of the function (the day and the fingerprint) feeds one of them — a key that drops the day announces a series once per cache lifetime instead of once per day, so later days get no index row",
	Run: func(c *Ctx) []Obl {
		var obls []Obl
		for _, fi := range c.Funcs(c.PkgsUnder("writer/utils/unmarshal")) {
			if isTestFile(c, fi.Decl) {
				continue
			}
			info := fi.Pkg.TypesInfo
			var mark *ast.CallExpr
			ast.Inspect(fi.Decl.Body, func(n ast.Node) bool {
				if call, ok := n.(*ast.CallExpr); ok {
					if se, ok := ast.Unparen(call.Fun).(*ast.SelectorExpr); ok && se.Sel.Name == "CheckAndSet" {
						if tv, ok := info.Types[se.X]; ok && strings.Contains(tv.Type.String(), "numbercache") {
							mark = call
						}
					}
				}
				return true
			})
			if mark == nil || fi.Decl.Recv != nil {
				continue
			}
			name := fi.Name()
			// the key may be derived by a helper of the package: analyse the helper, and require that every value parameter of the
			// marking function is handed to it
			markFi := fi
			var helperArgs []ast.Expr
			if len(mark.Args) == 1 {
				if hc, ok := ast.Unparen(mark.Args[0]).(*ast.CallExpr); ok {
					if hf, ok := calleeObj(info, hc).(*types.Func); ok && hf.Pkg() == fi.Pkg.Types {
						if hd := c.declOf(fi.Pkg, hf); hd != nil && hd.Body != nil {
							fi = &FuncInfo{Pkg: fi.Pkg, Decl: hd}
							helperArgs = hc.Args
						}
					}
				}
			}
			// the local array
			var arr types.Object
			var arrLen int64
			ast.Inspect(fi.Decl.Body, func(n ast.Node) bool {
				if vs, ok := n.(*ast.ValueSpec); ok {
					for _, nm := range vs.Names {
						if o := info.Defs[nm]; o != nil {
							if at, ok := o.Type().Underlying().(*types.Array); ok {
								arr, arrLen = o, at.Len()
							}
						}
					}
				}
				return true
			})
			if arr == nil {
				obls = append(obls, Obl{Key: name + " key buffer", Pos: c.pos(fi.Decl.Pos()), Status: Undecided, Msg: "no local key array found"})
				continue
			}
			type rng struct {
				lo, hi int64
				src    ast.Expr
				pos    token.Pos
			}
			var writes []rng
			ast.Inspect(fi.Decl.Body, func(n ast.Node) bool {
				call, ok := n.(*ast.CallExpr)
				if !ok || len(call.Args) != 2 {
					return true
				}
				isCopy := false
				if id, ok := call.Fun.(*ast.Ident); ok && id.Name == "copy" {
					isCopy = true
				}
				if se, ok := ast.Unparen(call.Fun).(*ast.SelectorExpr); ok && strings.HasPrefix(se.Sel.Name, "PutUint") {
					isCopy = true
				}
				if !isCopy {
					return true
				}
				sl, ok := ast.Unparen(call.Args[0]).(*ast.SliceExpr)
				if !ok {
					return true
				}
				if id, ok := ast.Unparen(sl.X).(*ast.Ident); !ok || info.Uses[id] != arr {
					return true
				}
				lo, hi := int64(0), arrLen
				if sl.Low != nil {
					if tv, ok := info.Types[sl.Low]; ok && tv.Value != nil {
						lo, _ = constInt(tv.Value.ExactString())
					}
				}
				if sl.High != nil {
					if tv, ok := info.Types[sl.High]; ok && tv.Value != nil {
						hi, _ = constInt(tv.Value.ExactString())
					}
				}
				writes = append(writes, rng{lo, hi, call.Args[1], call.Pos()})
				return true
			})
			// disjoint + cover
			covered := make([]int, arrLen)
			for _, w := range writes {
				for i := w.lo; i < w.hi && i < arrLen; i++ {
					covered[i]++
				}
			}
			okCover := len(writes) > 0
			for _, n := range covered {
				if n != 1 {
					okCover = false
				}
			}
			st, msg := OK, fmt.Sprintf("%d writes", len(writes))
			if !okCover {
				st, msg = Violation, fmt.Sprintf("the writes into the %d-byte key buffer overlap or leave a gap (bytes written %v times): one component of the key overwrites another", arrLen, covered)
			}
			obls = append(obls, Obl{Key: name + " key buffer ranges are disjoint and complete", Pos: c.pos(mark.Pos()), Status: st, Msg: msg})
			// every value parameter feeds a write
			for _, f := range fi.Decl.Type.Params.List {
				for _, nm := range f.Names {
					obj := info.Defs[nm]
					if strings.Contains(obj.Type().String(), "numbercache") {
						continue
					}
					feeds := false
					for _, w := range writes {
						if c.mentionsText(fi, w.src, nm.Name, 0) {
							feeds = true
						}
					}
					keyName := nm.Name
					if helperArgs != nil && feeds {
						// which parameter of the marking function is bound to this helper parameter?
						feeds = false
						pi := 0
						for _, hf := range fi.Decl.Type.Params.List {
							for _, hn := range hf.Names {
								if hn == nm && pi < len(helperArgs) {
									if id, ok := ast.Unparen(helperArgs[pi]).(*ast.Ident); ok {
										for _, mf := range markFi.Decl.Type.Params.List {
											for _, mn := range mf.Names {
												if info.Uses[id] == info.Defs[mn] {
													feeds = true
													keyName = mn.Name
												}
											}
										}
									}
								}
								pi++
							}
						}
					}
					_ = keyName
					s2, m2 := OK, ""
					if !feeds {
						s2, m2 = Violation, fmt.Sprintf("parameter %s does not reach the cache key: series are announced once per cache lifetime regardless of %s", nm.Name, nm.Name)
					}
					obls = append(obls, Obl{Key: fmt.Sprintf("%s key depends on %s", name, nm.Name), Pos: c.pos(mark.Pos()), Status: s2, Msg: m2})
				}
			}
			// the key derived by a method of a key object (`key := seriesDayKey{dayTS: …, fp: fp}; key.hash()`): every value
			// parameter of the marking function must feed a field of the object that in turn feeds one of the writes
			if fi != markFi && fi.Decl.Recv != nil && len(fi.Decl.Recv.List) == 1 {
				var recvT *types.Struct
				if len(fi.Decl.Recv.List[0].Names) == 1 {
					if o := info.Defs[fi.Decl.Recv.List[0].Names[0]]; o != nil {
						t := o.Type()
						if pt, ok := t.Underlying().(*types.Pointer); ok {
							t = pt.Elem()
						}
						recvT, _ = t.Underlying().(*types.Struct)
					}
				}
				// field → the expressions the marking function initialises it with
				fieldInit := map[string][]ast.Expr{}
				ast.Inspect(markFi.Decl.Body, func(n ast.Node) bool {
					switch x := n.(type) {
					case *ast.CompositeLit:
						if tv, ok := info.Types[x]; ok && recvT != nil {
							if st, ok := tv.Type.Underlying().(*types.Struct); ok && types.Identical(st, recvT) {
								for i, el := range x.Elts {
									if kv, ok := el.(*ast.KeyValueExpr); ok {
										if id, ok := kv.Key.(*ast.Ident); ok {
											fieldInit[id.Name] = append(fieldInit[id.Name], kv.Value)
										}
									} else if i < st.NumFields() {
										fieldInit[st.Field(i).Name()] = append(fieldInit[st.Field(i).Name()], el)
									}
								}
							}
						}
					case *ast.AssignStmt:
						for i, lh := range x.Lhs {
							if se, ok := lh.(*ast.SelectorExpr); ok && i < len(x.Rhs) {
								if sel, ok := info.Selections[se]; ok && sel.Kind() == types.FieldVal && recvT != nil {
									if st, ok := derefT(sel.Recv()).Underlying().(*types.Struct); ok && types.Identical(st, recvT) {
										fieldInit[se.Sel.Name] = append(fieldInit[se.Sel.Name], x.Rhs[i])
									}
								}
							}
						}
					}
					return true
				})
				for _, mf := range markFi.Decl.Type.Params.List {
					for _, mn := range mf.Names {
						if obj := info.Defs[mn]; obj == nil || strings.Contains(obj.Type().String(), "numbercache") {
							continue
						}
						feeds := false
						for fname, inits := range fieldInit {
							fromParam := false
							for _, e := range inits {
								if c.mentionsText(markFi, e, mn.Name, 0) {
									fromParam = true
								}
							}
							if !fromParam {
								continue
							}
							for _, w := range writes {
								if c.mentionsText(fi, w.src, fname, 0) {
									feeds = true
								}
							}
						}
						s2, m2 := OK, ""
						if !feeds {
							s2, m2 = Violation, fmt.Sprintf("parameter %s does not reach the cache key: series are announced once per cache lifetime regardless of %s", mn.Name, mn.Name)
						}
						obls = append(obls, Obl{Key: fmt.Sprintf("%s key depends on %s", name, mn.Name), Pos: c.pos(mark.Pos()), Status: s2, Msg: m2})
					}
				}
			}
		}
		return obls
	},
}

func derefT(t types.Type) types.Type {
	if p, ok := t.Underlying().(*types.Pointer); ok {
		return p.Elem()
	}
	return t
}

func init() { register(ruleA11) }

var _ = ruleL1old
