package main

// A9 on SSA: flush before reset in writer/utils/unmarshal.

import (
	"fmt"
	"go/token"
	"go/types"
	"sort"
	"strings"

	"golang.org/x/tools/go/ssa"
)

type resetFn struct {
	fn     *ssa.Function
	recvT  types.Type // receiver type (pointer)
	fields []string   // receiver fields replaced by a fresh object
}

// resetFunctions: methods of the package that replace a row-model object held in a receiver field by a fresh one.
func resetFunctions(c *Ctx, prefix string) map[*ssa.Function]*resetFn {
	out := map[*ssa.Function]*resetFn{}
	for _, fn := range moduleFuncs(c.CG()) {
		if isTestFunc(c, fn) || !strings.HasPrefix(fnPkgRel(fn), prefix) || fn.Signature.Recv() == nil || len(fn.Params) == 0 || fn.Parent() != nil {
			continue
		}
		recv := fn.Params[0]
		model := 0
		set := map[string]int{}
		for _, b := range fn.Blocks {
			for _, ins := range b.Instrs {
				st, ok := ins.(*ssa.Store)
				if !ok {
					continue
				}
				fa, ok := st.Addr.(*ssa.FieldAddr)
				if !ok || fa.X != ssa.Value(recv) {
					continue
				}
				fresh := false
				switch v := st.Val.(type) {
				case *ssa.Alloc:
					fresh = v.Heap
					if nt := namedOf(v.Type()); nt != nil && nt.Obj().Pkg() != nil && strings.HasSuffix(nt.Obj().Pkg().Path(), "/writer/model") {
						model++
					}
				case *ssa.MakeSlice, *ssa.MakeMap:
					fresh = true
				}
				if fresh {
					set[fieldNameOf(fa.X.Type(), fa.Field)] = fa.Field
				}
			}
		}
		if model == 0 || len(set) == 0 {
			continue
		}
		var fields []string
		for f := range set {
			fields = append(fields, f)
		}
		sort.Slice(fields, func(i, j int) bool { return set[fields[i]] < set[fields[j]] })
		out[fn] = &resetFn{fn, recv.Type(), fields}
	}
	return out
}

// sentFieldsOf: the fields of objects of type recvT that the payload of a send is built from.
func sentFieldsOf(v ssa.Value, recvT types.Type) map[string]bool {
	got := map[string]bool{}
	dependsOnValue(v, func(x ssa.Value) bool {
		if u, ok := x.(*ssa.UnOp); ok && u.Op == token.MUL {
			if fa, ok := u.X.(*ssa.FieldAddr); ok && types.Identical(fa.X.Type(), recvT) {
				got[fieldNameOf(fa.X.Type(), fa.Field)] = true
			}
		}
		return false
	}, map[ssa.Value]bool{}, 0)
	return got
}

type a9 struct {
	c       *Ctx
	resets  map[*ssa.Function]*resetFn
	always  map[string]int // memo: fn+fields → 0 unknown/in progress, 1 yes, 2 no
	someMem map[string]int
}

func coversAll(got map[string]bool, need []string) bool {
	for _, n := range need {
		if !got[n] {
			return false
		}
	}
	return true
}

// covering: the instruction sends (or always makes a callee send) a payload built from all the buffers r replaces.
func (a *a9) covering(ins ssa.Instruction, r *resetFn, depth int) bool {
	switch x := ins.(type) {
	case *ssa.Send:
		return coversAll(sentFieldsOf(x.X, r.recvT), r.fields)
	case *ssa.Call:
		if sc := x.Common().StaticCallee(); sc != nil && isModuleFn(sc) && depth < 4 {
			return a.alwaysSends(sc, r, depth+1)
		}
	}
	return false
}

// alwaysSends: a covering instruction dominates every return of fn.
func (a *a9) alwaysSends(fn *ssa.Function, r *resetFn, depth int) bool {
	key := fmt.Sprintf("%p/%p", fn, r)
	switch a.always[key] {
	case 1:
		return true
	case 2, 3:
		return false
	}
	a.always[key] = 3
	res := false
	for _, b := range fn.Blocks {
		for _, ins := range b.Instrs {
			if res || !a.covering(ins, r, depth) {
				continue
			}
			all := true
			for _, ret := range returnsOf(fn) {
				if !b.Dominates(ret.Block()) {
					all = false
				}
			}
			if all {
				res = true
			}
		}
	}
	if res {
		a.always[key] = 1
	} else {
		a.always[key] = 2
	}
	return res
}

// sometimeSends: fn, or a function it statically calls / runs as a deferred call, contains a covering send.
func (a *a9) sometimeSends(fn *ssa.Function, r *resetFn, seen map[*ssa.Function]bool) bool {
	if fn == nil || seen[fn] || len(seen) > 60 {
		return false
	}
	seen[fn] = true
	for _, b := range fn.Blocks {
		for _, ins := range b.Instrs {
			if s, ok := ins.(*ssa.Send); ok && coversAll(sentFieldsOf(s.X, r.recvT), r.fields) {
				return true
			}
			if ci, ok := ins.(ssa.CallInstruction); ok {
				if callee, _ := calleeOf(ci); callee != nil && isModuleFn(callee) && a.sometimeSends(callee, r, seen) {
					return true
				}
			}
		}
	}
	return false
}

// dominatedBySend: the call instruction `site` in its function is dominated by a covering instruction; failing that, every static
// call site of the function is (the flush is done by the caller).
func (a *a9) dominatedBySend(site ssa.Instruction, r *resetFn, depth int) bool {
	fn := site.Parent()
	sb := site.Block()
	for _, b := range fn.Blocks {
		if b != sb && !b.Dominates(sb) {
			continue
		}
		for _, ins := range b.Instrs {
			if ins == site {
				break
			}
			if a.covering(ins, r, 0) {
				return true
			}
		}
	}
	if depth >= 2 || fn.Parent() != nil {
		return false
	}
	sites := callSitesOf(a.c, fn)
	if len(sites) == 0 {
		return false
	}
	for _, s := range sites {
		ins, ok := s.(ssa.Instruction)
		if !ok || !a.dominatedBySend(ins, r, depth+1) {
			return false
		}
	}
	return true
}

// goStart: a goroutine started after the reset — by a `go` statement of the function itself, or by a module function called after
// the reset that starts one (the functions passed to that call are then part of what the goroutine runs).
type goStart struct {
	pos token.Pos
	fns []*ssa.Function
}

func goReachableFrom(site ssa.Instruction) []goStart {
	fn := site.Parent()
	var out []goStart
	never := func(ssa.Instruction) bool { return false }
	for _, b := range fn.Blocks {
		for _, ins := range b.Instrs {
			switch x := ins.(type) {
			case *ssa.Go:
				if reachAvoiding(fn, site, x, never) {
					if callee, _ := calleeOf(x); callee != nil {
						gs := goStart{x.Pos(), []*ssa.Function{callee}}
						// functions handed to the goroutine's function as arguments run in it as well
						for _, arg := range x.Common().Args {
							gs.fns = append(gs.fns, funcValuesOf(arg)...)
						}
						out = append(out, gs)
					} else {
						out = append(out, goStart{x.Pos(), nil})
					}
				}
			case *ssa.Call:
				sc := x.Common().StaticCallee()
				if sc == nil || !isModuleFn(sc) || !reachAvoiding(fn, site, x, never) {
					continue
				}
				for _, sb := range sc.Blocks {
					for _, si := range sb.Instrs {
						g, ok := si.(*ssa.Go)
						if !ok {
							continue
						}
						gs := goStart{pos: x.Pos()}
						if callee, _ := calleeOf(g); callee != nil {
							gs.fns = append(gs.fns, callee)
						}
						for _, arg := range x.Common().Args {
							gs.fns = append(gs.fns, funcValuesOf(arg)...)
						}
						out = append(out, gs)
					}
				}
			}
		}
	}
	return out
}

// funcValuesOf: the functions a function-typed argument denotes: a closure, a function, or a bound method.
func funcValuesOf(v ssa.Value) []*ssa.Function {
	switch x := v.(type) {
	case *ssa.Function:
		return []*ssa.Function{x}
	case *ssa.MakeClosure:
		f, _ := x.Fn.(*ssa.Function)
		if f == nil {
			return nil
		}
		if f.Synthetic != "" {
			// bound-method / thunk wrapper: the method it forwards to
			var out []*ssa.Function
			for _, b := range f.Blocks {
				for _, ins := range b.Instrs {
					if ci, ok := ins.(ssa.CallInstruction); ok {
						if sc := ci.Common().StaticCallee(); sc != nil {
							out = append(out, sc)
						}
					}
				}
			}
			return out
		}
		return []*ssa.Function{f}
	case *ssa.ChangeType:
		return funcValuesOf(x.X)
	}
	return nil
}

var ruleA9 = &Rule{
	ID:    "A9",
	Floor: 5,
	Doc: "flush before reset (SSA): in writer/utils/unmarshal a reset method is a method that stores a fresh writer/model object into a field of its receiver. Every call of one is either (a) the initial reset — a `go` statement starting the parser goroutine is reachable from it — and then that goroutine (its function or one it calls or defers) contains a channel send whose payload is built from every buffer the reset replaces; " +
		"(b) made on an object created in the calling function; or (c) dominated by such a send — a send instruction, or a call of a function in which such a send dominates every return — in the calling function, or failing that at every call site of the calling function. The payload is followed through composite literals and through helpers that build the response",
	Run: func(c *Ctx) []Obl {
		var obls []Obl
		a := &a9{c: c, resets: resetFunctions(c, "writer/utils/unmarshal"), always: map[string]int{}}
		if len(a.resets) < 3 {
			return []Obl{{Key: "reset methods", Pos: "-", Status: Undecided, Msg: fmt.Sprintf("only %d reset methods recognised", len(a.resets))}}
		}
		nth := map[string]int{}
		for _, fn := range liveModuleFuncs(c, "writer/utils/unmarshal") {
			if a.resets[fn] != nil {
				continue
			}
			for _, b := range fn.Blocks {
				for _, ins := range b.Instrs {
					ci, ok := ins.(ssa.CallInstruction)
					if !ok {
						continue
					}
					r := a.resets[ci.Common().StaticCallee()]
					if r == nil {
						continue
					}
					if _, isGo := ins.(*ssa.Go); isGo {
						continue
					}
					// (b) constructor: the receiver was made here
					if len(ci.Common().Args) > 0 {
						root := rootCell(ci.Common().Args[0])
						if al, ok := root.(*ssa.Alloc); ok && al.Parent() == fn {
							if _, isParamSpill := isSpilledParam(al); !isParamSpill {
								continue
							}
						}
					}
					name := ssaName(fn) + " calls " + r.fn.Name()
					nth[name]++
					if gos := goReachableFrom(ins); len(gos) > 0 {
						for gi, g := range gos {
							key := fmt.Sprintf("%s: goroutine #%d sends %v at the end of parsing", ssaName(fn), gi+1, r.fields)
							sends := false
							for _, gf := range g.fns {
								if a.sometimeSends(gf, r, map[*ssa.Function]bool{}) {
									sends = true
								}
							}
							if sends {
								obls = append(obls, Obl{Key: key, Pos: c.pos(g.pos), Status: OK})
							} else {
								obls = append(obls, Obl{Key: key, Pos: c.pos(g.pos), Status: Violation, Msg: "the parser goroutine never sends the buffers it accumulates"})
							}
						}
						continue
					}
					key := fmt.Sprintf("%s #%d after a send of %v", name, nth[name], r.fields)
					if a.dominatedBySend(ins, r, 0) {
						obls = append(obls, Obl{Key: key, Pos: c.pos(ins.Pos()), Status: OK})
					} else {
						obls = append(obls, Obl{Key: key, Pos: c.pos(ins.Pos()), Status: Violation,
							Msg: fmt.Sprintf("the buffers %v are replaced without having been sent to the insert path: the rows parsed so far are discarded and the request is still acknowledged", r.fields)})
					}
				}
			}
		}
		sort.SliceStable(obls, func(i, j int) bool { return obls[i].Key < obls[j].Key })
		return obls
	},
}

// isSpilledParam: the local cell only holds a parameter of its function.
func isSpilledParam(a *ssa.Alloc) (*ssa.Parameter, bool) {
	if a.Referrers() == nil {
		return nil, false
	}
	var p *ssa.Parameter
	n := 0
	for _, r := range *a.Referrers() {
		if st, ok := r.(*ssa.Store); ok && st.Addr == ssa.Value(a) {
			n++
			p, _ = st.Val.(*ssa.Parameter)
		}
	}
	return p, n == 1 && p != nil
}
