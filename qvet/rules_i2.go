package main

import (
	"fmt"
	"strings"

	"golang.org/x/tools/go/ssa"
)

// ---------------------------------------------------------------------------------
// I2  the output of a JSON encoder is written whole
//
// A streamed response is assembled from punctuation written by the handler and values rendered by a JSON encoder. The encoder's
// output is a complete JSON value whatever the data is (`null` for a nil slice, `[]` for an empty one, `"…"` with escapes); cutting
// bytes off it (`b[1:len(b)-1]` to "unwrap" an array and splice its elements into an outer one) is only right for the shapes the
// author had in mind: a nil batch leaves `ul`, an empty batch leaves nothing between two commas.

func isJSONEncoderCall(v ssa.Value) bool {
	call, ok := v.(*ssa.Call)
	if !ok {
		return false
	}
	name := ""
	if sc := call.Common().StaticCallee(); sc != nil {
		name = sc.String()
	} else if call.Common().IsInvoke() {
		name = call.Common().Method.FullName()
	}
	if !strings.Contains(name, "json") {
		return false
	}
	for _, m := range []string{".Marshal", ".MarshalIndent", ".MarshalToString", ".Buffer"} {
		if strings.HasSuffix(name, m) {
			return true
		}
	}
	return false
}

var ruleI2 = &Rule{
	ID:    "I2",
	Floor: 0,
	Doc: "encoder output is written whole (SSA): in the live code of reader/ no slice expression with a bound (`b[i:]`, `b[:j]`, `b[i:j]`) is applied to bytes / a string produced by a JSON encoder (encoding/json or jsoniter Marshal*, a jsoniter stream's Buffer), followed through tuple extraction, conversions and merges. " +
		"Unwrapping an encoded array by cutting its brackets splices `ul` into the document for a nil batch and leaves a dangling comma for an empty one. Expected count zero; positive control: seeded/C15-r8",
	Run: func(c *Ctx) []Obl {
		var obls []Obl
		var kk keyer
		n := 0
		for _, fn := range liveModuleFuncs(c, "reader") {
			for _, b := range fn.Blocks {
				for _, ins := range b.Instrs {
					sl, ok := ins.(*ssa.Slice)
					if !ok || (sl.Low == nil && sl.High == nil) {
						continue
					}
					n++
					fromEnc := false
					seen := map[ssa.Value]bool{}
					var walk func(v ssa.Value, d int)
					walk = func(v ssa.Value, d int) {
						if v == nil || seen[v] || d > 8 {
							return
						}
						seen[v] = true
						if isJSONEncoderCall(v) {
							fromEnc = true
							return
						}
						switch x := v.(type) {
						case *ssa.Extract:
							walk(x.Tuple, d+1)
						case *ssa.Convert:
							walk(x.X, d+1)
						case *ssa.ChangeType:
							walk(x.X, d+1)
						case *ssa.Phi:
							for _, e := range x.Edges {
								walk(e, d+1)
							}
						case *ssa.UnOp:
							walk(x.X, d+1)
						case *ssa.Alloc:
							if x.Referrers() != nil {
								for _, r := range *x.Referrers() {
									if st, ok := r.(*ssa.Store); ok && st.Addr == ssa.Value(x) {
										walk(st.Val, d+1)
									}
								}
							}
						}
					}
					walk(sl.X, 0)
					if fromEnc {
						obls = append(obls, Obl{Key: kk.key(ssaName(fn) + " cuts the output of a JSON encoder"), Pos: c.pos(sl.Pos()), Status: Violation,
							Msg: "bytes produced by a JSON encoder are sliced before they are written: the encoder's output is a complete value of whatever shape the data has (`null` for a nil batch, `[]` for an empty one) — cutting the brackets off splices `ul` or nothing between two commas into the response, which is then not a JSON document"})
					}
				}
			}
		}
		obls = append(obls, Obl{Key: "reader: bounded slice expressions over encoder output", Pos: "-", Status: OK, Msg: fmt.Sprintf("%d bounded slice expressions examined", n)})
		return obls
	},
}

func init() { register(ruleI2) }
