package main

// G-rules: window confinement of reads (C13, C04, C11).

import (
	"fmt"
	"go/ast"
	"go/token"
	"go/types"
	"golang.org/x/tools/go/ssa"
	"strings"
)

const pkgCHPlanner = modPath + "/reader/logql/logql_transpiler_v2/clickhouse_planner"

func isTimeTime(t types.Type) bool {
	n := namedOf(t)
	return n != nil && n.Obj().Pkg() != nil && n.Obj().Pkg().Path() == "time" && n.Obj().Name() == "Time"
}

// utcNorm decides whether a time.Time expression is normalised to the UTC location.
type utcNorm struct {
	c     *Ctx
	fi    *FuncInfo
	depth int
}

func (u *utcNorm) isUTC(e ast.Expr) bool {
	if u.depth > 6 {
		return false
	}
	u.depth++
	defer func() { u.depth-- }()
	info := u.fi.Pkg.TypesInfo
	e = ast.Unparen(e)
	switch x := e.(type) {
	case *ast.CallExpr:
		obj := calleeObj(info, x)
		if fn, ok := obj.(*types.Func); ok {
			sig := fn.Type().(*types.Signature)
			if sig.Recv() != nil && isTimeTime(sig.Recv().Type()) {
				se, _ := ast.Unparen(x.Fun).(*ast.SelectorExpr)
				switch fn.Name() {
				case "UTC":
					return true
				case "In":
					return len(x.Args) == 1 && u.c.normText(x.Args[0]) == "time.UTC"
				case "Add", "Truncate", "Round", "AddDate":
					return se != nil && u.isUTC(se.X)
				}
				return false
			}
			if objPkgPath(fn) == "time" && fn.Name() == "Date" && len(x.Args) == 8 {
				return u.c.normText(x.Args[7]) == "time.UTC"
			}
			// module helper whose every return value is UTC-normalised
			if strings.HasPrefix(objPkgPath(fn), modPath) {
				if p := u.c.ByPath[objPkgPath(fn)]; p != nil {
					if fd := u.c.declOf(p, fn); fd != nil && fd.Body != nil {
						all, any := true, false
						sub := &utcNorm{c: u.c, fi: &FuncInfo{Pkg: p, Decl: fd}, depth: u.depth}
						ast.Inspect(fd.Body, func(n ast.Node) bool {
							if _, ok := n.(*ast.FuncLit); ok {
								return false
							}
							if r, ok := n.(*ast.ReturnStmt); ok && len(r.Results) >= 1 {
								any = true
								if !sub.isUTC(r.Results[0]) {
									all = false
								}
							}
							return true
						})
						return any && all
					}
				}
			}
		}
		return false
	case *ast.Ident:
		obj := info.Uses[x]
		if obj == nil {
			obj = info.Defs[x]
		}
		v, ok := obj.(*types.Var)
		if !ok || v.IsField() {
			return false
		}
		// parameter of a module function: every call site must pass a UTC-normalised value
		if fnObj, idx := u.paramOf(v); fnObj != nil {
			callers := 0
			okAll := true
			for _, cfi := range u.c.Funcs(u.c.Pkgs) {
				cinfo := cfi.Pkg.TypesInfo
				ast.Inspect(cfi.Decl.Body, func(n ast.Node) bool {
					call, ok := n.(*ast.CallExpr)
					if !ok || calleeObj(cinfo, call) != types.Object(fnObj) || idx >= len(call.Args) {
						return true
					}
					callers++
					sub := &utcNorm{c: u.c, fi: cfi, depth: u.depth}
					if !sub.isUTC(call.Args[idx]) {
						okAll = false
					}
					return true
				})
			}
			return callers > 0 && okAll
		}
		// local variable: every definition / assignment must be UTC-normalised
		all, any := true, false
		ast.Inspect(u.fi.Decl, func(n ast.Node) bool {
			switch s := n.(type) {
			case *ast.AssignStmt:
				for i, lh := range s.Lhs {
					id, ok := lh.(*ast.Ident)
					if !ok || (info.Defs[id] != obj && info.Uses[id] != obj) {
						continue
					}
					any = true
					if len(s.Rhs) == len(s.Lhs) {
						if !u.isUTC(s.Rhs[i]) {
							all = false
						}
					} else {
						all = false
					}
				}
			case *ast.ValueSpec:
				for i, id := range s.Names {
					if info.Defs[id] != obj {
						continue
					}
					any = true
					if i < len(s.Values) {
						if !u.isUTC(s.Values[i]) {
							all = false
						}
					} else {
						all = false
					}
				}
			case *ast.RangeStmt:
				// for k := range m — the keys of a local map: every m[K] = … store must have a UTC key
				if id, ok := s.Key.(*ast.Ident); ok && info.Defs[id] == obj {
					any = true
					if !u.mapKeysUTC(s.X) {
						all = false
					}
				}
				if id, ok := s.Value.(*ast.Ident); ok && info.Defs[id] == obj {
					any = true
					all = false
				}
			}
			return true
		})
		return any && all
	}
	return false
}

// paramOf: v is the idx-th parameter of the function declaration being analysed.
func (u *utcNorm) paramOf(v *types.Var) (*types.Func, int) {
	fd := u.fi.Decl
	if fd.Type.Params == nil {
		return nil, 0
	}
	info := u.fi.Pkg.TypesInfo
	i := 0
	for _, f := range fd.Type.Params.List {
		for _, n := range f.Names {
			if info.Defs[n] == types.Object(v) {
				fn, _ := info.Defs[fd.Name].(*types.Func)
				return fn, i
			}
			i++
		}
	}
	return nil, 0
}

func (u *utcNorm) mapKeysUTC(m ast.Expr) bool {
	info := u.fi.Pkg.TypesInfo
	// ranging directly over what a module function returns
	if call, ok := ast.Unparen(m).(*ast.CallExpr); ok {
		if fn, ok := calleeObj(info, call).(*types.Func); ok && strings.HasPrefix(objPkgPath(fn), modPath) && u.depth <= 6 {
			u.depth++
			defer func() { u.depth-- }()
			return u.returnsUTCKeyedMap(fn)
		}
		return false
	}
	id, ok := ast.Unparen(m).(*ast.Ident)
	if !ok {
		return false
	}
	mobj := info.Uses[id]
	if tv, ok := info.Types[m]; !ok || tv.Type == nil {
		return false
	} else if _, isMap := tv.Type.Underlying().(*types.Map); !isMap {
		return false
	}
	if u.depth > 6 {
		return false
	}
	u.depth++
	defer func() { u.depth-- }()
	// a map parameter: every call site must pass a map with UTC keys
	if mv, ok := mobj.(*types.Var); ok {
		if fnObj, idx := u.paramOf(mv); fnObj != nil {
			callers, okAll := 0, true
			for _, cfi := range u.c.Funcs(u.c.Pkgs) {
				cinfo := cfi.Pkg.TypesInfo
				ast.Inspect(cfi.Decl.Body, func(n ast.Node) bool {
					call, ok := n.(*ast.CallExpr)
					if !ok || calleeObj(cinfo, call) != types.Object(fnObj) || idx >= len(call.Args) {
						return true
					}
					callers++
					sub := &utcNorm{c: u.c, fi: cfi, depth: u.depth}
					if !sub.mapKeysUTC(call.Args[idx]) {
						okAll = false
					}
					return true
				})
			}
			return callers > 0 && okAll
		}
	}
	all, any := true, false
	ast.Inspect(u.fi.Decl, func(n ast.Node) bool {
		as, ok := n.(*ast.AssignStmt)
		if !ok {
			return true
		}
		for i, lh := range as.Lhs {
			// m := helper(...) — the map is built by a module function: the keys of what it returns
			if lid, ok := ast.Unparen(lh).(*ast.Ident); ok && (info.Defs[lid] == mobj || info.Uses[lid] == mobj) && len(as.Lhs) == len(as.Rhs) {
				if call, ok := ast.Unparen(as.Rhs[i]).(*ast.CallExpr); ok {
					if fn, ok := calleeObj(info, call).(*types.Func); ok && strings.HasPrefix(objPkgPath(fn), modPath) {
						any = true
						if !u.returnsUTCKeyedMap(fn) {
							all = false
						}
					}
				}
			}
			ix, ok := lh.(*ast.IndexExpr)
			if !ok {
				continue
			}
			if bid, ok := ast.Unparen(ix.X).(*ast.Ident); ok && info.Uses[bid] == mobj {
				any = true
				if !u.isUTC(ix.Index) {
					all = false
				}
			}
		}
		return true
	})
	return any && all
}

// returnsUTCKeyedMap: every return of the module function yields a local map all of whose stores have UTC keys.
func (u *utcNorm) returnsUTCKeyedMap(fn *types.Func) bool {
	p := u.c.ByPath[objPkgPath(fn)]
	if p == nil {
		return false
	}
	fd := u.c.declOf(p, fn)
	if fd == nil || fd.Body == nil {
		return false
	}
	sub := &utcNorm{c: u.c, fi: &FuncInfo{Pkg: p, Decl: fd}, depth: u.depth}
	all, any := true, false
	ast.Inspect(fd.Body, func(n ast.Node) bool {
		if _, ok := n.(*ast.FuncLit); ok {
			return false
		}
		if r, ok := n.(*ast.ReturnStmt); ok && len(r.Results) >= 1 {
			any = true
			if !sub.mapKeysUTC(r.Results[0]) {
				all = false
			}
		}
		return true
	})
	return any && all
}

var ruleG3 = &Rule{
	ID:    "G3",
	Floor: 12,
	Doc: "dates are computed in UTC: (a) every time.Time formatted with the date-only layout \"2006-01-02\" (the text of a SQL `date` bound) is normalised by .UTC() / In(time.UTC) / time.Date(…, time.UTC) " +
		"(Add/Truncate/Round/AddDate preserve it; locals, map keys and module helpers are followed); (b) every time.Time appended to a model `MDate` column is normalised the same way — " +
		"ch-go's ColDate.Append adds the value's zone offset, so a non-UTC value stores the process-local day while the read side bounds `date` by UTC days",
	Run: func(c *Ctx) []Obl {
		var obls []Obl
		for _, fi := range c.Funcs(c.PkgsUnder("reader", "writer", "ctrl", "")) {
			if strings.HasSuffix(c.Fset.Position(fi.Decl.Pos()).Filename, "_test.go") {
				continue
			}
			info := fi.Pkg.TypesInfo
			nth := map[string]int{}
			ast.Inspect(fi.Decl.Body, func(n ast.Node) bool {
				call, ok := n.(*ast.CallExpr)
				if !ok {
					return true
				}
				// (a) X.Format("2006-01-02")
				if se, ok := ast.Unparen(call.Fun).(*ast.SelectorExpr); ok && se.Sel.Name == "Format" && len(call.Args) == 1 {
					if tv, ok := info.Types[se.X]; ok && isTimeTime(tv.Type) {
						if lay, ok := constString(info, call.Args[0]); ok && lay == "2006-01-02" {
							recv := c.normText(se.X)
							k := fmt.Sprintf("%s Format(date) of %s", fi.Name(), recv)
							nth[k]++
							if nth[k] > 1 {
								k = fmt.Sprintf("%s #%d", k, nth[k])
							}
							u := &utcNorm{c: c, fi: fi}
							if u.isUTC(se.X) {
								obls = append(obls, Obl{Key: k, Pos: c.pos(call.Pos()), Status: OK})
							} else {
								obls = append(obls, Obl{Key: k, Pos: c.pos(call.Pos()), Status: Violation,
									Msg: "date text is formatted in the process-local zone: with TZ != UTC the bound is the local calendar day, which excludes index rows whose (UTC) date lies inside the requested window"})
							}
						}
					}
				}
				// (b) append(x.MDate, e...)
				if id, ok := ast.Unparen(call.Fun).(*ast.Ident); ok && id.Name == "append" && len(call.Args) >= 2 {
					if se, ok := ast.Unparen(call.Args[0]).(*ast.SelectorExpr); ok && se.Sel.Name == "MDate" {
						if tv, ok := info.Types[se]; ok {
							if sl, ok := tv.Type.Underlying().(*types.Slice); ok && isTimeTime(sl.Elem()) && !call.Ellipsis.IsValid() {
								for _, a := range call.Args[1:] {
									k := fmt.Sprintf("%s append(%s, %s)", fi.Name(), c.normText(se), c.normText(a))
									u := &utcNorm{c: c, fi: fi}
									if u.isUTC(a) {
										obls = append(obls, Obl{Key: k, Pos: c.pos(call.Pos()), Status: OK})
									} else {
										obls = append(obls, Obl{Key: k, Pos: c.pos(call.Pos()), Status: Violation,
											Msg: "the value stored in the `date` column is not UTC-normalised: ch-go adds its zone offset, so a writer west of UTC stores the previous day and the row falls outside the reader's UTC date bounds"})
									}
								}
							}
						}
					}
				}
				return true
			})
		}
		return obls
	},
}

// ---------------------------------------------------------------------------------
// G2 safety-margin formatter only as a lower bound

var ruleG2 = &Rule{
	ID:    "G2",
	Floor: 8,
	Doc: "the safety-margin date formatter (window start minus 30 minutes: clickhouse_planner.FormatFromDate and its wrappers) may only produce the right operand of a lower bound sql.Ge/sql.Gt; " +
		"as an upper bound (sql.Le/sql.Lt) it pulls the bound 30 minutes back and loses the last day of the window",
	Run: func(c *Ctx) []Obl {
		c.Load()
		// the formatter family: FormatFromDate + functions that just return a member applied to their parameter
		fam := map[types.Object]bool{}
		if p := c.ByPath[pkgCHPlanner]; p != nil {
			if o := p.Types.Scope().Lookup("FormatFromDate"); o != nil {
				fam[o] = true
			}
		}
		if len(fam) == 0 {
			return []Obl{{Key: "clickhouse_planner.FormatFromDate", Pos: "-", Status: Undecided, Msg: "anchor not found"}}
		}
		funcs := c.Funcs(c.PkgsUnder("reader"))
		for changed := true; changed; {
			changed = false
			for _, fi := range funcs {
				obj := fi.Pkg.TypesInfo.Defs[fi.Decl.Name]
				if fam[obj] || len(fi.Decl.Body.List) != 1 {
					continue
				}
				if r, ok := fi.Decl.Body.List[0].(*ast.ReturnStmt); ok && len(r.Results) == 1 {
					if call, ok := r.Results[0].(*ast.CallExpr); ok && fam[calleeObj(fi.Pkg.TypesInfo, call)] {
						fam[obj] = true
						changed = true
					}
				}
			}
		}
		var obls []Obl
		for _, fi := range funcs {
			if strings.HasSuffix(c.Fset.Position(fi.Decl.Pos()).Filename, "_test.go") {
				continue
			}
			info := fi.Pkg.TypesInfo
			if fam[info.Defs[fi.Decl.Name]] {
				continue
			}
			// walk with a parent stack
			var stack []ast.Node
			ast.Inspect(fi.Decl.Body, func(n ast.Node) bool {
				if n == nil {
					stack = stack[:len(stack)-1]
					return true
				}
				stack = append(stack, n)
				call, ok := n.(*ast.CallExpr)
				if !ok || !fam[calleeObj(info, call)] {
					return true
				}
				arg := ""
				if len(call.Args) == 1 {
					arg = c.normText(call.Args[0])
				}
				key := fmt.Sprintf("%s margin-formatter(%s)", fi.Name(), arg)
				// nearest enclosing sql comparison constructor
				verdict, where := "", ""
				for i := len(stack) - 2; i >= 0; i-- {
					pc, ok := stack[i].(*ast.CallExpr)
					if !ok {
						continue
					}
					o := calleeObj(info, pc)
					if o == nil || objPkgPath(o) != pkgSQL {
						continue
					}
					switch o.Name() {
					case "Ge", "Gt":
						// must be the right operand
						if len(pc.Args) == 2 && pc.Args[1].Pos() <= call.Pos() && call.End() <= pc.Args[1].End() {
							verdict = OK
						} else {
							verdict = Violation
							where = "left operand of " + o.Name()
						}
					case "Le", "Lt":
						verdict = Violation
						where = "operand of the upper bound sql." + o.Name()
					case "Eq", "Neq":
						verdict = Violation
						where = "operand of sql." + o.Name()
					default:
						continue
					}
					break
				}
				switch verdict {
				case OK:
					obls = append(obls, Obl{Key: key, Pos: c.pos(call.Pos()), Status: OK, Msg: "lower bound"})
				case Violation:
					obls = append(obls, Obl{Key: key, Pos: c.pos(call.Pos()), Status: Violation,
						Msg: "the start-minus-30-minutes formatter is used as the " + where + ": a window ending in the first half hour of a UTC day loses that day's index rows"})
				default:
					// the formatted date travels through locals / a helper's results before it is compared: follow the value
					switch v, w := c.g2Follow(fi, call); v {
					case OK:
						obls = append(obls, Obl{Key: key, Pos: c.pos(call.Pos()), Status: OK, Msg: "lower bound (" + w + ")"})
					case Violation:
						obls = append(obls, Obl{Key: key, Pos: c.pos(call.Pos()), Status: Violation,
							Msg: "the start-minus-30-minutes formatter is used as the " + w + ": a window ending in the first half hour of a UTC day loses that day's index rows"})
					default:
						obls = append(obls, Obl{Key: key, Pos: c.pos(call.Pos()), Status: Info, Msg: "not inside a sql comparison constructor"})
					}
				}
				return true
			})
		}
		return obls
	},
}

var _ = token.NoPos

// g2Follow: where does the result of the margin-formatter call at this syntax position end up? Followed forward over SSA through
// conversions, sql.NewStringVal and other value wrappers of the sql package, locals, merges and the results of the enclosing
// function (to its call sites, by result index). Reaching sql.Le / Lt / Eq / Neq, or the left operand of Ge / Gt, is a violation;
// only right operands of Ge / Gt is OK; nothing reached is undecided ("").
func (c *Ctx) g2Follow(fi *FuncInfo, call *ast.CallExpr) (string, string) {
	fn := c.ssaFuncOf(fi)
	if fn == nil {
		return "", ""
	}
	var start ssa.Value
	var find func(f *ssa.Function)
	find = func(f *ssa.Function) {
		for _, b := range f.Blocks {
			for _, ins := range b.Instrs {
				if sc, ok := ins.(*ssa.Call); ok && sc.Pos() == call.Lparen {
					start = sc
				}
			}
		}
		for _, af := range f.AnonFuncs {
			find(af)
		}
	}
	find(fn)
	if start == nil {
		return "", ""
	}
	verdict, where := "", ""
	seen := map[ssa.Value]bool{}
	var follow func(v ssa.Value, d int)
	follow = func(v ssa.Value, d int) {
		if v == nil || seen[v] || d > 12 || v.Referrers() == nil {
			return
		}
		seen[v] = true
		for _, r := range *v.Referrers() {
			switch x := r.(type) {
			case *ssa.Phi, *ssa.MakeInterface, *ssa.ChangeInterface, *ssa.ChangeType, *ssa.Convert, *ssa.Extract:
				follow(x.(ssa.Value), d+1)
			case *ssa.Store:
				if x.Val != v {
					continue
				}
				switch a := x.Addr.(type) {
				case *ssa.Alloc:
					if a.Referrers() != nil {
						for _, rr := range *a.Referrers() {
							switch y := rr.(type) {
							case *ssa.UnOp:
								follow(y, d+1)
							case *ssa.Slice:
								follow(y, d+1)
							}
						}
					}
				case *ssa.IndexAddr:
					// packed into a variadic list
					if al, ok := a.X.(*ssa.Alloc); ok && al.Referrers() != nil {
						for _, rr := range *al.Referrers() {
							if sl, ok := rr.(*ssa.Slice); ok {
								follow(sl, d+1)
							}
						}
					}
				}
			case *ssa.Return:
				f := x.Parent()
				idx := -1
				for i, res := range x.Results {
					if res == v {
						idx = i
					}
				}
				for _, site := range callSitesOf(c, f) {
					cv, ok := site.(ssa.Value)
					if !ok {
						continue
					}
					if len(x.Results) == 1 {
						follow(cv, d+1)
					} else if cv.Referrers() != nil {
						for _, rr := range *cv.Referrers() {
							if ex, ok := rr.(*ssa.Extract); ok && ex.Index == idx {
								follow(ex, d+1)
							}
						}
					}
				}
			case *ssa.Call:
				sc := x.Common().StaticCallee()
				if sc == nil || sc.Pkg == nil || sc.Pkg.Pkg.Path() != pkgSQL {
					continue
				}
				argIdx := -1
				for i, a := range x.Common().Args {
					if a == v {
						argIdx = i
					}
				}
				switch sc.Name() {
				case "Ge", "Gt":
					if argIdx == 1 {
						if verdict == "" {
							verdict, where = OK, "right operand of sql."+sc.Name()+" at "+c.pos(x.Pos())
						}
					} else {
						verdict, where = Violation, "left operand of sql."+sc.Name()+" ("+c.pos(x.Pos())+")"
					}
				case "Le", "Lt":
					verdict, where = Violation, "operand of the upper bound sql."+sc.Name()+" ("+c.pos(x.Pos())+")"
				case "Eq", "Neq":
					verdict, where = Violation, "operand of sql."+sc.Name()+" ("+c.pos(x.Pos())+")"
				default:
					// value wrappers (NewStringVal, NewRawObject, …): the result carries the date
					follow(x, d+1)
				}
			}
		}
	}
	follow(start, 0)
	return verdict, where
}

func init() { register(ruleG2, ruleG3) }

// ---------------------------------------------------------------------------------
// G4 signal type

const pkgPromTranspiler = modPath + "/reader/promql/transpiler"
const pkgLogqlV2 = modPath + "/reader/logql/logql_transpiler_v2"

var ruleG4 = &Rule{
	ID:    "G4",
	Floor: 3,
	Doc: "signal separation: (a) the shared type predicate GetTypes(ctx) is `type IN (…)` over the column `type` with an operand derived from PlannerContext.Type; " +
		"(b) a PlannerContext built in a function that hands it to the PromQL translator sets Type to the metrics constant (2), one built in a function that runs the LogQL translator does not",
	Run: func(c *Ctx) []Obl {
		var obls []Obl
		p, fd := c.FuncDecl("reader/logql/logql_transpiler_v2/clickhouse_planner", "GetTypes")
		if fd == nil {
			return []Obl{{Key: "clickhouse_planner.GetTypes", Pos: "-", Status: Undecided, Msg: "anchor not found"}}
		}
		_ = p
		okCol, okType := false, false
		if gt := c.SSAFunc("reader/logql/logql_transpiler_v2/clickhouse_planner", "GetTypes"); gt != nil {
			for _, r := range returnsOf(gt) {
				if len(r.Results) != 1 {
					continue
				}
				// the returned condition is (derived from) a call of sql.NewIn(column, values…)
				dependsOnValue(r.Results[0], func(v ssa.Value) bool {
					call, ok := v.(*ssa.Call)
					if !ok {
						return false
					}
					sc := call.Common().StaticCallee()
					if sc == nil || sc.Pkg == nil || sc.Pkg.Pkg.Path() != pkgSQL || sc.Name() != "NewIn" || len(call.Common().Args) < 2 {
						return false
					}
					// column: a raw object built from the constant "type"
					if dependsOnValue(call.Common().Args[0], func(x ssa.Value) bool {
						s, ok := constStr(x)
						return ok && s == "type"
					}, map[ssa.Value]bool{}, 0) {
						okCol = true
					}
					// values: one of them derives from PlannerContext.Type
					if dependsOnValue(call.Common().Args[1], func(x ssa.Value) bool {
						var fa *ssa.FieldAddr
						if u, ok := x.(*ssa.UnOp); ok {
							fa, _ = u.X.(*ssa.FieldAddr)
						}
						return fa != nil && strings.HasSuffix(fieldKey(fa.X.Type(), fa.Field), "PlannerContext.Type")
					}, map[ssa.Value]bool{}, 0) {
						okType = true
					}
					return true
				}, map[ssa.Value]bool{}, 0)
			}
		}
		st, msg := OK, "type IN (f(ctx.Type), …)"
		if !okCol || !okType {
			st, msg = Violation, "GetTypes no longer builds `type IN (…)` from PlannerContext.Type: every read that relies on it loses its signal filter"
		}
		obls = append(obls, Obl{Key: "reader/logql/logql_transpiler_v2/clickhouse_planner.GetTypes shape", Pos: c.pos(fd.Pos()), Status: st, Msg: msg})

		for _, f := range c.Funcs(c.PkgsUnder("reader/service", "reader/prof", "reader/controller")) {
			if strings.HasSuffix(c.Fset.Position(f.Decl.Pos()).Filename, "_test.go") {
				continue
			}
			inf := f.Pkg.TypesInfo
			usesProm, usesLogql := false, false
			var lits []*ast.CompositeLit
			ast.Inspect(f.Decl.Body, func(n ast.Node) bool {
				switch x := n.(type) {
				case *ast.SelectorExpr:
					if o := inf.Uses[x.Sel]; o != nil {
						if _, isFn := o.(*types.Func); isFn {
							switch objPkgPath(o) {
							case pkgPromTranspiler:
								usesProm = true
							case pkgLogqlV2:
								usesLogql = true
							}
						}
					}
				case *ast.CompositeLit:
					if tv, ok := inf.Types[x]; ok && typeIs(tv.Type, pkgShared, "PlannerContext") {
						lits = append(lits, x)
					}
				}
				return true
			})
			for i, lit := range lits {
				var typeVal ast.Expr
				for _, el := range lit.Elts {
					if kv, ok := el.(*ast.KeyValueExpr); ok {
						if id, ok := kv.Key.(*ast.Ident); ok && id.Name == "Type" {
							typeVal = kv.Value
						}
					}
				}
				key := fmt.Sprintf("%s PlannerContext literal #%d", f.Name(), i+1)
				cv := ""
				if typeVal != nil {
					if tv, ok := inf.Types[typeVal]; ok && tv.Value != nil {
						cv = tv.Value.ExactString()
					} else {
						cv = "dynamic"
					}
				}
				switch {
				case usesProm && cv != "2":
					obls = append(obls, Obl{Key: key, Pos: c.pos(lit.Pos()), Status: Violation, Msg: "context handed to the PromQL translator does not select the metrics signal (Type must be 2); Prometheus queries would read log samples"})
				case usesLogql && cv == "2":
					obls = append(obls, Obl{Key: key, Pos: c.pos(lit.Pos()), Status: Violation, Msg: "context of a LogQL query selects the metrics signal"})
				case usesProm || usesLogql:
					obls = append(obls, Obl{Key: key, Pos: c.pos(lit.Pos()), Status: OK, Msg: "Type=" + cv})
				default:
					obls = append(obls, Obl{Key: key, Pos: c.pos(lit.Pos()), Status: Info, Msg: "Type=" + cv + " (neither LogQL nor PromQL translator called here)"})
				}
			}
		}
		return obls
	},
}

// mentionsField: e (following locals) reads field `field` of a struct named typeName.
func (c *Ctx) mentionsField(fi *FuncInfo, e ast.Expr, typeName, field string, depth int) bool {
	info := fi.Pkg.TypesInfo
	hit := false
	ast.Inspect(e, func(n ast.Node) bool {
		switch x := n.(type) {
		case *ast.SelectorExpr:
			if sel, ok := info.Selections[x]; ok && sel.Kind() == types.FieldVal && x.Sel.Name == field {
				if nt := namedOf(sel.Recv()); nt != nil && nt.Obj().Name() == typeName {
					hit = true
				}
			}
		case *ast.Ident:
			obj, ok := info.Uses[x].(*types.Var)
			if !ok || obj.IsField() || depth > 3 {
				return true
			}
			ast.Inspect(fi.Decl, func(m ast.Node) bool {
				if s, ok := m.(*ast.AssignStmt); ok && len(s.Lhs) == len(s.Rhs) {
					for i, lh := range s.Lhs {
						if id, ok := lh.(*ast.Ident); ok && (info.Defs[id] == obj || info.Uses[id] == obj) {
							if c.mentionsField(fi, s.Rhs[i], typeName, field, depth+1) {
								hit = true
							}
						}
					}
				}
				return true
			})
		}
		return true
	})
	return hit
}

func init() { register(ruleG4) }
