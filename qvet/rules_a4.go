package main

// A4 (SSA, interprocedural): the batch outcome is the INSERT outcome.

import (
	"fmt"
	"go/token"
	"go/types"
	"strings"

	"golang.org/x/tools/go/ssa"
)

// dependsOnValue: backward data dependence (operands, local cells, packed arrays, results of calls through their arguments).
// paramBindings, when set by a rule, lets dependsOnValue continue from a callee's parameter into the arguments bound at the call
// sites the rule has walked through (one level of context per walked call).
var paramBindings map[*ssa.Parameter][]ssa.Value

// bindCallParams: when a rule has set autoBindParams (and paramBindings), entering a callee through one of its call sites binds the callee's
// parameters to that site's arguments (context-insensitive union: a may-depend relation only grows).
var autoBindParams bool

func bindCallParams(call *ssa.Call, sc *ssa.Function) {
	if !autoBindParams || paramBindings == nil {
		return
	}
	for i, p := range sc.Params {
		if i >= len(call.Common().Args) {
			break
		}
		a := call.Common().Args[i]
		dup := false
		for _, x := range paramBindings[p] {
			if x == a {
				dup = true
			}
		}
		if !dup {
			paramBindings[p] = append(paramBindings[p], a)
		}
	}
}

func dependsOnValue(v ssa.Value, pred func(ssa.Value) bool, seen map[ssa.Value]bool, depth int) bool {
	if v == nil || seen[v] || depth > 40 {
		return false
	}
	seen[v] = true
	if pred(v) {
		return true
	}
	if p, ok := v.(*ssa.Parameter); ok && paramBindings != nil {
		for _, a := range paramBindings[p] {
			if dependsOnValue(a, pred, seen, depth+1) {
				return true
			}
		}
	}
	if a, ok := v.(*ssa.Alloc); ok {
		if refs := a.Referrers(); refs != nil {
			for _, r := range *refs {
				switch y := r.(type) {
				case *ssa.Store:
					if y.Addr == ssa.Value(a) && dependsOnValue(y.Val, pred, seen, depth+1) {
						return true
					}
				case *ssa.IndexAddr:
					if y.Referrers() != nil {
						for _, rr := range *y.Referrers() {
							if st, ok := rr.(*ssa.Store); ok && st.Addr == ssa.Value(y) && dependsOnValue(st.Val, pred, seen, depth+1) {
								return true
							}
						}
					}
				case *ssa.FieldAddr:
					if y.Referrers() != nil {
						for _, rr := range *y.Referrers() {
							if st, ok := rr.(*ssa.Store); ok && st.Addr == ssa.Value(y) && dependsOnValue(st.Val, pred, seen, depth+1) {
								return true
							}
						}
					}
				}
			}
		}
	}
	if ms, ok := v.(*ssa.MakeSlice); ok {
		if refs := ms.Referrers(); refs != nil {
			for _, r := range *refs {
				if ia, ok := r.(*ssa.IndexAddr); ok && ia.Referrers() != nil {
					for _, rr := range *ia.Referrers() {
						if st, ok := rr.(*ssa.Store); ok && st.Addr == ssa.Value(ia) && dependsOnValue(st.Val, pred, seen, depth+1) {
							return true
						}
					}
				}
			}
		}
	}
	// the result of a module function also depends on what that function returns (field-based predicates can match inside it)
	if call, ok := v.(*ssa.Call); ok {
		if sc := call.Common().StaticCallee(); sc != nil && isModuleFn(sc) && depth < 30 {
			bindCallParams(call, sc)
			for _, r := range returnsOf(sc) {
				for _, res := range r.Results {
					if dependsOnValue(res, pred, seen, depth+5) {
						return true
					}
				}
			}
		}
	}
	if ex, ok := v.(*ssa.Extract); ok {
		if call, ok := ex.Tuple.(*ssa.Call); ok {
			if sc := call.Common().StaticCallee(); sc != nil && isModuleFn(sc) && depth < 30 {
				bindCallParams(call, sc)
				for _, r := range returnsOf(sc) {
					if ex.Index < len(r.Results) && dependsOnValue(r.Results[ex.Index], pred, seen, depth+5) {
						return true
					}
				}
			}
		}
	}
	if ins, ok := v.(ssa.Instruction); ok {
		for _, op := range ins.Operands(nil) {
			if *op != nil && dependsOnValue(*op, pred, seen, depth+1) {
				return true
			}
		}
	}
	return false
}

// resolvesAll: fn ranges over a slice (parameter or captured) and calls Done on every element with its error parameter / captured
// error; returns the slice value inside fn and whether the summary holds. errIn is the parameter / free variable holding the error.
func resolvesAll(fn *ssa.Function, errIn ssa.Value) (ssa.Value, bool) {
	for _, b := range fn.Blocks {
		for _, ins := range b.Instrs {
			call, ok := ins.(*ssa.Call)
			if !ok || !isPromiseDone(call.Common().StaticCallee()) {
				continue
			}
			args := call.Common().Args
			if len(args) < 3 || canon(args[len(args)-1]) != canon(errIn) {
				continue
			}
			recv := args[0]
			var sl ssa.Value
			if u, ok := recv.(*ssa.UnOp); ok && u.Op == token.MUL {
				if ia, ok := u.X.(*ssa.IndexAddr); ok {
					sl = ia.X
				}
			}
			if ix, ok := recv.(*ssa.Index); ok {
				sl = ix.X
			}
			if sl == nil {
				continue
			}
			// inside a loop over that slice whose only exit is the loop condition
			for _, h := range fn.Blocks {
				if !h.Dominates(b) || len(h.Instrs) == 0 {
					continue
				}
				iff, ok := h.Instrs[len(h.Instrs)-1].(*ssa.If)
				if !ok {
					continue
				}
				cmp, ok := iff.Cond.(*ssa.BinOp)
				if !ok || cmp.Op != token.LSS {
					continue
				}
				if lc, ok := cmp.Y.(*ssa.Call); ok {
					if bi, ok := lc.Common().Value.(*ssa.Builtin); ok && bi.Name() == "len" && (canon(lc.Common().Args[0]) == canon(sl) || sameExpr(lc.Common().Args[0], sl, 0)) && len(h.Succs[1].Preds) == 1 {
						return sl, true
					}
				}
			}
		}
	}
	return nil, false
}

var ruleA4 = &Rule{
	ID:    "A4",
	Floor: 6,
	Doc: "batch outcome is the INSERT outcome (SSA, interprocedural): in the flush routine (the live function of writer/service that calls IChClient.Do with a ch-go Query): (i) every path from that call to a return executes the completion — a loop calling Done on every element of a promise list with an error argument, written in place or in a function / closure that receives the list and the error; " +
		"(ii) the error passed is the very value returned by client.Do (not a phi with nil, not another error); (iii) the promise list depends on the `res` field and the block sent on the `cols` field of one portion value, which is the result of swapBuffers; " +
		"(iv) in the push path of writer/controller the request promise is completed with the result of retry.Do, and the retried function (followed through helpers) returns on every path either the error obtained from the insert service's promise or nil on the branch where that error is nil",
	Run: func(c *Ctx) []Obl {
		var obls []Obl
		foundFlush := false
		paramBindings = map[*ssa.Parameter][]ssa.Value{}
		autoBindParams = true
		defer func() { paramBindings, autoBindParams = nil, false }()
		type flushSite struct {
			fn     *ssa.Function
			doCall *ssa.Call // the call whose result is the INSERT outcome in fn: client.Do itself, or the helper that runs it
			query  ssa.Value // the ch-go query (in the function that calls client.Do)
		}
		var flushes []flushSite
		for _, fn := range liveModuleFuncs(c, "writer/service") {
			var doCall *ssa.Call
			for _, b := range fn.Blocks {
				for _, ins := range b.Instrs {
					call, ok := ins.(*ssa.Call)
					if !ok || !call.Common().IsInvoke() || call.Common().Method.Name() != "Do" || len(call.Common().Args) != 2 {
						continue
					}
					if n := namedOf(call.Common().Args[1].Type()); n != nil && n.Obj().Name() == "Query" && n.Obj().Pkg() != nil && strings.Contains(n.Obj().Pkg().Path(), "ch-go") {
						doCall = call
					}
				}
			}
			if doCall == nil {
				continue
			}
			// the INSERT may sit in a helper that hands its outcome back unchanged: the flush routine is then each caller
			lifted := false
			if rets := returnsOf(fn); len(rets) > 0 && len(fn.Params) > 0 {
				all := true
				for _, r := range rets {
					if !reachAvoiding(fn, doCall, r, func(ssa.Instruction) bool { return false }) {
						continue
					}
					if len(r.Results) == 0 || !isValueOrItsCell(r.Results[len(r.Results)-1], doCall) {
						all = false
					}
				}
				if all && types.Identical(fn.Signature.Results().At(fn.Signature.Results().Len()-1).Type(), types.Universe.Lookup("error").Type()) {
					for _, site := range callSitesOf(c, fn) {
						if call, ok := site.(*ssa.Call); ok && strings.HasPrefix(fnPkgRel(site.Parent()), "writer/service") {
							bindCallParams(call, fn)
							flushes = append(flushes, flushSite{site.Parent(), call, doCall.Common().Args[1]})
							lifted = true
						}
					}
				}
			}
			if !lifted {
				flushes = append(flushes, flushSite{fn, doCall, doCall.Common().Args[1]})
			}
		}
		for _, fs := range flushes {
			fn, doCall := fs.fn, fs.doCall
			if doCall.Common().Signature().Results().Len() != 1 {
				continue
			}
			foundFlush = true
			name := ssaName(fn)
			add := func(k string, ok bool, pos token.Pos, msg string) {
				st := OK
				if !ok {
					st = Violation
				} else {
					msg = ""
				}
				obls = append(obls, Obl{Key: name + " " + k, Pos: c.pos(pos), Status: st, Msg: msg})
			}
			E := ssa.Value(doCall)
			// completion sites after Do
			type completion struct {
				ins       ssa.Instruction
				list      ssa.Value // promise list in the flush routine (or the object holding it, see listField)
				errArg    ssa.Value
				listField string // when the completer reads the list from a field of one of its arguments: that field
				// the field holds the promises (a slice of *promise.Promise): with the object being the swapped portion, it is the list
				// swapped out together with the columns
				listIsPromises bool
			}
			var comps []completion
			for _, b := range fn.Blocks {
				for _, ins := range b.Instrs {
					ci, ok := ins.(ssa.CallInstruction)
					if !ok {
						continue
					}
					if _, isDefer := ins.(*ssa.Defer); isDefer {
						continue
					}
					callee, mc := calleeOf(ci)
					if callee == nil || !isModuleFn(callee) {
						continue
					}
					// which parameter / capture is an error, which a promise list
					for i, a := range ci.Common().Args {
						if i >= len(callee.Params) || !types.Identical(a.Type(), types.Universe.Lookup("error").Type()) {
							continue
						}
						if sl, ok := resolvesAll(callee, callee.Params[i]); ok {
							// map the list back to the caller
							var list ssa.Value
							for j, p := range callee.Params {
								if canon(p) == canon(sl) && j < len(ci.Common().Args) {
									list = ci.Common().Args[j]
								}
							}
							if mc != nil {
								for j, fv := range callee.FreeVars {
									if canon(fv) == canon(sl) && j < len(mc.Bindings) {
										list = mc.Bindings[j]
									}
								}
							}
							listField := ""
							if list == nil {
								// the list is a field of an object the completer receives (a method of the portion)
								if u, ok := sl.(*ssa.UnOp); ok && u.Op == token.MUL {
									if fa, ok := u.X.(*ssa.FieldAddr); ok {
										for j, p := range callee.Params {
											if canon(p) == canon(fa.X) && j < len(ci.Common().Args) {
												list = ci.Common().Args[j]
												listField = fieldNameOf(fa.X.Type(), fa.Field)
											}
										}
									}
								}
							}
							isProm := false
							if sl != nil {
								if st, ok := sl.Type().Underlying().(*types.Slice); ok && strings.Contains(st.Elem().String(), "promise.Promise") {
									isProm = true
								}
							}
							comps = append(comps, completion{ins, list, a, listField, isProm})
						}
					}
				}
			}
			// in-place loop
			if sl, ok := resolvesAllInPlace(fn, E); ok {
				comps = append(comps, completion{nil, sl, E, "", false})
			}
			add("completer resolves every waiting promise with its argument", len(comps) > 0, fn.Pos(), "no loop (in the flush routine or in a function it calls) that calls Done on every waiting promise with the error it is given")
			if len(comps) == 0 {
				continue
			}
			okArg := true
			for _, cp := range comps {
				if cp.errArg != E {
					okArg = false
				}
			}
			add("completer is called with the INSERT error", okArg, doCall.Pos(), "the waiting requests must be resolved with the very error value returned by client.Do (not nil, not a merge with nil, not another error)")
			must := true
			for _, r := range returnsOf(fn) {
				if !reachAvoiding(fn, doCall, r, func(ssa.Instruction) bool { return false }) {
					continue
				}
				if reachAvoiding(fn, doCall, r, func(i ssa.Instruction) bool {
					for _, cp := range comps {
						if cp.ins != nil && cp.ins == i {
							return true
						}
						if cp.ins == nil {
							if call, ok := i.(*ssa.Call); ok && isPromiseDone(call.Common().StaticCallee()) {
								return true
							}
						}
					}
					return false
				}) {
					must = false
				}
			}
			add("every path after the INSERT resolves the waiting requests", must, doCall.Pos(), "a path from client.Do to the function exit skips the completion: the requests of that batch wait forever")
			// portion provenance
			var portion ssa.Value
			for _, b := range fn.Blocks {
				for _, ins := range b.Instrs {
					if call, ok := ins.(*ssa.Call); ok {
						if sc := call.Common().StaticCallee(); sc != nil && sc.Name() == "swapBuffers" {
							portion = call
						}
					}
				}
			}
			if portion == nil {
				// the send-and-resolve stage may receive the block and the waiting list from the one routine that swapped them
				// out: its parameters are then judged as the arguments of that call
				if sites := callSitesOf(c, fn); len(sites) == 1 {
					if call, ok := sites[0].(*ssa.Call); ok && strings.HasPrefix(fnPkgRel(call.Parent()), "writer/service") {
						bindCallParams(call, fn)
						for _, b := range call.Parent().Blocks {
							for _, ins := range b.Instrs {
								if sw, ok := ins.(*ssa.Call); ok {
									if sc := sw.Common().StaticCallee(); sc != nil && sc.Name() == "swapBuffers" {
										portion = sw
									}
								}
							}
						}
					}
				}
			}
			add("portion comes from swapBuffers", portion != nil, fn.Pos(), "the flush routine does not obtain its portion from swapBuffers")
			fieldOfPortion := func(fname string) func(ssa.Value) bool { // kept for messages
				return func(v ssa.Value) bool {
					var fa *ssa.FieldAddr
					if u, ok := v.(*ssa.UnOp); ok && u.Op == token.MUL {
						fa, _ = u.X.(*ssa.FieldAddr)
					}
					if fa == nil {
						return false
					}
					k := fieldKey(fa.X.Type(), fa.Field)
					if !strings.HasSuffix(k, "."+fname) {
						return false
					}
					return dependsOnValue(fa.X, func(x ssa.Value) bool { return x == portion }, map[ssa.Value]bool{}, 0)
				}
			}
			// the promise list of the portion: a field of the swapped portion whose elements are promises (whatever it is called)
			promisesOfPortion := func(v ssa.Value) bool {
				u, ok := v.(*ssa.UnOp)
				if !ok || u.Op != token.MUL {
					return false
				}
				fa, ok := u.X.(*ssa.FieldAddr)
				if !ok {
					return false
				}
				st, ok := u.Type().Underlying().(*types.Slice)
				if !ok || !strings.Contains(st.Elem().String(), "promise.Promise") {
					return false
				}
				return dependsOnValue(fa.X, func(x ssa.Value) bool { return x == portion }, map[ssa.Value]bool{}, 0)
			}
			_ = fieldOfPortion
			okWaiting := portion != nil
			for _, cp := range comps {
				if cp.listField != "" {
					if !cp.listIsPromises || cp.list == nil || !dependsOnValue(cp.list, func(x ssa.Value) bool { return x == portion }, map[ssa.Value]bool{}, 0) {
						okWaiting = false
					}
					continue
				}
				if cp.list == nil || !dependsOnValue(cp.list, promisesOfPortion, map[ssa.Value]bool{}, 0) {
					okWaiting = false
				}
			}
			add("waiting list is a copy of the swapped portion's promises", okWaiting, fn.Pos(), "the promises resolved with the INSERT outcome must be exactly those swapped out together with the columns that are sent")
			okCols := portion != nil && dependsOnValue(fs.query, func(v ssa.Value) bool {
				u, ok := v.(*ssa.UnOp)
				if !ok || u.Op != token.MUL {
					return false
				}
				fa, ok := u.X.(*ssa.FieldAddr)
				if !ok || !isColPoolResSlice(u.Type()) {
					return false
				}
				return dependsOnValue(fa.X, func(x ssa.Value) bool { return x == portion }, map[ssa.Value]bool{}, 0)
			}, map[ssa.Value]bool{}, 0)
			add("block is built from the swapped portion's columns", okCols, fn.Pos(), "the block sent must be built from the columns swapped out together with the promises")
		}
		if !foundFlush {
			obls = append(obls, Obl{Key: "writer/service flush routine", Pos: "-", Status: Undecided, Msg: "no live function of writer/service calls IChClient.Do"})
		}
		// push path: Done(_, retry.Do(...)) and the retried function
		foundRetry := false
		for _, fn := range liveModuleFuncs(c, "writer/controller") {
			for _, b := range fn.Blocks {
				for _, ins := range b.Instrs {
					call, ok := ins.(*ssa.Call)
					if !ok {
						continue
					}
					sc := call.Common().StaticCallee()
					if sc == nil || sc.Name() != "Do" || sc.Pkg == nil || !strings.Contains(sc.Pkg.Pkg.Path(), "retry") {
						continue
					}
					foundRetry = true
					name := ssaName(fn)
					okDone := false
					if refs := call.Referrers(); refs != nil {
						for _, r := range *refs {
							if dc, ok := r.(*ssa.Call); ok && isPromiseDone(dc.Common().StaticCallee()) {
								args := dc.Common().Args
								if args[len(args)-1] == ssa.Value(call) {
									okDone = true
								}
							}
						}
					}
					st := func(b bool) string {
						if b {
							return OK
						}
						return Violation
					}
					obls = append(obls, Obl{Key: name + " promise completed with the retry result", Pos: c.pos(call.Pos()), Status: st(okDone), Msg: msgIf(!okDone, "the promise returned to the handler must be resolved with the error of the (retried) insert request")})
					var retried *ssa.Function
					if len(call.Common().Args) > 0 {
						arg0 := call.Common().Args[0]
						for {
							if ct, ok := arg0.(*ssa.ChangeType); ok {
								arg0 = ct.X
								continue
							}
							break
						}
						switch f := arg0.(type) {
						case *ssa.MakeClosure:
							retried, _ = f.Fn.(*ssa.Function)
						case *ssa.Function:
							retried = f
						}
					}
					okRet, why := retried != nil, "the retried function is not a closure or function known at the call"
					if retried != nil {
						okRet, why = returnsRequestError(retried, 0)
					}
					obls = append(obls, Obl{Key: name + " retried function returns the request error unchanged", Pos: c.pos(call.Pos()), Status: st(okRet),
						Msg: msgIf(!okRet, "the function retried must return the insert request's error when it is non-nil and nil only when it is nil: "+why)})
				}
			}
		}
		if !foundRetry {
			obls = append(obls, Obl{Key: "writer/controller retry.Do", Pos: "-", Status: Undecided, Msg: "no live function of writer/controller calls retry.Do"})
		}
		return obls
	},
}

// resolvesAllInPlace: the flush routine itself loops over a list calling Done(elem, _, E).
func resolvesAllInPlace(fn *ssa.Function, E ssa.Value) (ssa.Value, bool) {
	for _, b := range fn.Blocks {
		for _, ins := range b.Instrs {
			call, ok := ins.(*ssa.Call)
			if !ok || !isPromiseDone(call.Common().StaticCallee()) {
				continue
			}
			args := call.Common().Args
			if len(args) < 3 || args[len(args)-1] != E {
				continue
			}
			if u, ok := args[0].(*ssa.UnOp); ok && u.Op == token.MUL {
				if ia, ok := u.X.(*ssa.IndexAddr); ok {
					return ia.X, true
				}
			}
		}
	}
	return nil, false
}

// returnsRequestError: every return of fn yields the error obtained from a promise Get (unchanged), or nil on the branch where
// that error was tested nil, or the result of a helper for which the same holds.
func returnsRequestError(fn *ssa.Function, depth int) (bool, string) {
	if depth > 3 {
		return false, "helper chain too deep"
	}
	var getErr ssa.Value
	for _, b := range fn.Blocks {
		for _, ins := range b.Instrs {
			if ex, ok := ins.(*ssa.Extract); ok && ex.Index == 1 {
				if call, ok := ex.Tuple.(*ssa.Call); ok && isPromiseGet(call.Common().StaticCallee()) {
					getErr = ex
				}
			}
		}
	}
	for _, r := range returnsOf(fn) {
		if len(r.Results) != 1 {
			return false, "unexpected result arity"
		}
		e := r.Results[0]
		if getErr != nil && e == getErr {
			continue
		}
		if k, ok := e.(*ssa.Const); ok && k.Value == nil {
			if getErr == nil {
				return false, fmt.Sprintf("returns nil without having obtained the request's outcome")
			}
			// dominated by the branch on which getErr == nil
			guarded := false
			for _, b := range fn.Blocks {
				if len(b.Instrs) == 0 {
					continue
				}
				iff, ok := b.Instrs[len(b.Instrs)-1].(*ssa.If)
				if !ok {
					continue
				}
				cmp, ok := iff.Cond.(*ssa.BinOp)
				if !ok || (cmp.X != getErr && cmp.Y != getErr) {
					continue
				}
				var nilSucc *ssa.BasicBlock
				switch cmp.Op {
				case token.EQL:
					nilSucc = b.Succs[0]
				case token.NEQ:
					nilSucc = b.Succs[1]
				}
				if nilSucc != nil && len(nilSucc.Preds) == 1 && (nilSucc == r.Block() || nilSucc.Dominates(r.Block())) {
					guarded = true
				}
			}
			if !guarded {
				return false, "a nil return is not confined to the branch on which the request's error is nil"
			}
			continue
		}
		if call, ok := e.(*ssa.Call); ok {
			if callee, _ := calleeOf(call); callee != nil && isModuleFn(callee) {
				if ok, why := returnsRequestError(callee, depth+1); ok {
					continue
				} else {
					return false, why
				}
			}
		}
		if ph, ok := e.(*ssa.Phi); ok {
			all := true
			for _, ed := range ph.Edges {
				if ed != getErr {
					if k, ok := ed.(*ssa.Const); !ok || k.Value != nil {
						all = false
					}
				}
			}
			if all && getErr != nil {
				// a merge of the request error and nil: acceptable only if the nil edge comes from the nil branch — conservative: reject
				return false, "the returned value merges the request's error with nil"
			}
		}
		return false, "a return yields a value that is not the request's error"
	}
	return true, ""
}

func init() { register(ruleA4) }

func msgIf(cond bool, msg string) string {
	if cond {
		return msg
	}
	return ""
}

// isValueOrItsCell: v is e, or a load of a local cell into which only e is ever stored (results are spilled to a cell in
// functions that defer).
func isValueOrItsCell(v ssa.Value, e ssa.Value) bool {
	if v == e {
		return true
	}
	u, ok := v.(*ssa.UnOp)
	if !ok || u.Op != token.MUL {
		return false
	}
	a, ok := u.X.(*ssa.Alloc)
	if !ok || a.Referrers() == nil {
		return false
	}
	n := 0
	for _, r := range *a.Referrers() {
		if st, ok := r.(*ssa.Store); ok && st.Addr == ssa.Value(a) {
			if st.Val != e {
				return false
			}
			n++
		}
	}
	return n > 0
}
