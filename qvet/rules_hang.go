package main

// F2 neutral-step loops, F3 parser-goroutine containment.

import (
	"fmt"
	"go/ast"
	"go/token"
	"go/types"
	"strings"

	"golang.org/x/tools/go/cfg"
)

var ruleF2 = &Rule{
	ID:    "F2",
	Floor: 4,
	Doc: "neutral-step loops: a `for` loop (live code of reader/ and writer/) whose exit comparison involves a variable that the loop changes only by an arithmetic step (x *= c, x <<= c, x += y, x -= y, x = x.Add(d)) cannot terminate when the step is neutral. " +
		"Multiplicative / shift steps need x to start from a non-zero constant or a dominating non-zero test, and must move towards the bound; additive steps with a non-constant y need a dominating y > 0 (resp. < 0) test. Loops of any other shape are out of scope",
	Run: func(c *Ctx) []Obl {
		var obls []Obl
		for _, fi := range c.Funcs(c.PkgsUnder("reader", "writer")) {
			if isTestFile(c, fi.Decl) || isGeneratedPos(c, fi) || !c.LiveFunc(fi) {
				continue
			}
			info := fi.Pkg.TypesInfo
			n := 0
			ast.Inspect(fi.Decl.Body, func(nd ast.Node) bool {
				loop, ok := nd.(*ast.ForStmt)
				if !ok || loop.Cond == nil {
					return true
				}
				cond, ok := ast.Unparen(loop.Cond).(*ast.BinaryExpr)
				if !ok {
					return true
				}
				// `a && b`: look at each conjunct
				var conds []*ast.BinaryExpr
				var flat func(e ast.Expr)
				flat = func(e ast.Expr) {
					if be, ok := ast.Unparen(e).(*ast.BinaryExpr); ok {
						if be.Op == token.LAND {
							flat(be.X)
							flat(be.Y)
							return
						}
						conds = append(conds, be)
					}
				}
				flat(cond)
				for _, cb := range conds {
					if cb.Op != token.LSS && cb.Op != token.LEQ && cb.Op != token.GTR && cb.Op != token.GEQ {
						continue
					}
					id, ok := ast.Unparen(cb.X).(*ast.Ident)
					if !ok {
						continue
					}
					obj := info.Uses[id]
					if obj == nil {
						continue
					}
					// all writes to obj in body + post
					type write struct {
						tok  token.Token
						rhs  ast.Expr
						node ast.Node
					}
					var writes []write
					collect := func(root ast.Node) {
						if root == nil {
							return
						}
						ast.Inspect(root, func(m ast.Node) bool {
							switch x := m.(type) {
							case *ast.AssignStmt:
								for i, lh := range x.Lhs {
									if lid, ok := lh.(*ast.Ident); ok && info.Uses[lid] == obj {
										var r ast.Expr
										if i < len(x.Rhs) {
											r = x.Rhs[i]
										}
										writes = append(writes, write{x.Tok, r, x})
									}
								}
							case *ast.IncDecStmt:
								if lid, ok := x.X.(*ast.Ident); ok && info.Uses[lid] == obj {
									writes = append(writes, write{x.Tok, nil, x})
								}
							}
							return true
						})
					}
					collect(loop.Body)
					collect(loop.Post)
					if len(writes) != 1 {
						continue
					}
					w := writes[0]
					upper := cb.Op == token.LSS || cb.Op == token.LEQ
					kind := ""
					switch w.tok {
					case token.MUL_ASSIGN, token.SHL_ASSIGN:
						kind = "mul"
					case token.QUO_ASSIGN, token.SHR_ASSIGN:
						kind = "div"
					case token.ADD_ASSIGN:
						kind = "add"
					case token.SUB_ASSIGN:
						kind = "sub"
					case token.INC, token.DEC:
						continue // constant unit step
					case token.ASSIGN:
						// x = x.Add(d)
						if call, ok := ast.Unparen(w.rhs).(*ast.CallExpr); ok {
							if se, ok := ast.Unparen(call.Fun).(*ast.SelectorExpr); ok && se.Sel.Name == "Add" && len(call.Args) == 1 {
								if rid, ok := ast.Unparen(se.X).(*ast.Ident); ok && info.Uses[rid] == obj {
									kind = "add"
									w.rhs = call.Args[0]
								}
							}
						}
					}
					if kind == "" {
						continue
					}
					n++
					key := fmt.Sprintf("%s loop #%d on %s (%s)", fi.Name(), n, id.Name, c.normText(w.node))
					g := c.cfgOf(fi, fi.Decl.Body)
					constVal := func(e ast.Expr) (string, bool) {
						if e == nil {
							return "", false
						}
						tv, ok := info.Types[e]
						if ok && tv.Value != nil {
							return tv.Value.ExactString(), true
						}
						return "", false
					}
					// dominating test `e > 0` / `e != 0` (atoms false on a leaving edge, or true on the entering edge)
					dominatedByPositive := func(target ast.Expr) bool {
						lb, _ := g.BlockOf(loop.Cond)
						if lb == nil {
							return false
						}
						want := c.normText(target)
						for _, b := range g.g.Blocks {
							cnd, t, e := condEdges(b)
							if cnd == nil {
								continue
							}
							check := func(a ast.Expr, truth bool) bool {
								be, ok := ast.Unparen(a).(*ast.BinaryExpr)
								if !ok || c.normText(be.X) != want {
									return false
								}
								v, isC := constVal(be.Y)
								if !isC {
									return false
								}
								zero := v == "0"
								switch be.Op {
								case token.GTR:
									return truth && (zero || !strings.HasPrefix(v, "-"))
								case token.NEQ:
									return truth && zero
								case token.EQL:
									return !truth && zero
								case token.LEQ:
									return !truth && (zero || !strings.HasPrefix(v, "-"))
								case token.LSS:
									return !truth && !zero && !strings.HasPrefix(v, "-")
								case token.GEQ:
									return truth && !zero && !strings.HasPrefix(v, "-")
								}
								return false
							}
							for _, a := range atomsTrueOn(cnd) {
								if check(a, true) && b != lb && g.Dominates(t, lb) && g.failureLeavesOrSkips(e, lb) {
									return true
								}
							}
							for _, a := range atomsFalseOn(cnd) {
								if check(a, false) && b != lb && g.Dominates(e, lb) && g.failureLeavesOrSkips(t, lb) {
									return true
								}
							}
						}
						return false
					}
					startsNonZero := func() bool {
						// x := <non-zero constant> in the loop init or the nearest preceding definition
						var initRHS ast.Expr
						if as, ok := loop.Init.(*ast.AssignStmt); ok {
							for i, lh := range as.Lhs {
								if lid, ok := lh.(*ast.Ident); ok && (info.Defs[lid] == obj || info.Uses[lid] == obj) && i < len(as.Rhs) {
									initRHS = as.Rhs[i]
								}
							}
						}
						if initRHS == nil {
							ast.Inspect(fi.Decl.Body, func(m ast.Node) bool {
								if as, ok := m.(*ast.AssignStmt); ok && as.End() < loop.Pos() {
									for i, lh := range as.Lhs {
										if lid, ok := lh.(*ast.Ident); ok && (info.Defs[lid] == obj || info.Uses[lid] == obj) && i < len(as.Rhs) {
											initRHS = as.Rhs[i]
										}
									}
								}
								return true
							})
						}
						if v, ok := constVal(initRHS); ok && v != "0" {
							return true
						}
						return dominatedByPositive(id)
					}
					verdict, msg := OK, ""
					switch kind {
					case "mul":
						if !upper {
							verdict, msg = Violation, "a growing step under a lower bound never reaches it"
						} else if !startsNonZero() {
							verdict, msg = Violation, fmt.Sprintf("%s is multiplied/shifted towards the bound but may be 0 on entry (no non-zero start value and no dominating non-zero test): 0 stays 0 and the loop spins forever", id.Name)
						}
					case "div":
						if upper {
							verdict, msg = Violation, "a shrinking step under an upper bound never reaches it"
						}
					case "add", "sub":
						if v, ok := constVal(w.rhs); ok {
							if v == "0" {
								verdict, msg = Violation, "constant zero step"
							}
						} else if !dominatedByPositive(w.rhs) {
							verdict, msg = Violation, fmt.Sprintf("the step %s is not tested to be positive before the loop: a zero (or negative) step never reaches the bound", c.normText(w.rhs))
						}
					}
					obls = append(obls, Obl{Key: key, Pos: c.pos(loop.Pos()), Status: verdict, Msg: msg})
				}
				return true
			})
		}
		return obls
	},
}

// failureLeavesOrSkips: from block `from`, the block `avoid` is unreachable (the other edge of the guard does not enter the loop).
func (f *FuncCFG) failureLeavesOrSkips(from, avoid *cfg.Block) bool {
	seen := map[*cfg.Block]bool{}
	var walk func(b *cfg.Block) bool
	walk = func(b *cfg.Block) bool {
		if b == avoid {
			return false
		}
		if seen[b] {
			return true
		}
		seen[b] = true
		for _, s := range b.Succs {
			if !walk(s) {
				return false
			}
		}
		return true
	}
	return walk(from)
}

// ---------------------------------------------------------------------------------
// F3 parser goroutine containment

var ruleF3 = &Rule{
	ID:    "F3",
	Floor: 3,
	Doc: "parser goroutine containment: every goroutine started by the ingest parser driver (writer/utils/unmarshal parserDoer.doParse*) defers, as its first statement, the recovering method that turns a panic into an error response; " +
		"the response channel is closed exactly once on every path of the goroutine body (error path, normal path) and once in the recovering method; the drain idiom follows the early error return in the consumer",
	Run: func(c *Ctx) []Obl {
		var obls []Obl
		for _, fi := range c.Funcs(c.PkgsUnder("writer/utils/unmarshal")) {
			if isTestFile(c, fi.Decl) || fi.Decl.Recv == nil || recvTypeName(fi.Decl) != "parserDoer" {
				continue
			}
			info := fi.Pkg.TypesInfo
			for _, st := range fi.Decl.Body.List {
				gs, ok := st.(*ast.GoStmt)
				if !ok {
					continue
				}
				fl, ok := gs.Call.Fun.(*ast.FuncLit)
				if !ok || len(fl.Body.List) < 2 {
					continue
				}
				// only the parsing goroutines (they call Decode)
				callsDecode := false
				ast.Inspect(fl.Body, func(n ast.Node) bool {
					if call, ok := n.(*ast.CallExpr); ok {
						if se, ok := ast.Unparen(call.Fun).(*ast.SelectorExpr); ok && se.Sel.Name == "Decode" {
							callsDecode = true
						}
					}
					return true
				})
				if !callsDecode {
					continue
				}
				name := fi.Name()
				// (1) first statement defers a method that recovers directly
				okDefer := false
				if d, ok := fl.Body.List[0].(*ast.DeferStmt); ok {
					if fn, ok := calleeObj(info, d.Call).(*types.Func); ok {
						if fd := c.declOf(fi.Pkg, fn); fd != nil {
							for _, s := range fd.Body.List {
								ast.Inspect(s, func(n ast.Node) bool {
									if _, isLit := n.(*ast.FuncLit); isLit {
										return false
									}
									if call, ok := n.(*ast.CallExpr); ok {
										if id, ok := call.Fun.(*ast.Ident); ok && id.Name == "recover" {
											okDefer = true
										}
									}
									return true
								})
							}
						}
					}
				}
				s1, m1 := OK, ""
				if !okDefer {
					s1, m1 = Violation, "the parser goroutine does not defer a directly-recovering function as its first statement: a panic while decoding a request body ends the process"
				}
				obls = append(obls, Obl{Key: name + " parser goroutine defers the recovering method first", Pos: c.pos(gs.Pos()), Status: s1, Msg: m1})
				// (2) close(p.res) exactly once on every path
				g := c.cfgOf(fi, fl.Body)
				closeBlocks := map[*cfg.Block]int{}
				ast.Inspect(fl.Body, func(n ast.Node) bool {
					if call, ok := n.(*ast.CallExpr); ok {
						if id, ok := call.Fun.(*ast.Ident); ok && id.Name == "close" && len(call.Args) == 1 && strings.HasSuffix(c.normText(call.Args[0]), ".res") {
							if b, _ := g.BlockOf(call); b != nil {
								closeBlocks[b]++
							}
						}
					}
					return true
				})
				// count closes along every path entry→exit
				okOnce := len(g.g.Blocks) > 0
				var walk func(b *cfg.Block, n int, seen map[*cfg.Block]bool)
				walk = func(b *cfg.Block, n int, seen map[*cfg.Block]bool) {
					if seen[b] {
						return
					}
					seen[b] = true
					n += closeBlocks[b]
					if len(b.Succs) == 0 {
						if n != 1 {
							okOnce = false
						}
					}
					for _, s := range b.Succs {
						walk(s, n, seen)
					}
					delete(seen, b)
				}
				if okOnce {
					walk(g.g.Blocks[0], 0, map[*cfg.Block]bool{})
				}
				s2, m2 := OK, ""
				if !okOnce {
					s2, m2 = Violation, "some path of the parser goroutine closes the response channel twice (panic) or not at all (the handler waits forever)"
				}
				obls = append(obls, Obl{Key: name + " response channel closed exactly once on every path", Pos: c.pos(gs.Pos()), Status: s2, Msg: m2})
			}
		}
		return obls
	},
}

func init() { register(ruleF2, ruleF3) }
