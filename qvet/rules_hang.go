package main

// F2 neutral-step loops, F3 parser-goroutine containment.

import (
	"fmt"
	"go/ast"
	"go/token"
	"golang.org/x/tools/go/ssa"
	"sort"
	"strings"

	"golang.org/x/tools/go/cfg"
)

var ruleF2 = &Rule{
	ID:    "F2",
	Floor: 4,
	Doc: "neutral-step loops: a `for` loop (live code of reader/ and writer/) whose exit comparison involves a variable that the loop changes only by an arithmetic step (x *= c, x <<= c, x += y, x -= y, x = x.Add(d)) cannot terminate when the step is neutral. " +
		"Multiplicative / shift steps need x to start from a non-zero constant or a dominating non-zero test, and must move towards the bound; additive steps with a non-constant y need a dominating y > 0 (resp. < 0) test. Loops of any other shape are out of scope",
	Run: func(c *Ctx) []Obl {
		var obls []Obl
		for _, fi := range c.Funcs(c.PkgsUnder("reader", "writer")) {
			if isTestFile(c, fi.Decl) || isGeneratedPos(c, fi) || !c.LiveFunc(fi) {
				continue
			}
			info := fi.Pkg.TypesInfo
			n := 0
			ast.Inspect(fi.Decl.Body, func(nd ast.Node) bool {
				loop, ok := nd.(*ast.ForStmt)
				if !ok || loop.Cond == nil {
					return true
				}
				cond, ok := ast.Unparen(loop.Cond).(*ast.BinaryExpr)
				if !ok {
					return true
				}
				// `a && b`: look at each conjunct
				var conds []*ast.BinaryExpr
				var flat func(e ast.Expr)
				flat = func(e ast.Expr) {
					if be, ok := ast.Unparen(e).(*ast.BinaryExpr); ok {
						if be.Op == token.LAND {
							flat(be.X)
							flat(be.Y)
							return
						}
						conds = append(conds, be)
					}
				}
				flat(cond)
				for _, cb := range conds {
					if cb.Op != token.LSS && cb.Op != token.LEQ && cb.Op != token.GTR && cb.Op != token.GEQ {
						continue
					}
					id, ok := ast.Unparen(cb.X).(*ast.Ident)
					if !ok {
						continue
					}
					obj := info.Uses[id]
					if obj == nil {
						continue
					}
					// all writes to obj in body + post
					type write struct {
						tok  token.Token
						rhs  ast.Expr
						node ast.Node
					}
					var writes []write
					collect := func(root ast.Node) {
						if root == nil {
							return
						}
						ast.Inspect(root, func(m ast.Node) bool {
							switch x := m.(type) {
							case *ast.AssignStmt:
								for i, lh := range x.Lhs {
									if lid, ok := lh.(*ast.Ident); ok && info.Uses[lid] == obj {
										var r ast.Expr
										if i < len(x.Rhs) {
											r = x.Rhs[i]
										}
										writes = append(writes, write{x.Tok, r, x})
									}
								}
							case *ast.IncDecStmt:
								if lid, ok := x.X.(*ast.Ident); ok && info.Uses[lid] == obj {
									writes = append(writes, write{x.Tok, nil, x})
								}
							}
							return true
						})
					}
					collect(loop.Body)
					collect(loop.Post)
					if len(writes) != 1 {
						continue
					}
					w := writes[0]
					upper := cb.Op == token.LSS || cb.Op == token.LEQ
					kind := ""
					switch w.tok {
					case token.MUL_ASSIGN, token.SHL_ASSIGN:
						kind = "mul"
					case token.QUO_ASSIGN, token.SHR_ASSIGN:
						kind = "div"
					case token.ADD_ASSIGN:
						kind = "add"
					case token.SUB_ASSIGN:
						kind = "sub"
					case token.INC, token.DEC:
						continue // constant unit step
					case token.ASSIGN:
						// x = x.Add(d)
						if call, ok := ast.Unparen(w.rhs).(*ast.CallExpr); ok {
							if se, ok := ast.Unparen(call.Fun).(*ast.SelectorExpr); ok && se.Sel.Name == "Add" && len(call.Args) == 1 {
								if rid, ok := ast.Unparen(se.X).(*ast.Ident); ok && info.Uses[rid] == obj {
									kind = "add"
									w.rhs = call.Args[0]
								}
							}
						}
					}
					if kind == "" {
						continue
					}
					n++
					key := fmt.Sprintf("%s loop #%d on %s (%s)", fi.Name(), n, id.Name, c.normText(w.node))
					g := c.cfgOf(fi, fi.Decl.Body)
					constVal := func(e ast.Expr) (string, bool) {
						if e == nil {
							return "", false
						}
						tv, ok := info.Types[e]
						if ok && tv.Value != nil {
							return tv.Value.ExactString(), true
						}
						return "", false
					}
					// dominating test `e > 0` / `e != 0` (atoms false on a leaving edge, or true on the entering edge)
					dominatedByPositive := func(target ast.Expr) bool {
						lb, _ := g.BlockOf(loop.Cond)
						if lb == nil {
							return false
						}
						want := c.normText(target)
						for _, b := range g.g.Blocks {
							cnd, t, e := condEdges(b)
							if cnd == nil {
								continue
							}
							check := func(a ast.Expr, truth bool) bool {
								be, ok := ast.Unparen(a).(*ast.BinaryExpr)
								if !ok || c.normText(be.X) != want {
									return false
								}
								v, isC := constVal(be.Y)
								if !isC {
									return false
								}
								zero := v == "0"
								switch be.Op {
								case token.GTR:
									return truth && (zero || !strings.HasPrefix(v, "-"))
								case token.NEQ:
									return truth && zero
								case token.EQL:
									return !truth && zero
								case token.LEQ:
									return !truth && (zero || !strings.HasPrefix(v, "-"))
								case token.LSS:
									return !truth && !zero && !strings.HasPrefix(v, "-")
								case token.GEQ:
									return truth && !zero && !strings.HasPrefix(v, "-")
								}
								return false
							}
							for _, a := range atomsTrueOn(cnd) {
								if check(a, true) && b != lb && g.Dominates(t, lb) && g.failureLeavesOrSkips(e, lb) {
									return true
								}
							}
							for _, a := range atomsFalseOn(cnd) {
								if check(a, false) && b != lb && g.Dominates(e, lb) && g.failureLeavesOrSkips(t, lb) {
									return true
								}
							}
						}
						return false
					}
					startsNonZero := func() bool {
						// x := <non-zero constant> in the loop init or the nearest preceding definition
						var initRHS ast.Expr
						if as, ok := loop.Init.(*ast.AssignStmt); ok {
							for i, lh := range as.Lhs {
								if lid, ok := lh.(*ast.Ident); ok && (info.Defs[lid] == obj || info.Uses[lid] == obj) && i < len(as.Rhs) {
									initRHS = as.Rhs[i]
								}
							}
						}
						if initRHS == nil {
							ast.Inspect(fi.Decl.Body, func(m ast.Node) bool {
								if as, ok := m.(*ast.AssignStmt); ok && as.End() < loop.Pos() {
									for i, lh := range as.Lhs {
										if lid, ok := lh.(*ast.Ident); ok && (info.Defs[lid] == obj || info.Uses[lid] == obj) && i < len(as.Rhs) {
											initRHS = as.Rhs[i]
										}
									}
								}
								return true
							})
						}
						if v, ok := constVal(initRHS); ok && v != "0" {
							return true
						}
						return dominatedByPositive(id)
					}
					verdict, msg := OK, ""
					switch kind {
					case "mul":
						if !upper {
							verdict, msg = Violation, "a growing step under a lower bound never reaches it"
						} else if !startsNonZero() {
							verdict, msg = Violation, fmt.Sprintf("%s is multiplied/shifted towards the bound but may be 0 on entry (no non-zero start value and no dominating non-zero test): 0 stays 0 and the loop spins forever", id.Name)
						}
					case "div":
						if upper {
							verdict, msg = Violation, "a shrinking step under an upper bound never reaches it"
						}
					case "add", "sub":
						if v, ok := constVal(w.rhs); ok {
							if v == "0" {
								verdict, msg = Violation, "constant zero step"
							}
						} else if !dominatedByPositive(w.rhs) {
							verdict, msg = Violation, fmt.Sprintf("the step %s is not tested to be positive before the loop: a zero (or negative) step never reaches the bound", c.normText(w.rhs))
						}
					}
					obls = append(obls, Obl{Key: key, Pos: c.pos(loop.Pos()), Status: verdict, Msg: msg})
				}
				return true
			})
		}
		return obls
	},
}

// failureLeavesOrSkips: from block `from`, the block `avoid` is unreachable (the other edge of the guard does not enter the loop).
func (f *FuncCFG) failureLeavesOrSkips(from, avoid *cfg.Block) bool {
	seen := map[*cfg.Block]bool{}
	var walk func(b *cfg.Block) bool
	walk = func(b *cfg.Block) bool {
		if b == avoid {
			return false
		}
		if seen[b] {
			return true
		}
		seen[b] = true
		for _, s := range b.Succs {
			if !walk(s) {
				return false
			}
		}
		return true
	}
	return walk(from)
}

// ---------------------------------------------------------------------------------
// F3 parser goroutine containment

// closeInterval: over all paths of fn from entry to exit, the minimum and maximum number of closes of a channel kept in a struct
// field with the given name (directly, or through module functions called on the way; deferred calls are counted at the exits).
func closeInterval(fn *ssa.Function, field string, depth int, memo map[*ssa.Function][2]int) (int, int) {
	if r, ok := memo[fn]; ok {
		return r[0], r[1]
	}
	memo[fn] = [2]int{0, 0}
	if depth > 4 || len(fn.Blocks) == 0 {
		return 0, 0
	}
	closesField := func(v ssa.Value) bool {
		u, ok := v.(*ssa.UnOp)
		if !ok || u.Op != token.MUL {
			return false
		}
		fa, ok := u.X.(*ssa.FieldAddr)
		if !ok {
			return false
		}
		return strings.HasSuffix(fieldKey(fa.X.Type(), fa.Field), "."+field)
	}
	weight := func(ins ssa.Instruction) (int, int) {
		switch x := ins.(type) {
		case *ssa.Go:
			return 0, 0
		case *ssa.Defer:
			// a deferred call registered on this path runs at the exit of the path: it counts where it is registered. A
			// recovering handler closes only after a panic, which is not a normal path
			if bi, ok := x.Common().Value.(*ssa.Builtin); ok {
				if bi.Name() == "close" && len(x.Common().Args) == 1 && closesField(x.Common().Args[0]) {
					return 1, 1
				}
				return 0, 0
			}
			if callee, _ := calleeOf(x); callee != nil && isModuleFn(callee) && !recoversDirectly(callee) {
				return closeInterval(callee, field, depth+1, memo)
			}
			return 0, 0
		case ssa.CallInstruction:
			if bi, ok := x.Common().Value.(*ssa.Builtin); ok {
				if bi.Name() == "close" && len(x.Common().Args) == 1 && closesField(x.Common().Args[0]) {
					return 1, 1
				}
				return 0, 0
			}
			if callee, _ := calleeOf(x); callee != nil && isModuleFn(callee) {
				return closeInterval(callee, field, depth+1, memo)
			}
			// a function value the caller of the enclosing function passed in (resolved by the rule for one call site)
			if cands, ok := dynCallees[x]; ok && len(cands) > 0 {
				lo, hi := 1<<30, 0
				for _, cf := range cands {
					l, h := closeInterval(cf, field, depth+1, memo)
					if l < lo {
						lo = l
					}
					if h > hi {
						hi = h
					}
				}
				return lo, hi
			}
		}
		return 0, 0
	}
	// deferred closers run at every exit; a recovering deferred function closes only when a panic happened: not on normal paths
	minAll, maxAll := 1<<30, -1
	var walk func(b *ssa.BasicBlock, lo, hi int, seen map[*ssa.BasicBlock]bool)
	walk = func(b *ssa.BasicBlock, lo, hi int, seen map[*ssa.BasicBlock]bool) {
		if seen[b] {
			return
		}
		seen[b] = true
		for _, ins := range b.Instrs {
			l, h := weight(ins)
			lo += l
			hi += h
		}
		if len(b.Succs) == 0 {
			if _, isRet := b.Instrs[len(b.Instrs)-1].(*ssa.Return); isRet {
				if lo < minAll {
					minAll = lo
				}
				if hi > maxAll {
					maxAll = hi
				}
			}
		}
		for _, s := range b.Succs {
			walk(s, lo, hi, seen)
		}
		delete(seen, b)
	}
	walk(fn.Blocks[0], 0, 0, map[*ssa.BasicBlock]bool{})
	if maxAll < 0 {
		minAll, maxAll = 0, 0
	}
	memo[fn] = [2]int{minAll, maxAll}
	return minAll, maxAll
}

// dynCallees: for the duration of one F3 evaluation, the module functions a dynamic call may run (function values handed in by
// the call site under examination).
var dynCallees = map[ssa.CallInstruction][]*ssa.Function{}

// funcArg: what a function-typed argument denotes — module functions it may run and interface methods it forwards to.
type funcArg struct {
	fns     []*ssa.Function
	methods []string
}

func funcArgOf(v ssa.Value) funcArg {
	var out funcArg
	switch x := v.(type) {
	case *ssa.Function:
		out.fns = append(out.fns, x)
	case *ssa.ChangeType:
		return funcArgOf(x.X)
	case *ssa.MakeClosure:
		f, _ := x.Fn.(*ssa.Function)
		if f == nil {
			return out
		}
		if f.Synthetic == "" {
			out.fns = append(out.fns, f)
			return out
		}
		for _, b := range f.Blocks {
			for _, ins := range b.Instrs {
				if ci, ok := ins.(ssa.CallInstruction); ok {
					if ci.Common().IsInvoke() {
						out.methods = append(out.methods, ci.Common().Method.Name())
					} else if sc := ci.Common().StaticCallee(); sc != nil {
						out.fns = append(out.fns, sc)
					}
				}
			}
		}
	}
	return out
}

// paramOfDynCall: the call runs a function value that is a parameter of `parent` (directly, or captured by the closure gf).
func paramOfDynCall(ci ssa.CallInstruction, mc *ssa.MakeClosure, parent *ssa.Function) int {
	v := ci.Common().Value
	if ci.Common().IsInvoke() || v == nil {
		return -1
	}
	if fv, ok := v.(*ssa.FreeVar); ok && mc != nil {
		for i, f := range fv.Parent().FreeVars {
			if f == fv && i < len(mc.Bindings) {
				v = mc.Bindings[i]
			}
		}
	}
	if u, ok := v.(*ssa.UnOp); ok && u.Op == token.MUL {
		// captured by reference: the cell holds the parameter
		if a, ok := u.X.(*ssa.Alloc); ok {
			if p, ok := isSpilledParam(a); ok {
				v = p
			}
		}
		if fv, ok := u.X.(*ssa.FreeVar); ok && mc != nil {
			for i, f := range fv.Parent().FreeVars {
				if f == fv && i < len(mc.Bindings) {
					if a, ok := mc.Bindings[i].(*ssa.Alloc); ok {
						if p, ok := isSpilledParam(a); ok {
							v = p
						}
					}
				}
			}
		}
	}
	if p, ok := v.(*ssa.Parameter); ok && p.Parent() == parent {
		for i, q := range parent.Params {
			if q == p {
				return i
			}
		}
	}
	return -1
}

var ruleF3 = &Rule{
	ID:    "F3",
	Floor: 3,
	Doc: "parser goroutine containment (SSA, interprocedural): every goroutine started in the live code of writer/utils/unmarshal whose function calls a parser's Decode method — directly, or through a function value its starter received from the caller (judged once per call site of the starter, with the function values that call site passes) — (1) registers, before that call, a deferred function that calls recover in its own body (a recover inside a nested closure does not recover); " +
		"(2) closes the response channel (the struct field `res`) exactly once on every path from its entry to a return — closes are counted through the module functions called on the way (an extracted `send the error and close` helper counts for its one close), deferred recover handlers are not on normal paths",
	Run: func(c *Ctx) []Obl {
		var obls []Obl
		for _, fn := range liveModuleFuncs(c, "writer/utils/unmarshal") {
			for _, b := range fn.Blocks {
				for _, ins := range b.Instrs {
					gs, ok := ins.(*ssa.Go)
					if !ok {
						continue
					}
					gf, mc := calleeOf(gs)
					if gf == nil || len(gf.Blocks) == 0 {
						continue
					}
					judge := func(name string, decode ssa.Instruction, pos token.Pos) {
						okDefer := false
						for _, gb := range gf.Blocks {
							for _, gi := range gb.Instrs {
								if d, ok := gi.(*ssa.Defer); ok && before(d, decode) {
									if callee, _ := calleeOf(d); callee != nil && recoversDirectly(callee) {
										okDefer = true
									}
								}
							}
						}
						s1, m1 := OK, ""
						if !okDefer {
							s1, m1 = Violation, "the parser goroutine does not register a directly-recovering deferred function before decoding: a panic while decoding a request body ends the process"
						}
						obls = append(obls, Obl{Key: name + " parser goroutine defers the recovering method first", Pos: c.pos(pos), Status: s1, Msg: m1})
						lo, hi := closeInterval(gf, "res", 0, map[*ssa.Function][2]int{})
						s2, m2 := OK, ""
						if lo != 1 || hi != 1 {
							s2, m2 = Violation, fmt.Sprintf("the parser goroutine closes the response channel between %d and %d times depending on the path: twice panics, never leaves the handler waiting forever", lo, hi)
						}
						obls = append(obls, Obl{Key: name + " response channel closed exactly once on every path", Pos: c.pos(pos), Status: s2, Msg: m2})
					}
					var decode ssa.Instruction
					dyn := map[ssa.CallInstruction]int{} // dynamic calls of the goroutine → parameter of fn they run
					for _, gb := range gf.Blocks {
						for _, gi := range gb.Instrs {
							ci, ok := gi.(ssa.CallInstruction)
							if !ok {
								continue
							}
							if call, ok := gi.(*ssa.Call); ok && call.Common().IsInvoke() && call.Common().Method.Name() == "Decode" {
								decode = call
							}
							if idx := paramOfDynCall(ci, mc, fn); idx >= 0 {
								dyn[ci] = idx
							}
						}
					}
					// the goroutine's function runs a function value the go statement itself hands it (`go p.runDecoder(parser.Decode, …)`):
					// the parser's Decode may be one of them
					if decode == nil {
						for _, gb := range gf.Blocks {
							for _, gi := range gb.Instrs {
								ci, ok := gi.(ssa.CallInstruction)
								if !ok || ci.Common().IsInvoke() {
									continue
								}
								if p, ok := ci.Common().Value.(*ssa.Parameter); ok {
									for i, q := range gf.Params {
										if q == p && i < len(gs.Common().Args) {
											fa := funcArgOf(gs.Common().Args[i])
											for _, m := range fa.methods {
												if m == "Decode" {
													decode = ci.(ssa.Instruction)
												}
											}
											for _, f := range fa.fns {
												if f.Name() == "Decode" {
													decode = ci.(ssa.Instruction)
												}
											}
										}
									}
								}
							}
						}
					}
					if decode != nil {
						// function values handed to the goroutine's function by the go statement itself
						var bound []ssa.CallInstruction
						for _, gb := range gf.Blocks {
							for _, gi := range gb.Instrs {
								ci, ok := gi.(ssa.CallInstruction)
								if !ok || ci.Common().IsInvoke() {
									continue
								}
								if p, ok := ci.Common().Value.(*ssa.Parameter); ok {
									for i, q := range gf.Params {
										if q == p && i < len(gs.Common().Args) {
											dynCallees[ci] = funcArgOf(gs.Common().Args[i]).fns
											bound = append(bound, ci)
										}
									}
								}
							}
						}
						judge(ssaName(fn), decode, gs.Pos())
						for _, ci := range bound {
							delete(dynCallees, ci)
						}
						continue
					}
					if len(dyn) == 0 {
						continue
					}
					// the starter is generic: one instance per call site, with the functions that site passes
					for _, site := range callSitesOf(c, fn) {
						var dec ssa.Instruction
						for ci, idx := range dyn {
							if idx >= len(site.Common().Args) {
								continue
							}
							fa := funcArgOf(site.Common().Args[idx])
							for _, m := range fa.methods {
								if m == "Decode" {
									dec = ci.(ssa.Instruction)
								}
							}
							for _, f := range fa.fns {
								if f.Name() == "Decode" {
									dec = ci.(ssa.Instruction)
								}
							}
							dynCallees[ci] = fa.fns
						}
						if dec != nil {
							judge(ssaName(site.Parent())+" (via "+fn.Name()+")", dec, site.Pos())
						}
						for ci := range dyn {
							delete(dynCallees, ci)
						}
					}
				}
			}
		}
		sort.SliceStable(obls, func(i, j int) bool { return obls[i].Key < obls[j].Key })
		return obls
	},
}

func init() { register(ruleF2, ruleF3) }
