package main

// K-rules: one router, authentication first, every route on it, no bypass (C20).

import (
	"fmt"
	"go/ast"
	"go/token"
	"go/types"
	"sort"
	"strings"

	"golang.org/x/tools/go/ssa"
)

const pkgMux = "github.com/gorilla/mux"
const pkgMiddleware = modPath + "/reader/utils/middleware"

type routerFlow struct {
	root    *ssa.Call
	derived map[ssa.Value]bool
}

func isMuxRouterPtr(t types.Type) bool {
	p, ok := t.(*types.Pointer)
	if !ok {
		return false
	}
	n, ok := p.Elem().(*types.Named)
	return ok && n.Obj().Pkg() != nil && n.Obj().Pkg().Path() == pkgMux && n.Obj().Name() == "Router"
}

func moduleFuncs(g *CallGraph) []*ssa.Function {
	var out []*ssa.Function
	for _, fn := range sortedFuncs(g.funcs) {
		if fn.Pkg != nil && strings.HasPrefix(fn.Pkg.Pkg.Path(), modPath) && len(fn.Blocks) > 0 {
			out = append(out, fn)
		} else if fn.Parent() != nil && len(fn.Blocks) > 0 {
			p := fn
			for p.Parent() != nil {
				p = p.Parent()
			}
			if p.Pkg != nil && strings.HasPrefix(p.Pkg.Pkg.Path(), modPath) {
				out = append(out, fn)
			}
		}
	}
	return out
}

func isTestFunc(c *Ctx, fn *ssa.Function) bool {
	return strings.HasSuffix(c.Fset.Position(fn.Pos()).Filename, "_test.go")
}

// routerFlows computes, for every mux.NewRouter() call in live module code, the SSA values the router flows to
// (phis, local variables, parameters of static callees, closure bindings).
func (c *Ctx) routerFlows() []*routerFlow {
	g := c.CG()
	funcs := moduleFuncs(g)
	var flows []*routerFlow
	for _, fn := range funcs {
		if isTestFunc(c, fn) || !g.live[fn] {
			continue
		}
		for _, b := range fn.Blocks {
			for _, ins := range b.Instrs {
				call, ok := ins.(*ssa.Call)
				if !ok {
					continue
				}
				if sc := call.Common().StaticCallee(); sc != nil && sc.Pkg != nil && sc.Pkg.Pkg.Path() == pkgMux && sc.Name() == "NewRouter" {
					flows = append(flows, &routerFlow{root: call, derived: map[ssa.Value]bool{call: true}})
				}
			}
		}
	}
	for _, fl := range flows {
		for changed := true; changed; {
			changed = false
			mark := func(v ssa.Value) {
				if v != nil && !fl.derived[v] {
					fl.derived[v] = true
					changed = true
				}
			}
			for _, fn := range funcs {
				for _, b := range fn.Blocks {
					for _, ins := range b.Instrs {
						switch x := ins.(type) {
						case *ssa.Phi:
							for _, e := range x.Edges {
								if fl.derived[e] {
									mark(x)
								}
							}
						case *ssa.Store:
							if fl.derived[x.Val] {
								mark(x.Addr) // the cell now holds the router
							}
						case *ssa.UnOp:
							if x.Op == token.MUL && fl.derived[x.X] && isMuxRouterPtr(x.Type()) {
								mark(x)
							}
						case *ssa.MakeClosure:
							if cf, ok := x.Fn.(*ssa.Function); ok {
								for i, bnd := range x.Bindings {
									if fl.derived[bnd] && i < len(cf.FreeVars) {
										mark(cf.FreeVars[i])
									}
								}
							}
						case *ssa.ChangeType:
							if fl.derived[x.X] {
								mark(x)
							}
						case *ssa.MakeInterface:
							if fl.derived[x.X] {
								mark(x)
							}
						}
						if ci, ok := ins.(ssa.CallInstruction); ok {
							com := ci.Common()
							if sc := com.StaticCallee(); sc != nil && len(sc.Blocks) > 0 {
								for i, a := range com.Args {
									if fl.derived[a] && i < len(sc.Params) {
										mark(sc.Params[i])
									}
								}
								// a constructor that hands the router back
								if cv, ok := ci.(ssa.Value); ok && isMuxRouterPtr(cv.Type()) {
									for _, r := range returnsOf(sc) {
										if len(r.Results) == 1 && fl.derived[r.Results[0]] {
											mark(cv)
										}
									}
								}
							} else if !com.IsInvoke() {
								// a function value (e.g. a table of route registrars): the callees the call graph resolves
								passes := false
								for _, a := range com.Args {
									if fl.derived[a] {
										passes = true
									}
								}
								if passes {
									for _, e := range g.vtaOut[fn] {
										if e.Site != ci || e.Fallback || len(e.Callee.Blocks) == 0 {
											continue
										}
										for i, a := range com.Args {
											if fl.derived[a] && i < len(e.Callee.Params) {
												mark(e.Callee.Params[i])
											}
										}
									}
								}
							}
						}
					}
				}
			}
		}
	}
	return flows
}

type muxSite struct {
	fn     *ssa.Function
	ins    ssa.CallInstruction
	method string
	recv   ssa.Value
}

func (c *Ctx) muxRouterCalls() []muxSite {
	g := c.CG()
	var out []muxSite
	for _, fn := range moduleFuncs(g) {
		if isTestFunc(c, fn) || !g.live[fn] {
			continue
		}
		for _, b := range fn.Blocks {
			for _, ins := range b.Instrs {
				ci, ok := ins.(ssa.CallInstruction)
				if !ok {
					continue
				}
				sc := ci.Common().StaticCallee()
				if sc == nil || sc.Pkg == nil || sc.Pkg.Pkg.Path() != pkgMux || sc.Signature.Recv() == nil {
					continue
				}
				if !isMuxRouterPtr(sc.Signature.Recv().Type()) || len(ci.Common().Args) == 0 {
					continue
				}
				out = append(out, muxSite{fn: fn, ins: ci, method: sc.Name(), recv: ci.Common().Args[0]})
			}
		}
	}
	sort.Slice(out, func(i, j int) bool { return out[i].ins.Pos() < out[j].ins.Pos() })
	return out
}

// authUseGuard inspects the syntax of the function containing a Use(BasicAuthMiddleware(U,P)) call:
// the call must be guarded by exactly `U != "" && P != ""` over the same two expressions.
func (c *Ctx) authUseGuard(fn *ssa.Function, pos token.Pos) (ok bool, detail string) {
	fi := c.funcInfoOf(fn)
	if fi == nil {
		return false, "source of the function not found"
	}
	info := fi.Pkg.TypesInfo
	var useCall, authCall *ast.CallExpr
	ast.Inspect(fi.Decl.Body, func(n ast.Node) bool {
		call, ok := n.(*ast.CallExpr)
		if !ok || len(call.Args) < 1 {
			return true
		}
		if call.Pos() <= pos && pos < call.End() {
			for _, arg := range call.Args {
				if inner, ok := ast.Unparen(arg).(*ast.CallExpr); ok {
					if o := calleeObj(info, inner); o != nil && objPkgPath(o) == pkgMiddleware && o.Name() == "BasicAuthMiddleware" {
						useCall, authCall = call, inner
					}
				}
			}
		}
		return true
	})
	if useCall == nil || len(authCall.Args) != 2 {
		return false, "Use(BasicAuthMiddleware(user, pass)) call shape not recognised"
	}
	u, p := c.normText(authCall.Args[0]), c.normText(authCall.Args[1])
	// innermost enclosing if
	var guard *ast.IfStmt
	ast.Inspect(fi.Decl.Body, func(n ast.Node) bool {
		if is, ok := n.(*ast.IfStmt); ok && is.Body.Pos() <= useCall.Pos() && useCall.End() <= is.Body.End() {
			guard = is
		}
		return true
	})
	if guard == nil {
		return false, "authentication middleware is installed unconditionally (the property asks for: when both are configured) — or the guard was moved out of this function"
	}
	atoms := atomsTrueOn(guard.Cond)
	want := map[string]bool{u + ` != ""`: false, p + ` != ""`: false}
	for _, a := range atoms {
		t := c.normText(a)
		if _, ok := want[t]; ok {
			want[t] = true
		} else {
			return false, fmt.Sprintf("guard has an extra condition %q: a configuration with both credentials set can leave the routes open", t)
		}
	}
	if len(atoms) != 2 {
		return false, fmt.Sprintf("guard %q is not the conjunction of the two `!= \"\"` tests", c.normText(guard.Cond))
	}
	for k, v := range want {
		if !v {
			return false, "guard does not test " + k
		}
	}
	// the guard itself must not be nested in another condition of this function, except an early-return mode flag
	return true, fmt.Sprintf("guard: %s", c.normText(guard.Cond))
}

// firstUse returns the first (*mux.Router).Use call on the router in source order of fn, descending into
// module callees that receive the router.
func (c *Ctx) firstUse(fn *ssa.Function, fl *routerFlow, depth int, seen map[*ssa.Function]bool) ssa.CallInstruction {
	if fn == nil || depth > 6 || seen[fn] {
		return nil
	}
	seen[fn] = true
	var events []ssa.CallInstruction
	for _, b := range fn.Blocks {
		for _, ins := range b.Instrs {
			ci, ok := ins.(ssa.CallInstruction)
			if !ok {
				continue
			}
			for _, a := range ci.Common().Args {
				if fl.derived[a] {
					events = append(events, ci)
					break
				}
			}
		}
	}
	sort.Slice(events, func(i, j int) bool { return events[i].Pos() < events[j].Pos() })
	for _, ev := range events {
		sc := ev.Common().StaticCallee()
		if sc == nil {
			continue
		}
		if sc.Pkg != nil && sc.Pkg.Pkg.Path() == pkgMux && sc.Name() == "Use" {
			return ev
		}
		if len(sc.Blocks) > 0 {
			if r := c.firstUse(sc, fl, depth+1, seen); r != nil {
				return r
			}
		}
	}
	return nil
}

func (c *Ctx) funcInfoOf(fn *ssa.Function) *FuncInfo {
	for fn.Parent() != nil {
		fn = fn.Parent()
	}
	if fn.Pkg == nil {
		return nil
	}
	p := c.ByPath[fn.Pkg.Pkg.Path()]
	if p == nil {
		return nil
	}
	obj, _ := fn.Object().(*types.Func)
	if obj == nil {
		return nil
	}
	if fd := c.declOf(p, obj); fd != nil {
		return &FuncInfo{Pkg: p, Decl: fd}
	}
	return nil
}

var routeMethods = map[string]bool{"HandleFunc": true, "Handle": true, "PathPrefix": true, "NewRoute": true, "Path": true, "Methods": true, "Host": true, "Headers": true, "Queries": true, "Schemes": true, "Name": true, "MatcherFunc": true}

var ruleK1 = &Rule{
	ID:    "K1",
	Floor: 2,
	Doc: "auth first: for every mux.NewRouter() in live code, the router-wide middlewares installed on it (Use calls on values the router flows to) are installed in one function, the first of them in source order is BasicAuthMiddleware(user, pass), " +
		"guarded by exactly `user != \"\" && pass != \"\"` over the same two expressions that are passed in; the other Use calls follow it",
	Run: func(c *Ctx) []Obl {
		var obls []Obl
		flows := c.routerFlows()
		sites := c.muxRouterCalls()
		for _, fl := range flows {
			rootKey := ssaName(fl.root.Parent()) + " mux.NewRouter()"
			var uses []muxSite
			for _, s := range sites {
				if s.method == "Use" && fl.derived[s.recv] {
					uses = append(uses, s)
				}
			}
			if len(uses) == 0 {
				obls = append(obls, Obl{Key: rootKey + " auth middleware first", Pos: c.pos(fl.root.Pos()), Status: Violation, Msg: "no router-wide middleware is installed on this router: its routes are served without authentication"})
				continue
			}
			first := c.firstUse(fl.root.Parent(), fl, 0, map[*ssa.Function]bool{})
			if first == nil {
				obls = append(obls, Obl{Key: rootKey + " auth middleware first", Pos: c.pos(uses[0].ins.Pos()), Status: Undecided, Msg: "the first Use call in execution order could not be determined"})
				continue
			}
			fn0 := first.Parent()
			uses = append([]muxSite{{fn: fn0, ins: first, method: "Use"}}, uses...)
			ok, detail := c.authInstallSSA(first)
			st := OK
			if !ok {
				st = Violation
				detail = "the first router-wide middleware is not the correctly guarded BasicAuthMiddleware: " + detail
			}
			obls = append(obls, Obl{Key: rootKey + " auth middleware first", Pos: c.pos(uses[0].ins.Pos()), Status: st, Msg: detail,
				Path: []string{fmt.Sprintf("%d Use calls in %s", len(uses), ssaName(fn0))}})
		}
		return obls
	},
}

var ruleK2 = &Rule{
	ID:    "K2",
	Floor: 30, // route tables walked by a loop register many routes from one call site
	Doc: "every route lands on an authenticated router: each HandleFunc/Handle/PathPrefix/… call on a *mux.Router in live code has a receiver that flows (phis, locals, parameters, closure bindings) from a mux.NewRouter() checked by K1; " +
		"every listener (http.Serve/ListenAndServe/…, http.Server{Handler}) serves such a router; no handler is registered on net/http's default mux except that router itself",
	Run: func(c *Ctx) []Obl {
		var obls []Obl
		flows := c.routerFlows()
		derived := func(v ssa.Value) bool {
			for _, fl := range flows {
				if fl.derived[v] {
					return true
				}
			}
			return false
		}
		nth := map[string]int{}
		for _, s := range c.muxRouterCalls() {
			if !routeMethods[s.method] {
				continue
			}
			path := ""
			if len(s.ins.Common().Args) > 1 {
				if k, ok := s.ins.Common().Args[1].(*ssa.Const); ok && k.Value != nil {
					path = strings.Trim(k.Value.ExactString(), `"`)
				}
			}
			key := fmt.Sprintf("%s %s(%s)", ssaName(s.fn), s.method, path)
			nth[key]++
			if nth[key] > 1 {
				key = fmt.Sprintf("%s #%d", key, nth[key])
			}
			if derived(s.recv) {
				obls = append(obls, Obl{Key: key, Pos: c.pos(s.ins.Pos()), Status: OK})
			} else {
				obls = append(obls, Obl{Key: key, Pos: c.pos(s.ins.Pos()), Status: Violation,
					Msg: "route is registered on a router that does not flow from an authenticated mux.NewRouter(): if that router is served, the route bypasses basic auth"})
			}
		}
		// listeners and the default mux
		g := c.CG()
		for _, fn := range moduleFuncs(g) {
			if isTestFunc(c, fn) || !g.live[fn] {
				continue
			}
			for _, b := range fn.Blocks {
				for _, ins := range b.Instrs {
					ci, ok := ins.(ssa.CallInstruction)
					if !ok {
						continue
					}
					sc := ci.Common().StaticCallee()
					if sc == nil || sc.Pkg == nil || sc.Pkg.Pkg.Path() != "net/http" {
						continue
					}
					args := ci.Common().Args
					var handler ssa.Value
					switch sc.Name() {
					case "Serve", "ServeTLS", "ListenAndServe", "ListenAndServeTLS":
						if sc.Signature.Recv() != nil {
							continue // (*http.Server) methods: covered through the Handler field below
						}
						handler = args[1]
						if sc.Name() == "ListenAndServeTLS" || sc.Name() == "ServeTLS" {
							handler = args[1]
						}
					case "Handle":
						if sc.Signature.Recv() != nil {
							continue
						}
						handler = args[1]
					case "HandleFunc":
						if sc.Signature.Recv() != nil {
							continue
						}
						obls = append(obls, Obl{Key: ssaName(fn) + " http.HandleFunc", Pos: c.pos(ins.Pos()), Status: Violation, Msg: "handler registered on net/http's default mux outside the authenticated router"})
						continue
					default:
						continue
					}
					key := fmt.Sprintf("%s http.%s handler", ssaName(fn), sc.Name())
					if derived(handler) {
						obls = append(obls, Obl{Key: key, Pos: c.pos(ins.Pos()), Status: OK, Msg: "serves the authenticated router"})
					} else {
						obls = append(obls, Obl{Key: key, Pos: c.pos(ins.Pos()), Status: Violation, Msg: "serves a handler that is not the authenticated router (nil = the default mux)"})
					}
				}
			}
		}
		return obls
	},
}

var ruleK3old = &Rule{
	ID:    "K3old",
	Floor: 4,
	Doc: "no pass-through without both equalities: in the handler returned by BasicAuthMiddleware(login, pass) there is exactly one next.ServeHTTP call; it is dominated by the false edge of a condition whose disjuncts include `<pair>[0] != login` and `<pair>[1] != pass` " +
		"(the constructor's own two parameters, exact string inequality) as well as by the rejections of an empty header and of a non-Basic scheme; every other exit of the handler is preceded by http.Error with 401 or 400",
	Run: func(c *Ctx) []Obl {
		p, fd := c.FuncDecl("reader/utils/middleware", "BasicAuthMiddleware")
		if fd == nil {
			return []Obl{{Key: "reader/utils/middleware.BasicAuthMiddleware", Pos: "-", Status: Undecided, Msg: "anchor not found"}}
		}
		info := p.TypesInfo
		fi := &FuncInfo{Pkg: p, Decl: fd}
		name := fi.Name()
		var params []types.Object
		for _, f := range fd.Type.Params.List {
			for _, n := range f.Names {
				params = append(params, info.Defs[n])
			}
		}
		// innermost function literal taking (ResponseWriter, *Request)
		var handler *ast.FuncLit
		ast.Inspect(fd.Body, func(n ast.Node) bool {
			if fl, ok := n.(*ast.FuncLit); ok && fl.Type.Params != nil && fl.Type.Params.NumFields() == 2 {
				handler = fl
			}
			return true
		})
		if handler == nil || len(params) != 2 {
			return []Obl{{Key: name + " handler literal", Pos: c.pos(fd.Pos()), Status: Undecided, Msg: "handler closure or the two credential parameters not recognised"}}
		}
		g := c.cfgOf(fi, handler.Body)
		var serves []*ast.CallExpr
		ast.Inspect(handler.Body, func(n ast.Node) bool {
			if call, ok := n.(*ast.CallExpr); ok {
				if se, ok := ast.Unparen(call.Fun).(*ast.SelectorExpr); ok && se.Sel.Name == "ServeHTTP" {
					serves = append(serves, call)
				}
			}
			return true
		})
		var obls []Obl
		add := func(k string, ok bool, pos token.Pos, msg string) {
			st := OK
			if !ok {
				st = Violation
			} else {
				msg = ""
			}
			obls = append(obls, Obl{Key: name + " " + k, Pos: c.pos(pos), Status: st, Msg: msg})
		}
		add("exactly one pass-through", len(serves) == 1, handler.Pos(), fmt.Sprintf("%d next.ServeHTTP calls in the handler", len(serves)))
		if len(serves) != 1 {
			return obls
		}
		sb, _ := g.BlockOf(serves[0])
		// which rejecting atoms dominate the pass-through?
		type need struct {
			key  string
			pred func(a ast.Expr) bool
			msg  string
		}
		isParam := func(e ast.Expr, i int) bool {
			id, ok := ast.Unparen(e).(*ast.Ident)
			return ok && info.Uses[id] == params[i]
		}
		idxOf := func(e ast.Expr) (string, string, bool) {
			ix, ok := ast.Unparen(e).(*ast.IndexExpr)
			if !ok {
				return "", "", false
			}
			tv, ok := info.Types[ix.Index]
			if !ok || tv.Value == nil {
				return "", "", false
			}
			return c.normText(ix.X), tv.Value.ExactString(), true
		}
		var pairVar string
		cmpParam := func(i int, want string) func(a ast.Expr) bool {
			return func(a ast.Expr) bool {
				be, ok := ast.Unparen(a).(*ast.BinaryExpr)
				if !ok || be.Op != token.NEQ {
					return false
				}
				for _, sides := range [][2]ast.Expr{{be.X, be.Y}, {be.Y, be.X}} {
					if isParam(sides[1], i) {
						if v, ix, ok := idxOf(sides[0]); ok && ix == want {
							if pairVar == "" || pairVar == v {
								pairVar = v
								return true
							}
						}
					}
				}
				return false
			}
		}
		needs := []need{
			{"user equality dominates the pass-through", cmpParam(0, "0"), "the decoded user must be compared (!=) with the configured login on the only way to next.ServeHTTP"},
			{"password equality dominates the pass-through", cmpParam(1, "1"), "the decoded password must be compared (!=) with the configured password on the only way to next.ServeHTTP"},
			{"empty header rejected", func(a ast.Expr) bool {
				be, ok := ast.Unparen(a).(*ast.BinaryExpr)
				if !ok || be.Op != token.EQL {
					return false
				}
				s, ok := constString(info, be.Y)
				return ok && s == ""
			}, "a request without Authorization header must not reach the handler"},
			{"scheme checked", func(a ast.Expr) bool {
				be, ok := ast.Unparen(a).(*ast.BinaryExpr)
				if !ok || be.Op != token.NEQ {
					return false
				}
				s, ok := constString(info, be.Y)
				return ok && s == "Basic"
			}, "only the Basic scheme may pass"},
		}
		for _, nd := range needs {
			found := false
			for _, b := range g.g.Blocks {
				cond, t, e := condEdges(b)
				if cond == nil || sb == nil {
					continue
				}
				for _, a := range atomsFalseOn(cond) {
					if nd.pred(a) && g.failureLeaves(t, e) && g.Dominates(e, sb) {
						found = true
					}
				}
			}
			add(nd.key, found, serves[0].Pos(), nd.msg)
		}
		// every other exit writes an error status
		badExit := 0
		nExit := 0
		ast.Inspect(handler.Body, func(n ast.Node) bool {
			if fl, ok := n.(*ast.FuncLit); ok && fl != handler {
				return false
			}
			r, ok := n.(*ast.ReturnStmt)
			if !ok {
				return true
			}
			nExit++
			b, idx := g.BlockOf(r)
			okErr := false
			if b != nil {
				for _, bn := range b.Nodes[:idx] {
					ast.Inspect(bn, func(m ast.Node) bool {
						if call, ok := m.(*ast.CallExpr); ok {
							if o := calleeObj(info, call); o != nil && objPkgPath(o) == "net/http" && o.Name() == "Error" && len(call.Args) == 3 {
								if tv, ok := info.Types[call.Args[2]]; ok && tv.Value != nil && (tv.Value.ExactString() == "401" || tv.Value.ExactString() == "400") {
									okErr = true
								}
							}
						}
						return true
					})
				}
			}
			if !okErr {
				badExit++
			}
			return true
		})
		add("every rejecting exit answers 401/400", badExit == 0 && nExit >= 3, handler.Pos(), fmt.Sprintf("%d of %d early exits do not write 401/400 before returning", badExit, nExit))
		return obls
	},
}

func init() { register(ruleK1, ruleK2) }

var _ = ruleK3old

// authInstallSSA decides, on SSA, that the first middleware installed by the Use call is BasicAuthMiddleware(u, p) under exactly the
// condition u != "" && p != "". The middleware may be passed directly, or be the first element of a chain slice that a loop
// installs (`for _, mw := range chain { router.Use(mw) }`), the chain being built by appends in this function or in a helper.
func (c *Ctx) authInstallSSA(use ssa.CallInstruction) (bool, string) {
	args := use.Common().Args
	if len(args) < 2 {
		return false, "Use call shape not recognised"
	}
	m := args[len(args)-1]
	// variadic Use(mw...) packs the middlewares
	if el := variadicElems(m); len(el) > 0 {
		m = el[0]
	}
	isAuthCall := func(v ssa.Value) *ssa.Call {
		call, ok := v.(*ssa.Call)
		if !ok {
			if ct, ok2 := v.(*ssa.ChangeType); ok2 {
				call, ok = ct.X.(*ssa.Call)
			}
		}
		if !ok || call == nil {
			return nil
		}
		if sc := call.Common().StaticCallee(); sc != nil && sc.Name() == "BasicAuthMiddleware" && sc.Pkg != nil && sc.Pkg.Pkg.Path() == pkgMiddleware {
			return call
		}
		return nil
	}
	if a := isAuthCall(m); a != nil {
		return c.authUseGuard(use.Parent(), use.Pos())
	}
	// element of a chain (possibly converted to the router's middleware type)
	if ct, ok := m.(*ssa.ChangeType); ok {
		m = ct.X
	}
	var sl ssa.Value
	if u, ok := m.(*ssa.UnOp); ok && u.Op == token.MUL {
		if ia, ok := u.X.(*ssa.IndexAddr); ok {
			sl = ia.X
		}
	}
	if ix, ok := m.(*ssa.Index); ok {
		sl = ix.X
	}
	if sl == nil {
		// Use(chain...) with the whole chain spread
		if _, isSlice := m.Type().Underlying().(*types.Slice); isSlice {
			sl = m
		}
	}
	if sl == nil {
		return false, "the first middleware installed is neither BasicAuthMiddleware(user, pass) nor the first element of a middleware chain"
	}
	// follow into the helper that builds the chain
	fam := sliceFamily(sl)
	for v := range fam {
		if call, ok := v.(*ssa.Call); ok {
			if sc := call.Common().StaticCallee(); sc != nil && isModuleFn(sc) {
				for _, r := range returnsOf(sc) {
					if len(r.Results) > 0 {
						for k := range sliceFamily(r.Results[0]) {
							fam[k] = true
						}
					}
				}
			}
		}
	}
	type app struct {
		call *ssa.Call
		elem ssa.Value
	}
	var apps []app
	for v := range fam {
		call, ok := v.(*ssa.Call)
		if !ok {
			continue
		}
		if bi, ok := call.Common().Value.(*ssa.Builtin); ok && bi.Name() == "append" && len(call.Common().Args) == 2 {
			for _, e := range variadicElems(call.Common().Args[1]) {
				apps = append(apps, app{call, e})
			}
		}
	}
	if len(apps) == 0 {
		return false, "the middleware chain is not built by appends that can be followed"
	}
	sort.Slice(apps, func(i, j int) bool { return apps[i].call.Pos() < apps[j].call.Pos() })
	first := apps[0]
	for _, ap := range apps[1:] {
		if ap.call.Parent() != first.call.Parent() {
			return false, "the middleware chain is assembled in more than one function"
		}
	}
	a := isAuthCall(first.elem)
	if a == nil {
		return false, "the first element appended to the middleware chain is not BasicAuthMiddleware(user, pass)"
	}
	return c.authUseGuard(first.call.Parent(), first.call.Pos())
}

// guardedByBothSSA: the instruction is dominated by exactly the two tests u != "" and p != "" (u, p the arguments of the
// BasicAuthMiddleware call) within its function.
func (c *Ctx) guardedByBothSSA(at ssa.Instruction, auth *ssa.Call) (bool, string) {
	u, p := auth.Common().Args[0], auth.Common().Args[1]
	fn := at.Parent()
	gotU, gotP := false, false
	isEmpty := func(v ssa.Value) bool { s, ok := constStr(v); return ok && s == "" }
	for _, gb := range fn.Blocks {
		if len(gb.Instrs) == 0 {
			continue
		}
		iff, ok := gb.Instrs[len(gb.Instrs)-1].(*ssa.If)
		if !ok {
			continue
		}
		for i, succ := range gb.Succs {
			if len(succ.Preds) != 1 || !(succ == at.Block() || succ.Dominates(at.Block())) {
				continue
			}
			truth := i == 0
			cmp, ok := iff.Cond.(*ssa.BinOp)
			okTest := false
			if ok && ((cmp.Op == token.NEQ && truth) || (cmp.Op == token.EQL && !truth)) {
				var x ssa.Value
				if isEmpty(cmp.Y) {
					x = cmp.X
				} else if isEmpty(cmp.X) {
					x = cmp.Y
				}
				if x != nil {
					if sameExpr(x, u, 0) {
						gotU, okTest = true, true
					}
					if sameExpr(x, p, 0) {
						gotP, okTest = true, true
					}
				}
			}
			if !okTest {
				return false, fmt.Sprintf("the installation of the auth middleware depends on an extra condition (%s): a configuration with both credentials set can leave the routes open", c.pos(iff.Pos()))
			}
		}
	}
	if !gotU || !gotP {
		return false, "the auth middleware is not installed under exactly `user != \"\" && pass != \"\"` over the two values passed to it (a missing test installs it with an empty credential or leaves the routes open)"
	}
	return true, "guard: both credentials non-empty"
}
