package main

// Rules for schema initialisation (C18) and retention (C19): A5, A6, C5, C6, J1, J2.

import (
	"fmt"
	"go/ast"
	"go/token"
	"go/types"
	"golang.org/x/tools/go/ssa"
	"path/filepath"
	"regexp"
	"sort"
	"strings"
)

const pkgCtrlMaint = "ctrl/qryn/maintenance"

// constant (or fmt.Sprintf-format) text of a query argument
func (c *Ctx) queryText(fi *FuncInfo, e ast.Expr) string {
	info := fi.Pkg.TypesInfo
	if s, ok := constString(info, e); ok {
		return s
	}
	if call, ok := ast.Unparen(e).(*ast.CallExpr); ok {
		if o := calleeObj(info, call); o != nil && objPkgPath(o) == "fmt" && o.Name() == "Sprintf" && len(call.Args) > 0 {
			if s, ok := constString(info, call.Args[0]); ok {
				return s
			}
		}
	}
	if id, ok := ast.Unparen(e).(*ast.Ident); ok {
		// local assigned once from a Sprintf / constant right before
		obj := info.Uses[id]
		var last string
		ast.Inspect(fi.Decl, func(n ast.Node) bool {
			if as, ok := n.(*ast.AssignStmt); ok && len(as.Lhs) == len(as.Rhs) && as.End() < e.Pos() {
				for i, lh := range as.Lhs {
					if lid, ok := lh.(*ast.Ident); ok && (info.Defs[lid] == obj || info.Uses[lid] == obj) {
						if t := c.queryText(fi, as.Rhs[i]); t != "" {
							last = t
						}
					}
				}
			}
			return true
		})
		return last
	}
	return ""
}

// dbCalls lists calls of methods named Exec/Query/QueryRow/Scan/Next whose receiver type comes from the ClickHouse driver packages.
type dbCall struct {
	call   *ast.CallExpr
	method string
	query  string
}

func isDriverType(t types.Type) bool {
	n := namedOf(t)
	if n == nil || n.Obj().Pkg() == nil {
		return false
	}
	p := n.Obj().Pkg().Path()
	return strings.Contains(p, "clickhouse-go") || p == "database/sql"
}

func (c *Ctx) dbCalls(fi *FuncInfo) []dbCall {
	info := fi.Pkg.TypesInfo
	var out []dbCall
	ast.Inspect(fi.Decl.Body, func(n ast.Node) bool {
		call, ok := n.(*ast.CallExpr)
		if !ok {
			return true
		}
		se, ok := ast.Unparen(call.Fun).(*ast.SelectorExpr)
		if !ok {
			return true
		}
		sel, ok := info.Selections[se]
		if !ok || !isDriverType(sel.Recv()) {
			return true
		}
		d := dbCall{call: call, method: se.Sel.Name}
		switch d.method {
		case "Exec", "Query", "QueryRow":
			if len(call.Args) >= 2 {
				d.query = c.queryText(fi, call.Args[1])
			}
		}
		out = append(out, d)
		return true
	})
	return out
}

// ---------------------------------------------------------------------------------
// A5 version after script

var ruleA5old = &Rule{
	ID:    "A5old",
	Floor: 6,
	Doc: "version after script: in the migration runner (the function of ctrl/qryn/maintenance executing `INSERT INTO ver`), the version write is inside the loop over the script's statements, " +
		"dominated by the success edge of the error check of `exec(scripts[i])` of the same iteration; it records the runner's stream id parameter and i+1; the loop is `for i := <version read from the ver table for that stream>; i < len(scripts); i++` with no other write to i; " +
		"the error of the version write, of the version query and of its Scan are each checked and lead out of the function",
	Run: func(c *Ctx) []Obl {
		var obls []Obl
		p := c.Pkg(pkgCtrlMaint)
		if p == nil {
			return []Obl{{Key: pkgCtrlMaint, Pos: "-", Status: Undecided, Msg: "package not loaded"}}
		}
		for _, fi := range c.Funcs(c.PkgsUnder(pkgCtrlMaint)) {
			info := fi.Pkg.TypesInfo
			var verWrite, verQuery *dbCall
			calls := c.dbCalls(fi)
			for i := range calls {
				d := &calls[i]
				q := strings.ToUpper(strings.Join(strings.Fields(d.query), " "))
				if d.method == "Exec" && strings.HasPrefix(q, "INSERT INTO VER") {
					verWrite = d
				}
				if d.method == "Query" && strings.Contains(q, "MAX(VER)") {
					verQuery = d
				}
			}
			if verWrite == nil {
				continue
			}
			name := fi.Name()
			g := c.cfgOf(fi, fi.Decl.Body)
			add := func(k string, ok bool, pos token.Pos, msg string) {
				st := OK
				if !ok {
					st = Violation
				} else {
					msg = ""
				}
				obls = append(obls, Obl{Key: name + " " + k, Pos: c.pos(pos), Status: st, Msg: msg})
			}
			loopStmt := enclosingLoop(fi.Decl.Body, verWrite.call)
			if loopStmt == nil {
				add("version write inside the statement loop", false, verWrite.call.Pos(), "the version INSERT is not inside the loop over the statements: a version could be recorded without its statement having run in this iteration")
				continue
			}
			lin := &linEval{info: info, body: fi.Decl.Body}
			// Two loop shapes are understood. Index loop: `for i := START; i < len(S); i++ { exec(S[i]) }` — executed index i.
			// Range loop: `for n, x := range S[START:] { exec(x) }` — executed index START + n.
			var execCall *ast.CallExpr
			var idx linForm        // absolute index of the statement executed in this iteration
			var startExpr ast.Expr // START
			var loopBody *ast.BlockStmt
			coverOK, coverMsg := false, ""
			var counter types.Object
			switch loop := loopStmt.(type) {
			case *ast.ForStmt:
				loopBody = loop.Body
				if as, ok := loop.Init.(*ast.AssignStmt); ok && len(as.Lhs) == 1 && len(as.Rhs) == 1 {
					if id, ok := as.Lhs[0].(*ast.Ident); ok {
						counter = info.Defs[id]
						startExpr = as.Rhs[0]
					}
				}
				if counter == nil {
					add("loop shape", false, loop.Pos(), "loop variable not recognised")
					continue
				}
				var scriptsObj types.Object
				ast.Inspect(loop.Body, func(n ast.Node) bool {
					call, ok := n.(*ast.CallExpr)
					if !ok || len(call.Args) != 1 || execCall != nil {
						return true
					}
					ix, ok := ast.Unparen(call.Args[0]).(*ast.IndexExpr)
					if !ok {
						return true
					}
					if sig, ok := info.Types[call.Fun].Type.(*types.Signature); ok && sig.Results().Len() == 1 {
						if f, ok := lin.eval(ix.Index, 0); ok {
							execCall = call
							idx = f
							if sid, ok := ast.Unparen(ix.X).(*ast.Ident); ok {
								scriptsObj = info.Uses[sid]
							}
						}
					}
					return true
				})
				okCond := false
				if be, ok := loop.Cond.(*ast.BinaryExpr); ok && be.Op == token.LSS && usesObj(info, be.X, counter) {
					ast.Inspect(be.Y, func(n ast.Node) bool {
						if call, ok := n.(*ast.CallExpr); ok {
							if id, ok := call.Fun.(*ast.Ident); ok && id.Name == "len" && len(call.Args) == 1 {
								if sid, ok := ast.Unparen(call.Args[0]).(*ast.Ident); ok && scriptsObj != nil && info.Uses[sid] == scriptsObj {
									okCond = true
								}
							}
						}
						return true
					})
				}
				okPost := false
				if inc, ok := loop.Post.(*ast.IncDecStmt); ok && inc.Tok == token.INC && usesObj(info, inc.X, counter) {
					okPost = true
				}
				coverOK = okCond && okPost && !writesObj(info, loop.Body, counter)
				coverMsg = "loop must be `i < len(scripts); i++` with no other write to i (no statement skipped, none run twice in one pass)"
			case *ast.RangeStmt:
				loopBody = loop.Body
				kid, _ := loop.Key.(*ast.Ident)
				vid, _ := loop.Value.(*ast.Ident)
				if kid != nil {
					counter = info.Defs[kid]
				}
				var valObj types.Object
				if vid != nil {
					valObj = info.Defs[vid]
				}
				// ranged expression: S or S[START:]
				rx := ast.Unparen(loop.X)
				base := linForm{terms: map[types.Object]int64{}}
				open := true
				if se, ok := rx.(*ast.SliceExpr); ok {
					if se.High != nil || se.Max != nil {
						open = false
					}
					if se.Low != nil {
						startExpr = se.Low
						if f, ok := lin.eval(se.Low, 0); ok {
							base = f
						} else {
							open = false
						}
					}
				}
				ast.Inspect(loop.Body, func(n ast.Node) bool {
					call, ok := n.(*ast.CallExpr)
					if !ok || len(call.Args) != 1 || execCall != nil {
						return true
					}
					if id, ok := ast.Unparen(call.Args[0]).(*ast.Ident); ok && valObj != nil && info.Uses[id] == valObj {
						if sig, ok := info.Types[call.Fun].Type.(*types.Signature); ok && sig.Results().Len() == 1 {
							execCall = call
						}
					}
					return true
				})
				if counter != nil {
					idx = base.add(linForm{terms: map[types.Object]int64{counter: 1}}, 1)
				}
				coverOK = open && (counter == nil || !writesObj(info, loop.Body, counter))
				coverMsg = "the range must run to the end of the script list (`range scripts[start:]`) with no write to its index"
			}
			if execCall == nil {
				add("script executed before its version", false, loopStmt.Pos(), "no call executing this iteration's script (`exec(scripts[i])` / `exec(script)`) found in the loop that writes the version")
				continue
			}
			_ = loopBody
			succ := g.SuccessBlock(execCall)
			wb, _ := g.BlockOf(verWrite.call)
			add("script executed before its version", succ != nil && wb != nil && g.Dominates(succ, wb), verWrite.call.Pos(),
				"the version INSERT must be reachable only through the `err == nil` edge of the script execution; otherwise a version is recorded for a statement that failed or did not run")
			// arguments: k (parameter) and (absolute index of the executed statement) + 1
			okArgs, argMsg := false, "the version INSERT must record the runner's stream id parameter and the index of the statement just executed plus one"
			kName := ""
			if len(verWrite.call.Args) == 4 {
				if id, ok := ast.Unparen(verWrite.call.Args[2]).(*ast.Ident); ok {
					if v, ok := info.Uses[id].(*types.Var); ok && isParam(fi, info, v) {
						kName = id.Name
						if f, ok := lin.eval(verWrite.call.Args[3], 0); ok && idx.terms != nil {
							want := idx.add(linForm{terms: map[types.Object]int64{}, k: 1}, 1)
							if f.equal(want) {
								okArgs = true
							} else {
								argMsg = fmt.Sprintf("the version recorded is %s but the statement just executed has absolute index %s: the row must be that index plus one — after a resumed run the recorded version would not be the number of statements applied", f.String(), idx.String())
							}
						}
					}
				}
			}
			add("version row is (stream id, i+1)", okArgs, verWrite.call.Pos(), argMsg)
			add("loop covers every statement from the recorded version", coverOK, loopStmt.Pos(), coverMsg)
			// start from the scanned version of the same stream
			okInit := false
			if verQuery != nil && startExpr != nil {
				var verObj types.Object
				ast.Inspect(startExpr, func(n ast.Node) bool {
					if id, ok := n.(*ast.Ident); ok && verObj == nil {
						if v, ok := info.Uses[id].(*types.Var); ok && !v.IsField() {
							verObj = v
						}
					}
					return true
				})
				if f, ok := lin.eval(startExpr, 0); ok && verObj != nil && len(f.terms) == 1 && f.terms[verObj] == 1 && f.k == 0 {
					scanned := false
					for _, d := range calls {
						if d.method == "Scan" && len(d.call.Args) == 1 {
							if ue, ok := d.call.Args[0].(*ast.UnaryExpr); ok && ue.Op == token.AND {
								if vid, ok := ue.X.(*ast.Ident); ok && info.Uses[vid] == verObj {
									scanned = true
								}
							}
						}
					}
					sameK := false
					if n := len(verQuery.call.Args); n >= 3 {
						if kid, ok := ast.Unparen(verQuery.call.Args[n-1]).(*ast.Ident); ok && kid.Name == kName {
							sameK = true
						}
					}
					okInit = scanned && sameK
				}
			}
			add("loop starts at the version recorded for this stream", okInit, loopStmt.Pos(),
				"the loop must start from the value scanned from `SELECT max(ver) … WHERE k = <this stream>`; otherwise completed statements are re-run or pending ones skipped")
			// error discipline of the three DB calls
			checked := func(call *ast.CallExpr) bool {
				return g.SuccessBlock(call) != nil || returnedDirectly(fi.Decl.Body, call)
			}
			add("version write error checked", checked(verWrite.call), verWrite.call.Pos(), "a failed version INSERT must abort the run")
			if verQuery != nil {
				add("version query error checked", checked(verQuery.call), verQuery.call.Pos(), "a failed version query must abort the run (ver would silently be 0 and every statement re-run)")
			}
		}
		return obls
	},
}

func isParam(fi *FuncInfo, info *types.Info, v *types.Var) bool {
	if fi.Decl.Type.Params == nil {
		return false
	}
	for _, f := range fi.Decl.Type.Params.List {
		for _, n := range f.Names {
			if info.Defs[n] == v {
				return true
			}
		}
	}
	return false
}

// ---------------------------------------------------------------------------------
// J1 no dropped DB error in ctrl

var ruleJ1 = &Rule{
	ID:    "J1",
	Floor: 16,
	Doc: "error discipline in ctrl/...: every Exec/Query/Scan on a ClickHouse connection or its rows has its error tested with the failure edge leaving the function, or returned directly / by the next return; " +
		"accepted idioms (enumerated from the package): `err = f(); if err != nil { return … }`, `return f()`, `x, err = f(); return x, err`, and best-effort cleanup in a `defer`",
	Run: func(c *Ctx) []Obl {
		var obls []Obl
		for _, fi := range c.Funcs(c.PkgsUnder("ctrl")) {
			info := fi.Pkg.TypesInfo
			calls := c.dbCalls(fi)
			if len(calls) == 0 || !c.LiveFunc(fi) {
				continue
			}
			g := c.cfgOf(fi, fi.Decl.Body)
			nth := map[string]int{}
			for _, d := range calls {
				switch d.method {
				case "Exec", "Query", "Scan":
				default:
					continue
				}
				sig, _ := info.Types[d.call.Fun].Type.(*types.Signature)
				if sig == nil || sig.Results().Len() == 0 {
					continue
				}
				q := strings.Join(strings.Fields(d.query), " ")
				if len(q) > 40 {
					q = q[:40]
				}
				k := fmt.Sprintf("%s %s(%s)", fi.Name(), d.method, q)
				nth[k]++
				if nth[k] > 1 {
					k = fmt.Sprintf("%s #%d", k, nth[k])
				}
				// inside a function literal (getDBExec closure)? analyse the literal's body instead
				body := fi.Decl.Body
				gg := g
				ast.Inspect(fi.Decl.Body, func(n ast.Node) bool {
					if fl, ok := n.(*ast.FuncLit); ok && fl.Body.Pos() <= d.call.Pos() && d.call.End() <= fl.Body.End() {
						body = fl.Body
					}
					return true
				})
				if body != fi.Decl.Body {
					gg = c.cfgOf(fi, body)
				}
				status, msg := Violation, "the error of this database call is dropped"
				switch {
				case isDeferred(body, d.call):
					status, msg = OK, "best-effort cleanup in defer"
				case gg.SuccessBlock(d.call) != nil:
					status, msg = OK, "checked"
				case returnedDirectly(body, d.call):
					status, msg = OK, "returned"
				case errReturnedNext(gg, info, d.call):
					status, msg = OK, "returned by the following return"
				case c.errFlowsOut(fi, d.call):
					status, msg = OK, "on failure every path to a return yields the error"
				}
				obls = append(obls, Obl{Key: k, Pos: c.pos(d.call.Pos()), Status: status, Msg: msg})
			}
		}
		return obls
	},
}

func isDeferred(body *ast.BlockStmt, call *ast.CallExpr) bool {
	hit := false
	ast.Inspect(body, func(n ast.Node) bool {
		if d, ok := n.(*ast.DeferStmt); ok && d.Call == call {
			hit = true
		}
		return true
	})
	return hit
}

// errReturnedNext: `…, err = call` and the block's terminating return lists err with no reassignment between.
func errReturnedNext(g *FuncCFG, info *types.Info, call *ast.CallExpr) bool {
	v, stmt := g.errVarOfCall(call)
	if v == nil {
		return false
	}
	b, idx := g.BlockOf(stmt)
	if b == nil {
		return false
	}
	for _, n := range b.Nodes[idx+1:] {
		switch s := n.(type) {
		case *ast.AssignStmt:
			for _, lh := range s.Lhs {
				if id, ok := lh.(*ast.Ident); ok && (info.Uses[id] == v || info.Defs[id] == v) {
					return false
				}
			}
		case *ast.ReturnStmt:
			for _, r := range s.Results {
				if id, ok := ast.Unparen(r).(*ast.Ident); ok && info.Uses[id] == v {
					return true
				}
			}
			return false
		}
	}
	return false
}

// ---------------------------------------------------------------------------------
// J2 re-runnable migration statements

type sqlStmt struct {
	file string
	n    int
	text string
}

var reBlank = regexp.MustCompile(`(?m)^\s+$`)
var reComment = regexp.MustCompile(`(?m)^##.*$`)

// splitSQL mirrors maintenance.getSQLFile.
func splitSQL(s string) []string {
	s = reBlank.ReplaceAllString(s, "")
	s = reComment.ReplaceAllString(s, "")
	var res []string
	for _, r := range strings.Split(s, ";\n\n") {
		r = strings.Trim(r, "\n ")
		if r != "" {
			res = append(res, r)
		}
	}
	return res
}

// embeddedScripts resolves the //go:embed directives of ctrl/qryn/sql.
func (c *Ctx) embeddedScripts() (map[string][]string, []string, error) {
	p := c.Pkg("ctrl/qryn/sql")
	if p == nil {
		return nil, nil, fmt.Errorf("package ctrl/qryn/sql not loaded")
	}
	out := map[string][]string{}
	var vars []string
	for _, f := range p.Syntax {
		dir := filepath.Dir(c.Fset.Position(f.Pos()).Filename)
		for _, d := range f.Decls {
			gd, ok := d.(*ast.GenDecl)
			if !ok || gd.Tok != token.VAR || gd.Doc == nil {
				continue
			}
			for _, cm := range gd.Doc.List {
				if strings.HasPrefix(cm.Text, "//go:embed ") {
					file := strings.TrimSpace(strings.TrimPrefix(cm.Text, "//go:embed "))
					b, err := c.readFile(filepath.Join(dir, file))
					if err != nil {
						return nil, nil, err
					}
					for _, sp := range gd.Specs {
						for _, nm := range sp.(*ast.ValueSpec).Names {
							out[nm.Name] = splitSQL(string(b))
							vars = append(vars, nm.Name+"="+file)
						}
					}
				}
			}
		}
	}
	sort.Strings(vars)
	return out, vars, nil
}

var reObj = regexp.MustCompile("(?i)(?:\\{\\{\\.DB\\}\\}\\.)?`?([A-Za-z_][A-Za-z0-9_]*)`?")

func stmtObject(rest string) string {
	rest = strings.TrimSpace(rest)
	m := reObj.FindStringSubmatch(rest)
	if m == nil {
		return "?"
	}
	return m[1]
}

var (
	reCreate = regexp.MustCompile(`(?i)^CREATE\s+(OR\s+REPLACE\s+)?(TABLE|VIEW|MATERIALIZED\s+VIEW|DATABASE|DICTIONARY|FUNCTION)\s+(IF\s+NOT\s+EXISTS\s+)?(.*)`)
	reDrop   = regexp.MustCompile(`(?i)^DROP\s+(TABLE|VIEW|DATABASE|DICTIONARY|FUNCTION)\s+(IF\s+EXISTS\s+)?(.*)`)
	reRename = regexp.MustCompile(`(?i)^RENAME\s+TABLE\s+(IF\s+EXISTS\s+)?(.*)`)
	reAlter  = regexp.MustCompile(`(?i)^ALTER\s+TABLE\s+(.*)`)
	reInsert = regexp.MustCompile(`(?i)^INSERT\s+INTO\s+(.*)`)
	reAction = regexp.MustCompile("(?i)\\b(ADD|DROP|MODIFY|RENAME|CLEAR|MATERIALIZE|COMMENT)\\s+(COLUMN|INDEX|PROJECTION|CONSTRAINT|SETTING|TTL|ORDER\\s+BY|SAMPLE\\s+BY|QUERY)\\s*(IF\\s+(?:NOT\\s+)?EXISTS\\s+)?`?([A-Za-z_0-9]*)`?")
)

var ruleJ2 = &Rule{
	ID:    "J2",
	Floor: 75,
	Doc: "re-runnable migration statements: every statement of the embedded migration scripts (split exactly as getSQLFile splits them; each statement is one schema version) must be harmless when executed a second time, " +
		"because a crash between the statement and its version row makes the next start execute it again: CREATE … IF NOT EXISTS, DROP … IF EXISTS, RENAME TABLE IF EXISTS, ALTER … ADD COLUMN|INDEX IF NOT EXISTS, ALTER … DROP … IF EXISTS, " +
		"ALTER … MODIFY …, INSERT INTO settings (replacing table keyed by fingerprint) are re-runnable; the unguarded forms are not; any other statement kind is undecided",
	Run: func(c *Ctx) []Obl {
		scripts, vars, err := c.embeddedScripts()
		if err != nil {
			return []Obl{{Key: "embedded scripts", Pos: "-", Status: Undecided, Msg: err.Error()}}
		}
		var obls []Obl
		for _, vf := range vars {
			parts := strings.SplitN(vf, "=", 2)
			v, file := parts[0], parts[1]
			seen := map[string]int{}
			for i, st := range scripts[v] {
				norm := strings.Join(strings.Fields(st), " ")
				pos := fmt.Sprintf("ctrl/qryn/sql/%s#stmt%d", file, i+1)
				mk := func(kind, obj, status, msg string) {
					k := fmt.Sprintf("%s %s %s", file, kind, obj)
					seen[k]++
					if seen[k] > 1 {
						k = fmt.Sprintf("%s #%d", k, seen[k])
					}
					obls = append(obls, Obl{Key: k, Pos: pos, Status: status, Msg: msg})
				}
				switch {
				case reCreate.MatchString(norm):
					m := reCreate.FindStringSubmatch(norm)
					kind := "CREATE " + strings.ToUpper(strings.Join(strings.Fields(m[2]), " "))
					if m[3] != "" || m[1] != "" {
						mk(kind, stmtObject(m[4]), OK, "")
					} else {
						mk(kind, stmtObject(m[4]), Violation, "CREATE without IF NOT EXISTS fails when re-run after a crash before its version row was written")
					}
				case reDrop.MatchString(norm):
					m := reDrop.FindStringSubmatch(norm)
					if m[2] != "" {
						mk("DROP "+strings.ToUpper(m[1]), stmtObject(m[3]), OK, "")
					} else {
						mk("DROP "+strings.ToUpper(m[1]), stmtObject(m[3]), Violation, "DROP without IF EXISTS fails when re-run")
					}
				case reRename.MatchString(norm):
					m := reRename.FindStringSubmatch(norm)
					if m[1] != "" {
						mk("RENAME", stmtObject(m[2]), OK, "")
					} else {
						mk("RENAME", stmtObject(m[2]), Violation, "RENAME TABLE without IF EXISTS: if initialisation dies after the rename and before the version row, every later start fails on this statement (source table no longer exists)")
					}
				case reAlter.MatchString(norm):
					m := reAlter.FindStringSubmatch(norm)
					tbl := stmtObject(m[1])
					acts := reAction.FindAllStringSubmatch(norm, -1)
					if len(acts) == 0 {
						mk("ALTER", tbl, Undecided, "ALTER action not recognised: "+norm)
						continue
					}
					for _, a := range acts {
						verb, what, guard, obj := strings.ToUpper(a[1]), strings.ToUpper(strings.Join(strings.Fields(a[2]), " ")), strings.ToUpper(a[3]), a[4]
						kind := fmt.Sprintf("ALTER %s %s %s", tbl, verb, what)
						switch verb {
						case "ADD":
							if strings.Contains(guard, "NOT") {
								mk(kind, obj, OK, "")
							} else {
								mk(kind, obj, Violation, "ADD "+what+" without IF NOT EXISTS fails with `already exists` when re-run after a crash before its version row was written")
							}
						case "DROP", "CLEAR", "RENAME":
							if guard != "" && !strings.Contains(guard, "NOT") {
								mk(kind, obj, OK, "")
							} else {
								mk(kind, obj, Violation, verb+" "+what+" without IF EXISTS fails when re-run")
							}
						default:
							mk(kind, obj, OK, "idempotent")
						}
					}
				case reInsert.MatchString(norm):
					m := reInsert.FindStringSubmatch(norm)
					obj := stmtObject(m[1])
					if obj == "settings" {
						mk("INSERT", obj, OK, "replacing table keyed by fingerprint")
					} else {
						mk("INSERT", obj, Violation, "INSERT into a non-replacing table duplicates rows when re-run")
					}
				default:
					head := norm
					if len(head) > 40 {
						head = head[:40]
					}
					mk("UNCLASSIFIED", head, Undecided, "statement kind not in the rule's table")
				}
			}
		}
		return obls
	},
}

// ---------------------------------------------------------------------------------
// C5 stream / key bijections

var ruleC5 = &Rule{
	ID:    "C5",
	Floor: 7,
	Doc: "stream ↔ script bijection and settings key agreement: the upgrade entry point calls the migration runner once per embedded script with pairwise distinct constant stream ids and pairwise distinct script variables, every embedded script is used, " +
		"the *Dist* scripts only under the distributed-mode condition; getSetting and putSetting derive the settings fingerprint from the same format literal with the same argument order",
	Run: func(c *Ctx) []Obl {
		var obls []Obl
		scripts, _, err := c.embeddedScripts()
		if err != nil {
			return []Obl{{Key: "embedded scripts", Pos: "-", Status: Undecided, Msg: err.Error()}}
		}
		// runner calls: calls in ctrl/ that receive an embedded migration script (a variable of ctrl/qryn/sql) together with an
		// integer stream id — written out one by one, or driven by a local table of {stream id, script, …} rows walked by a range loop
		usedK := map[string]string{}
		usedS := map[string]string{}
		sqlPkg := modPath + "/ctrl/qryn/sql"
		type runnerCall struct {
			fi        *FuncInfo
			call      *ast.CallExpr
			k, script string
			distGuard bool // runs only under a condition mentioning the distributed mode
			cond      bool // runs under some other condition
		}
		var rcalls []runnerCall
		for _, fi := range c.Funcs(c.PkgsUnder("ctrl")) {
			if isTestFile(c, fi.Decl) {
				continue
			}
			info := fi.Pkg.TypesInfo
			scriptOf := func(e ast.Expr) string {
				if se, ok := ast.Unparen(e).(*ast.SelectorExpr); ok {
					if o := info.Uses[se.Sel]; o != nil && objPkgPath(o) == sqlPkg {
						if _, isVar := o.(*types.Var); isVar {
							return o.Name()
						}
					}
				}
				return ""
			}
			enclosingIfs := func(call *ast.CallExpr) (dist, other bool) {
				ast.Inspect(fi.Decl.Body, func(m ast.Node) bool {
					if is, ok := m.(*ast.IfStmt); ok && is.Body.Pos() <= call.Pos() && call.End() <= is.Body.End() {
						if strings.Contains(strings.ToUpper(c.normText(is.Cond)), "DISTRIBUTED") {
							dist = true
						} else {
							other = true
						}
					}
					return true
				})
				return
			}
			ast.Inspect(fi.Decl.Body, func(n ast.Node) bool {
				call, ok := n.(*ast.CallExpr)
				if !ok {
					return true
				}
				if o, ok := calleeObj(info, call).(*types.Func); !ok || !strings.HasPrefix(objPkgPath(o), modPath+"/ctrl") {
					return true
				}
				// (i) written out: a script variable and an integer constant among the arguments
				var k, script string
				var rowVar types.Object
				var kField, sField string
				for _, a := range call.Args {
					if sn := scriptOf(a); sn != "" {
						script = sn
					}
					if tv, ok := info.Types[a]; ok && tv.Value != nil && k == "" {
						if b, ok := tv.Type.Underlying().(*types.Basic); ok && b.Info()&types.IsInteger != 0 {
							k = tv.Value.ExactString()
						}
					}
					// (ii) table-driven: row.field
					if se, ok := ast.Unparen(a).(*ast.SelectorExpr); ok {
						if id, ok := ast.Unparen(se.X).(*ast.Ident); ok {
							if v, ok := info.Uses[id].(*types.Var); ok && !v.IsField() {
								if tv, ok := info.Types[a]; ok {
									if b, ok := tv.Type.Underlying().(*types.Basic); ok {
										if b.Info()&types.IsInteger != 0 && kField == "" {
											rowVar, kField = v, se.Sel.Name
										}
										if b.Info()&types.IsString != 0 {
											rowVar, sField = v, se.Sel.Name
										}
									}
								}
							}
						}
					}
				}
				if script != "" {
					d, o := enclosingIfs(call)
					rcalls = append(rcalls, runnerCall{fi, call, k, script, d, o})
					return true
				}
				if rowVar == nil || kField == "" || sField == "" {
					return true
				}
				// the range loop that defines rowVar and the table it walks
				var loop *ast.RangeStmt
				ast.Inspect(fi.Decl.Body, func(m ast.Node) bool {
					if rs, ok := m.(*ast.RangeStmt); ok {
						if id, ok := rs.Value.(*ast.Ident); ok && info.Defs[id] == rowVar {
							loop = rs
						}
					}
					return true
				})
				if loop == nil {
					return true
				}
				var table *ast.CompositeLit
				if cl, ok := ast.Unparen(loop.X).(*ast.CompositeLit); ok {
					table = cl
				} else if id, ok := ast.Unparen(loop.X).(*ast.Ident); ok {
					tobj := info.Uses[id]
					ast.Inspect(fi.Decl.Body, func(m ast.Node) bool {
						if as, ok := m.(*ast.AssignStmt); ok {
							for i, lh := range as.Lhs {
								if l, ok := lh.(*ast.Ident); ok && (info.Defs[l] == tobj || info.Uses[l] == tobj) && i < len(as.Rhs) {
									if cl, ok := ast.Unparen(as.Rhs[i]).(*ast.CompositeLit); ok {
										table = cl
									}
								}
							}
						}
						return true
					})
				}
				if table == nil {
					// a package-level table, or one returned by a function of the same package (`return []row{…}`)
					switch x := ast.Unparen(loop.X).(type) {
					case *ast.Ident:
						table = c.initLiteralOf(fi.Pkg, info.Uses[x])
					case *ast.CallExpr:
						if hf, ok := calleeObj(info, x).(*types.Func); ok && hf.Pkg() == fi.Pkg.Types {
							if hd := c.declOf(fi.Pkg, hf); hd != nil && hd.Body != nil {
								nret := 0
								ast.Inspect(hd.Body, func(m ast.Node) bool {
									if r, ok := m.(*ast.ReturnStmt); ok {
										nret++
										if len(r.Results) == 1 {
											table, _ = ast.Unparen(r.Results[0]).(*ast.CompositeLit)
										}
									}
									return true
								})
								if nret != 1 {
									table = nil
								}
							}
						}
					}
				}
				if table == nil {
					return true
				}
				var st *types.Struct
				if tv, ok := info.Types[table]; ok {
					if sl, ok := tv.Type.Underlying().(*types.Slice); ok {
						st, _ = sl.Elem().Underlying().(*types.Struct)
					}
					if ar, ok := tv.Type.Underlying().(*types.Array); ok {
						st, _ = ar.Elem().Underlying().(*types.Struct)
					}
				}
				if st == nil {
					return true
				}
				// a guard `if row.<bool> && !distributed { continue }` (or the reverse nesting) in the loop body before the call
				guardField := ""
				for _, bs := range loop.Body.List {
					is, ok := bs.(*ast.IfStmt)
					if !ok || is.Pos() > call.Pos() || len(is.Body.List) != 1 {
						continue
					}
					if br, ok := is.Body.List[0].(*ast.BranchStmt); !ok || br.Tok != token.CONTINUE {
						continue
					}
					ct := c.normText(is.Cond)
					if !strings.Contains(strings.ToUpper(ct), "DISTRIBUTED") || !strings.Contains(ct, "!") {
						continue
					}
					ast.Inspect(is.Cond, func(m ast.Node) bool {
						if se, ok := m.(*ast.SelectorExpr); ok {
							if id, ok := ast.Unparen(se.X).(*ast.Ident); ok && info.Uses[id] == rowVar {
								guardField = se.Sel.Name
							}
						}
						return true
					})
				}
				for _, el := range table.Elts {
					row, ok := ast.Unparen(el).(*ast.CompositeLit)
					if !ok {
						continue
					}
					vals := map[string]ast.Expr{}
					for i, sub := range row.Elts {
						if kv, ok := sub.(*ast.KeyValueExpr); ok {
							if id, ok := kv.Key.(*ast.Ident); ok {
								vals[id.Name] = kv.Value
							}
						} else if i < st.NumFields() {
							vals[st.Field(i).Name()] = sub
						}
					}
					rk, rs := "", ""
					if e, ok := vals[kField]; ok {
						if tv, ok := info.Types[e]; ok && tv.Value != nil {
							rk = tv.Value.ExactString()
						}
					}
					if e, ok := vals[sField]; ok {
						rs = scriptOf(e)
					}
					guarded := false
					if guardField != "" {
						if e, ok := vals[guardField]; ok {
							if tv, ok := info.Types[e]; ok && tv.Value != nil && tv.Value.ExactString() == "true" {
								guarded = true
							}
						}
					}
					_, o := enclosingIfs(call)
					rcalls = append(rcalls, runnerCall{fi, call, rk, rs, guarded, o})
				}
				return true
			})
		}
		for _, rc := range rcalls {
			k, script := rc.k, rc.script
			key := fmt.Sprintf("%s runner call stream=%s script=%s", rc.fi.Name(), k, script)
			st, msg := OK, ""
			if k == "" || script == "" {
				st, msg = Undecided, "stream id is not a constant or the script is not an embedded script variable"
			} else {
				if prev, dup := usedK[k]; dup {
					st, msg = Violation, fmt.Sprintf("stream id %s is used for %s and %s: the two scripts share one version counter, statements of one are skipped", k, prev, script)
				}
				if prev, dup := usedS[script]; dup {
					st, msg = Violation, fmt.Sprintf("script %s is run under stream ids %s and %s", script, prev, k)
				}
				usedK[k] = script
				usedS[script] = k
				if strings.Contains(script, "Dist") && st == OK {
					if !rc.distGuard {
						st, msg = Violation, "distributed-table script is run outside the distributed-mode condition"
					}
				} else if st == OK && (rc.cond || rc.distGuard) {
					st, msg = Violation, "base script is run only conditionally: a configuration exists in which its migrations are skipped"
				}
			}
			obls = append(obls, Obl{Key: key, Pos: c.pos(rc.call.Pos()), Status: st, Msg: msg})
		}
		var names []string
		for v := range scripts {
			names = append(names, v)
		}
		sort.Strings(names)
		for _, v := range names {
			if _, ok := usedS[v]; !ok {
				obls = append(obls, Obl{Key: "embedded script " + v + " is run", Pos: "ctrl/qryn/sql/sql.go", Status: Violation, Msg: "embedded migration script is never passed to the runner"})
			}
		}
		// settings key derivation: the value hashed into the fingerprint, as (format literal, ordered string-parameter positions),
		// computed on SSA through helpers shared by the two functions
		var keyFmt []string
		putFn, getFn := c.settingsFns()
		for i, sf := range []*ssa.Function{getFn, putFn} {
			if sf == nil {
				obls = append(obls, Obl{Key: "settings key " + []string{"read", "write"}[i] + " routine", Pos: "-", Status: Undecided, Msg: "anchor not found"})
				continue
			}
			keyFmt = append(keyFmt, settingsKeyDerivation(sf, nil, 0))
		}
		if len(keyFmt) == 2 {
			st, msg := OK, keyFmt[0]
			if keyFmt[0] == "" || keyFmt[0] != keyFmt[1] {
				st, msg = Violation, fmt.Sprintf("getSetting derives the key as %q, putSetting as %q: a recorded setting is never found again and every run re-applies the ALTERs", keyFmt[0], keyFmt[1])
			}
			obls = append(obls, Obl{Key: "settings key derivation get == put", Pos: "ctrl/qryn/maintenance/rotate.go", Status: st, Msg: msg})
		}
		return obls
	},
}

func flatParams(fd *ast.FuncDecl) []string {
	var out []string
	for _, f := range fd.Type.Params.List {
		for _, n := range f.Names {
			out = append(out, n.Name)
		}
	}
	return out
}

// stringParamIndex: ordinal of parameter #pi among the string-typed parameters (so that
// getSetting(db, dist, tp, name) and putSetting(db, tp, name, value) normalise alike).
func stringParamIndex(fd *ast.FuncDecl, info *types.Info, pi int) int {
	idx, i := 0, 0
	for _, f := range fd.Type.Params.List {
		for range f.Names {
			isStr := false
			if tv, ok := info.Types[f.Type]; ok {
				isStr = types.Identical(tv.Type, types.Typ[types.String])
			}
			if i == pi {
				if !isStr {
					return -1
				}
				return idx
			}
			if isStr {
				idx++
			}
			i++
		}
	}
	return -1
}

// ---------------------------------------------------------------------------------
// A6 record-after-alter, alter-only-if-changed;  C6 clamp / minimum agreement

var ruleA6old = &Rule{
	ID:    "A6old",
	Floor: 14,
	Doc: "retention: in every function that records an applied setting (calls putSetting): each ALTER Exec is inside the loop over the table list and its error check leaves the function; " +
		"the putSetting call is outside that loop and reachable only past it; both the ALTERs and putSetting are dominated by the false edge of the comparison `recorded == desired`, where recorded comes from getSetting with the same (type, name) arguments as putSetting and desired is the value putSetting records; " +
		"the recorded value is also the one interpolated into / bound to the ALTER",
	Run: func(c *Ctx) []Obl {
		var obls []Obl
		p := c.Pkg(pkgCtrlMaint)
		if p == nil {
			return []Obl{{Key: pkgCtrlMaint, Pos: "-", Status: Undecided, Msg: "package not loaded"}}
		}
		put := p.Types.Scope().Lookup("putSetting")
		get := p.Types.Scope().Lookup("getSetting")
		if put == nil || get == nil {
			return []Obl{{Key: "putSetting/getSetting", Pos: "-", Status: Undecided, Msg: "anchors not found"}}
		}
		for _, fi := range c.Funcs(c.PkgsUnder(pkgCtrlMaint)) {
			info := fi.Pkg.TypesInfo
			var putCall, getCall *ast.CallExpr
			ast.Inspect(fi.Decl.Body, func(n ast.Node) bool {
				if call, ok := n.(*ast.CallExpr); ok {
					switch calleeObj(info, call) {
					case put:
						putCall = call
					case get:
						getCall = call
					}
				}
				return true
			})
			if putCall == nil || info.Defs[fi.Decl.Name] == put {
				continue
			}
			if !c.LiveFunc(fi) {
				obls = append(obls, Obl{Key: fi.Name() + " (unreachable from main)", Pos: c.pos(fi.Decl.Pos()), Status: Info, Msg: "records a setting but is dead code on this tree; not analysed"})
				continue
			}
			name := fi.Name()
			g := c.cfgOf(fi, fi.Decl.Body)
			add := func(k string, ok bool, pos token.Pos, msg string) {
				st := OK
				if !ok {
					st = Violation
				} else {
					msg = ""
				}
				obls = append(obls, Obl{Key: name + " " + k, Pos: c.pos(pos), Status: st, Msg: msg})
			}
			if getCall == nil || len(putCall.Args) != 4 || len(getCall.Args) != 4 {
				add("guard", false, putCall.Pos(), "no getSetting call to compare the recorded value with")
				continue
			}
			// same (type, name)
			sameKey := c.normText(getCall.Args[2]) == c.normText(putCall.Args[1]) && c.normText(getCall.Args[3]) == c.normText(putCall.Args[2])
			add("get/put use the same (type, name)", sameKey, getCall.Pos(), "the value compared must be the one recorded under the same key, else re-applying is never a no-op (or a change is never applied)")
			desired := c.normText(putCall.Args[3])
			// the comparison recorded == desired
			var valObj types.Object
			if _, stmt := g.errVarOfCall(getCall); stmt != nil {
				if as, ok := stmt.(*ast.AssignStmt); ok && len(as.Lhs) == 2 {
					if id, ok := as.Lhs[0].(*ast.Ident); ok {
						valObj = info.Defs[id]
						if valObj == nil {
							valObj = info.Uses[id]
						}
					}
				}
			}
			var falseBlock interface{}
			var cmpPos token.Pos
			for _, b := range g.g.Blocks {
				cond, t, e := condEdges(b)
				if cond == nil {
					continue
				}
				isVal := func(x ast.Expr) bool {
					id, ok := ast.Unparen(x).(*ast.Ident)
					return ok && valObj != nil && info.Uses[id] == valObj
				}
				isDesired := func(x ast.Expr) bool { return c.normText(x) == desired }
				isCmp := func(a ast.Expr, op token.Token) bool {
					be, ok := ast.Unparen(a).(*ast.BinaryExpr)
					return ok && be.Op == op && ((isVal(be.X) && isDesired(be.Y)) || (isVal(be.Y) && isDesired(be.X)))
				}
				// the edge on which `recorded == desired` is known to be false, the other edge leaving the function
				for _, a := range atomsFalseOn(cond) {
					if isCmp(a, token.EQL) && g.failureLeaves(t, e) {
						falseBlock, cmpPos = e, a.Pos()
					}
				}
				for _, a := range atomsTrueOn(cond) {
					if isCmp(a, token.NEQ) && g.failureLeaves(e, t) {
						falseBlock, cmpPos = t, a.Pos()
					}
				}
			}
			if falseBlock == nil {
				add("changed? comparison", false, putCall.Pos(), "no comparison `recorded == desired` whose equal-branch leaves the function: ALTERs are issued on every run")
				continue
			}
			add("changed? comparison", true, cmpPos, "")
			fb := falseBlock.(interface{ String() string })
			_ = fb
			// ALTER execs
			nAlter := 0
			for _, d := range c.dbCalls(fi) {
				if d.method != "Exec" || !strings.HasPrefix(strings.ToUpper(strings.TrimSpace(d.query)), "ALTER") {
					continue
				}
				nAlter++
				q := strings.Join(strings.Fields(d.query), " ")
				if len(q) > 48 {
					q = q[:48]
				}
				k := fmt.Sprintf("ALTER #%d (%s)", nAlter, q)
				loop, _ := enclosingLoop(fi.Decl.Body, d.call).(*ast.RangeStmt)
				inLoop := false
				if loop != nil {
					if id, ok := ast.Unparen(loop.X).(*ast.Ident); ok {
						if v, ok := info.Uses[id].(*types.Var); ok && isParam(fi, info, v) {
							inLoop = true
						}
					}
				}
				db, _ := g.BlockOf(d.call)
				dom := db != nil && g.Dominates(blockOfIface(falseBlock), db)
				add(k+" inside the table loop, only if changed", inLoop && dom, d.call.Pos(), "every ALTER must sit in the loop over the table list and be dominated by the `changed` edge")
				add(k+" error leaves the function", g.SuccessBlock(d.call) != nil, d.call.Pos(), "a failed ALTER must abort before the setting is recorded")
				// putSetting after the loop
				if loop != nil {
					add(k+" setting recorded after the loop", !(loop.Body.Pos() <= putCall.Pos() && putCall.End() <= loop.Body.End()) && putCall.Pos() > loop.End(), putCall.Pos(),
						"putSetting inside or before the table loop records the value before all tables were altered")
				}
				// desired value flows into the ALTER
				uses := false
				for _, a := range d.call.Args[1:] {
					if c.mentionsText(fi, a, desired, 0) {
						uses = true
					}
				}
				add(k+" applies the recorded value", uses, d.call.Pos(), "the value recorded by putSetting must be the one applied by the ALTER")
			}
			pb, _ := g.BlockOf(putCall)
			add("putSetting only if changed", pb != nil && g.Dominates(blockOfIface(falseBlock), pb), putCall.Pos(), "")
			if nAlter == 0 {
				add("ALTER statements", false, putCall.Pos(), "a setting is recorded but no ALTER is issued in this function")
			}
		}
		return obls
	},
}

// mentionsText: expression e (following locals assigned in the function) contains an identifier/expression whose text is want.
func (c *Ctx) mentionsText(fi *FuncInfo, e ast.Expr, want string, depth int) bool {
	info := fi.Pkg.TypesInfo
	if c.normText(e) == want {
		return true
	}
	hit := false
	ast.Inspect(e, func(n ast.Node) bool {
		x, ok := n.(ast.Expr)
		if !ok {
			return true
		}
		if c.normText(x) == want {
			hit = true
			return false
		}
		if id, ok := x.(*ast.Ident); ok && depth < 3 {
			if obj, ok := info.Uses[id].(*types.Var); ok && !obj.IsField() {
				ast.Inspect(fi.Decl, func(m ast.Node) bool {
					if as, ok := m.(*ast.AssignStmt); ok && len(as.Lhs) == len(as.Rhs) {
						for i, lh := range as.Lhs {
							if lid, ok := lh.(*ast.Ident); ok && (info.Defs[lid] == obj || info.Uses[lid] == obj) && as.Rhs[i] != e {
								if c.mentionsText(fi, as.Rhs[i], want, depth+1) {
									hit = true
								}
							}
						}
					}
					return true
				})
			}
		}
		return true
	})
	return hit
}

var ruleC6old = &Rule{
	ID:    "C6old",
	Floor: 6,
	Doc:   "tier-move clamp: the TTL routine clamps each tier duration to its minimum parameter before use (`if x < min { x = min }` ahead of the interpolation), and every call site passes the day-sized minimum iff the insert-time expression is the `date` column (index tables), the minute-sized minimum otherwise (sample tables)",
	Run: func(c *Ctx) []Obl {
		var obls []Obl
		p, fd := c.FuncDecl(pkgCtrlMaint, "rotateTables")
		if fd == nil {
			return []Obl{{Key: "rotateTables", Pos: "-", Status: Undecided, Msg: "anchor not found"}}
		}
		info := p.TypesInfo
		fi := &FuncInfo{Pkg: p, Decl: fd}
		// the time.Duration parameter = minimum; the string parameter interpolated first = insert-time expression
		minIdx, exprIdx := -1, -1
		var minObj types.Object
		i := 0
		for _, f := range fd.Type.Params.List {
			for _, n := range f.Names {
				t := info.Defs[n].Type()
				if nt := namedOf(t); nt != nil && nt.Obj().Name() == "Duration" && minIdx < 0 {
					minIdx, minObj = i, info.Defs[n]
				}
				if types.Identical(t, types.Typ[types.String]) && exprIdx < 0 && minIdx >= 0 {
					exprIdx = i
				}
				i++
			}
		}
		if minIdx < 0 || exprIdx < 0 {
			return []Obl{{Key: "rotateTables parameters", Pos: c.pos(fd.Pos()), Status: Undecided, Msg: "minimum / expression parameters not recognised"}}
		}
		// clamp: if X < f(min) { X = f(min) }
		clamp := false
		ast.Inspect(fd.Body, func(n ast.Node) bool {
			is, ok := n.(*ast.IfStmt)
			if !ok || len(is.Body.List) != 1 {
				return true
			}
			be, ok := is.Cond.(*ast.BinaryExpr)
			if !ok || be.Op != token.LSS {
				return true
			}
			mentionsMin := func(e ast.Expr) bool {
				h := false
				ast.Inspect(e, func(m ast.Node) bool {
					if id, ok := m.(*ast.Ident); ok && info.Uses[id] == minObj {
						h = true
					}
					return true
				})
				return h
			}
			as, ok := is.Body.List[0].(*ast.AssignStmt)
			if ok && len(as.Lhs) == 1 && len(as.Rhs) == 1 && mentionsMin(be.Y) && mentionsMin(as.Rhs[0]) && c.normText(as.Lhs[0]) == c.normText(be.X) {
				clamp = true
			}
			return true
		})
		st, msg := OK, ""
		if !clamp {
			st, msg = Violation, "tier durations are no longer clamped to the per-table minimum: a tier move earlier than one minute / one day can be configured"
		}
		obls = append(obls, Obl{Key: fi.Name() + " clamps tier duration to the minimum", Pos: c.pos(fd.Pos()), Status: st, Msg: msg})
		// call sites
		self := info.Defs[fd.Name]
		for _, f := range c.Funcs(c.PkgsUnder(pkgCtrlMaint)) {
			inf := f.Pkg.TypesInfo
			ast.Inspect(f.Decl.Body, func(n ast.Node) bool {
				call, ok := n.(*ast.CallExpr)
				if !ok || calleeObj(inf, call) != self || len(call.Args) <= exprIdx {
					return true
				}
				expr, _ := constString(inf, call.Args[exprIdx])
				// minimum argument: resolve local to its constant duration
				var dur int64 = -1
				marg := call.Args[minIdx]
				if tv, ok := inf.Types[marg]; ok && tv.Value != nil {
					dur, _ = constInt(tv.Value.ExactString())
				} else if id, ok := ast.Unparen(marg).(*ast.Ident); ok {
					obj := inf.Uses[id]
					ast.Inspect(f.Decl, func(m ast.Node) bool {
						if as, ok := m.(*ast.AssignStmt); ok && len(as.Lhs) == 1 && len(as.Rhs) == 1 {
							if lid, ok := as.Lhs[0].(*ast.Ident); ok && inf.Defs[lid] == obj {
								if tv, ok := inf.Types[as.Rhs[0]]; ok && tv.Value != nil {
									dur, _ = constInt(tv.Value.ExactString())
								}
							}
						}
						return true
					})
				}
				setting := ""
				for _, a := range call.Args {
					if s, ok := constString(inf, a); ok && a != call.Args[exprIdx] && !strings.Contains(s, "(") && !strings.Contains(s, " ") && setting == "" {
						setting = s
					}
				}
				key := fmt.Sprintf("%s rotateTables(%s) minimum", f.Name(), setting)
				const minute, day = int64(60e9), int64(86400e9)
				isDate := strings.TrimSpace(expr) == "date"
				switch {
				case dur < 0 || expr == "":
					obls = append(obls, Obl{Key: key, Pos: c.pos(call.Pos()), Status: Undecided, Msg: "minimum or insert-time expression is not a constant"})
				case isDate && dur >= day, !isDate && dur >= minute:
					obls = append(obls, Obl{Key: key, Pos: c.pos(call.Pos()), Status: OK, Msg: fmt.Sprintf("expr=%q min=%ds", expr, dur/1e9)})
				default:
					obls = append(obls, Obl{Key: key, Pos: c.pos(call.Pos()), Status: Violation,
						Msg: fmt.Sprintf("insert-time expression %q with minimum %ds: index tables (date column) need a minimum of one day, sample tables one minute", expr, dur/1e9)})
				}
				return true
			})
		}
		return obls
	},
}

func constInt(s string) (int64, bool) {
	var v int64
	_, err := fmt.Sscanf(s, "%d", &v)
	return v, err == nil
}

func init() { register(ruleC5, ruleJ1, ruleJ2) }

var _ = ruleA6old
var _ = ruleC6old

// ---------------------------------------------------------------------------------
// C7 settings keys are not shared

var ruleC7 = &Rule{
	ID:    "C7",
	Floor: 6,
	Doc: "one recorder per settings key: every (type, name) key under which a retention routine records its applied value (putSetting; the name is resolved to the constants passed at the call sites of the routine) is written by exactly one routine. " +
		"Two routines sharing a key overwrite each other's record, so each finds a `changed` value on every run and re-issues its ALTERs forever",
	Run: func(c *Ctx) []Obl {
		api := c.settingsAPIOf()
		if api.basePut == nil {
			return []Obl{{Key: "settings write routine", Pos: "-", Status: Undecided, Msg: "anchor not found"}}
		}
		type rec struct {
			fn  string
			pos token.Pos
		}
		keys := map[string][]rec{}
		for _, fn := range liveModuleFuncs(c, "ctrl") {
			// a thin forwarding wrapper of the write routine records nothing of its own: its callers do; the compiler-made
			// pointer-receiver twin of a value method (into which the method body is inlined by go/ssa) is not program text
			if api.inner[fn] != nil || fn.Synthetic != "" {
				continue
			}
			for _, b := range fn.Blocks {
				for _, ins := range b.Instrs {
					call, ok := ins.(*ssa.Call)
					if !ok || call.Common().StaticCallee() == nil || !api.putLike[call.Common().StaticCallee()] {
						continue
					}
					fname := ssaName(fn)
					if fi := c.funcInfoOf(fn); fi != nil && fn.Parent() == nil {
						fname = fi.Name()
					}
					roles, _ := api.rolesAt(call, 0)
					for tp := range c.constsOfSym(roles.tp) {
						for name, n := range c.constsOfSym(roles.name) {
							keys[tp+"/"+name] = append(keys[tp+"/"+name], rec{fname, call.Pos()})
							// the same name handed to one routine by two call sites / two rows of its table: two table groups
							// share the record
							if n > 1 && name != "?" {
								keys[tp+"/"+name] = append(keys[tp+"/"+name], rec{fmt.Sprintf("%s (%d table groups)", fname, n), call.Pos()})
							}
						}
					}
				}
			}
		}
		var ks []string
		for k := range keys {
			ks = append(ks, k)
		}
		sort.Strings(ks)
		var obls []Obl
		for _, k := range ks {
			fns := map[string]bool{}
			for _, r := range keys[k] {
				fns[r.fn] = true
			}
			key := fmt.Sprintf("settings key %s has a single recorder", k)
			if len(fns) == 1 && !strings.HasSuffix(k, "/?") {
				obls = append(obls, Obl{Key: key, Pos: c.pos(keys[k][0].pos), Status: OK, Msg: keysOf(fns)[0]})
			} else if strings.HasSuffix(k, "/?") {
				obls = append(obls, Obl{Key: key, Pos: c.pos(keys[k][0].pos), Status: Undecided, Msg: "setting name is not a constant at the call site"})
			} else {
				obls = append(obls, Obl{Key: key, Pos: c.pos(keys[k][len(keys[k])-1].pos), Status: Violation,
					Msg: fmt.Sprintf("recorded by %v: routines / table groups sharing a key overwrite each other's record — with different values each finds it `changed` on every run and issues its ALTERs again, with equal values the second finds the first's record and never alters its own tables", keysOf(fns))})
			}
		}
		return obls
	},
}

func init() { register(ruleC7) }

// ---- small linear arithmetic over local integer variables (A5) ----

type linForm struct {
	terms map[types.Object]int64
	k     int64
}

func (a linForm) add(b linForm, sign int64) linForm {
	out := linForm{terms: map[types.Object]int64{}, k: a.k + sign*b.k}
	for o, c := range a.terms {
		out.terms[o] += c
	}
	for o, c := range b.terms {
		out.terms[o] += sign * c
	}
	for o, c := range out.terms {
		if c == 0 {
			delete(out.terms, o)
		}
	}
	return out
}

func (a linForm) equal(b linForm) bool {
	d := a.add(b, -1)
	return len(d.terms) == 0 && d.k == 0
}

func (a linForm) String() string {
	var parts []string
	for o, c := range a.terms {
		if c == 1 {
			parts = append(parts, o.Name())
		} else {
			parts = append(parts, fmt.Sprintf("%d*%s", c, o.Name()))
		}
	}
	sort.Strings(parts)
	if a.k != 0 || len(parts) == 0 {
		parts = append(parts, fmt.Sprintf("%d", a.k))
	}
	return strings.Join(parts, " + ")
}

type linEval struct {
	info *types.Info
	body *ast.BlockStmt
}

// singleDef: the only definition of a local (`x := e`, never assigned again), so that x can be replaced by e.
func (l *linEval) singleDef(obj types.Object) ast.Expr {
	var def ast.Expr
	n := 0
	ast.Inspect(l.body, func(m ast.Node) bool {
		switch s := m.(type) {
		case *ast.AssignStmt:
			for i, lh := range s.Lhs {
				id, ok := lh.(*ast.Ident)
				if !ok {
					continue
				}
				if l.info.Defs[id] == obj || l.info.Uses[id] == obj {
					n++
					if s.Tok == token.DEFINE && len(s.Lhs) == len(s.Rhs) {
						def = s.Rhs[i]
					} else {
						n += 10
					}
				}
			}
		case *ast.IncDecStmt:
			if id, ok := s.X.(*ast.Ident); ok && l.info.Uses[id] == obj {
				n += 10
			}
		case *ast.RangeStmt:
			for _, e := range []ast.Expr{s.Key, s.Value} {
				if id, ok := e.(*ast.Ident); ok && l.info.Defs[id] == obj {
					n += 10
				}
			}
		}
		return true
	})
	if n == 1 {
		return def
	}
	return nil
}

func (l *linEval) eval(e ast.Expr, depth int) (linForm, bool) {
	zero := linForm{terms: map[types.Object]int64{}}
	if depth > 8 {
		return zero, false
	}
	e = ast.Unparen(e)
	if tv, ok := l.info.Types[e]; ok && tv.Value != nil {
		if v, ok := constantInt64(tv); ok {
			return linForm{terms: map[types.Object]int64{}, k: v}, true
		}
	}
	switch x := e.(type) {
	case *ast.Ident:
		obj := l.info.Uses[x]
		if obj == nil {
			return zero, false
		}
		if def := l.singleDef(obj); def != nil {
			if _, isLoopVar := def.(*ast.CallExpr); !isLoopVar || true {
				if f, ok := l.eval(def, depth+1); ok {
					return f, true
				}
			}
		}
		return linForm{terms: map[types.Object]int64{obj: 1}}, true
	case *ast.CallExpr:
		// conversion uint64(x) / int(x)
		if len(x.Args) == 1 {
			if tv, ok := l.info.Types[x.Fun]; ok && tv.IsType() {
				return l.eval(x.Args[0], depth+1)
			}
		}
	case *ast.BinaryExpr:
		a, ok1 := l.eval(x.X, depth+1)
		b, ok2 := l.eval(x.Y, depth+1)
		if ok1 && ok2 {
			switch x.Op {
			case token.ADD:
				return a.add(b, 1), true
			case token.SUB:
				return a.add(b, -1), true
			}
		}
	}
	return zero, false
}

func constantInt64(tv types.TypeAndValue) (int64, bool) {
	s := tv.Value.ExactString()
	var v int64
	if _, err := fmt.Sscanf(s, "%d", &v); err == nil && fmt.Sprintf("%d", v) == s {
		return v, true
	}
	return 0, false
}

func usesObj(info *types.Info, e ast.Node, obj types.Object) bool {
	hit := false
	ast.Inspect(e, func(n ast.Node) bool {
		if id, ok := n.(*ast.Ident); ok && info.Uses[id] == obj {
			hit = true
		}
		return true
	})
	return hit
}

func writesObj(info *types.Info, body ast.Node, obj types.Object) bool {
	w := false
	ast.Inspect(body, func(n ast.Node) bool {
		switch s := n.(type) {
		case *ast.AssignStmt:
			for _, lh := range s.Lhs {
				if id, ok := lh.(*ast.Ident); ok && info.Uses[id] == obj {
					w = true
				}
			}
		case *ast.IncDecStmt:
			if usesObj(info, s.X, obj) {
				w = true
			}
		}
		return true
	})
	return w
}

var _ = ruleA5old

// settingsKeyDerivation: the Sprintf that builds the settings key in fn (or in a helper it calls), rendered as
// "<format> | <ordinal among the string parameters of the outermost function>, …". bind maps the helper's parameters to the
// outer function's values.
func settingsKeyDerivation(fn *ssa.Function, bind map[ssa.Value]ssa.Value, depth int) string {
	if fn == nil || depth > 2 {
		return ""
	}
	strOrdinal := func(outer *ssa.Function, p *ssa.Parameter) int {
		n := 0
		for _, q := range outer.Params {
			if b, ok := q.Type().Underlying().(*types.Basic); ok && b.Info()&types.IsString != 0 {
				if q == p {
					return n
				}
				n++
			}
		}
		return -1
	}
	for _, b := range fn.Blocks {
		for _, ins := range b.Instrs {
			call, ok := ins.(*ssa.Call)
			if !ok {
				continue
			}
			sc := call.Common().StaticCallee()
			if sc == nil {
				continue
			}
			if sc.String() == "fmt.Sprintf" && len(call.Common().Args) == 2 {
				f, ok := constStr(call.Common().Args[0])
				if !ok || !strings.Contains(f, "type") || !strings.Contains(f, "name") {
					continue
				}
				var args []string
				// packed arguments in index order
				type packed struct {
					i int64
					v ssa.Value
				}
				var ps []packed
				if sl, ok := call.Common().Args[1].(*ssa.Slice); ok {
					if al, ok := sl.X.(*ssa.Alloc); ok && al.Referrers() != nil {
						for _, r := range *al.Referrers() {
							if ia, ok := r.(*ssa.IndexAddr); ok && ia.Referrers() != nil {
								k, _ := ia.Index.(*ssa.Const)
								for _, rr := range *ia.Referrers() {
									if st, ok := rr.(*ssa.Store); ok && k != nil {
										n, _ := int64Of(k)
										ps = append(ps, packed{n, st.Val})
									}
								}
							}
						}
					}
				}
				sort.Slice(ps, func(i, j int) bool { return ps[i].i < ps[j].i })
				for _, pk := range ps {
					v := pk.v
					if mi, ok := v.(*ssa.MakeInterface); ok {
						v = mi.X
					}
					if bv, ok := bind[v]; ok {
						v = bv
					}
					var render func(x ssa.Value, d int) string
					render = func(x ssa.Value, d int) string {
						if bv, ok := bind[x]; ok {
							x = bv
						}
						if p, ok := x.(*ssa.Parameter); ok {
							return fmt.Sprintf("$string%d", strOrdinal(p.Parent(), p))
						}
						if cl, ok := x.(*ssa.Call); ok && d < 3 {
							if cs := cl.Common().StaticCallee(); cs != nil {
								var as []string
								for _, a := range cl.Common().Args {
									as = append(as, render(a, d+1))
								}
								return cs.String() + "(" + strings.Join(as, ",") + ")"
							}
						}
						if k, ok := x.(*ssa.Const); ok {
							return k.String()
						}
						return "?"
					}
					args = append(args, render(v, 0))
				}
				return f + " | " + strings.Join(args, ", ")
			}
			if isModuleFn(sc) && fnPkgRel(sc) == fnPkgRel(fn) {
				nb := map[ssa.Value]ssa.Value{}
				for i, a := range call.Common().Args {
					if i < len(sc.Params) {
						v := a
						if bv, ok := bind[v]; ok {
							v = bv
						}
						nb[sc.Params[i]] = v
					}
				}
				if r := settingsKeyDerivation(sc, nb, depth+1); r != "" {
					return r
				}
			}
		}
	}
	return ""
}

// ssaCallAt: the SSA call instruction for an AST call expression of fi (in the declaration or one of its literals).
func (c *Ctx) ssaCallAt(fi *FuncInfo, call *ast.CallExpr) ssa.CallInstruction {
	root := c.ssaFuncOf(fi)
	if root == nil {
		return nil
	}
	var found ssa.CallInstruction
	var walk func(fn *ssa.Function)
	walk = func(fn *ssa.Function) {
		for _, b := range fn.Blocks {
			for _, ins := range b.Instrs {
				if ci, ok := ins.(ssa.CallInstruction); ok && ci.Pos() == call.Lparen {
					found = ci
				}
			}
		}
		for _, an := range fn.AnonFuncs {
			walk(an)
		}
	}
	walk(root)
	return found
}

// errFlowsOut: assuming the call failed (its error result is non-nil), every path from the call to a return of the enclosing
// function returns a value computed from that error (possibly after logging it): at tests of the error only the non-nil edge is
// followed.
func (c *Ctx) errFlowsOut(fi *FuncInfo, call *ast.CallExpr) bool {
	ci := c.ssaCallAt(fi, call)
	if ci == nil {
		return false
	}
	cv, ok := ci.(*ssa.Call)
	if !ok {
		return false
	}
	var E ssa.Value = cv
	if tup, ok := cv.Type().(*types.Tuple); ok {
		E = nil
		if cv.Referrers() != nil {
			for _, r := range *cv.Referrers() {
				if ex, ok := r.(*ssa.Extract); ok && ex.Index == tup.Len()-1 {
					E = ex
				}
			}
		}
	}
	if E == nil || !types.Identical(E.Type(), types.Universe.Lookup("error").Type()) {
		return false
	}
	fn := cv.Parent()
	isNil := func(v ssa.Value) bool { k, ok := v.(*ssa.Const); return ok && k.Value == nil }
	yields := func(r *ssa.Return) bool {
		if len(r.Results) == 0 {
			return false
		}
		last := r.Results[len(r.Results)-1]
		return dependsOnValue(last, func(x ssa.Value) bool { return x == E }, map[ssa.Value]bool{}, 0)
	}
	seen := map[*ssa.BasicBlock]bool{}
	okAll, anyRet := true, false
	var walk func(b *ssa.BasicBlock, from int)
	walk = func(b *ssa.BasicBlock, from int) {
		for i := from; i < len(b.Instrs); i++ {
			switch x := b.Instrs[i].(type) {
			case *ssa.Return:
				anyRet = true
				if !yields(x) {
					okAll = false
				}
				return
			case *ssa.If:
				if cmp, ok := x.Cond.(*ssa.BinOp); ok && (cmp.Op == token.NEQ || cmp.Op == token.EQL) && ((cmp.X == E && isNil(cmp.Y)) || (cmp.Y == E && isNil(cmp.X))) {
					next := b.Succs[0]
					if cmp.Op == token.EQL {
						next = b.Succs[1]
					}
					if !seen[next] {
						seen[next] = true
						walk(next, 0)
					}
					return
				}
			}
		}
		for _, s := range b.Succs {
			if !seen[s] {
				seen[s] = true
				walk(s, 0)
			}
		}
	}
	walk(cv.Block(), instrIndex(cv)+1)
	_ = fn
	return anyRet && okAll
}
