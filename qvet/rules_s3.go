package main

// S3 (C09): an entry whose label set was changed by an in-process stage carries the fingerprint of the new label set.

import (
	"fmt"
	"go/token"
	"sort"
	"strings"

	"golang.org/x/tools/go/ssa"
)

func isLogEntryField(fa *ssa.FieldAddr, name string) bool {
	return strings.HasSuffix(fieldKey(fa.X.Type(), fa.Field), "shared.LogEntry."+name)
}

var ruleS3 = &Rule{
	ID:    "S3",
	Floor: 3,
	Doc: "series identity follows the label set (SSA, path- and flag-sensitive): downstream in-process stages key series by LogEntry.Fingerprint. In every live function of the in-process LogQL engine that changes the labels of an entry — a store to its Labels field, a delete from or an element store into the map loaded from that field — every path from the change to a return executes a store to the Fingerprint field of the same entry. " +
		"A boolean flag that is set to true on the changing path and tested before the recomputation is followed (only the true edge is feasible); a test of anything else (e.g. the number of labels) is not. Otherwise entries with different label sets share one series, or equal label sets are reported as two",
	Run: func(c *Ctx) []Obl {
		var obls []Obl
		var kk keyer
		for _, fn := range liveModuleFuncs(c, "reader/logql/logql_transpiler_v2/internal_planner") {
			for _, b := range fn.Blocks {
				for _, ins := range b.Instrs {
					var entry ssa.Value
					what := ""
					switch x := ins.(type) {
					case *ssa.Store:
						if fa, ok := x.Addr.(*ssa.FieldAddr); ok && isLogEntryField(fa, "Labels") {
							entry, what = fa.X, "assigns Labels"
						}
					case *ssa.MapUpdate:
						if ld, ok := x.Map.(*ssa.UnOp); ok && ld.Op == token.MUL {
							if fa, ok := ld.X.(*ssa.FieldAddr); ok && isLogEntryField(fa, "Labels") {
								entry, what = fa.X, "stores into Labels"
							}
						}
					case *ssa.Call:
						if bi, ok := x.Common().Value.(*ssa.Builtin); ok && bi.Name() == "delete" && len(x.Common().Args) == 2 {
							if ld, ok := x.Common().Args[0].(*ssa.UnOp); ok && ld.Op == token.MUL {
								if fa, ok := ld.X.(*ssa.FieldAddr); ok && isLogEntryField(fa, "Labels") {
									entry, what = fa.X, "deletes from Labels"
								}
							}
						}
					}
					if entry == nil {
						continue
					}
					if al, ok := canon(entry).(*ssa.Alloc); ok && al.Parent() == fn {
						if _, spilled := isSpilledParam(al); !spilled {
							continue // a new entry being built (composite literal), not a change of an existing one
						}
					}
					key := kk.key(fmt.Sprintf("%s %s and recomputes the fingerprint", ssaName(fn), what))
					if ret := returnWithoutFingerprint(ins, entry); ret != nil {
						obls = append(obls, Obl{Key: key, Pos: c.pos(ins.Pos()), Status: Violation,
							Msg: "a path from this change of the entry's labels to the return at " + c.pos(ret.Pos()) + " does not store a new Fingerprint: the entry keeps the series identity of its old label set (series with different labels are merged downstream, or one label set is reported as two series)"})
					} else {
						obls = append(obls, Obl{Key: key, Pos: c.pos(ins.Pos()), Status: OK})
					}
				}
			}
		}
		sort.SliceStable(obls, func(i, j int) bool { return obls[i].Key < obls[j].Key })
		return obls
	},
}

// returnWithoutFingerprint: a return reachable from `from` on a path that stores no Fingerprint of the entry; boolean phis whose
// value on the path is a known constant decide the branches that test them.
func returnWithoutFingerprint(from ssa.Instruction, entry ssa.Value) ssa.Instruction {
	type state struct {
		b     *ssa.BasicBlock
		idx   int
		known map[*ssa.Phi]bool
	}
	keyOf := func(st state) string {
		var ks []string
		for p, v := range st.known {
			ks = append(ks, fmt.Sprintf("%s=%v", p.Name(), v))
		}
		sort.Strings(ks)
		return fmt.Sprintf("%d|%d|%s", st.b.Index, st.idx, strings.Join(ks, ","))
	}
	ce := canon(entry)
	seen := map[string]bool{}
	work := []state{{from.Block(), instrIndex(from) + 1, map[*ssa.Phi]bool{}}}
	for steps := 0; len(work) > 0 && steps < 20000; steps++ {
		st := work[len(work)-1]
		work = work[:len(work)-1]
		k := keyOf(st)
		if seen[k] {
			continue
		}
		seen[k] = true
		stored := false
		var cond ssa.Value
		for i := st.idx; i < len(st.b.Instrs) && !stored; i++ {
			switch x := st.b.Instrs[i].(type) {
			case *ssa.Store:
				if fa, ok := x.Addr.(*ssa.FieldAddr); ok && isLogEntryField(fa, "Fingerprint") && canon(fa.X) == ce {
					stored = true
				}
			case *ssa.Return:
				return x
			case *ssa.If:
				cond = x.Cond
			}
		}
		if stored {
			continue
		}
		for si, s := range st.b.Succs {
			// a branch on a flag whose value on this path is known
			if cond != nil && len(st.b.Succs) == 2 {
				v := cond
				neg := false
				if u, ok := v.(*ssa.UnOp); ok && u.Op == token.NOT {
					v, neg = u.X, true
				}
				if ph, ok := v.(*ssa.Phi); ok {
					if val, known := st.known[ph]; known {
						takeTrue := val != neg
						if (si == 0) != takeTrue {
							continue
						}
					}
				}
			}
			nk := map[*ssa.Phi]bool{}
			for p, v := range st.known {
				if p.Block() != s {
					nk[p] = v
				}
			}
			pi := -1
			for j, p := range s.Preds {
				if p == st.b {
					pi = j
				}
			}
			for _, ins := range s.Instrs {
				ph, ok := ins.(*ssa.Phi)
				if !ok {
					break
				}
				if pi < 0 || pi >= len(ph.Edges) {
					continue
				}
				switch e := ph.Edges[pi].(type) {
				case *ssa.Const:
					if e.Value != nil && (e.Value.ExactString() == "true" || e.Value.ExactString() == "false") {
						nk[ph] = e.Value.ExactString() == "true"
					}
				case *ssa.Phi:
					if v, ok := st.known[e]; ok {
						nk[ph] = v
					}
				}
			}
			work = append(work, state{s, 0, nk})
		}
	}
	return nil
}

func init() { register(ruleS3) }
