package main

// I1: typestate of the streaming JSON writers (C15) — abstract interpretation over go/cfg.

import (
	"fmt"
	"go/ast"
	"go/constant"
	"go/token"
	"go/types"
	"sort"
	"strings"

	"golang.org/x/tools/go/cfg"
)

type jframe struct {
	kind  byte // 'o' object, 'a' array
	phase int  // object: 0 opened, 1 after comma, 2 after key, 3 after value; array: 0 opened, 1 after comma, 3 after value
	key   string
	n     int
}

type absInt int8

const (
	aZero absInt = iota
	aPos
	aUnk
)

type jstate struct {
	stack   []jframe
	done    bool // a complete top-level value was written
	started bool
	flags   map[types.Object]absInt
	errPath bool
	pending string // key awaiting its value
	trace   []string
}

func (s *jstate) clone() *jstate {
	n := &jstate{done: s.done, started: s.started, errPath: s.errPath, pending: s.pending}
	n.stack = append([]jframe(nil), s.stack...)
	n.flags = map[types.Object]absInt{}
	for k, v := range s.flags {
		n.flags[k] = v
	}
	n.trace = append([]string(nil), s.trace...)
	return n
}

func (s *jstate) key(objs []types.Object) string {
	var b strings.Builder
	for _, f := range s.stack {
		fmt.Fprintf(&b, "%c%d%s/%d;", f.kind, f.phase, f.key, minInt(f.n, 3))
	}
	fmt.Fprintf(&b, "|%v%v%v|%s|", s.done, s.started, s.errPath, s.pending)
	for _, o := range objs {
		fmt.Fprintf(&b, "%d", s.flags[o])
	}
	return b.String()
}

func minInt(a, b int) int {
	if a < b {
		return a
	}
	return b
}

// documented shapes: array under this key → required element kind
var jShape = map[string]byte{"result": 'o', "streams": 'o', "values": 'a'}

// token application; returns a violation message or "".
func (s *jstate) beginValue(kind byte) string {
	s.started = true
	if len(s.stack) == 0 {
		if s.done {
			return "a second top-level value is written: the body is not a single JSON document"
		}
		return ""
	}
	top := &s.stack[len(s.stack)-1]
	if top.kind == 'o' {
		if top.phase != 2 {
			return "a value is written inside an object where a key (or the end of the object) is expected"
		}
		return ""
	}
	if top.phase == 3 {
		return "a value follows another array element without a separating comma"
	}
	if want, ok := jShape[top.key]; ok && want != kind {
		names := map[byte]string{'o': "an object", 'a': "an array", 's': "a scalar"}
		// under `result` a scalar result type legitimately writes scalars; what must never appear is a bare pair
		if !(want == 'o' && kind == 's') {
			return fmt.Sprintf("an element of %q is %s, the documented shape requires %s (e.g. a bare [ts, line] pair directly under result)", top.key, names[kind], names[want])
		}
	}
	return ""
}

func (s *jstate) completeValue() {
	if len(s.stack) == 0 {
		s.done = true
		return
	}
	top := &s.stack[len(s.stack)-1]
	top.phase = 3
	top.n++
}

func (s *jstate) apply(tok string, arg string) string {
	switch tok {
	case "{":
		if m := s.beginValue('o'); m != "" {
			return m
		}
		s.stack = append(s.stack, jframe{kind: 'o'})
		s.pending = ""
	case "[":
		if m := s.beginValue('a'); m != "" {
			return m
		}
		s.stack = append(s.stack, jframe{kind: 'a', key: s.pending})
		s.pending = ""
	case "KEY":
		if len(s.stack) == 0 || s.stack[len(s.stack)-1].kind != 'o' {
			return "an object field is written outside an object"
		}
		top := &s.stack[len(s.stack)-1]
		if top.phase != 0 && top.phase != 1 {
			return "an object field is written where a comma or a value is expected"
		}
		top.phase = 2
		s.pending = arg
	case ",":
		if len(s.stack) == 0 {
			return "a comma is written at top level"
		}
		top := &s.stack[len(s.stack)-1]
		if top.phase != 3 {
			return "a comma is written that does not follow a value (leading or doubled comma)"
		}
		top.phase = 1
	case "}":
		if len(s.stack) == 0 || s.stack[len(s.stack)-1].kind != 'o' {
			return "an object is closed that is not open"
		}
		top := s.stack[len(s.stack)-1]
		if top.phase == 1 || top.phase == 2 {
			return "an object is closed after a comma / after a key without value"
		}
		s.stack = s.stack[:len(s.stack)-1]
		s.completeValue()
	case "]":
		if len(s.stack) == 0 || s.stack[len(s.stack)-1].kind != 'a' {
			return "an array is closed that is not open"
		}
		top := s.stack[len(s.stack)-1]
		if top.phase == 1 {
			return "an array is closed after a trailing comma"
		}
		// element of a `values` array must be a pair
		if len(s.stack) >= 2 {
			parent := s.stack[len(s.stack)-2]
			if parent.kind == 'a' && parent.key == "values" && top.n != 2 {
				return fmt.Sprintf("an element of \"values\" has %d members, the documented shape is a [timestamp, value] pair", top.n)
			}
		}
		s.stack = s.stack[:len(s.stack)-1]
		s.completeValue()
	case "RESET":
		// the stream is reset after a complete document was handed over: the next write starts a new document (one per tick / message)
		if s.done && len(s.stack) == 0 {
			s.done, s.started = false, false
		}
	case "VALUE":
		if m := s.beginValue('s'); m != "" {
			return m
		}
		s.pending = ""
		s.completeValue()
	}
	return ""
}

// lexJSONFragment turns a literal fragment such as `{"status": "success","data": [` into tokens.
func lexJSONFragment(lit string) ([][2]string, bool) {
	var out [][2]string
	i := 0
	for i < len(lit) {
		ch := lit[i]
		switch {
		case ch == ' ' || ch == '\n' || ch == '\t' || ch == '\r':
			i++
		case ch == '{' || ch == '}' || ch == '[' || ch == ']' || ch == ',':
			out = append(out, [2]string{string(ch), ""})
			i++
		case ch == '"':
			j := i + 1
			for j < len(lit) && lit[j] != '"' {
				if lit[j] == '\\' {
					j++
				}
				j++
			}
			if j >= len(lit) {
				return nil, false
			}
			str := lit[i+1 : j]
			k := j + 1
			for k < len(lit) && (lit[k] == ' ' || lit[k] == '\n' || lit[k] == '\t') {
				k++
			}
			if k < len(lit) && lit[k] == ':' {
				out = append(out, [2]string{"KEY", str})
				i = k + 1
			} else {
				out = append(out, [2]string{"VALUE", ""})
				i = j + 1
			}
		case ch == ':':
			return nil, false
		default:
			j := i
			for j < len(lit) && !strings.ContainsRune("{}[],: \n\t\"", rune(lit[j])) {
				j++
			}
			out = append(out, [2]string{"VALUE", ""})
			i = j
		}
	}
	return out, true
}

type jsonWriterFn struct {
	fi   *FuncInfo
	body *ast.BlockStmt
	name string
}

var streamTok = map[string]string{
	"WriteObjectStart": "{", "WriteObjectEnd": "}", "WriteArrayStart": "[", "WriteArrayEnd": "]", "WriteMore": ",", "WriteObjectField": "KEY",
	"WriteString": "VALUE", "WriteInt64": "VALUE", "WriteInt": "VALUE", "WriteFloat64": "VALUE", "WriteRaw": "VALUE", "WriteVal": "VALUE", "WriteBool": "VALUE",
	"WriteNil": "VALUE", "WriteUint64": "VALUE", "WriteInt32": "VALUE", "WriteFloat32": "VALUE", "WriteEmptyObject": "VALUE", "WriteEmptyArray": "VALUE",
}

func isJsoniterStream(t types.Type) bool {
	n := namedOf(t)
	return n != nil && n.Obj().Name() == "Stream" && n.Obj().Pkg() != nil && strings.Contains(n.Obj().Pkg().Path(), "json-iterator")
}

// eventsOf: the JSON tokens a CFG node emits; unknown is set when it writes something the analysis cannot tokenise;
// inline lists module functions called with the stream / response writer whose own tokens have to be interpreted in place.
func (c *Ctx) jsonEventsOf(w *jsonWriterFn, n ast.Node, helpers map[types.Object]bool) (toks [][2]string, unknown string, errCall bool, inline []*types.Func) {
	info := w.fi.Pkg.TypesInfo
	litTokens := func(e ast.Expr) bool {
		// []byte("lit") / "lit" / T{Str: "lit"}
		e = ast.Unparen(e)
		if call, ok := e.(*ast.CallExpr); ok && len(call.Args) == 1 {
			if _, isConv := info.Types[call.Fun]; isConv && info.Types[call.Fun].IsType() {
				e = ast.Unparen(call.Args[0])
			}
		}
		if cl, ok := e.(*ast.CompositeLit); ok {
			for _, el := range cl.Elts {
				if kv, ok := el.(*ast.KeyValueExpr); ok {
					if id, ok := kv.Key.(*ast.Ident); ok && id.Name == "Str" {
						e = ast.Unparen(kv.Value)
					}
				}
			}
		}
		if lit, ok := constString(info, e); ok {
			ts, ok := lexJSONFragment(lit)
			if !ok {
				unknown = "literal fragment cannot be tokenised: " + shorten(lit, 40)
				return true
			}
			toks = append(toks, ts...)
			return true
		}
		return false
	}
	// marshalled: the expression is (a conversion of) a local that was assigned from a …Marshal… call: one complete JSON value
	marshalled := func(e ast.Expr) bool {
		found := false
		ast.Inspect(e, func(m ast.Node) bool {
			id, ok := m.(*ast.Ident)
			if !ok {
				return true
			}
			obj := info.Uses[id]
			if obj == nil {
				return true
			}
			ast.Inspect(w.fi.Decl, func(k ast.Node) bool {
				if as, ok := k.(*ast.AssignStmt); ok && len(as.Rhs) == 1 {
					for _, lh := range as.Lhs {
						if lid, ok := lh.(*ast.Ident); ok && (info.Defs[lid] == obj || info.Uses[lid] == obj) {
							if call, ok := as.Rhs[0].(*ast.CallExpr); ok {
								if o := calleeObj(info, call); o != nil && strings.Contains(o.Name(), "Marshal") {
									found = true
								}
							}
						}
					}
				}
				return true
			})
			return true
		})
		return found
	}
	isStreamBuffer := func(e ast.Expr) bool {
		found := false
		ast.Inspect(e, func(m ast.Node) bool {
			if call, ok := m.(*ast.CallExpr); ok {
				if se, ok := ast.Unparen(call.Fun).(*ast.SelectorExpr); ok && se.Sel.Name == "Buffer" {
					if tv, ok := info.Types[se.X]; ok && isJsoniterStream(tv.Type) {
						found = true
					}
				}
			}
			return true
		})
		return found
	}
	ast.Inspect(n, func(m ast.Node) bool {
		switch x := m.(type) {
		case *ast.FuncLit:
			return false
		case *ast.SendStmt:
			if litTokens(x.Value) || isStreamBuffer(x.Value) {
				return false
			}
			if marshalled(x.Value) {
				toks = append(toks, [2]string{"VALUE", ""})
			}
			// anything else relays a fragment produced (and verified) elsewhere
			return false
		case *ast.CallExpr:
			if o := calleeObj(info, x); o != nil {
				if o.Name() == "onErr" {
					errCall = true
					return false
				}
				if fn, ok := o.(*types.Func); ok && fn.Pkg() == w.fi.Pkg.Types && fn != w.fi.Pkg.TypesInfo.Defs[w.fi.Decl.Name] {
					// a method of a writer object (a struct that holds the stream / response writer): interpreted in place
					if c.isWriterMethod(fn) {
						inline = append(inline, fn)
						return false
					}
					for _, a := range x.Args {
						if tv, ok := info.Types[a]; ok && (isJsoniterStream(tv.Type) || isHTTPResponseWriter(tv.Type)) {
							inline = append(inline, fn)
							return false
						}
					}
				}
			}
			se, ok := ast.Unparen(x.Fun).(*ast.SelectorExpr)
			if !ok {
				return true
			}
			if tv, ok := info.Types[se.X]; ok && isJsoniterStream(tv.Type) {
				if t, ok := streamTok[se.Sel.Name]; ok {
					arg := ""
					if t == "KEY" && len(x.Args) == 1 {
						if s, ok := constString(info, x.Args[0]); ok {
							arg = s
						}
					}
					toks = append(toks, [2]string{t, arg})
				}
				if se.Sel.Name == "Reset" {
					toks = append(toks, [2]string{"RESET", ""})
				}
				return false
			}
			if tv, ok := info.Types[se.X]; ok && isHTTPResponseWriter(tv.Type) && se.Sel.Name == "Write" && len(x.Args) == 1 {
				if litTokens(x.Args[0]) || isStreamBuffer(x.Args[0]) {
					return false
				}
				if marshalled(x.Args[0]) {
					toks = append(toks, [2]string{"VALUE", ""})
				}
				// anything else relays a fragment produced (and verified) elsewhere
				return false
			}
		}
		return true
	})
	return
}

func (c *Ctx) evalCond(w *jsonWriterFn, e ast.Expr, s *jstate) (val int, refineObj types.Object, refineTrue, refineFalse absInt) {
	// val: 1 true, 0 false, -1 unknown
	info := w.fi.Pkg.TypesInfo
	e = ast.Unparen(e)
	switch x := e.(type) {
	case *ast.Ident:
		// a tracked boolean flag (false = 0, true = >0)
		obj := info.Uses[x]
		if v, tracked := s.flags[obj]; tracked {
			switch v {
			case aZero:
				return 0, nil, 0, 0
			case aPos:
				return 1, nil, 0, 0
			}
			return -1, obj, aPos, aZero
		}
		return -1, nil, 0, 0
	case *ast.SelectorExpr:
		// a tracked field of a writer object
		obj := info.Uses[x.Sel]
		if v, tracked := s.flags[obj]; tracked && obj != nil {
			switch v {
			case aZero:
				return 0, nil, 0, 0
			case aPos:
				return 1, nil, 0, 0
			}
			return -1, obj, aPos, aZero
		}
		return -1, nil, 0, 0
	case *ast.CallExpr:
		// a predicate of the module whose body is one `return <condition>` (e.g. a writer object's `startsSeries(fp)`): its
		// condition, read in its own context — tracked fields are the same objects there
		if fn, ok := calleeObj(info, x).(*types.Func); ok && fn.Pkg() != nil && strings.HasPrefix(fn.Pkg().Path(), modPath) {
			if hp := c.ByPath[fn.Pkg().Path()]; hp != nil {
				if hd := c.declOf(hp, fn); hd != nil && hd.Body != nil && len(hd.Body.List) == 1 {
					if r, ok := hd.Body.List[0].(*ast.ReturnStmt); ok && len(r.Results) == 1 {
						w2 := *w
						w2.fi = &FuncInfo{Pkg: hp, Decl: hd}
						return c.evalCond(&w2, r.Results[0], s)
					}
				}
			}
		}
		return -1, nil, 0, 0
	case *ast.UnaryExpr:
		if x.Op == token.NOT {
			v, obj, rt, rf := c.evalCond(w, x.X, s)
			switch v {
			case 0:
				return 1, nil, 0, 0
			case 1:
				return 0, nil, 0, 0
			}
			return -1, obj, rf, rt
		}
	case *ast.BinaryExpr:
		switch x.Op {
		case token.LOR:
			l, _, _, _ := c.evalCond(w, x.X, s)
			r, _, _, _ := c.evalCond(w, x.Y, s)
			if l == 1 || r == 1 {
				return 1, nil, 0, 0
			}
			if l == 0 && r == 0 {
				return 0, nil, 0, 0
			}
			return -1, nil, 0, 0
		case token.LAND:
			l, _, _, _ := c.evalCond(w, x.X, s)
			r, _, _, _ := c.evalCond(w, x.Y, s)
			if l == 0 || r == 0 {
				return 0, nil, 0, 0
			}
			if l == 1 && r == 1 {
				return 1, nil, 0, 0
			}
			return -1, nil, 0, 0
		case token.GTR, token.EQL, token.NEQ, token.LSS, token.GEQ, token.LEQ:
			obj := flagObjOf(info, x.X)
			if obj == nil {
				return -1, nil, 0, 0
			}
			v, tracked := s.flags[obj]
			if !tracked {
				return -1, nil, 0, 0
			}
			tv, ok := info.Types[x.Y]
			if !ok || tv.Value == nil || tv.Value.ExactString() != "0" {
				return -1, nil, 0, 0
			}
			// comparisons with 0 on a non-negative counter
			var whenZero, whenPos int
			switch x.Op {
			case token.GTR, token.NEQ:
				whenZero, whenPos = 0, 1
			case token.EQL, token.LEQ:
				whenZero, whenPos = 1, 0
			case token.GEQ:
				whenZero, whenPos = 1, 1
			case token.LSS:
				whenZero, whenPos = 0, 0
			}
			switch v {
			case aZero:
				return whenZero, nil, 0, 0
			case aPos:
				return whenPos, nil, 0, 0
			}
			if whenZero != whenPos {
				if whenPos == 1 {
					return -1, obj, aPos, aZero
				}
				return -1, obj, aZero, aPos
			}
			return whenZero, nil, 0, 0
		}
	}
	return -1, nil, 0, 0
}

// trackedCounters: local int variables that are only assigned the constants 0/1 or incremented.
func (c *Ctx) trackedCounters(w *jsonWriterFn) map[types.Object]bool {
	info := w.fi.Pkg.TypesInfo
	cand := map[types.Object]bool{}
	bad := map[types.Object]bool{}
	ast.Inspect(w.body, func(n ast.Node) bool {
		switch x := n.(type) {
		case *ast.FuncLit:
			if x.Body != w.body {
				return false
			}
		case *ast.AssignStmt:
			for i, lh := range x.Lhs {
				id, ok := lh.(*ast.Ident)
				if !ok {
					continue
				}
				obj := info.Defs[id]
				if obj == nil {
					obj = info.Uses[id]
				}
				if obj == nil {
					continue
				}
				b, ok := obj.Type().Underlying().(*types.Basic)
				if !ok || (b.Info()&types.IsInteger == 0 && b.Info()&types.IsBoolean == 0) {
					continue
				}
				if _, isVar := obj.(*types.Var); !isVar || obj.(*types.Var).IsField() {
					continue
				}
				if len(x.Rhs) != len(x.Lhs) {
					bad[obj] = true
					continue
				}
				tv, ok := info.Types[x.Rhs[i]]
				if ok && tv.Value != nil && !strings.HasPrefix(tv.Value.ExactString(), "-") && (x.Tok == token.ASSIGN || x.Tok == token.DEFINE) {
					cand[obj] = true
				} else if x.Tok == token.ADD_ASSIGN && ok && tv.Value != nil {
					cand[obj] = true
				} else {
					bad[obj] = true
				}
			}
		case *ast.IncDecStmt:
			if id, ok := x.X.(*ast.Ident); ok && x.Tok == token.INC {
				if obj := info.Uses[id]; obj != nil {
					cand[obj] = true
				}
			}
		case *ast.UnaryExpr:
			if x.Op == token.AND {
				if id, ok := x.X.(*ast.Ident); ok {
					bad[info.Uses[id]] = true
				}
			}
		}
		return true
	})
	for o := range bad {
		delete(cand, o)
	}
	return cand
}

type i1Result struct {
	violation string
	trace     []string
	pos       token.Pos
	states    int
	unknown   string
	errPaths  int
	okPaths   int
}

func (c *Ctx) runJSONTypestate(w *jsonWriterFn, helpers map[types.Object]bool) i1Result {
	init := &jstate{flags: map[types.Object]absInt{}}
	res := &i1Result{}
	exits := c.exploreJSON(w, init, helpers, res, 0)
	for _, s := range exits {
		if s.errPath {
			res.errPaths++
			continue
		}
		if s.started && !(s.done && len(s.stack) == 0) && res.violation == "" {
			res.violation = fmt.Sprintf("a normal exit leaves the document unfinished (%d containers still open)", len(s.stack))
			res.trace = s.trace
			res.pos = w.body.End()
		}
		res.okPaths++
	}
	return *res
}

// exploreJSON interprets one function body from the entry state and returns the states at its exits.
func (c *Ctx) exploreJSON(w *jsonWriterFn, entry *jstate, helpers map[types.Object]bool, res *i1Result, depth int) []*jstate {
	info := w.fi.Pkg.TypesInfo
	g := c.cfgOf(w.fi, w.body)
	counters := c.trackedCounters(w)
	fieldCtr := c.writerFieldCounters()
	var cobjs []types.Object
	for o := range counters {
		cobjs = append(cobjs, o)
	}
	for o := range fieldCtr {
		counters[o] = true
		cobjs = append(cobjs, o)
	}
	sort.Slice(cobjs, func(i, j int) bool { return cobjs[i].Pos() < cobjs[j].Pos() })
	if len(g.g.Blocks) == 0 {
		return []*jstate{entry}
	}
	// range loops with an integer index: the index is 0 on the first iteration and positive on every later one
	rangeKey := map[*cfg.Block]types.Object{} // loop head → index variable
	for _, b := range g.g.Blocks {
		if b.Kind == cfg.KindRangeLoop {
			if rs, ok := b.Stmt.(*ast.RangeStmt); ok {
				if id, ok := rs.Key.(*ast.Ident); ok && id.Name != "_" {
					if obj := info.Defs[id]; obj != nil {
						if tv, ok := info.Types[rs.X]; ok {
							switch tv.Type.Underlying().(type) {
							case *types.Slice, *types.Array:
								rangeKey[b] = obj
								if !counters[obj] {
									counters[obj] = true
									cobjs = append(cobjs, obj)
								}
							}
						}
					}
				}
			}
		}
	}
	preheader := map[*cfg.Block]*cfg.Block{}
	for head, obj := range rangeKey {
		for _, p := range g.pred[head] {
			for _, n := range p.Nodes {
				if id, ok := n.(*ast.Ident); ok && info.Defs[id] == obj {
					preheader[head] = p
				}
			}
		}
	}
	type item struct {
		b   *cfg.Block
		idx int
		s   *jstate
	}
	init := entry.clone()
	for _, o := range cobjs {
		if _, set := init.flags[o]; set && fieldCtr[o] {
			continue // state of a writer object carried in from the caller
		}
		init.flags[o] = aZero
	}
	var exits []*jstate
	exitSeen := map[string]bool{}
	seen := map[string]bool{}
	work := []item{{g.g.Blocks[0], 0, init}}
	for len(work) > 0 && res.violation == "" {
		it := work[len(work)-1]
		work = work[:len(work)-1]
		k := fmt.Sprintf("%d.%d|%s", it.b.Index, it.idx, it.s.key(cobjs))
		if seen[k] {
			continue
		}
		seen[k] = true
		res.states++
		if res.states > 300000 {
			res.unknown = "state space exceeds the analysis bound"
			return nil
		}
		s := it.s.clone()
		nodes := it.b.Nodes
		var cond ast.Expr
		if len(it.b.Succs) == 2 && len(nodes) > 0 {
			if e, ok := nodes[len(nodes)-1].(ast.Expr); ok {
				cond = e
			}
		}
		forked := false
		for ni := it.idx; ni < len(nodes); ni++ {
			n := nodes[ni]
			if cond != nil && n == ast.Node(cond) {
				break
			}
			switch x := n.(type) {
			case *ast.AssignStmt:
				for i, lh := range x.Lhs {
					if obj := flagObjOf(info, lh); obj != nil {
						if counters[obj] && i < len(x.Rhs) {
							if tv, ok := info.Types[x.Rhs[i]]; ok && tv.Value != nil {
								if tv.Value.Kind() == constant.Bool {
									if constant.BoolVal(tv.Value) {
										s.flags[obj] = aPos
									} else {
										s.flags[obj] = aZero
									}
								} else if x.Tok == token.ADD_ASSIGN {
									if tv.Value.ExactString() != "0" {
										s.flags[obj] = aPos
									}
								} else if tv.Value.ExactString() == "0" {
									s.flags[obj] = aZero
								} else {
									s.flags[obj] = aPos
								}
							}
						}
					}
				}
			case *ast.IncDecStmt:
				if obj := flagObjOf(info, x.X); obj != nil && counters[obj] {
					s.flags[obj] = aPos
				}
			case *ast.DeferStmt, *ast.GoStmt:
				continue
			case *ast.ReturnStmt:
				// returning a non-nil error terminates the document early by design (the caller answers with an error)
				if len(x.Results) > 0 {
					last := x.Results[len(x.Results)-1]
					if tv, ok := info.Types[last]; ok && !tv.IsNil() && tv.Type != nil && types.Identical(tv.Type, types.Universe.Lookup("error").Type()) {
						s.errPath = true
					}
				}
				// `v, ok := helper(…); if !ok { return }` where the helper returns false exactly after it ran the error terminator
				if c.returnAfterReportedError(w.fi, x) {
					s.errPath = true
				}
			case *ast.Ident:
				// `for i, x := range xs`: the index of a range loop starts at 0 and is positive on later iterations —
				// modelled by the loop head: first entry 0, re-entry >0 (see below)
			}
			c.resetConstructed(info, n, s)
			toks, unk, errCall, inline := c.jsonEventsOf(w, n, helpers)
			if unk != "" && res.unknown == "" {
				res.unknown = unk
			}
			if errCall {
				s.errPath = true
			}
			if s.errPath {
				continue
			}
			for _, t := range toks {
				if m := s.apply(t[0], t[1]); m != "" {
					res.violation = m
					res.trace = s.trace
					res.pos = n.Pos()
					return nil
				}
			}
			if len(inline) > 0 && depth >= 5 && res.unknown == "" {
				res.unknown = "helper nesting deeper than the inlining bound at " + c.pos(n.Pos())
			}
			if len(inline) > 0 && depth < 5 {
				cur := []*jstate{s}
				for _, fn := range inline {
					fd := c.declOf(w.fi.Pkg, fn)
					if fd == nil || fd.Body == nil {
						continue
					}
					hw := &jsonWriterFn{fi: &FuncInfo{Pkg: w.fi.Pkg, Decl: fd}, body: fd.Body, name: fn.Name()}
					var next []*jstate
					for _, st := range cur {
						sub := st.clone()
						sub.trace = append(sub.trace, "call "+fn.Name())
						outs := c.exploreJSON(hw, sub, helpers, res, depth+1)
						if res.violation != "" {
							return nil
						}
						for _, o := range outs {
							// drop the callee's counters
							ns := o.clone()
							ns.flags = map[types.Object]absInt{}
							for _, co := range cobjs {
								if fieldCtr[co] {
									ns.flags[co] = o.flags[co] // the writer object's state as the callee left it
								} else {
									ns.flags[co] = s.flags[co]
								}
							}
							next = append(next, ns)
						}
					}
					cur = next
				}
				for _, st := range cur {
					work = append(work, item{it.b, ni + 1, st})
				}
				forked = true
				break
			}
		}
		if forked {
			continue
		}
		if len(it.b.Succs) == 0 {
			ek := s.key(nil) + fmt.Sprint(s.errPath)
			if !exitSeen[ek] {
				exitSeen[ek] = true
				exits = append(exits, s)
			}
			continue
		}
		if cond != nil {
			v, robj, rt, rf := c.evalCond(w, cond, s)
			ct := c.normText(cond)
			push := func(b *cfg.Block, truth bool, ref absInt) {
				ns := s.clone()
				if robj != nil {
					ns.flags[robj] = ref
				}
				tag := "¬(" + ct + ")"
				if truth {
					tag = ct
				}
				ns.trace = append(ns.trace, tag)
				if len(ns.trace) > 14 {
					ns.trace = ns.trace[len(ns.trace)-14:]
				}
				work = append(work, item{b, 0, ns})
			}
			if v != 0 {
				push(it.b.Succs[0], true, rt)
			}
			if v != 1 {
				push(it.b.Succs[1], false, rf)
			}
			continue
		}
		for _, sb := range it.b.Succs {
			ns := s.clone()
			if obj, ok := rangeKey[sb]; ok {
				if preheader[sb] == it.b {
					ns.flags[obj] = aZero
				} else {
					ns.flags[obj] = aPos
				}
			}
			work = append(work, item{sb, 0, ns})
		}
	}
	return exits
}

// jsonWriters: function bodies (declarations and go-closures) in reader/service and reader/controller that call jsoniter.Stream writers.
func (c *Ctx) jsonWriters() []*jsonWriterFn {
	var out []*jsonWriterFn
	for _, fi := range c.Funcs(c.PkgsUnder("reader/service", "reader/controller")) {
		if isTestFile(c, fi.Decl) {
			continue
		}
		info := fi.Pkg.TypesInfo
		usesStream := func(body *ast.BlockStmt) bool {
			hit := false
			ast.Inspect(body, func(n ast.Node) bool {
				if fl, ok := n.(*ast.FuncLit); ok && fl.Body != body {
					return false
				}
				if call, ok := n.(*ast.CallExpr); ok {
					if se, ok := ast.Unparen(call.Fun).(*ast.SelectorExpr); ok {
						if tv, ok := info.Types[se.X]; ok && isJsoniterStream(tv.Type) {
							if _, isTok := streamTok[se.Sel.Name]; isTok {
								hit = true
							}
						}
					}
					if fn, ok := calleeObj(info, call).(*types.Func); ok && c.isWriterMethod(fn) && c.writerHoldsStream(fn) {
						hit = true
					}
				}
				return true
			})
			return hit
		}
		if usesStream(fi.Decl.Body) {
			out = append(out, &jsonWriterFn{fi, fi.Decl.Body, fi.Name()})
		}
		n := 0
		ast.Inspect(fi.Decl.Body, func(nd ast.Node) bool {
			if fl, ok := nd.(*ast.FuncLit); ok {
				n++
				if usesStream(fl.Body) {
					out = append(out, &jsonWriterFn{fi, fl.Body, fmt.Sprintf("%s$closure%d", fi.Name(), n)})
				}
			}
			return true
		})
	}
	return out
}

var ruleI1 = &Rule{
	ID:    "I1",
	Floor: 5,
	Doc: "JSON writer typestate: every function body in reader/service and reader/controller that emits a document through jsoniter.Stream (WriteObjectStart/End, WriteArrayStart/End, WriteObjectField, WriteMore, value writers) is interpreted over its control-flow graph with the abstract state " +
		"(bracket stack with per-level phase and enclosing key) × (valuation in {0, >0} of the local counters the encoder branches on); comparisons of data (fingerprints, errors) are non-deterministic. On every path that does not go through the error terminator (onErr) the emitted token sequence must be a prefix-closed word of the JSON grammar, " +
		"end as one complete document, and respect the documented nesting: elements of `result` / `streams` are objects, elements of `values` are two-element arrays. Helper writers are summarised as one value once they are themselves verified",
	Run: func(c *Ctx) []Obl {
		ws := c.jsonWriters()
		// helper summary: functions taking a *jsoniter.Stream that verify as exactly one value
		helpers := map[types.Object]bool{}
		var obls []Obl
		results := map[*jsonWriterFn]i1Result{}
		for pass := 0; pass < 2; pass++ {
			for _, w := range ws {
				if w.body != w.fi.Decl.Body {
					continue
				}
				takesStream := false
				for _, f := range w.fi.Decl.Type.Params.List {
					if tv, ok := w.fi.Pkg.TypesInfo.Types[f.Type]; ok && isJsoniterStream(tv.Type) {
						takesStream = true
					}
				}
				if !takesStream {
					continue
				}
				r := c.runJSONTypestate(w, helpers)
				results[w] = r
				if r.violation == "" && r.unknown == "" {
					helpers[w.fi.Pkg.TypesInfo.Defs[w.fi.Decl.Name]] = true
				}
			}
		}
		// fragment writers (functions that receive the response writer / stream from another writer and are interpreted in place there)
		fragment := map[types.Object]bool{}
		for _, w := range ws {
			for _, b := range c.cfgOf(w.fi, w.body).g.Blocks {
				for _, n := range b.Nodes {
					_, _, _, inl := c.jsonEventsOf(w, n, helpers)
					for _, f := range inl {
						fragment[f] = true
					}
				}
			}
		}
		for _, w := range ws {
			r, ok := results[w]
			if !ok {
				r = c.runJSONTypestate(w, helpers)
			}
			if w.body == w.fi.Decl.Body && fragment[w.fi.Pkg.TypesInfo.Defs[w.fi.Decl.Name]] && r.violation != "" {
				obls = append(obls, Obl{Key: w.name + " fragment writer", Pos: c.pos(w.body.Pos()), Status: Info, Msg: "emits a document fragment; interpreted in place inside its callers"})
				continue
			}
			key := w.name + " emits one well-formed document of the documented shape on every normal path"
			switch {
			case r.violation != "":
				obls = append(obls, Obl{Key: key, Pos: c.pos(r.pos), Status: Violation, Msg: r.violation + "; decisions along the path: " + strings.Join(r.trace, " → "), Path: r.trace})
			case r.unknown != "":
				obls = append(obls, Obl{Key: key, Pos: c.pos(w.body.Pos()), Status: Undecided, Msg: r.unknown})
			default:
				obls = append(obls, Obl{Key: key, Pos: c.pos(w.body.Pos()), Status: OK, Msg: fmt.Sprintf("%d abstract states, %d normal exits, %d error exits (not covered)", r.states, r.okPaths, r.errPaths)})
			}
		}
		return obls
	},
}

// ---- writer objects: a struct of reader/service or reader/controller that holds the stream (or the response writer) and keeps the
// comma / bracket state in its fields; its methods are interpreted in place and its constant-assigned fields are tracked like locals.

type writerInfo struct {
	types  map[*types.TypeName]bool
	stream map[*types.TypeName]bool // holds a jsoniter stream (not only a response writer)
	fields map[types.Object]bool    // bool / integer fields only ever assigned non-negative constants or incremented
	owner  map[types.Object]*types.TypeName
}

func (c *Ctx) writerInfo() *writerInfo {
	if v, ok := c.memo["writerInfo"]; ok {
		return v.(*writerInfo)
	}
	wi := &writerInfo{types: map[*types.TypeName]bool{}, stream: map[*types.TypeName]bool{}, fields: map[types.Object]bool{}, owner: map[types.Object]*types.TypeName{}}
	c.memo["writerInfo"] = wi
	pkgs := c.PkgsUnder("reader/service", "reader/controller")
	for _, p := range pkgs {
		sc := p.Types.Scope()
		for _, nm := range sc.Names() {
			tn, ok := sc.Lookup(nm).(*types.TypeName)
			if !ok {
				continue
			}
			st, ok := tn.Type().Underlying().(*types.Struct)
			if !ok {
				continue
			}
			for i := 0; i < st.NumFields(); i++ {
				ft := st.Field(i).Type()
				if isJsoniterStream(ft) {
					wi.types[tn] = true
					wi.stream[tn] = true
				} else if isHTTPResponseWriter(ft) {
					wi.types[tn] = true
				}
			}
			if !wi.types[tn] {
				continue
			}
			for i := 0; i < st.NumFields(); i++ {
				f := st.Field(i)
				if b, ok := f.Type().Underlying().(*types.Basic); ok && (b.Info()&types.IsInteger != 0 || b.Info()&types.IsBoolean != 0) {
					wi.fields[f] = true
					wi.owner[f] = tn
				}
			}
		}
	}
	bad := map[types.Object]bool{}
	for _, p := range pkgs {
		info := p.TypesInfo
		for _, f := range p.Syntax {
			ast.Inspect(f, func(n ast.Node) bool {
				switch x := n.(type) {
				case *ast.AssignStmt:
					for i, lh := range x.Lhs {
						se, ok := ast.Unparen(lh).(*ast.SelectorExpr)
						if !ok {
							continue
						}
						obj := info.Uses[se.Sel]
						if !wi.fields[obj] {
							continue
						}
						if len(x.Rhs) != len(x.Lhs) {
							bad[obj] = true
							continue
						}
						tv, ok := info.Types[x.Rhs[i]]
						okConst := ok && tv.Value != nil && !strings.HasPrefix(tv.Value.ExactString(), "-")
						if !(okConst && (x.Tok == token.ASSIGN || x.Tok == token.ADD_ASSIGN)) {
							bad[obj] = true
						}
					}
				case *ast.IncDecStmt:
					if se, ok := ast.Unparen(x.X).(*ast.SelectorExpr); ok && wi.fields[info.Uses[se.Sel]] && x.Tok != token.INC {
						bad[info.Uses[se.Sel]] = true
					}
				case *ast.UnaryExpr:
					if x.Op == token.AND {
						if se, ok := ast.Unparen(x.X).(*ast.SelectorExpr); ok && wi.fields[info.Uses[se.Sel]] {
							bad[info.Uses[se.Sel]] = true
						}
					}
				case *ast.CompositeLit:
					tv, ok := info.Types[x]
					if !ok {
						return true
					}
					nt := namedOf(tv.Type)
					if nt == nil || !wi.types[nt.Obj()] {
						return true
					}
					st := nt.Underlying().(*types.Struct)
					for i, el := range x.Elts {
						kv, ok := el.(*ast.KeyValueExpr)
						if !ok {
							if i < st.NumFields() && wi.fields[st.Field(i)] {
								bad[st.Field(i)] = true
							}
							continue
						}
						if id, ok := kv.Key.(*ast.Ident); ok {
							if obj := info.Uses[id]; wi.fields[obj] {
								if vtv, ok := info.Types[kv.Value]; !ok || vtv.Value == nil || strings.HasPrefix(vtv.Value.ExactString(), "-") {
									bad[obj] = true
								}
							}
						}
					}
				}
				return true
			})
		}
	}
	for o := range bad {
		delete(wi.fields, o)
	}
	return wi
}

func (c *Ctx) writerFieldCounters() map[types.Object]bool { return c.writerInfo().fields }

func recvTypeNameOf(fn *types.Func) *types.TypeName {
	sig, ok := fn.Type().(*types.Signature)
	if !ok || sig.Recv() == nil {
		return nil
	}
	if nt := namedOf(sig.Recv().Type()); nt != nil {
		return nt.Obj()
	}
	return nil
}

func (c *Ctx) isWriterMethod(fn *types.Func) bool {
	tn := recvTypeNameOf(fn)
	return tn != nil && c.writerInfo().types[tn]
}

func (c *Ctx) writerHoldsStream(fn *types.Func) bool {
	tn := recvTypeNameOf(fn)
	return tn != nil && c.writerInfo().stream[tn]
}

// flagObjOf: the variable or writer-object field an expression names.
func flagObjOf(info *types.Info, e ast.Expr) types.Object {
	switch x := ast.Unparen(e).(type) {
	case *ast.Ident:
		if o := info.Defs[x]; o != nil {
			return o
		}
		return info.Uses[x]
	case *ast.SelectorExpr:
		if v, ok := info.Uses[x.Sel].(*types.Var); ok && v.IsField() {
			return v
		}
	}
	return nil
}

// resetConstructed: a node that constructs a writer object (a composite literal, or a call of a function returning one) starts
// that object's tracked fields at their zero value (or the constant given in the literal).
func (c *Ctx) resetConstructed(info *types.Info, n ast.Node, s *jstate) {
	wi := c.writerInfo()
	if len(wi.types) == 0 {
		return
	}
	reset := func(tn *types.TypeName, lit *ast.CompositeLit) {
		for f := range wi.fields {
			if wi.owner[f] == tn {
				s.flags[f] = aZero
			}
		}
		if lit != nil {
			for _, el := range lit.Elts {
				if kv, ok := el.(*ast.KeyValueExpr); ok {
					if id, ok := kv.Key.(*ast.Ident); ok && wi.fields[info.Uses[id]] {
						if tv, ok := info.Types[kv.Value]; ok && tv.Value != nil {
							if es := tv.Value.ExactString(); es != "0" && es != "false" {
								s.flags[info.Uses[id]] = aPos
							}
						}
					}
				}
			}
		}
	}
	ast.Inspect(n, func(m ast.Node) bool {
		switch x := m.(type) {
		case *ast.FuncLit:
			return false
		case *ast.CompositeLit:
			if tv, ok := info.Types[x]; ok {
				if nt := namedOf(tv.Type); nt != nil && wi.types[nt.Obj()] {
					reset(nt.Obj(), x)
				}
			}
		case *ast.CallExpr:
			if fn, ok := calleeObj(info, x).(*types.Func); ok && recvTypeNameOf(fn) == nil {
				if tv, ok := info.Types[x]; ok {
					if nt := namedOf(tv.Type); nt != nil && wi.types[nt.Obj()] {
						reset(nt.Obj(), nil)
					}
				}
			}
		}
		return true
	})
}

func init() { register(ruleI1) }

// returnAfterReportedError: ret is a statement of the body of `if !ok { … }`, ok being the i-th result of a call to a function of
// the same package in which every `return …, false` directly follows a call of the error terminator (onErr) and every other
// return yields the constant true at that position.
func (c *Ctx) returnAfterReportedError(fi *FuncInfo, ret *ast.ReturnStmt) bool {
	info := fi.Pkg.TypesInfo
	var guard *ast.IfStmt
	ast.Inspect(fi.Decl.Body, func(n ast.Node) bool {
		if is, ok := n.(*ast.IfStmt); ok {
			for _, st := range is.Body.List {
				if st == ast.Stmt(ret) {
					guard = is
				}
			}
		}
		return true
	})
	if guard == nil {
		return false
	}
	ue, ok := ast.Unparen(guard.Cond).(*ast.UnaryExpr)
	if !ok || ue.Op != token.NOT {
		return false
	}
	id, ok := ast.Unparen(ue.X).(*ast.Ident)
	if !ok {
		return false
	}
	obj := info.ObjectOf(id)
	var helper *types.Func
	idx := -1
	ast.Inspect(fi.Decl.Body, func(n ast.Node) bool {
		as, ok := n.(*ast.AssignStmt)
		if !ok || len(as.Rhs) != 1 {
			return true
		}
		call, ok := ast.Unparen(as.Rhs[0]).(*ast.CallExpr)
		if !ok {
			return true
		}
		for i, lh := range as.Lhs {
			if l, ok := lh.(*ast.Ident); ok && info.ObjectOf(l) == obj {
				if hf, ok := calleeObj(info, call).(*types.Func); ok && hf.Pkg() == fi.Pkg.Types {
					helper, idx = hf, i
				}
			}
		}
		return true
	})
	if helper == nil {
		return false
	}
	hd := c.declOf(fi.Pkg, helper)
	if hd == nil || hd.Body == nil {
		return false
	}
	okAll, nFalse := true, 0
	var visit func(list []ast.Stmt)
	check := func(list []ast.Stmt, i int, r *ast.ReturnStmt) {
		if idx >= len(r.Results) {
			okAll = false
			return
		}
		rid, isID := ast.Unparen(r.Results[idx]).(*ast.Ident)
		switch {
		case isID && rid.Name == "true":
		case isID && rid.Name == "false":
			nFalse++
			reported := false
			if i > 0 {
				if es, ok := list[i-1].(*ast.ExprStmt); ok {
					if call, ok := es.X.(*ast.CallExpr); ok {
						if o := calleeObj(fi.Pkg.TypesInfo, call); o != nil && o.Name() == "onErr" {
							reported = true
						}
					}
				}
			}
			if !reported {
				okAll = false
			}
		default:
			okAll = false
		}
	}
	visit = func(list []ast.Stmt) {
		for i, st := range list {
			if r, ok := st.(*ast.ReturnStmt); ok {
				check(list, i, r)
			}
		}
	}
	ast.Inspect(hd.Body, func(n ast.Node) bool {
		switch x := n.(type) {
		case *ast.FuncLit:
			return false
		case *ast.BlockStmt:
			visit(x.List)
		case *ast.CaseClause:
			visit(x.Body)
		case *ast.CommClause:
			visit(x.Body)
		}
		return true
	})
	return okAll && nFalse > 0
}
