package main

// qvet — repository-specific static checker for metrico/qryn.
//
//   qvet check -property C07      decide the static clauses claimed for C07 on /repo's
//                                 current working tree; writes evidence/C07.json
//   qvet explain <replay.json>    re-analyse the rule instance named in a replay file
//   qvet list                     print the property → rule table
//
// Environment: VERIF_TIER (quick|thorough), VERIF_SEED, QVET_REPO (default /repo),
// QVET_VERIF (default: directory above the binary's directory, else /verif).

import (
	"encoding/json"
	"flag"
	"fmt"
	"os"
	"path/filepath"
	"runtime/debug"
	"sort"
	"strconv"
	"strings"
	"time"
)

func verifDir() string {
	if d := os.Getenv("QVET_VERIF"); d != "" {
		return d
	}
	if wd, err := os.Getwd(); err == nil {
		if _, err := os.Stat(filepath.Join(wd, "properties.jsonl")); err == nil {
			return wd
		}
	}
	return "/verif"
}

func repoDir() string {
	if d := os.Getenv("QVET_REPO"); d != "" {
		return d
	}
	return "/repo"
}

func main() {
	if len(os.Args) < 2 {
		fmt.Fprintln(os.Stderr, "usage: qvet check -property Cxx | explain <replay> | list | selftest")
		os.Exit(2)
	}
	switch os.Args[1] {
	case "check":
		fs := flag.NewFlagSet("check", flag.ExitOnError)
		prop := fs.String("property", "", "property id")
		fs.Parse(os.Args[2:])
		os.Exit(cmdCheck(*prop))
	case "verdicts":
		// qvet verdicts — one load, every rule once, the verdict per property (no evidence written): what tools/*_rerun.sh use
		os.Exit(cmdVerdicts())
	case "explain":
		if len(os.Args) < 3 {
			fmt.Fprintln(os.Stderr, "usage: qvet explain <replay.json>")
			os.Exit(2)
		}
		os.Exit(cmdExplain(os.Args[2]))
	case "list":
		ids := []string{}
		for id := range properties {
			ids = append(ids, id)
		}
		sort.Strings(ids)
		for _, id := range ids {
			p := properties[id]
			fmt.Printf("%s rules=%s\n", id, strings.Join(p.Rules, ","))
		}
	case "rule":
		// qvet rule D2 — run one rule and dump its obligations (debugging aid)
		if len(os.Args) < 3 {
			os.Exit(2)
		}
		c := NewCtx(repoDir())
		c.Tags = os.Getenv("QVET_TAGS")
		for _, id := range os.Args[2:] {
			r := ruleByID(id)
			if r == nil {
				fmt.Println("no such rule", id)
				os.Exit(2)
			}
			obls := runRule(c, r)
			sortObls(obls)
			for _, o := range obls {
				fmt.Printf("%-9s %-4s %s  [%s] %s\n", o.Status, o.Rule, o.Key, o.Pos, o.Msg)
				for _, p := range o.Path {
					fmt.Printf("             via %s\n", p)
				}
			}
			fmt.Printf("-- %s: %d instances (floor %d)\n", id, countObl(obls), r.Floor)
		}
		if len(c.LoadErr) > 0 {
			fmt.Println("LOAD ERRORS:", c.LoadErr)
		}
	case "dump-selects":
		c := NewCtx(repoDir())
		c.Load()
		c.dumpSelects()
	case "dead":
		c := NewCtx(repoDir())
		g := c.CG()
		n := 0
		for _, fn := range sortedFuncs(g.funcs) {
			if fn.Pkg != nil && strings.HasPrefix(fn.Pkg.Pkg.Path(), modPath) && !g.live[fn] && fn.Synthetic == "" {
				fmt.Println(ssaName(fn))
				n++
			}
		}
		fmt.Println("dead:", n, c.cgStats())
	case "cfg":
		c := NewCtx(repoDir())
		c.Load()
		p, fd := c.FuncDecl(os.Args[2], os.Args[3])
		if fd == nil {
			fmt.Println("not found")
			os.Exit(1)
		}
		g := c.cfgOf(&FuncInfo{Pkg: p, Decl: fd}, fd.Body)
		fmt.Println(g.g.Format(c.Fset))
	case "dump-panics":
		c := NewCtx(repoDir())
		c.dumpPanicSources()
	case "callees":
		// qvet callees <pkgrel> <func> : print VTA/hybrid callees per call site
		c := NewCtx(repoDir())
		g := c.CG()
		fn := c.SSAFunc(os.Args[2], os.Args[3])
		if fn == nil {
			fmt.Println("not found")
			os.Exit(1)
		}
		for _, e := range g.vtaOut[fn] {
			fmt.Printf("%s -> %s (%s)\n", c.pos(e.Site.Pos()), ssaName(e.Callee), e.Kind)
		}
	case "manifest":
		os.Exit(cmdManifest())
	case "selftest":
		os.Exit(cmdSelftest(os.Args[2:]))
	default:
		fmt.Fprintln(os.Stderr, "unknown command", os.Args[1])
		os.Exit(2)
	}
}

func countObl(obls []Obl) int {
	n := 0
	for _, o := range obls {
		if o.Status != Info {
			n++
		}
	}
	return n
}

// runRule runs a rule, converting analysis panics and floor shortfalls into undecided obligations.
func runRule(c *Ctx, r *Rule) (obls []Obl) {
	defer func() {
		if e := recover(); e != nil {
			obls = append(obls, Obl{Rule: r.ID, Key: "analysis-panic", Pos: "-", Status: Undecided,
				Msg: fmt.Sprintf("analysis panicked: %v\n%s", e, firstLines(string(debug.Stack()), 14))})
		}
	}()
	obls = r.Run(c)
	for i := range obls {
		if obls[i].Rule == "" {
			obls[i].Rule = r.ID
		}
	}
	hasViolation := false
	for _, o := range obls {
		if o.Status == Violation {
			hasViolation = true
		}
	}
	// the floor guards against passing vacuously; a rule that already reports a violation needs no second alarm
	if n := countObl(obls); n < r.Floor && !hasViolation {
		obls = append(obls, Obl{Rule: r.ID, Key: "instance-floor", Pos: "-", Status: Undecided,
			Msg: fmt.Sprintf("rule matched %d instances, fewer than the %d confirmed by hand on the pinned tree: the anchors were renamed or an idiom is no longer recognised; the rule cannot vouch for the property", n, r.Floor)})
	}
	return obls
}

func firstLines(s string, n int) string {
	l := strings.Split(s, "\n")
	if len(l) > n {
		l = l[:n]
	}
	return strings.Join(l, "\n")
}

type Replay struct {
	Property string   `json:"property"`
	Rule     string   `json:"rule"`
	RuleText string   `json:"rule_text"`
	Key      string   `json:"construct"`
	Pos      string   `json:"pos"`
	Kind     string   `json:"kind"` // violation | undecided
	Msg      string   `json:"msg"`
	Path     []string `json:"path,omitempty"`
	Cmd      string   `json:"explain_cmd"`
}

func cmdCheck(prop string) int {
	t0 := time.Now()
	p, ok := properties[prop]
	if !ok {
		fmt.Fprintf(os.Stderr, "qvet: property %q is not claimed (see MANIFEST.json not_applicable)\n", prop)
		return 2
	}
	tier := os.Getenv("VERIF_TIER")
	if tier != "thorough" {
		tier = "quick"
	}
	seed, _ := strconv.Atoi(os.Getenv("VERIF_SEED"))
	vdir := verifDir()
	evPath := filepath.Join(vdir, "evidence", prop+".json")
	os.Remove(evPath)
	// stale replay files of this property
	if m, _ := filepath.Glob(filepath.Join(vdir, "evidence", "replay", prop+"-*.json")); m != nil {
		for _, f := range m {
			os.Remove(f)
		}
	}

	c := NewCtx(repoDir())
	c.Load()
	var all []Obl
	for _, e := range c.LoadErr {
		all = append(all, Obl{Rule: "LOAD", Key: "load " + firstLines(e, 1), Pos: "-", Status: Undecided, Msg: e})
	}
	ruleDocs := map[string]string{}
	perRule := map[string]map[string]int{}
	if len(c.LoadErr) == 0 {
		for _, id := range p.Rules {
			r := ruleByID(id)
			if r == nil {
				all = append(all, Obl{Rule: id, Key: "missing-rule", Pos: "-", Status: Undecided, Msg: "rule not implemented"})
				continue
			}
			ruleDocs[id] = r.Doc
			obls := runRule(c, r)
			if p.Filter != nil {
				obls = p.Filter(id, obls)
			}
			all = append(all, obls...)
		}
	}
	var selftest map[string]interface{}
	if tier == "thorough" && len(c.LoadErr) == 0 {
		selftest = runSelftests(p, prop, all)
	}
	sortObls(all)

	known, kerr := loadKnown(vdir)
	if kerr != nil {
		all = append(all, Obl{Rule: "LOAD", Key: "known_findings.json", Pos: "-", Status: Undecided, Msg: kerr.Error()})
	}
	isKnown := func(o Obl) *KnownFinding {
		for i := range known {
			k := &known[i]
			if k.Status == "known" && k.Property == prop && k.Rule == o.Rule && k.Key == o.Key {
				return k
			}
		}
		return nil
	}

	nObl, nDis, nViol, nKnown, nExc := 0, 0, 0, 0, 0
	var samples []interface{}
	var out []string
	replayN := 0
	for _, o := range all {
		if o.Status == Info {
			continue
		}
		nObl++
		if _, ok := perRule[o.Rule]; !ok {
			perRule[o.Rule] = map[string]int{}
		}
		perRule[o.Rule][o.Status]++
		switch o.Status {
		case OK:
			nDis++
		case Exception:
			nDis++
			nExc++
		case Violation, Undecided:
			if o.Status == Violation {
				if k := isKnown(o); k != nil {
					nKnown++
					out = append(out, fmt.Sprintf("KNOWN-FINDING: property=%s %s %s — %s", prop, o.Rule, o.Key, k.What))
					o.Status = "known-finding"
					break
				}
			}
			nViol++
			replayN++
			rp := filepath.Join(vdir, "evidence", "replay", fmt.Sprintf("%s-%d.json", prop, replayN))
			writeJSON(rp, Replay{Property: prop, Rule: o.Rule, RuleText: ruleDocs[o.Rule], Key: o.Key, Pos: o.Pos,
				Kind: o.Status, Msg: o.Msg, Path: o.Path, Cmd: "./bin/qvet explain " + rp})
			out = append(out, fmt.Sprintf("%s %s %s [%s]: %s", strings.ToUpper(o.Status), o.Rule, o.Key, o.Pos, firstLines(o.Msg, 3)))
			out = append(out, fmt.Sprintf("VIOLATION property=%s replay=%s", prop, rp))
		}
		if len(samples) < 400 {
			samples = append(samples, o)
		}
	}
	var infos []Obl
	for _, o := range all {
		if o.Status == Info {
			infos = append(infos, o)
		}
	}

	ruleList := []map[string]interface{}{}
	for _, id := range p.Rules {
		r := ruleByID(id)
		m := map[string]interface{}{"id": id, "counts": perRule[id]}
		if r != nil {
			m["text"] = r.Doc
			m["floor"] = r.Floor
		}
		ruleList = append(ruleList, m)
	}
	npk, nfn := 0, 0
	if c.Pkgs != nil {
		npk = len(c.Pkgs)
	}
	if c.prog != nil {
		nfn = c.countFuncs()
	}
	cov := map[string]interface{}{
		"explanation":  p.Explanation,
		"not_covered":  p.NotCovered,
		"obligations":  nObl,
		"discharged":   nDis,
		"exceptions":   nExc,
		"known":        nKnown,
		"exhaustive":   true,
		"samples":      samples,
		"rules":        ruleList,
		"checker_cmd":  fmt.Sprintf("VERIF_TIER=%s ./bin/qvet check -property %s", tier, prop),
		"trusted_base": []string{"go/types + golang.org/x/tools v0.29.0 (go/packages, go/ssa, go/cfg)", "qvet rule tables (printed under coverage.rules)", "semantics of the third-party libraries named in assumptions"},
		"analysed": map[string]interface{}{
			"repo": c.RepoDir, "packages_type_checked": npk, "ssa_functions": nfn,
			"skipped_packages": brokenAllow, "load_s": c.loadSecs,
			"call_graph": c.cgStats(),
		},
	}
	if len(infos) > 0 {
		cov["informational"] = infos
	}
	if selftest != nil {
		cov["selftest_mutants"] = selftest
	}
	ev := Evidence{PropertyID: prop, Tier: tier, Seed: seed, Level: "other", Coverage: cov,
		Assumptions: p.Assumptions, WallS: time.Since(t0).Seconds(), Violations: nViol}
	if err := writeJSON(evPath, ev); err != nil {
		fmt.Fprintln(os.Stderr, "qvet: cannot write evidence:", err)
		return 2
	}
	for _, l := range out {
		fmt.Println(l)
	}
	fmt.Printf("qvet %s tier=%s rules=%s obligations=%d discharged=%d known=%d violations=%d wall=%.1fs\n",
		prop, tier, strings.Join(p.Rules, ","), nObl, nDis, nKnown, nViol, time.Since(t0).Seconds())
	if nViol > 0 {
		return 1
	}
	return 0
}

func cmdExplain(path string) int {
	b, err := os.ReadFile(path)
	if err != nil {
		fmt.Fprintln(os.Stderr, err)
		return 2
	}
	var rp Replay
	if err := json.Unmarshal(b, &rp); err != nil {
		fmt.Fprintln(os.Stderr, err)
		return 2
	}
	fmt.Printf("property %s rule %s\n  %s\nconstruct: %s\nrecorded at: %s (%s)\n  %s\n", rp.Property, rp.Rule, rp.RuleText, rp.Key, rp.Pos, rp.Kind, rp.Msg)
	r := ruleByID(rp.Rule)
	if r == nil {
		fmt.Println("rule no longer exists (load failure or engine-level record); nothing to re-analyse")
		return 1
	}
	c := NewCtx(repoDir())
	obls := runRule(c, r)
	found := false
	for _, o := range obls {
		if o.Key == rp.Key {
			found = true
			fmt.Printf("on the current tree: %s at %s\n  %s\n", o.Status, o.Pos, o.Msg)
			for _, p := range o.Path {
				fmt.Println("    via", p)
			}
			if o.Status == Violation || o.Status == Undecided {
				return 1
			}
		}
	}
	if !found {
		fmt.Println("on the current tree: the construct is no longer reported by this rule")
	}
	return 0
}

// cmdVerdicts: the verdict of every property's quick check from one load of the tree; prints `<prop> ok` or `<prop> ALARM` with the
// offending obligations. Nothing is written.
func cmdVerdicts() int {
	c := NewCtx(repoDir())
	c.Load()
	if len(c.LoadErr) > 0 {
		fmt.Println("LOAD ERRORS:", c.LoadErr)
		return 1
	}
	known, _ := loadKnown(verifDir())
	cache := map[string][]Obl{}
	ids := []string{}
	for id := range properties {
		ids = append(ids, id)
	}
	sort.Strings(ids)
	rc := 0
	for _, prop := range ids {
		p := properties[prop]
		var bad []Obl
		for _, id := range p.Rules {
			r := ruleByID(id)
			if r == nil {
				continue
			}
			obls, ok := cache[id]
			if !ok {
				obls = runRule(c, r)
				cache[id] = obls
			}
			if p.Filter != nil {
				obls = p.Filter(id, append([]Obl{}, obls...))
			}
			for _, o := range obls {
				if o.Status != Violation && o.Status != Undecided {
					continue
				}
				isK := false
				for i := range known {
					k := &known[i]
					if o.Status == Violation && k.Status == "known" && k.Property == prop && k.Rule == o.Rule && k.Key == o.Key {
						isK = true
					}
				}
				if !isK {
					bad = append(bad, o)
				}
			}
		}
		if len(bad) == 0 {
			fmt.Printf("%s ok\n", prop)
			continue
		}
		rc = 1
		fmt.Printf("%s ALARM\n", prop)
		sortObls(bad)
		for _, o := range bad {
			fmt.Printf("   [%s] %-9s %-4s %s  [%s] %s\n", prop, o.Status, o.Rule, o.Key, o.Pos, firstLines(o.Msg, 1))
		}
	}
	return rc
}
